(** Proofs about the model of the initial steady-state search (Steady.v), property C15. *)
From Coq Require Import List String Bool Reals Lra Lia PrimFloat.
From SFC.Base Require Import Res Str.
From SFC.Hist Require Import Steady.
Import ListNotations.

(* ------------------------------------------------------------------ *)
(** * The acceptance test over the reals *)

Local Open Scope R_scope.

Definition Rltb (a b : R) : bool := if Rlt_dec a b then true else false.
Definition nearR : R := 1 / 10000.

Definition acceptR : R -> R -> R -> bool := accept_gen R Rabs Rminus Rdiv Rltb nearR.
Definition accept_origR : R -> R -> R -> bool := accept_orig_gen R Rabs Rminus Rdiv Rltb nearR.

Lemma Rltb_true a b : Rltb a b = true <-> a < b.
Proof. unfold Rltb. destruct (Rlt_dec a b); split; intros; auto; discriminate. Qed.

Lemma Rltb_false a b : Rltb a b = false <-> b <= a.
Proof. unfold Rltb. destruct (Rlt_dec a b); split; intros; try discriminate; auto; lra. Qed.

Lemma div_le_iff a b t : 0 < b -> (a / b <= t <-> a <= t * b).
Proof.
  intros Hb. unfold Rdiv. split; intros H.
  - apply (Rmult_le_compat_r b) in H; [|lra].
    rewrite Rmult_assoc, Rinv_l in H by lra. lra.
  - apply (Rmult_le_compat_r (/ b)) in H; [|left; now apply Rinv_0_lt_compat].
    rewrite (Rmult_assoc t), Rinv_r in H by lra. lra.
Qed.

(** What "accepted" means, for every sign of [lastv] and [prev]. *)
Definition steady_enough (tol lastv prev : R) : Prop :=
  Rabs (lastv - prev) <= tol
  \/ (nearR <= Rabs lastv /\ Rabs (lastv - prev) <= tol * Rabs lastv)
  \/ (Rabs lastv < nearR /\ Rabs prev < nearR).

Theorem acceptR_iff tol lastv prev :
  acceptR tol lastv prev = true <-> steady_enough tol lastv prev.
Proof.
  unfold acceptR, accept_gen, steady_enough.
  assert (Hn : 0 < nearR) by (unfold nearR; lra).
  destruct (Rltb tol (Rabs (lastv - prev))) eqn:E1.
  - apply Rltb_true in E1.
    destruct (Rltb (Rabs lastv) nearR) eqn:E2.
    + apply Rltb_true in E2. rewrite Rltb_true. split.
      * intros H. right; right. split; assumption.
      * intros [H|[[H _]|[_ H]]]; [lra|lra|exact H].
    + apply Rltb_false in E2. rewrite negb_true_iff, Rltb_false.
      rewrite div_le_iff by lra. split.
      * intros H. right; left. split; assumption.
      * intros [H|[[_ H]|[H _]]]; [lra|exact H|lra].
  - apply Rltb_false in E1. split; [intros _; now left|reflexivity].
Qed.

(** The bound on the last step that acceptance gives, in one number. *)
Lemma accepted_step_bound tol lastv prev :
  acceptR tol lastv prev = true ->
  Rabs (lastv - prev) <= Rmax tol (Rmax (tol * Rabs lastv) (2 * nearR)).
Proof.
  intros H. apply acceptR_iff in H. destruct H as [H|[[_ H]|[H1 H2]]].
  - eapply Rle_trans; [exact H|apply Rmax_l].
  - eapply Rle_trans; [exact H|]. eapply Rle_trans; [apply Rmax_l|apply Rmax_r].
  - eapply Rle_trans; [|apply Rmax_r]. eapply Rle_trans; [|apply Rmax_r].
    unfold Rminus. eapply Rle_trans; [apply Rabs_triang|]. rewrite Rabs_Ropp. lra.
Qed.

(** The code at /repo HEAD accepts a series that moves by a whole unit per period when the
    value is negative (D15a): x = LAG_x - 1 after 200 periods. *)
Theorem accept_origR_refuted :
  accept_origR (1 / 10000) (-200) (-199) = true /\ ~ steady_enough (1 / 10000) (-200) (-199).
Proof.
  assert (A1 : Rabs (-200 - -199) = 1) by (unfold Rabs; destruct (Rcase_abs _); lra).
  assert (A2 : Rabs (-200) = 200) by (unfold Rabs; destruct (Rcase_abs _); lra).
  assert (A3 : Rabs (-199) = 199) by (unfold Rabs; destruct (Rcase_abs _); lra).
  split.
  - unfold accept_origR, accept_orig_gen. rewrite A1, A2.
    assert (E1 : Rltb (1 / 10000) 1 = true) by (apply Rltb_true; lra). rewrite E1.
    assert (E2 : Rltb 200 nearR = false) by (apply Rltb_false; unfold nearR; lra).
    rewrite E2.
    assert (E3 : Rltb (1 / 10000) (1 / -200) = false) by (apply Rltb_false; lra).
    rewrite E3. reflexivity.
  - unfold steady_enough, nearR. rewrite A1, A2, A3. lra.
Qed.

Theorem acceptR_rejects_drift : acceptR (1 / 10000) (-200) (-199) = false.
Proof.
  destruct (acceptR (1 / 10000) (-200) (-199)) eqn:E; [|reflexivity].
  apply acceptR_iff in E. exfalso. revert E. apply accept_origR_refuted.
Qed.

(* ------------------------------------------------------------------ *)
(** * One further period (exact arithmetic) *)

Section NextStep.
Variable I : Type.                              (* the variables *)
Variable G : (I -> R) -> (I -> R).              (* one period with exogenous inputs frozen *)
Variable L : R.
Hypothesis G_lipschitz : forall u v d,
  (forall j, Rabs (u j - v j) <= d) -> forall i, Rabs (G u i - G v i) <= L * d.

(** If the last period of the search moved no variable by more than [d], one further period
    from the installed row moves none by more than [L * d]. *)
Theorem next_step_bound (lastv prev : I -> R) d :
  (forall i, lastv i = G prev i) ->
  (forall j, Rabs (lastv j - prev j) <= d) ->
  forall i, Rabs (G lastv i - lastv i) <= L * d.
Proof.
  intros Hlast Hd i. rewrite (Hlast i). apply G_lipschitz. exact Hd.
Qed.

(** With the acceptance test as the source of [d]: every variable accepted at tolerance
    [tol] and bounded by [M] in size. *)
Theorem next_step_accepted (lastv prev : I -> R) tol M :
  0 <= L ->
  (forall i, lastv i = G prev i) ->
  (forall j, acceptR tol (lastv j) (prev j) = true) ->
  (forall j, Rabs (lastv j) <= M) -> 0 <= tol ->
  forall i, Rabs (G lastv i - lastv i) <= L * Rmax tol (Rmax (tol * M) (2 * nearR)).
Proof.
  intros HL Hlast Hacc HM Htol i.
  apply next_step_bound with (prev := prev); [exact Hlast|].
  intros j. eapply Rle_trans; [apply accepted_step_bound, Hacc|].
  apply Rmax_lub; [apply Rmax_l|].
  eapply Rle_trans; [|apply Rmax_r].
  apply Rmax_lub; [|apply Rmax_r].
  eapply Rle_trans; [|apply Rmax_l].
  apply Rmult_le_compat_l; [exact Htol|apply HM].
Qed.
(** Non-expansive systems: the bound is the accepted bound itself. *)
Theorem next_step_nonexpansive (lastv prev : I -> R) tol M :
  0 <= L <= 1 ->
  (forall i, lastv i = G prev i) ->
  (forall j, acceptR tol (lastv j) (prev j) = true) ->
  (forall j, Rabs (lastv j) <= M) -> 0 <= tol ->
  forall i, Rabs (G lastv i - lastv i) <= Rmax tol (Rmax (tol * M) (2 * nearR)).
Proof.
  intros [HL0 HL1] Hlast Hacc HM Htol i.
  eapply Rle_trans; [apply (next_step_accepted lastv prev tol M HL0 Hlast Hacc HM Htol)|].
  set (Bd := Rmax tol (Rmax (tol * M) (2 * nearR))).
  assert (HB : 0 <= Bd) by (eapply Rle_trans; [exact Htol|apply Rmax_l]).
  rewrite <- (Rmult_1_l Bd) at 2. apply Rmult_le_compat_r; assumption.
Qed.
End NextStep.

(** D15b: for an expansive one-period map the statement "one further period stays within
    the tolerance" fails.  [G x = 1 + 3 (x - 1)] (rest point 1, 3-Lipschitz), last two points
    1.00004 -> 1.00012: accepted at tolerance 1e-4, and the next period moves by 2.4e-4. *)
Definition G3 (u : unit -> R) : unit -> R := fun _ => 1 + 3 * (u tt - 1).

Lemma G3_lipschitz u v d :
  (forall j, Rabs (u j - v j) <= d) -> forall i, Rabs (G3 u i - G3 v i) <= 3 * d.
Proof.
  intros H i. unfold G3. specialize (H tt).
  replace (1 + 3 * (u tt - 1) - (1 + 3 * (v tt - 1))) with (3 * (u tt - v tt)) by lra.
  rewrite Rabs_mult, (Rabs_pos_eq 3) by lra. lra.
Qed.

Theorem next_step_expansive_refuted :
  exists (prev : unit -> R),
    let lastv := G3 prev in
    acceptR (1 / 10000) (lastv tt) (prev tt) = true /\
    acceptR (1 / 10000) (G3 lastv tt) (lastv tt) = false.
Proof.
  exists (fun _ => 1 + 4 / 100000). cbn zeta. unfold G3. split.
  - apply acceptR_iff. left.
    rewrite Rabs_pos_eq; lra.
  - destruct (acceptR _ _ _) eqn:E; [|reflexivity]. exfalso.
    apply acceptR_iff in E. unfold steady_enough, nearR in E.
    rewrite !Rabs_pos_eq in E by lra. lra.
Qed.

(** D15c: a NON-expansive map ([L] = 1) whose variables have very different sizes.  Two
    variables near 1000 rotate by a quarter turn about (1000, 1000); a third, of size 1, is
    the first one lagged minus 999.  Every variable passes the test at tolerance 1e-4, yet the
    small one then moves by 0.09.  (The bound of [next_step_accepted] holds: 0.09 <= 1e-4 * 1000.) *)
Inductive var3 := X1 | X3 | X2.

Definition Grot (u : var3 -> R) : var3 -> R := fun i =>
  match i with
  | X1 => - u X3 + 2000
  | X3 => u X1
  | X2 => u X1 - 999
  end.

Lemma Grot_nonexpansive u v d :
  (forall j, Rabs (u j - v j) <= d) -> forall i, Rabs (Grot u i - Grot v i) <= 1 * d.
Proof.
  intros H i. rewrite Rmult_1_l. destruct i; unfold Grot.
  - replace (- u X3 + 2000 - (- v X3 + 2000)) with (- (u X3 - v X3)) by lra. rewrite Rabs_Ropp. apply H.
  - apply H.
  - replace (u X1 - 999 - (v X1 - 999)) with (u X1 - v X1) by lra. apply H.
Qed.

Definition prev_rot : var3 -> R := fun i =>
  match i with X1 => 1000 | X3 => 1000 + 9 / 100 | X2 => 1 end.

Theorem next_step_mixed_scale_refuted :
  let lastv := Grot prev_rot in
  (forall j, acceptR (1 / 10000) (lastv j) (prev_rot j) = true) /\
  acceptR (1 / 10000) (Grot lastv X2) (lastv X2) = false.
Proof.
  cbn zeta. split.
  - intros j. apply acceptR_iff. unfold steady_enough, nearR. destruct j; unfold Grot, prev_rot.
    + right; left. split.
      * rewrite Rabs_pos_eq; lra.
      * replace (- (1000 + 9 / 100) + 2000 - 1000) with (- (9 / 100)) by lra.
        rewrite Rabs_Ropp, !Rabs_pos_eq; lra.
    + right; left. split.
      * rewrite Rabs_pos_eq; lra.
      * replace (1000 - (1000 + 9 / 100)) with (- (9 / 100)) by lra.
        rewrite Rabs_Ropp, !Rabs_pos_eq; lra.
    + left. replace (1000 - 999 - 1) with 0 by lra. rewrite Rabs_R0. lra.
  - destruct (acceptR _ _ _) eqn:E; [|reflexivity]. exfalso.
    apply acceptR_iff in E. unfold steady_enough, nearR, Grot, prev_rot in E.
    replace (- (1000 + 9 / 100) + 2000 - 999 - (1000 - 999)) with (- (9 / 100)) in E by lra.
    rewrite Rabs_Ropp in E. rewrite !Rabs_pos_eq in E by lra. lra.
Qed.

Local Close Scope R_scope.

(* ------------------------------------------------------------------ *)
(** * The search *)

Section SearchProofs.
Variable V : Type.
Variable acc : V -> V -> bool.
Notation series := (list (string * list V)).

(** Shape of a holder that the search never changes: names in order, and every series
    without its first point. *)
Definition shape (s : series) : list (string * (nat * list V)) :=
  map (fun p => (fst p, (List.length (snd p), tl (snd p)))) s.

Lemma set_first_shape n v (s s' : series) : set_first n v s = Some s' -> shape s' = shape s.
Proof.
  revert s'. induction s as [|[k l] r IH]; intros s' H; simpl in H; [discriminate|].
  destruct (String.eqb n k).
  - destruct l as [|x t]; [discriminate|]. injection H as <-. reflexivity.
  - destruct (set_first n v r) as [r'|] eqn:E; [|discriminate]. injection H as <-.
    simpl. f_equal. now apply IH.
Qed.

Lemma set_first_lookup_same n v (s s' : series) :
  set_first n v s = Some s' -> exists t, lookup n s' = Some (v :: t).
Proof.
  revert s'. induction s as [|[k l] r IH]; intros s' H; simpl in H; [discriminate|].
  destruct (String.eqb n k) eqn:E.
  - destruct l as [|x t]; [discriminate|]. injection H as <-. simpl. rewrite E. now exists t.
  - destruct (set_first n v r) as [r'|] eqn:E'; [|discriminate]. injection H as <-.
    simpl. rewrite E. now apply IH.
Qed.

Lemma set_first_lookup_other n m v (s s' : series) :
  set_first n v s = Some s' -> m <> n -> lookup m s' = lookup m s.
Proof.
  revert s'. induction s as [|[k l] r IH]; intros s' H Hne; simpl in H; [discriminate|].
  destruct (String.eqb_spec n k) as [->|Hnk].
  - destruct l as [|x t]; [discriminate|]. injection H as <-. simpl.
    destruct (String.eqb_spec m k); [contradiction|reflexivity].
  - destruct (set_first n v r) as [r'|] eqn:E'; [|discriminate]. injection H as <-.
    simpl. destruct (String.eqb m k); [reflexivity|]. now apply IH.
Qed.

(** [installs excluded cp var v]: the loop writes [v] into [TimeSeries[var][0]]. *)
Definition installs (excluded : list string) (cp : series) (var : string) (v : V) : Prop :=
  mem var excluded = false /\
  exists l prev, lookup var cp = Some l /\ last2 l = Some (v, prev) /\ acc v prev = true.

(** [rejects]: the loop puts [var] on the list of bad variables. *)
Definition rejects (excluded : list string) (cp : series) (var : string) : Prop :=
  mem var excluded = false /\
  exists l v prev, lookup var cp = Some l /\ last2 l = Some (v, prev) /\ acc v prev = false.

Lemma installs_fun excluded cp var v w : installs excluded cp var v -> installs excluded cp var w -> v = w.
Proof.
  intros [_ (l & p & H1 & H2 & _)] [_ (l' & p' & H1' & H2' & _)].
  rewrite H1 in H1'. injection H1' as <-. rewrite H2 in H2'. now injection H2'.
Qed.

(** The shape is kept whatever happens (also when the loop dies on an exception). *)
Lemma scan_shape excluded cp ks : forall ts bad,
  shape (snd (fst (scan acc excluded cp ks ts bad))) = shape ts.
Proof.
  induction ks as [|var rest IH]; intros ts bad; simpl; [reflexivity|].
  destruct (mem var excluded); [apply IH|].
  destruct (lookup var cp) as [l|]; [|reflexivity].
  destruct (last2 l) as [[lv pv]|]; [|reflexivity].
  destruct (acc lv pv); [|apply IH].
  destruct (set_first var lv ts) as [ts'|] eqn:E; [|reflexivity].
  rewrite IH. eapply set_first_shape; eassumption.
Qed.

(** Names the loop does not write keep their whole series. *)
Lemma scan_untouched excluded cp ks : forall ts bad m,
  (forall v, ~ (List.In m ks /\ installs excluded cp m v)) ->
  lookup m (snd (fst (scan acc excluded cp ks ts bad))) = lookup m ts.
Proof.
  induction ks as [|var rest IH]; intros ts bad m Hm; simpl; [reflexivity|].
  assert (Hrest : forall v, ~ (List.In m rest /\ installs excluded cp m v)).
  { intros v [Hin Hi]. apply (Hm v). split; [now right|exact Hi]. }
  destruct (mem var excluded) eqn:Eex; [now apply IH|].
  destruct (lookup var cp) as [l|] eqn:El; [|reflexivity].
  destruct (last2 l) as [[lv pv]|] eqn:E2; [|reflexivity].
  destruct (acc lv pv) eqn:Ea; [|now apply IH].
  destruct (set_first var lv ts) as [ts'|] eqn:E; [|reflexivity].
  rewrite IH by exact Hrest.
  eapply set_first_lookup_other; [eassumption|].
  intros ->. apply (Hm lv). split; [now left|].
  split; [exact Eex|]. now exists l, pv.
Qed.

(** When the loop runs to its end, every accepted name has its last value at k=0, and the
    bad list collects exactly the rejected names. *)
Lemma scan_complete excluded cp ks : forall ts bad ts' bad',
  scan acc excluded cp ks ts bad = (None, ts', bad') ->
  (forall var, List.In var ks -> mem var excluded = false ->
     exists v, installs excluded cp var v \/ rejects excluded cp var) /\
  (forall var v, List.In var ks -> installs excluded cp var v ->
     exists t, lookup var ts' = Some (v :: t)) /\
  (exists extra, bad' = (bad ++ extra)%list /\
     forall var, List.In var extra <-> (List.In var ks /\ rejects excluded cp var)).
Proof.
  induction ks as [|var rest IH]; intros ts bad ts' bad' H; simpl in H.
  - injection H as <- <-. repeat split.
    + intros ? [].
    + intros ? ? [].
    + exists []. split; [now rewrite app_nil_r|]. intros v; split; [intros []|intros [[] _]].
  - destruct (mem var excluded) eqn:Eex.
    { destruct (IH _ _ _ _ H) as (A & B & extra & C1 & C2). repeat split.
      - intros x [<-|Hin] Hx; [congruence|now apply A].
      - intros x v [<-|Hin] Hi; [destruct Hi as [Hi _]; congruence|now apply B].
      - exists extra. split; [exact C1|]. intros x. rewrite C2. split.
        + intros [Hin Hr]. split; [now right|exact Hr].
        + intros [[<-|Hin] Hr]; [destruct Hr as [Hr _]; congruence|now split]. }
    destruct (lookup var cp) as [l|] eqn:El; [|discriminate].
    destruct (last2 l) as [[lv pv]|] eqn:E2; [|discriminate].
    destruct (acc lv pv) eqn:Ea.
    + destruct (set_first var lv ts) as [ts1|] eqn:E; [|discriminate].
      assert (Hinst : installs excluded cp var lv).
      { split; [exact Eex|]. now exists l, pv. }
      destruct (IH _ _ _ _ H) as (A & B & extra & C1 & C2). repeat split.
      * intros x [<-|Hin] Hx; [exists lv; now left|now apply A].
      * intros x v [<-|Hin] Hi; [|now apply B].
        rewrite (installs_fun _ _ _ _ _ Hi Hinst).
        destruct (in_dec string_dec var rest) as [Hin|Hnin]; [now apply B|].
        pose proof (scan_untouched excluded cp rest ts1 bad var) as Hu.
        rewrite H in Hu. simpl in Hu. rewrite Hu.
        -- eapply set_first_lookup_same; eassumption.
        -- intros w [Hin _]. contradiction.
      * exists extra. split; [exact C1|]. intros x. rewrite C2. split.
        -- intros [Hin Hr]. split; [now right|exact Hr].
        -- intros [[<-|Hin] Hr]; [|now split].
           destruct Hr as [_ (l' & v' & p' & H1 & H2 & H3)].
           rewrite El in H1. injection H1 as <-. rewrite E2 in H2. injection H2 as <- <-. congruence.
    + assert (Hrej : rejects excluded cp var).
      { split; [exact Eex|]. now exists l, lv, pv. }
      destruct (IH _ _ _ _ H) as (A & B & extra & C1 & C2). repeat split.
      * intros x [<-|Hin] Hx; [exists lv; now right|now apply A].
      * intros x v [<-|Hin] Hi; [|now apply B].
        destruct Hi as [_ (l' & p' & H1 & H2 & H3)].
        rewrite El in H1. injection H1 as <-. rewrite E2 in H2. injection H2 as <- <-. congruence.
      * exists (var :: extra). split; [rewrite C1, <- app_assoc; reflexivity|].
        intros x. simpl. rewrite C2. split.
        -- intros [<-|[Hin Hr]]; [split; [now left|exact Hrej]|split; [now right|exact Hr]].
        -- intros [[<-|Hin] Hr]; [now left|right; now split].
Qed.

(** A loop that meets a rejected name and does not die ends with a non-empty bad list. *)
Lemma scan_no_error excluded cp ks : forall ts bad,
  (forall var, List.In var ks -> mem var excluded = false ->
     exists l, lookup var cp = Some l /\ last2 l <> None) ->
  (forall var, List.In var ks -> exists l, lookup var ts <> None /\ lookup var ts = Some l /\ l <> []) ->
  fst (fst (scan acc excluded cp ks ts bad)) = None.
Proof.
  induction ks as [|var rest IH]; intros ts bad Hcp Hts; simpl; [reflexivity|].
  assert (Hcp' : forall x, List.In x rest -> mem x excluded = false ->
                 exists l, lookup x cp = Some l /\ last2 l <> None).
  { intros x Hin. apply Hcp. now right. }
  destruct (mem var excluded) eqn:Eex.
  { apply IH; [exact Hcp'|]. intros x Hin. apply Hts. now right. }
  destruct (Hcp var (or_introl eq_refl) Eex) as (l & El & Hl). rewrite El.
  destruct (last2 l) as [[lv pv]|]; [|contradiction].
  destruct (acc lv pv).
  - destruct (Hts var (or_introl eq_refl)) as (l0 & _ & Hl0 & Hne).
    destruct (set_first var lv ts) as [ts1|] eqn:E.
    + apply IH; [exact Hcp'|]. intros x Hin.
      destruct (String.eqb_spec x var) as [->|Hne'].
      * destruct (set_first_lookup_same _ _ _ _ E) as (t & Ht). exists (lv :: t).
        rewrite Ht. repeat split; discriminate.
      * rewrite (set_first_lookup_other _ _ _ _ _ E Hne'). apply Hts. now right.
    + exfalso. clear - E Hl0 Hne. revert E Hl0. induction ts as [|[k l] r IHr]; simpl; [discriminate|].
      destruct (String.eqb var k).
      * intros E H. injection H as ->. destruct l0; [contradiction|discriminate].
      * destruct (set_first var lv r); [discriminate|]. intros _ H. now apply IHr.
  - apply IH; [exact Hcp'|]. intros x Hin. apply Hts. now right.
Qed.

(* ---- the search as a whole ---- *)

Definition excl (user_excluded : list string) : list string := "k"%string :: user_excluded.

(** C15_outcome, success direction. *)
Theorem search_ok user_excluded own cts cerr o :
  search acc user_excluded own cts cerr = o -> o_res o = Ok tt ->
  cerr = None /\
  forall var, List.In var (keys own) -> mem var (excl user_excluded) = false ->
    exists l v prev t, lookup var cts = Some l /\ last2 l = Some (v, prev) /\ acc v prev = true /\
                       lookup var (o_ts o) = Some (v :: t).
Proof.
  intros <- Hres. unfold search in *. destruct cerr as [e|]; [discriminate|]. split; [reflexivity|].
  destruct (scan acc ("k"%string :: user_excluded) cts (keys own) own []) as [[e ts'] bad] eqn:Es.
  destruct e as [e|]; [discriminate|]. destruct bad as [|b bad]; [|discriminate].
  simpl. destruct (scan_complete _ _ _ _ _ _ _ Es) as (A & B & extra & C1 & C2).
  intros var Hin Hex. destruct (A var Hin Hex) as (v & [Hi|Hr]).
  - destruct (B var v Hin Hi) as (t & Ht). destruct Hi as [_ (l & p & H1 & H2 & H3)].
    now exists l, v, p, t.
  - exfalso. simpl in C1. subst extra. apply (C2 var). now split.
Qed.

(** C15_outcome, failure directions. *)
Theorem search_copy_error user_excluded own cts e :
  let o := search acc user_excluded own cts (Some e) in
  o_res o = Err (if err_eqb e ConvergenceError then ValueError else e) /\ o_ts o = own /\ o_holder o = cts.
Proof. simpl. repeat split. Qed.

Definition copy_wf (user_excluded : list string) (own cts : series) : Prop :=
  (forall var, List.In var (keys own) -> mem var (excl user_excluded) = false ->
     exists l, lookup var cts = Some l /\ last2 l <> None) /\
  (forall var, List.In var (keys own) -> exists l, lookup var own <> None /\ lookup var own = Some l /\ l <> []).

Theorem search_rejected user_excluded own cts var :
  copy_wf user_excluded own cts ->
  List.In var (keys own) -> rejects (excl user_excluded) cts var ->
  o_res (search acc user_excluded own cts None) = Err NoEquilibrium.
Proof.
  intros [W1 W2] Hin Hrej. unfold search.
  pose proof (scan_no_error (excl user_excluded) cts (keys own) own [] W1 W2) as Hne.
  unfold excl in *.
  destruct (scan acc ("k"%string :: user_excluded) cts (keys own) own []) as [[e ts'] bad] eqn:Es.
  simpl in Hne. subst e.
  destruct (scan_complete _ _ _ _ _ _ _ Es) as (_ & _ & extra & C1 & C2).
  destruct bad as [|b bad]; [|reflexivity].
  exfalso. simpl in C1. subst extra. apply (C2 var). now split.
Qed.

Theorem search_all_accepted user_excluded own cts :
  copy_wf user_excluded own cts ->
  (forall var, List.In var (keys own) -> ~ rejects (excl user_excluded) cts var) ->
  o_res (search acc user_excluded own cts None) = Ok tt.
Proof.
  intros [W1 W2] Hall. unfold search.
  pose proof (scan_no_error (excl user_excluded) cts (keys own) own [] W1 W2) as Hne.
  unfold excl in *.
  destruct (scan acc ("k"%string :: user_excluded) cts (keys own) own []) as [[e ts'] bad] eqn:Es.
  simpl in Hne. subst e.
  destruct (scan_complete _ _ _ _ _ _ _ Es) as (_ & _ & extra & C1 & C2).
  destruct bad as [|b bad]; [reflexivity|].
  exfalso. simpl in C1. subst extra. apply (Hall b); apply (C2 b); now left.
Qed.

(** The only outcomes. *)
Theorem search_outcomes user_excluded own cts cerr :
  copy_wf user_excluded own cts ->
  let r := o_res (search acc user_excluded own cts cerr) in
  match cerr with
  | None => r = Ok tt \/ r = Err NoEquilibrium
  | Some e => r = Err (if err_eqb e ConvergenceError then ValueError else e)
  end.
Proof.
  intros [W1 W2]. destruct cerr as [e|]; [reflexivity|]. cbn zeta. unfold search.
  pose proof (scan_no_error (excl user_excluded) cts (keys own) own [] W1 W2) as Hne.
  unfold excl in *.
  destruct (scan acc ("k"%string :: user_excluded) cts (keys own) own []) as [[e ts'] bad].
  simpl in Hne. subst e. destruct bad; [now left|now right].
Qed.

(** C15_frame for the series holder: in every outcome the solver's own holder keeps its
    names (in order), the length of every series and every point other than k=0; the
    steady-state holder is the copy's. *)
Theorem search_frame user_excluded own cts cerr :
  let o := search acc user_excluded own cts cerr in
  shape (o_ts o) = shape own /\ o_holder o = cts.
Proof.
  cbn zeta. unfold search. destruct cerr as [e|]; [split; reflexivity|].
  pose proof (scan_shape ("k"%string :: user_excluded) cts (keys own) own []) as Hs.
  destruct (scan acc ("k"%string :: user_excluded) cts (keys own) own []) as [[e ts'] bad].
  simpl in Hs. destruct e; [now split|]. destruct bad; now split.
Qed.

(** Excluded names (and the time axis k) keep their k=0 point as well. *)
Theorem search_frame_excluded user_excluded own cts cerr var :
  mem var (excl user_excluded) = true ->
  lookup var (o_ts (search acc user_excluded own cts cerr)) = lookup var own.
Proof.
  intros Hex. unfold search. destruct cerr as [e|]; [reflexivity|].
  pose proof (scan_untouched ("k"%string :: user_excluded) cts (keys own) own [] var) as Hu.
  destruct (scan acc ("k"%string :: user_excluded) cts (keys own) own []) as [[e ts'] bad].
  simpl in Hu.
  assert (H : lookup var ts' = lookup var own).
  { apply Hu. intros v [_ [Hm _]]. unfold excl in Hex. congruence. }
  destruct e; [exact H|]. destruct bad; exact H.
Qed.

(** A series that is constant in the copy (a frozen exogenous input) is written back with
    the value it already had: the exogenous paths are unchanged, k=0 included. *)
Lemma last2_repeat (v : V) m : last2 (repeat v (S (S m))) = Some (v, v).
Proof.
  induction m as [|m IHm]; [reflexivity|].
  change (repeat v (S (S (S m)))) with (v :: repeat v (S (S m))).
  simpl last2. simpl in IHm. exact IHm.
Qed.

Lemma set_first_same x (v : V) t : forall (ts ts1 : series),
  set_first x v ts = Some ts1 -> lookup x ts = Some (v :: t) -> lookup x ts1 = Some (v :: t).
Proof.
  induction ts as [|[k l] r IHr]; intros ts1 E Hts; simpl in *; [discriminate|].
  destruct (String.eqb x k) eqn:Ek.
  - injection Hts as ->. injection E as <-. simpl. now rewrite Ek.
  - destruct (set_first x v r) as [r'|] eqn:Er; [|discriminate]. injection E as <-. simpl. rewrite Ek.
    now apply IHr.
Qed.

Lemma scan_frozen excluded cts var v t n :
  lookup var cts = Some (repeat v (S (S n))) ->
  forall ks ts bad, lookup var ts = Some (v :: t) ->
    lookup var (snd (fst (scan acc excluded cts ks ts bad))) = Some (v :: t).
Proof.
  intros Hcp. induction ks as [|x rest IH]; intros ts bad Hts; simpl; [exact Hts|].
  destruct (mem x excluded) eqn:Ex; [now apply IH|].
  destruct (lookup x cts) as [l|] eqn:El; [|exact Hts].
  destruct (last2 l) as [[lv pv]|] eqn:E2; [|exact Hts].
  destruct (acc lv pv); [|now apply IH].
  destruct (set_first x lv ts) as [ts1|] eqn:E; [|exact Hts].
  apply IH. destruct (String.eqb_spec var x) as [->|Hne].
  - rewrite Hcp in El. injection El as El. subst l. change (v :: v :: repeat v n) with (repeat v (S (S n))) in E2. rewrite last2_repeat in E2. injection E2 as E2a E2b.
    subst lv pv. eapply set_first_same; eassumption.
  - rewrite (set_first_lookup_other _ _ _ _ _ E Hne). exact Hts.
Qed.

Theorem search_frame_frozen user_excluded own cts cerr var v t n :
  lookup var own = Some (v :: t) -> lookup var cts = Some (repeat v (S (S n))) ->
  lookup var (o_ts (search acc user_excluded own cts cerr)) = Some (v :: t).
Proof.
  intros Hown Hcp. unfold search. destruct cerr as [e|]; [exact Hown|].
  pose proof (scan_frozen ("k"%string :: user_excluded) cts var v t n Hcp (keys own) own [] Hown) as Hscan.
  destruct (scan acc ("k"%string :: user_excluded) cts (keys own) own []) as [[e ts'] bad].
  simpl in Hscan. destruct e; [exact Hscan|]. destruct bad; exact Hscan.
Qed.

(* ---- the whole call: the original record is only read ---- *)
Variable P : Type.
Variable negk : nat -> V.

Theorem steady_frame (retune : P -> P) (steps : P -> series -> nat -> series * option err)
        T user_excluded (st : @solver V P) :
  let st' := snd (steady acc negk retune steps T user_excluded st) in
  s_parser st' = s_parser st /\ s_exo st' = s_exo st /\ shape (s_ts st') = shape (s_ts st) /\
  s_holder st' = fst (steps (retune (s_parser st)) (prepare_copy negk T st) T).
Proof.
  cbn zeta. unfold steady.
  destruct (steps (retune (s_parser st)) (prepare_copy negk T st) T) as [cts cerr]. simpl.
  pose proof (search_frame user_excluded (s_ts st) cts cerr) as [H1 H2]. cbn zeta in H1, H2.
  repeat split; assumption.
Qed.

End SearchProofs.
