(** Model of the [EquationSolver] *object* as a state machine (property C17):
    [ParseString] (equation_solver.py:67-86), [ExtractVariableList] (:97-108), the part of
    [SetInitialConditions] that builds the result holder from [VariableList] and injects the
    [k] series into [Parser.Exogenous] (:110-131, :193), [SolveEquation] (:441-450), and the
    attributes [TraceStep] and [MaxTime].

    The numerical core -- the four time-zero passes and the per-period sweeps -- is NOT
    modelled here (family Solve does that); it enters as the section variable [core]: a
    deterministic function of the parse result.  That "the computed values are a function of
    the parse result alone" (not of the process history, logging, tracing, or of how many [k]
    entries earlier solves appended to [Parser.Exogenous]) is the trusted statement which the
    implementation-only oracle of harness/c17.py tests on every run.

    [step] is the code after the proposed fix D17 ([ParseString] resets [VariableList]);
    [step_orig] is /repo HEAD, where the list is filled only when empty. *)
From Coq Require Import List String Bool Arith.
From SFC.Base Require Import Res Str Sorting.
Import ListNotations.
Local Open Scope string_scope.

Section Reuse.
Variable V : Type.            (* values of a series *)
Variable zero : V.            (* the 0.0 that pass 1 of SetInitialConditions puts at k=0 *)
Variable B : Type.            (* equation blocks (text) *)
Variable X : Type.            (* what a parser holds besides the name lists: right-hand sides,
                                 initial conditions, Err_Tolerance *)

Definition series := list (string * list V).

(** A parse result: [EquationParser] after ParseString + ValidateInputs + EquationReduction. *)
Record pinfo := mkInfo {
  i_endo : list string;       (* [x[0] for x in Parser.Endogenous] *)
  i_lagged : list string;
  i_exo : list string;        (* as parsed: without the injected k *)
  i_deco : list string;
  i_maxtime : nat;
  i_body : X
}.

(** What the numerical core does with a parse result. *)
Inductive core_result :=
| InitFailed (e : err)                          (* SetInitialConditions raised: TimeSeries is not replaced *)
| Ran (own : series) (e : option err).          (* series of the block's own variables and k (partial when a step raised [e]) *)

Variable parse : B -> result pinfo.
Variable core : pinfo -> core_result.

Record solver := mkSolver {
  s_info : pinfo;             (* self.Parser, as parsed *)
  s_kcount : nat;             (* number of ('k', …) entries appended to Parser.Exogenous so far *)
  s_varlist : list string;    (* self.VariableList *)
  s_ts : series;              (* self.TimeSeries *)
  s_trace : option nat;       (* self.TraceStep *)
  s_maxtime : option nat      (* self.MaxTime *)
}.

Variable body0 : X.
Definition info0 : pinfo := mkInfo [] [] [] [] 0 body0.           (* EquationParser() *)
Definition init : solver := mkSolver info0 0 [] [] None None.     (* EquationSolver() *)

Inductive op :=
| ParseString (b : B)
| SolveEquation
| SetTrace (k : option nat)
| SetMaxTime (n : option nat).

Definition with_maxtime (i : pinfo) (m : option nat) : pinfo :=
  match m with
  | None => i
  | Some n => mkInfo (i_endo i) (i_lagged i) (i_exo i) (i_deco i) n (i_body i)
  end.

(** [ExtractVariableList]: endogenous, lagged, exogenous (with the k entries injected so
    far), decoration; sorted; duplicates kept. *)
Definition extract (i : pinfo) (kcount : nat) : list string :=
  sort (i_endo i ++ i_lagged i ++ (i_exo i ++ repeat "k" kcount) ++ i_deco i)%list.

Definition vars (i : pinfo) : list string := extract i 0.

Fixpoint lookup (n : string) (s : series) : option (list V) :=
  match s with
  | [] => None
  | (k, l) :: r => if String.eqb n k then Some l else lookup n r
  end.

Definition keys (s : series) : list string := map fst s.

(** dict insertion: a name already present keeps its place. *)
Fixpoint insert_key (n : string) (l : list V) (s : series) : series :=
  match s with
  | [] => [(n, l)]
  | (k, l0) :: r => if String.eqb n k then (k, l) :: r else (k, l0) :: insert_key n l r
  end.

(** The holder that a solve leaves in [TimeSeries]: pass 1 creates one entry per name of
    [VariableList] (with a lone 0.0), then the block's own series are written over / added. *)
Definition assemble (vl : list string) (own : series) : series :=
  fold_left (fun s p => insert_key (fst p) (snd p) s) own
            (fold_left (fun s v => insert_key v [zero] s) vl []).

(** [SolveEquation]. *)
Definition solve (st : solver) : solver * result unit :=
  let vl := match s_varlist st with [] => extract (s_info st) (s_kcount st) | _ :: _ => s_varlist st end in
  match core (s_info st) with
  | InitFailed e =>
      (mkSolver (s_info st) (s_kcount st) vl (s_ts st) (s_trace st) (s_maxtime st), Err e)
  | Ran own e =>
      let kc := if mem "k" vl then s_kcount st else S (s_kcount st) in
      (mkSolver (s_info st) kc vl (assemble vl own) (s_trace st) (s_maxtime st),
       match e with None => Ok tt | Some e => Err e end)
  end.

(** [ParseString] after the fix: a new parser invalidates the cached variable list.
    A block that does not parse leaves the solver as it was. *)
Definition parse_string (clear_cache : bool) (b : B) (st : solver) : solver * result unit :=
  match parse b with
  | Err e => (st, Err e)
  | Ok i =>
      (mkSolver (with_maxtime i (s_maxtime st)) 0
                (if clear_cache then [] else s_varlist st)
                (s_ts st) (s_trace st) (s_maxtime st), Ok tt)
  end.

Definition step_gen (clear_cache : bool) (st : solver) (o : op) : solver * result unit :=
  match o with
  | ParseString b => parse_string clear_cache b st
  | SolveEquation => solve st
  | SetTrace k => (mkSolver (s_info st) (s_kcount st) (s_varlist st) (s_ts st) k (s_maxtime st), Ok tt)
  | SetMaxTime n => (mkSolver (s_info st) (s_kcount st) (s_varlist st) (s_ts st) (s_trace st) n, Ok tt)
  end.

Definition step := step_gen true.
Definition step_orig := step_gen false.     (* /repo HEAD, defect D17 *)

Fixpoint run_gen (c : bool) (st : solver) (ops : list op) : solver * list (result unit) :=
  match ops with
  | [] => (st, [])
  | o :: r => let '(st1, out) := step_gen c st o in
              let '(st2, outs) := run_gen c st1 r in (st2, out :: outs)
  end.

Definition run := run_gen true.
Definition run_orig := run_gen false.

(** The configuration a parse result depends on besides the block. *)
Definition parsed (b : B) (m : option nat) : result pinfo :=
  match parse b with Ok i => Ok (with_maxtime i m) | Err e => Err e end.

End Reuse.

Arguments mkInfo {X} _ _ _ _ _ _.
Arguments i_endo {X} _.
Arguments i_lagged {X} _.
Arguments i_exo {X} _.
Arguments i_deco {X} _.
Arguments i_maxtime {X} _.
Arguments i_body {X} _.
Arguments InitFailed {V} _.
Arguments Ran {V} _ _.
Arguments mkSolver {V X} _ _ _ _ _ _.
Arguments s_info {V X} _.
Arguments s_kcount {V X} _.
Arguments s_varlist {V X} _.
Arguments s_ts {V X} _.
Arguments s_trace {V X} _.
Arguments s_maxtime {V X} _.
Arguments ParseString {B} _.
Arguments SolveEquation {B}.
Arguments SetTrace {B} _.
Arguments SetMaxTime {B} _.
Arguments extract {X} _ _.
Arguments vars {X} _.
Arguments lookup {V} _ _.
Arguments keys {V} _.
Arguments insert_key {V} _ _ _.
Arguments assemble {V} _ _ _.
Arguments with_maxtime {X} _ _.

(* ------------------------------------------------------------------ *)
(** * The process-wide object counter [EconomicObject.ID] (models.py:42-46)

    Every object takes the next value of one global counter.  A sector whose full code is
    not known yet hands out the placeholder [_<ID>__<local>] for its variables and registers
    it; [Model._FixAliases] later replaces every registered placeholder by
    [<full code>__<local>] of the sector it was registered for.  The model keeps exactly
    this: a reference to "the variable [local] of the j-th object created for this model" is
    rendered through the object's ID, which is [id0 + j] when the counter stood at [id0] at the
    start of the build. *)
Inductive rtok := RLit (s : string) | RRef (j : nat) (local : string).
Inductive tok := TLit (s : string) | TAlias (id : nat) (local : string).

Definition render_with_ids (id0 : nat) (eqs : list (string * list rtok)) : list (string * list tok) :=
  map (fun e => (fst e, map (fun r => match r with
                                      | RLit s => TLit s
                                      | RRef j l => TAlias (id0 + j) l
                                      end) (snd e))) eqs.

(** The alias registry maps a placeholder to the object it was issued by; objects are found
    by ID, i.e. by their position after the start of the build. *)
Definition fix_aliases (id0 : nat) (fullcode : nat -> string) (eqs : list (string * list tok))
  : list (string * list string) :=
  map (fun e => (fst e, map (fun t => match t with
                                      | TLit s => s
                                      | TAlias id l => fullcode (id - id0) ++ "__" ++ l
                                      end) (snd e))) eqs.

Definition final_equations (id0 : nat) (fullcode : nat -> string) (eqs : list (string * list rtok)) :=
  fix_aliases id0 fullcode (render_with_ids id0 eqs).
