(** Proofs about the solver-object state machine (Reuse.v), property C17. *)
From Coq Require Import List String Bool Arith Lia.
From SFC.Base Require Import Res Str Sorting.
From SFC.Hist Require Import Reuse.
Import ListNotations.
Local Open Scope string_scope.

Section ReuseProofs.
Variable V : Type.
Variable zero : V.
Variable B : Type.
Variable X : Type.
Variable parse : B -> result (pinfo X).
Variable core : pinfo X -> core_result V.
Variable body0 : X.

Notation series := (list (string * list V)).
Notation solver := (@Reuse.solver V X).
Notation solve := (Reuse.solve V zero X core).
Notation parse_string := (Reuse.parse_string V B X parse).
Notation step := (Reuse.step V zero B X parse core).
Notation step_gen := (Reuse.step_gen V zero B X parse core).
Notation run := (Reuse.run V zero B X parse core).
Notation run_gen := (Reuse.run_gen V zero B X parse core).
Notation init := (Reuse.init V X body0).
Notation op := (Reuse.op B).

(* ---- holders ---- *)

Lemma insert_key_keys n m l (s : series) :
  List.In n (keys (insert_key m l s)) <-> n = m \/ List.In n (keys s).
Proof.
  induction s as [|[k l0] r IH]; simpl.
  - split; [intros [H|[]]; now left|intros [H|[]]; now left].
  - destruct (String.eqb_spec m k) as [->|Hne]; simpl.
    + split; [intros [H|H]; [right; now left|right; now right]|intros [H|[H|H]]; [left; congruence|now left|now right]].
    + rewrite IH. split; [intros [H|[H|H]]|intros [H|[H|H]]]; auto.
Qed.

Lemma insert_key_lookup n m l (s : series) :
  lookup n (insert_key m l s) = if String.eqb n m then Some l else lookup n s.
Proof.
  induction s as [|[k l0] r IH]; simpl.
  - destruct (String.eqb n m); reflexivity.
  - destruct (String.eqb_spec m k) as [->|Hmk]; simpl.
    + destruct (String.eqb n k); reflexivity.
    + destruct (String.eqb_spec n k) as [->|Hnk].
      * destruct (String.eqb_spec k m) as [->|]; [contradiction|reflexivity].
      * exact IH.
Qed.

Lemma fold_names_keys (vl : list string) : forall (s : series) n,
  List.In n (keys (fold_left (fun s v => insert_key v [zero] s) vl s)) <-> List.In n vl \/ List.In n (keys s).
Proof.
  induction vl as [|v vl IH]; intros s n; simpl; [tauto|].
  rewrite IH, insert_key_keys. intuition (subst; auto).
Qed.

Lemma fold_own_keys (own : series) : forall (s : series) n,
  List.In n (keys (fold_left (fun s p => insert_key (fst p) (snd p) s) own s)) <->
  List.In n (keys own) \/ List.In n (keys s).
Proof.
  induction own as [|[k l] own IH]; intros s n; simpl; [tauto|].
  rewrite IH, insert_key_keys. simpl. intuition (subst; auto).
Qed.

Lemma lookup_None_keys n (s : series) : lookup n s = None <-> ~ List.In n (keys s).
Proof.
  induction s as [|[k l] r IH]; simpl; [tauto|].
  destruct (String.eqb_spec n k) as [->|Hne].
  - split; [discriminate|intros H; exfalso; apply H; now left].
  - rewrite IH. split; [intros H [E|E]; [congruence|contradiction]|tauto].
Qed.

Lemma fold_own_lookup (own : series) : NoDup (keys own) -> forall (s : series) n,
  lookup n (fold_left (fun s p => insert_key (fst p) (snd p) s) own s) =
  match lookup n own with Some l => Some l | None => lookup n s end.
Proof.
  induction own as [|[k l] own IH]; intros Hnd s n; simpl; [reflexivity|].
  inversion Hnd as [|? ? Hnin Hnd']; subst.
  rewrite IH by exact Hnd'. rewrite insert_key_lookup. simpl.
  destruct (String.eqb_spec n k) as [->|Hne]; [|reflexivity].
  destruct (lookup k own) eqn:E; [|reflexivity].
  exfalso. apply Hnin. destruct (in_dec string_dec k (keys own)) as [H|H]; [exact H|].
  apply lookup_None_keys in H. congruence.
Qed.

(** The names a solve reports: those of the variable list and those of the block's own
    series -- nothing else. *)
Lemma assemble_keys vl (own : series) n :
  List.In n (keys (assemble zero vl own)) <-> List.In n vl \/ List.In n (keys own).
Proof.
  unfold assemble. rewrite fold_own_keys, fold_names_keys. simpl. tauto.
Qed.

(** ... and the block's own series are reported as computed. *)
Lemma assemble_lookup vl (own : series) n l :
  NoDup (keys own) -> lookup n own = Some l -> lookup n (assemble zero vl own) = Some l.
Proof. intros Hnd H. unfold assemble. rewrite fold_own_lookup by exact Hnd. now rewrite H. Qed.

(* ---- histories ---- *)

Lemma run_gen_app c : forall (h1 h2 : list op) (st : solver),
  run_gen c st (h1 ++ h2) =
  let '(st1, o1) := run_gen c st h1 in
  let '(st2, o2) := run_gen c st1 h2 in (st2, (o1 ++ o2)%list).
Proof.
  induction h1 as [|o h1 IH]; intros h2 st; simpl.
  - destruct (run_gen c st h2); reflexivity.
  - destruct (step_gen c st o) as [st1 out]. rewrite IH.
    destruct (run_gen c st1 h1) as [st2 o1]. destruct (run_gen c st2 h2). reflexivity.
Qed.

(** C17_reuse: after [ParseString b2] on a solver in ANY state (hence after any history),
    [SolveEquation] works from exactly the variables of [b2]. *)
Theorem reuse_any_state (st : solver) b2 i2 :
  parse b2 = Ok i2 ->
  let i := with_maxtime i2 (s_maxtime st) in
  let st' := fst (solve (fst (parse_string true b2 st))) in
  s_info st' = i /\ s_varlist st' = vars i /\
  forall own e, core i = Ran own e ->
    (forall n, List.In n (keys (s_ts st')) <-> List.In n (vars i) \/ List.In n (keys own)) /\
    (NoDup (keys own) -> forall n l, lookup n own = Some l -> lookup n (s_ts st') = Some l).
Proof.
  intros Hp. cbn zeta. unfold Reuse.parse_string. rewrite Hp. unfold Reuse.solve. simpl.
  assert (Hvl : match @nil string with
                | [] => extract (with_maxtime i2 (s_maxtime st)) 0
                | _ :: _ => []
                end = vars (with_maxtime i2 (s_maxtime st))) by reflexivity.
  destruct (core (with_maxtime i2 (s_maxtime st))) as [e|own e] eqn:Ec; simpl.
  - split; [reflexivity|]. split; [reflexivity|]. intros own e' H. discriminate.
  - split; [reflexivity|]. split; [reflexivity|]. intros own' e' H. injection H as <- _. split.
    + intros n. apply assemble_keys.
    + intros Hnd n l Hl. now apply assemble_lookup.
Qed.

Theorem reuse (h : list op) b2 i2 :
  parse b2 = Ok i2 ->
  let st := fst (run init h) in
  let i := with_maxtime i2 (s_maxtime st) in
  let st' := fst (run init (h ++ [ParseString b2; SolveEquation])) in
  s_varlist st' = vars i /\
  forall own e, core i = Ran own e ->
    (forall n, List.In n (keys (s_ts st')) <-> List.In n (vars i) \/ List.In n (keys own)) /\
    (NoDup (keys own) -> forall n l, lookup n own = Some l -> lookup n (s_ts st') = Some l).
Proof.
  intros Hp. cbn zeta. unfold Reuse.run. rewrite run_gen_app.
  destruct (run_gen true init h) as [st o1] eqn:Eh. simpl fst.
  pose proof (reuse_any_state st b2 i2 Hp) as H. cbn zeta in H.
  simpl. change (Reuse.step_gen V zero B X parse core true st (ParseString b2)) with (parse_string true b2 st).
  destruct (parse_string true b2 st) as [st1 o] eqn:E1. simpl in H.
  change (Reuse.step_gen V zero B X parse core true st1 SolveEquation) with (solve st1).
  destruct (solve st1) as [st2 o2] eqn:E2. simpl in *.
  destruct H as (_ & H2 & H3). split; assumption.
Qed.

(** Exact form: when the core reports the block's variables and k (what the correspondence
    check observes of the implementation), the solver reports exactly those. *)
Corollary reuse_exact (h : list op) b2 i2 own e :
  parse b2 = Ok i2 ->
  let st := fst (run init h) in
  let i := with_maxtime i2 (s_maxtime st) in
  core i = Ran own e ->
  (forall n, List.In n (keys own) <-> List.In n (vars i) \/ n = "k") ->
  forall n, List.In n (keys (s_ts (fst (run init (h ++ [ParseString b2; SolveEquation]))))) <->
            List.In n (vars i) \/ n = "k".
Proof.
  intros Hp. cbn zeta. intros Hc Hk n.
  destruct (reuse h b2 i2 Hp) as [_ H]. destruct (H own e Hc) as [H1 _].
  rewrite H1, Hk. tauto.
Qed.

(** C17_resolve: solving again without re-parsing gives the same series and outcome.
    (The one thing that differs is [s_kcount]: another k entry in Parser.Exogenous.)
    The side condition holds for every parsed block: the parser injects [t]. *)
Theorem resolve (st : solver) :
  let '(st1, o1) := solve st in
  let '(st2, o2) := solve st1 in
  s_varlist st1 <> [] ->
  o2 = o1 /\ s_ts st2 = s_ts st1 /\ s_varlist st2 = s_varlist st1 /\ s_info st2 = s_info st1.
Proof.
  unfold Reuse.solve.
  set (vl := match s_varlist st with [] => extract (s_info st) (s_kcount st) | _ :: _ => s_varlist st end).
  destruct (core (s_info st)) as [e|own e] eqn:Ec; simpl; rewrite Ec; simpl.
  - intros Hne. destruct vl; [contradiction|]. repeat split.
  - intros Hne. destruct vl as [|v vl'] eqn:Evl; [contradiction|]. repeat split.
Qed.

Theorem resolve_history (h : list op) :
  let st := fst (run init h) in
  s_varlist (fst (solve st)) <> [] ->
  let r1 := run init (h ++ [SolveEquation]) in
  let r2 := run init (h ++ [SolveEquation; SolveEquation]) in
  s_ts (fst r2) = s_ts (fst r1) /\
  last (snd r2) (Ok tt) = last (snd r1) (Ok tt).
Proof.
  cbn zeta. unfold Reuse.run. rewrite !run_gen_app.
  destruct (run_gen true init h) as [st o] eqn:Eh. simpl fst.
  pose proof (resolve st) as H. simpl.
  change (Reuse.step_gen V zero B X parse core true st SolveEquation) with (solve st).
  destruct (solve st) as [st1 o1] eqn:E1.
  change (Reuse.step_gen V zero B X parse core true st1 SolveEquation) with (solve st1).
  destruct (solve st1) as [st2 o2] eqn:E2. simpl.
  intros Hne. destruct (H Hne) as (Ho & Hts & _). split; [exact Hts|].
  rewrite !last_last. replace (o ++ [o1; o2])%list with ((o ++ [o1]) ++ [o2])%list by now rewrite <- app_assoc.
  rewrite last_last. exact Ho.
Qed.

(** C17_history_independent: what [ParseString b; SolveEquation] yields depends on [b] and
    the horizon override only -- not on anything done to this solver before. *)
Theorem history_independent_state (st1 st2 : solver) b i0 :
  parse b = Ok i0 -> s_maxtime st1 = s_maxtime st2 ->
  let '(a1, o1) := solve (fst (parse_string true b st1)) in
  let '(a2, o2) := solve (fst (parse_string true b st2)) in
  o1 = o2 /\ s_varlist a1 = s_varlist a2 /\ s_info a1 = s_info a2 /\
  (forall own e, core (with_maxtime i0 (s_maxtime st1)) = Ran own e -> s_ts a1 = s_ts a2).
Proof.
  intros Hp Hm. unfold Reuse.parse_string. rewrite Hp, <- Hm. unfold Reuse.solve. simpl.
  destruct (core (with_maxtime i0 (s_maxtime st1))) as [e|own e]; simpl.
  - repeat split. intros; discriminate.
  - repeat split.
Qed.

Theorem history_independent (h1 h2 : list op) m b i0 :
  parse b = Ok i0 ->
  let tail_ops := [SetMaxTime m; ParseString b; SolveEquation] in
  let r1 := run init (h1 ++ tail_ops) in
  let r2 := run init (h2 ++ tail_ops) in
  last (snd r1) (Ok tt) = last (snd r2) (Ok tt) /\
  s_varlist (fst r1) = s_varlist (fst r2) /\
  (forall own e, core (with_maxtime i0 m) = Ran own e -> s_ts (fst r1) = s_ts (fst r2)).
Proof.
  intros Hp. cbn zeta. unfold Reuse.run. rewrite !run_gen_app.
  destruct (run_gen true init h1) as [s1 o1]. destruct (run_gen true init h2) as [s2 o2].
  cbn [Reuse.run_gen Reuse.step_gen].
  set (t1 := mkSolver (s_info s1) (s_kcount s1) (s_varlist s1) (s_ts s1) (s_trace s1) m).
  set (t2 := mkSolver (s_info s2) (s_kcount s2) (s_varlist s2) (s_ts s2) (s_trace s2) m).
  pose proof (history_independent_state t1 t2 b i0 Hp eq_refl) as H.
  destruct (parse_string true b t1) as [u1 p1]. destruct (parse_string true b t2) as [u2 p2].
  simpl fst in H. destruct (solve u1) as [a1 q1]. destruct (solve u2) as [a2 q2].
  destruct H as (Ho & Hv & _ & Hts). simpl fst. simpl snd.
  replace (o1 ++ [Ok tt; p1; q1])%list with ((o1 ++ [Ok tt; p1]) ++ [q1])%list by now rewrite <- app_assoc.
  replace (o2 ++ [Ok tt; p2; q2])%list with ((o2 ++ [Ok tt; p2]) ++ [q2])%list by now rewrite <- app_assoc.
  rewrite !last_last. repeat split; assumption.
Qed.

(** C17_trace: the [TraceStep] setting is never read by a solve: deleting every SetTrace from
    a history changes neither the series nor the outcome of any other operation.  (True by
    construction of the model -- the trace branch records into a separate holder which the
    model does not even carry; the tie to the code is the correspondence check and the
    oracle's trace on/off comparison.) *)
Definition is_trace (o : op) : bool := match o with SetTrace _ => true | _ => false end.

Fixpoint drop_trace_outs (ops : list op) (outs : list (result unit)) : list (result unit) :=
  match ops, outs with
  | o :: ops', r :: outs' => if is_trace o then drop_trace_outs ops' outs' else r :: drop_trace_outs ops' outs'
  | _, _ => []
  end.

Definition same_but_trace (a b : solver) : Prop :=
  s_info a = s_info b /\ s_kcount a = s_kcount b /\ s_varlist a = s_varlist b /\
  s_ts a = s_ts b /\ s_maxtime a = s_maxtime b.

Lemma step_same_but_trace (a b : solver) o :
  same_but_trace a b -> is_trace o = false ->
  same_but_trace (fst (step a o)) (fst (step b o)) /\ snd (step a o) = snd (step b o).
Proof.
  intros (H1 & H2 & H3 & H4 & H5) Ho. destruct o as [bk| |k|n]; simpl in *; try discriminate.
  - unfold Reuse.parse_string. destruct (parse bk); simpl.
    + rewrite H4, H5. repeat split.
    + repeat split; assumption.
  - unfold Reuse.solve. rewrite H1, H2, H3, H4, H5.
    destruct (core (s_info b)); simpl; repeat split.
  - repeat split; assumption.
Qed.

Theorem trace_irrelevant : forall (ops : list op) (a b : solver),
  same_but_trace a b ->
  same_but_trace (fst (run a ops)) (fst (run b (filter (fun o => negb (is_trace o)) ops))) /\
  drop_trace_outs ops (snd (run a ops)) = snd (run b (filter (fun o => negb (is_trace o)) ops)).
Proof.
  induction ops as [|o ops IH]; intros a b Hab; [simpl; split; [exact Hab|reflexivity]|].
  unfold Reuse.run in *. cbn [filter Reuse.run_gen].
  destruct (is_trace o) eqn:Eo; cbn [negb].
  - destruct o as [bk| |k|n]; try discriminate. cbn [Reuse.step_gen].
    set (a' := mkSolver (s_info a) (s_kcount a) (s_varlist a) (s_ts a) k (s_maxtime a)).
    assert (Ha' : same_but_trace a' b).
    { destruct Hab as (H1 & H2 & H3 & H4 & H5). repeat split; assumption. }
    specialize (IH a' b Ha').
    destruct (run_gen true a' ops) as [a2 outs]. cbn [fst snd drop_trace_outs is_trace] in *. exact IH.
  - destruct (step_same_but_trace a b o Hab Eo) as [Hs Ho]. unfold Reuse.step in *.
    cbn [Reuse.run_gen].
    destruct (step_gen true a o) as [a1 ra]. destruct (step_gen true b o) as [b1 rb].
    cbn [fst snd] in Hs, Ho.
    specialize (IH a1 b1 Hs).
    destruct (run_gen true a1 ops) as [a2 outs]. destruct (run_gen true b1 _) as [b2 outs'].
    cbn [fst snd drop_trace_outs] in *. rewrite Eo. destruct IH as [IH1 IH2].
    split; [exact IH1|]. now rewrite Ho, IH2.
Qed.

End ReuseProofs.

(** The global object counter: the final equations of a build do not depend on where the
    counter stood when the build began. *)
Theorem ids_irrelevant id0 fullcode eqs :
  final_equations id0 fullcode eqs = final_equations 0 fullcode eqs.
Proof.
  unfold final_equations, fix_aliases, render_with_ids. rewrite !map_map.
  apply map_ext. intros [lhs toks]. simpl. f_equal. rewrite !map_map. apply map_ext.
  intros [s|j l]; [reflexivity|]. cbv beta iota. f_equal. f_equal. lia.
Qed.
