(** C15 — An accepted initial steady state really is steady.  Property theorems only; proofs
    are in SteadyProofs.v, the model in Steady.v.

    Model boundary: the acceptance test, the copy's preparation, the write-back loop, the
    verdict and the error conversion of [EquationSolver.CalculateInitialSteadyState] are
    modelled; the T periods solved inside the copy are an argument (the numerical core
    belongs to family Solve).  The model is the code AFTER the proposed fix D15a
    (division by abs(lastval)); [accept_orig*] is /repo HEAD. *)
From Coq Require Import List String Bool Reals PrimFloat.
From SFC.Base Require Import Res Str.
From SFC.Hist Require Import Steady SteadyProofs.
Import ListNotations.
Local Open Scope string_scope.

(** Accepted means: the last period changed the variable by at most the tolerance in
    absolute terms, or by at most the tolerance relative to its size (whatever its sign),
    or both of the last two values are below 1e-4 in size.  Exactly that. *)
Theorem C15_accept : forall tol lastv prev : R,
  acceptR tol lastv prev = true <->
  (Rabs (lastv - prev) <= tol
   \/ (1 / 10000 <= Rabs lastv /\ Rabs (lastv - prev) <= tol * Rabs lastv)
   \/ (Rabs lastv < 1 / 10000 /\ Rabs prev < 1 / 10000))%R.
Proof. exact acceptR_iff. Qed.
Print Assumptions C15_accept.

(** The code at /repo HEAD divides by the signed last value: a series falling by one unit per
    period is "steady" at -200 (finding D15a; the replay is x = LAG_x - 1 with T = 200). *)
Theorem C15_accept_orig_refuted :
  accept_origR (1 / 10000) (-200) (-199) = true /\
  ~ steady_enough (1 / 10000) (-200) (-199).
Proof. exact accept_origR_refuted. Qed.
Print Assumptions C15_accept_orig_refuted.

(** The same witness on IEEE doubles, as the implementation computes it. *)
Example C15_accept_float_witness :
  accept_orig 0x1.a36e2eb1c432dp-14 (-200) (-199) = true /\
  accept 0x1.a36e2eb1c432dp-14 (-200) (-199) = false /\
  accept 0x1.a36e2eb1c432dp-14 200 199 = false /\
  accept 0x1.a36e2eb1c432dp-14 (-200) (-199.984375) = true.
Proof. vm_compute. repeat split. Qed.
Print Assumptions C15_accept_float_witness.

(** Success: the copy's periods completed, every non-excluded variable of the solver passed
    the acceptance test on the copy's last two points, and its k=0 value now is the copy's
    last value. *)
Theorem C15_outcome_ok : forall (V : Type) (acc : V -> V -> bool) user_excluded own cts cerr o,
  search acc user_excluded own cts cerr = o -> o_res o = Ok tt ->
  cerr = None /\
  forall var, List.In var (keys own) -> mem var ("k" :: user_excluded) = false ->
    exists l v prev t, lookup var cts = Some l /\ last2 l = Some (v, prev) /\ acc v prev = true /\
                       lookup var (o_ts o) = Some (v :: t).
Proof. exact search_ok. Qed.
Print Assumptions C15_outcome_ok.

(** Otherwise: a rejected variable gives the no-equilibrium error ... *)
Theorem C15_outcome_rejected : forall (V : Type) (acc : V -> V -> bool) user_excluded own cts var,
  copy_wf V user_excluded own cts ->
  List.In var (keys own) -> rejects V acc ("k" :: user_excluded) cts var ->
  o_res (search acc user_excluded own cts None) = Err NoEquilibrium.
Proof. exact search_rejected. Qed.
Print Assumptions C15_outcome_rejected.

(** ... a copy that did not converge gives a value error (other exceptions propagate), and
    the solver's own series are then as they were ... *)
Theorem C15_outcome_copy_error : forall (V : Type) (acc : V -> V -> bool) user_excluded own cts e,
  let o := search acc user_excluded own cts (Some e) in
  o_res o = Err (if err_eqb e ConvergenceError then ValueError else e) /\ o_ts o = own /\ o_holder o = cts.
Proof. exact search_copy_error. Qed.
Print Assumptions C15_outcome_copy_error.

(** ... and there is no other outcome. *)
Theorem C15_outcomes : forall (V : Type) (acc : V -> V -> bool) user_excluded own cts cerr,
  copy_wf V user_excluded own cts ->
  let r := o_res (search acc user_excluded own cts cerr) in
  match cerr with
  | None => r = Ok tt \/ r = Err NoEquilibrium
  | Some e => r = Err (if err_eqb e ConvergenceError then ValueError else e)
  end.
Proof. exact search_outcomes. Qed.
Print Assumptions C15_outcomes.

Theorem C15_outcome_all_accepted : forall (V : Type) (acc : V -> V -> bool) user_excluded own cts,
  copy_wf V user_excluded own cts ->
  (forall var, List.In var (keys own) -> ~ rejects V acc ("k" :: user_excluded) cts var) ->
  o_res (search acc user_excluded own cts None) = Ok tt.
Proof. exact search_all_accepted. Qed.
Print Assumptions C15_outcome_all_accepted.

(** Frame.  In every outcome the solver's own holder keeps its names, the length of every
    series and every point other than k=0; excluded variables and k keep k=0 too; a series
    that was constant in the copy (a frozen exogenous input) gets back the value it had. *)
Theorem C15_frame_series : forall (V : Type) (acc : V -> V -> bool) user_excluded own cts cerr,
  let o := search acc user_excluded own cts cerr in
  shape V (o_ts o) = shape V own /\ o_holder o = cts.
Proof. exact search_frame. Qed.
Print Assumptions C15_frame_series.

Theorem C15_frame_excluded : forall (V : Type) (acc : V -> V -> bool) user_excluded own cts cerr var,
  mem var ("k" :: user_excluded) = true ->
  lookup var (o_ts (search acc user_excluded own cts cerr)) = lookup var own.
Proof. exact search_frame_excluded. Qed.
Print Assumptions C15_frame_excluded.

Theorem C15_frame_exogenous : forall (V : Type) (acc : V -> V -> bool) user_excluded own cts cerr var v t n,
  lookup var own = Some (v :: t) -> lookup var cts = Some (repeat v (S (S n))) ->
  lookup var (o_ts (search acc user_excluded own cts cerr)) = Some (v :: t).
Proof. exact search_frame_frozen. Qed.
Print Assumptions C15_frame_exogenous.

(** The whole call, for every numerical core [steps] run on the copy: parser (equations,
    horizon, tolerances) and the list of exogenous names of the solver are untouched. *)
Theorem C15_frame : forall (V : Type) (acc : V -> V -> bool) (P : Type) (negk : nat -> V)
    (retune : P -> P) (steps : P -> list (string * list V) -> nat -> list (string * list V) * option err)
    T user_excluded (st : @solver V P),
  let st' := snd (steady acc negk retune steps T user_excluded st) in
  s_parser st' = s_parser st /\ s_exo st' = s_exo st /\ shape V (s_ts st') = shape V (s_ts st) /\
  s_holder st' = fst (steps (retune (s_parser st)) (prepare_copy negk T st) T).
Proof. exact steady_frame. Qed.
Print Assumptions C15_frame.

(** One further period (exact arithmetic).  If one period with frozen exogenous inputs is the
    map [G], [L]-Lipschitz in the sup norm, and the search accepted every variable, then from
    the installed row one more period moves each variable by at most [L] times the accepted
    bound.  For non-expansive systems ([L <= 1]) this is the property's first sentence. *)
Theorem C15_next_step : forall (I : Type) (G : (I -> R) -> I -> R) (L : R),
  (forall u v d, (forall j, (Rabs (u j - v j) <= d)%R) -> forall i, (Rabs (G u i - G v i) <= L * d)%R) ->
  forall (lastv prev : I -> R) (tol M : R),
  (0 <= L)%R ->
  (forall i, lastv i = G prev i) ->
  (forall j, acceptR tol (lastv j) (prev j) = true) ->
  (forall j, (Rabs (lastv j) <= M)%R) -> (0 <= tol)%R ->
  forall i, (Rabs (G lastv i - lastv i) <= L * Rmax tol (Rmax (tol * M) (2 * (1 / 10000))))%R.
Proof. exact next_step_accepted. Qed.
Print Assumptions C15_next_step.

(** In particular for non-expansive systems ([L] <= 1) no variable moves by more than the
    accepted bound: the tolerance, absolute or relative to the largest variable (2e-4 when
    values near zero were accepted). *)
Theorem C15_next_step_nonexpansive : forall (I : Type) (G : (I -> R) -> I -> R) (L : R),
  (forall u v d, (forall j, (Rabs (u j - v j) <= d)%R) -> forall i, (Rabs (G u i - G v i) <= L * d)%R) ->
  forall (lastv prev : I -> R) (tol M : R),
  (0 <= L <= 1)%R ->
  (forall i, lastv i = G prev i) ->
  (forall j, acceptR tol (lastv j) (prev j) = true) ->
  (forall j, (Rabs (lastv j) <= M)%R) -> (0 <= tol)%R ->
  forall i, (Rabs (G lastv i - lastv i) <= Rmax tol (Rmax (tol * M) (2 * (1 / 10000))))%R.
Proof. exact next_step_nonexpansive. Qed.
Print Assumptions C15_next_step_nonexpansive.

(** Recorded finding D15b: for an expansive system ([L] = 3) a state accepted at tolerance
    1e-4 is followed by a period that the same test rejects. *)
Theorem C15_next_step_expansive_refuted :
  (forall u v d, (forall j, (Rabs (u j - v j) <= d)%R) -> forall i, (Rabs (G3 u i - G3 v i) <= 3 * d)%R) /\
  exists prev : unit -> R,
    let lastv := G3 prev in
    acceptR (1 / 10000) (lastv tt) (prev tt) = true /\
    acceptR (1 / 10000) (G3 lastv tt) (lastv tt) = false.
Proof. split; [exact G3_lipschitz|exact next_step_expansive_refuted]. Qed.
Print Assumptions C15_next_step_expansive_refuted.

(** Recorded finding D15c: a non-expansive system ([L] = 1) with variables of very different
    sizes; all accepted at 1e-4, then the small variable moves by 9 percent.  The bound of
    [C15_next_step] holds (it is relative to the LARGEST variable), the per-variable reading
    of the property's first sentence does not. *)
Theorem C15_next_step_mixed_scale_refuted :
  (forall u v d, (forall j, (Rabs (u j - v j) <= d)%R) -> forall i, (Rabs (Grot u i - Grot v i) <= 1 * d)%R) /\
  let lastv := Grot prev_rot in
  (forall j, acceptR (1 / 10000) (lastv j) (prev_rot j) = true) /\
  acceptR (1 / 10000) (Grot lastv X2) (lastv X2) = false.
Proof. split; [exact Grot_nonexpansive|exact next_step_mixed_scale_refuted]. Qed.
Print Assumptions C15_next_step_mixed_scale_refuted.

(** Non-vacuity on IEEE doubles: x converges to 2, d drifts; with d excluded the search
    succeeds and installs 2 for x and LAG_x; without the exclusion it fails AFTER having
    overwritten x and LAG_x (the write-back precedes the verdict). *)
Definition ex_own : list (string * list float) :=
  [("LAG_x", [0]); ("d", [0]); ("t", [0]); ("x", [0]); ("k", [0; 1; 2])]%float.
Definition ex_copy : list (string * list float) :=
  [("LAG_x", [0; 0; 2; 2]); ("d", [0; 1; 2; 3]); ("t", [-3; -2; -1; -0]); ("x", [0; 2; 2; 2]);
   ("k", [-3; -2; -1; -0])]%float.

Example C15_example_ok :
  let o := search_f 0x1.a36e2eb1c432dp-14 ["t"; "d"] ex_own ex_copy None in
  o_res o = Ok tt /\
  o_ts o = [("LAG_x", [2]); ("d", [0]); ("t", [0]); ("x", [2]); ("k", [0; 1; 2])]%float.
Proof. vm_compute. split; reflexivity. Qed.
Print Assumptions C15_example_ok.

Example C15_example_no_equilibrium :
  let o := search_f 0x1.a36e2eb1c432dp-14 ["t"] ex_own ex_copy None in
  o_res o = Err NoEquilibrium /\
  o_ts o = [("LAG_x", [2]); ("d", [0]); ("t", [0]); ("x", [2]); ("k", [0; 1; 2])]%float.
Proof. vm_compute. split; reflexivity. Qed.
Print Assumptions C15_example_no_equilibrium.

Example C15_example_copy_wf : copy_wf float ["t"] ex_own ex_copy.
Proof.
  split.
  - intros var Hin _. simpl in Hin.
    destruct Hin as [<-|[<-|[<-|[<-|[<-|[]]]]]]; eexists; (split; [reflexivity|discriminate]).
  - intros var Hin. simpl in Hin.
    destruct Hin as [<-|[<-|[<-|[<-|[<-|[]]]]]]; eexists; (split; [|split; [reflexivity|]]; discriminate).
Qed.
Print Assumptions C15_example_copy_wf.

(** The copy's holder: exogenous series frozen at k=0, time axis -T … -0.0. *)
Example C15_example_prepare :
  prepare_copy_f 3 ["g"; "k"] [("x", [1]); ("g", [5; 6; 7]); ("k", [0; 1; 2])]%float =
  [("x", [1]); ("g", [5; 5; 5; 5]); ("k", [-3; -2; -1; -0])]%float.
Proof. vm_compute. reflexivity. Qed.
Print Assumptions C15_example_prepare.
