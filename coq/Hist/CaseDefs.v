(** Boolean comparison helpers used by the generated correspondence cases (C15, C17). *)
From Coq Require Import List String Bool Arith PrimFloat.
From SFC.Base Require Import Res Str Expr.
From SFC.Hist Require Import Steady Reuse.
Import ListNotations.
Local Open Scope string_scope.

Fixpoint list_eqb {A} (eqb : A -> A -> bool) (a b : list A) : bool :=
  match a, b with
  | [], [] => true
  | x :: a', y :: b' => eqb x y && list_eqb eqb a' b'
  | _, _ => false
  end.

Fixpoint list_rel {A B} (r : A -> B -> bool) (a : list A) (b : list B) : bool :=
  match a, b with
  | [], [] => true
  | x :: a', y :: b' => r x y && list_rel r a' b'
  | _, _ => false
  end.

Definition res_eqb {A} (eqb : A -> A -> bool) (a b : result A) : bool :=
  match a, b with
  | Ok x, Ok y => eqb x y
  | Err e, Err f => err_eqb e f
  | _, _ => false
  end.

Definition unit_res_eqb (a b : result unit) : bool := res_eqb (fun _ _ => true) a b.

Definition fseries := list (string * list float).
Definition fl_eqb : list float -> list float -> bool := list_eqb same_float.

(** Holders are dicts: compared as finite maps (same number of keys, same series per key,
    every float bit for bit). *)
Definition fseries_equiv (a b : fseries) : bool :=
  Nat.eqb (List.length a) (List.length b) &&
  forallb (fun p => match Steady.lookup (fst p) a with
                    | Some l => fl_eqb l (snd p)
                    | None => false
                    end) b.

(* ---------------------------------------------------------------- C15 *)

(** Direct call: outcome class, the solver's own holder after the call, and the installed
    steady-state holder. *)
Definition c15_case (tol : float) (excluded : list string) (own cts : fseries) (cerr : option err)
           (exp_res : result unit) (exp_ts : fseries) : bool :=
  let o := search_f tol excluded own cts cerr in
  unit_res_eqb (o_res o) exp_res && fseries_equiv (o_ts o) exp_ts && fseries_equiv (o_holder o) cts.

(** The same call with the code of /repo HEAD (used only to show which cases the fix changes). *)
Definition c15_case_orig (tol : float) (excluded : list string) (own cts : fseries) (cerr : option err)
           (exp_res : result unit) (exp_ts : fseries) : bool :=
  let o := search_orig_f tol excluded own cts cerr in
  unit_res_eqb (o_res o) exp_res && fseries_equiv (o_ts o) exp_ts.

(** The copy: exogenous series frozen at k=0 over T+1 points, time axis -T … -0.0. *)
Definition c15_prep_case (T : nat) (exo : list string) (own cts : fseries) : bool :=
  let cp := prepare_copy_f T exo own in
  forallb (fun n => match Steady.lookup n cp, Steady.lookup n cts with
                    | Some a, Some b => fl_eqb a b
                    | _, _ => false
                    end) ("k" :: exo).

(* ---------------------------------------------------------------- C17 *)

Definition info := pinfo nat.          (* body = (block id) *)

Fixpoint assoc {A} (n : nat) (m : nat) (t : list (nat * nat * A)) : option A :=
  match t with
  | [] => None
  | (a, b, x) :: r => if Nat.eqb a n && Nat.eqb b m then Some x else assoc n m r
  end.

Fixpoint assoc1 {A} (n : nat) (t : list (nat * A)) : option A :=
  match t with
  | [] => None
  | (a, x) :: r => if Nat.eqb a n then Some x else assoc1 n r
  end.

(** [parse] and [core] instantiated by tables the harness fills from FRESH processes:
    block id -> parse result; (block id, effective MaxTime) -> what a fresh solver computes. *)
Definition tbl_parse (pt : list (nat * result info)) (b : nat) : result info :=
  match assoc1 b pt with Some r => r | None => Err OutOfFuel end.

Definition tbl_core (ct : list (nat * nat * core_result float)) (i : info) : core_result float :=
  match assoc (i_body i) (i_maxtime i) ct with Some r => r | None => InitFailed OutOfFuel end.

(** Run a history and record, per operation, the outcome and the holder after it. *)
Fixpoint run_obs (clear : bool) (pt : list (nat * result info)) (ct : list (nat * nat * core_result float))
         (st : @Reuse.solver float nat) (ops : list (op nat)) : list (result unit * fseries) :=
  match ops with
  | [] => []
  | o :: r =>
      let '(st1, out) := step_gen float 0%float nat nat (tbl_parse pt) (tbl_core ct) clear st o in
      (out, s_ts st1) :: run_obs clear pt ct st1 r
  end.

Definition obs_eqb (m : result unit * fseries) (e : result unit * option fseries) : bool :=
  unit_res_eqb (fst m) (fst e) &&
  match snd e with None => true | Some ts => fseries_equiv (snd m) ts end.

Definition c17_case (pt : list (nat * result info)) (ct : list (nat * nat * core_result float))
           (ops : list (op nat)) (exp : list (result unit * option fseries)) : bool :=
  list_rel obs_eqb (run_obs true pt ct (Reuse.init float nat 0) ops) exp.

Definition c17_case_orig (pt : list (nat * result info)) (ct : list (nat * nat * core_result float))
           (ops : list (op nat)) (exp : list (result unit * option fseries)) : bool :=
  list_rel obs_eqb (run_obs false pt ct (Reuse.init float nat 0) ops) exp.
