(** GenMain: program-level theorems about the Gallina model [Main.build] of the WHOLE generator
    pipeline (Model.main() up to _CreateFinalEquations) for single-currency programs, tied to the
    Python on every run by the whole-program correspondence of harness/gen_main.py.

    Every theorem quantifies over ALL programs of the language of Program.v (any number of
    countries sharing one currency, the twelve sector classes in any declaration order, any list of
    user operations).  Reading guide:
      [build p = Ok E]       the model of Model.main() succeeds with the final system [E]:
                             [fs_zone E] the final state of every sector, [fs_rows E] the rows in
                             emission order, each classified endogenous / lagged / exogenous;
      [build_run p = Ok R]   the same with the trace of the run ([r_final R] is the final system);
      [sat E v vprev bv]     the values [v] of the current period, [vprev] of the previous one and the
                             values [bv] of opaque expressions satisfy every row of [E];
      [no_conflict p]        decidable side condition computed over the run (Conflict.v): the
                             freshness conditions of every booking group held when it ran and every
                             definition a group installed is still in place, as an endogenous row, in
                             the final system; no user operation names F or INC. *)
From Coq Require Import List String Bool ZArith Arith Reals.
From SFC.Base Require Import Res Str.
From SFC.Gen Require Import Fx Zone.
From SFC.GenMarket Require Import Market MarketProofs.
From SFC.GenAsset Require Import Common CommonProofs Money Deposit.
From SFC.GenTax Require Import Tax TaxProofs.
From SFC.GenMain2 Require Import Program Classes Main Ledger MainProofs Names Conflict Balance Clear Witness.
Import ListNotations.
Local Open Scope string_scope.

(* ------------------------------------------------------------------ *)
(** * 1. Names *)

(** every left-hand side is  full code ++ "__" ++ local name  of a declared sector and one of its
    variables; the full code is the sector code, prefixed with the country code iff the program has
    more than one country *)
Theorem Main_canonical_names : forall p E, build p = Ok E ->
  forall r, List.In r (fs_rows E) ->
  exists ci c k cc s n,
    List.In (ci, c, k) (sector_decls p) /\ nth_error (country_codes p) ci = Some cc /\
    List.In s (fs_zone E) /\ code s = c /\ country s = cc /\ has_var s n = true /\
    fullcode s = (if multi_country p then (cc ++ "_" ++ c)%string else c) /\
    r_lhs r = (fullcode s ++ "__" ++ n)%string.
Proof. exact main_canonical_names. Qed.
Print Assumptions Main_canonical_names.

(** distinct country codes and distinct sector codes per country are enforced by the constructors *)
Theorem Main_codes_distinct : forall p E, build p = Ok E ->
  NoDup (country_codes p) /\ NoDup (map (fun s => (country s, code s)) (fs_zone E)).
Proof. exact main_codes_distinct. Qed.
Print Assumptions Main_codes_distinct.

(** no variable is defined twice, provided the printed names are unambiguous: country codes free of
    "_" when there are several countries, full codes free of "__", no local name starting with "_" *)
Theorem Main_defined_once : forall p E, build p = Ok E -> countries_wf p = true -> names_wf E = true ->
  NoDup (map r_lhs (fs_rows E)).
Proof. exact main_defined_once. Qed.
Print Assumptions Main_defined_once.

(* ------------------------------------------------------------------ *)
(** * 2. The ledger *)

(** For every sector [s] (as main() finds it) and its final state [sf]: each step of the run — one
    per _GenerateEquations call, per registered cash flow, per exogenous variable, in execution order
    ([run_events]) — booked a list of terms on it, all of the kind that step books ([ev_terms]:
    -DEM/+SUP of the market, -T/+T, -DIV/+DIV, -INT/+INT, -x/+x of a registered flow; nothing for every
    other step).  The final F equation is LAG_F followed by exactly those terms accumulated with
    Equation.AddTerm in that order, INC holds some of the same terms, and nothing else changed. *)
Theorem Main_ledger_decomposition : forall p R, build_run p = Ok R -> ledger_untouched p ->
  Forall2 (fun s sf =>
    frame s sf /\
    exists tss, Forall2 (fun e ts => Forall (ev_terms e s) ts) (run_events R) tss /\
      (if hasF s
       then F_of sf = Some (mkEqn "" (extend (List.concat tss) [(1%Z, ["LAG_F"])])) /\
            exists ti, incl ti (List.concat tss) /\ INC_of sf = Some (mkEqn "" (extend ti []))
       else F_of sf = None /\ INC_of sf = None /\ List.concat tss = []))
    (r_zone0 R) (fs_zone (r_final R)).
Proof. exact main_ledger_decomposition. Qed.
Print Assumptions Main_ledger_decomposition.

(* ------------------------------------------------------------------ *)
(** * 3. Stock-flow consistency (C01 for the model) *)

(** [ledger_sum v Z] = sum over the sectors with a ledger of  v(F) - v(LAG_F) *)
Theorem Main_stock_flow_consistent : forall p Rn, build_run p = Ok Rn -> no_conflict p = true ->
  forall (v vprev : string -> R) (bv bvp : string -> string -> R),
    bv_zero bv -> sat (r_final Rn) v vprev bv -> stock_consistent Rn vprev bvp ->
    ledger_sum v (fs_zone (r_final Rn)) = 0%R.
Proof. exact main_stock_flow_consistent. Qed.
Print Assumptions Main_stock_flow_consistent.

(** the previous-period premise follows when the previous period satisfied the system as well *)
Theorem Main_stock_flow_two_periods : forall p Rn, build_run p = Ok Rn -> no_conflict p = true ->
  forall (v vprev vpp : string -> R) (bv bvp : string -> string -> R),
    bv_zero bv -> sat (r_final Rn) v vprev bv -> sat (r_final Rn) vprev vpp bvp ->
    ledger_sum v (fs_zone (r_final Rn)) = 0%R.
Proof. exact main_stock_flow_two_periods. Qed.
Print Assumptions Main_stock_flow_two_periods.

(* ------------------------------------------------------------------ *)
(** * 4. Markets clear (C04 for the model) *)

Theorem Main_markets_clear : forall p Rn, build_run p = Ok Rn -> no_conflict p = true ->
  forall (v vprev : string -> R) (bv : string -> string -> R), sat (r_final Rn) v vprev bv ->
  forall i st st' mk, List.In ((i, CMarket), st, st') (r_gen Rn) -> find_sec i (g_zone st) = Some mk ->
    v (full_name mk (sup_short mk)) = v (full_name mk (dem_short mk)) /\
    v (full_name mk (dem_short mk)) =
      zsum (fun d => v (full_name d (Market.dem_name mk d))) (demanders mk (g_zone st)) /\
    exists r osecs rs,
      the_residual (g_zone st) mk (fst (sup_of i (i_sup (r_info Rn)))) = Ok r /\
      Forall2 (fun j s => find_sec j (g_zone st) = Some s) (map fst (snd (sup_of i (i_sup (r_info Rn))))) osecs /\
      find_sec r (g_zone st) = Some rs /\
      zsum (fun s => v (full_name mk (alloc_name s))) (osecs ++ [rs])%list = v (full_name mk (sup_short mk)).
Proof. exact main_goods_markets_clear. Qed.
Print Assumptions Main_markets_clear.

Theorem Main_money_markets_clear : forall p Rn, build_run p = Ok Rn -> no_conflict p = true ->
  forall (v vprev : string -> R) (bv : string -> string -> R), sat (r_final Rn) v vprev bv ->
  forall i issuer st st' self, List.In ((i, CMoneyMarket issuer), st, st') (r_gen Rn) ->
    find_sec i (g_zone st) = Some self ->
    let c := code self in
    exists m, MoneyProofs.market_at i (g_zone st) = Some m /\
      v (fullname m (Common.dem_name c)) =
        CommonProofs.sumR (fun h => v (fullname h (Common.dem_name c))) (filter (money_holder issuer) (g_zone st)) /\
      (forall s, List.In s (g_zone st) -> money_issuer issuer s = true ->
         v (fullname s (Common.sup_name c)) = v (fullname m (Common.dem_name c))) /\
      v (fullname m (Common.sup_name c)) = v (fullname m (Common.dem_name c)).
Proof. exact main_money_markets_clear. Qed.
Print Assumptions Main_money_markets_clear.

Theorem Main_deposit_markets_clear : forall p Rn, build_run p = Ok Rn -> no_conflict p = true ->
  forall (v vprev : string -> R) (bv : string -> string -> R), sat (r_final Rn) v vprev bv ->
  forall i issuer st st' self, List.In ((i, CDepositMarket issuer), st, st') (r_gen Rn) ->
    find_sec i (g_zone st) = Some self ->
    let c := code self in
    exists m, MoneyProofs.market_at i (g_zone st) = Some m /\
      v (fullname m (Common.dem_name c)) =
        CommonProofs.sumR (fun h => v (fullname h (Common.dem_name c))) (filter (dep_holder c issuer) (g_zone st)) /\
      (forall s, List.In s (g_zone st) -> dep_issuer issuer s = true ->
         v (fullname s (Common.sup_name c)) = v (fullname m (Common.dem_name c))) /\
      v (fullname m (Common.sup_name c)) = v (fullname m (Common.dem_name c)).
Proof. exact main_deposit_markets_clear. Qed.
Print Assumptions Main_deposit_markets_clear.

(* ------------------------------------------------------------------ *)
(** * Non-vacuity: SIM-, PC- and REG-like programs build and satisfy [no_conflict] *)

Example Main_example_SIM : is_ok (build p_SIM) = true /\ no_conflict p_SIM = true.
Proof. exact SIM_no_conflict. Qed.
Print Assumptions Main_example_SIM.

(** treasury + central bank attached after creation, money and deposit markets, a portfolio rule,
    capitalists receiving the profits of TWO firms, a registered gift *)
Example Main_example_PC : is_ok (build p_PC) = true /\ no_conflict p_PC = true.
Proof. exact PC_no_conflict. Qed.
Print Assumptions Main_example_PC.

(** two regions: central government buying in both, multi-output firm, two labour suppliers *)
Example Main_example_REG : is_ok (build p_REG) = true /\ no_conflict p_REG = true.
Proof. exact REG_no_conflict. Qed.
Print Assumptions Main_example_REG.

(** the hypotheses of [Main_defined_once] hold on the three witness programs *)
Example Main_defined_once_hypotheses :
  forallb (fun p => countries_wf p && match build p with Ok E => names_wf E | Err _ => false end) [p_SIM; p_PC; p_REG] = true.
Proof. vm_compute. reflexivity. Qed.
Print Assumptions Main_defined_once_hypotheses.

(* ------------------------------------------------------------------ *)
(** * [no_conflict] is needed *)

(** A user AddVariable gives the household a T of its own before main(): the tax flow's AddCashFlow
    keeps it, [no_conflict] is false, and there is a valuation satisfying every row of the final
    system (the household pays 5, the government receives rate * INC = 0) in which the financial
    assets do not balance. *)
Theorem Main_stock_flow_consistent_refuted :
  build_run p_bad = Ok R_bad /\ no_conflict p_bad = false /\ bv_zero bv_bad /\
  sat (r_final R_bad) v_bad (fun _ => 0%R) bv_bad /\
  stock_consistent R_bad (fun _ => 0%R) (fun _ _ => 0%R) /\
  ledger_sum v_bad (fs_zone (r_final R_bad)) = (-5)%R.
Proof. exact overwritten_tax_refuted. Qed.
Print Assumptions Main_stock_flow_consistent_refuted.
