(** C04 for the pipeline model: under [no_conflict], every goods / labour market, money market and
    deposit market of the program clears in every valuation that satisfies the final system.
    Composition of Market_clears / Market_allocated (coq/GenMarket), Money_clears and Deposit_clears
    (coq/GenAsset) along the run. *)
From Coq Require Import List String Bool ZArith Arith Lia Reals Lra.
From SFC.Base Require Import Res Str Sorting.
From SFC.Gen Require Import Fx Zone.
From SFC.GenMarket Require Import Market MarketProofs.
From SFC.GenAsset Require Import Common CommonProofs Money MoneyProofs Deposit DepositProofs.
From SFC.GenTax Require Import Tax TaxProofs DividendProofs.
From SFC.GenMarket Require PropMarket.
From SFC.GenAsset Require PropAsset.
From SFC.GenMain2 Require Import Program Classes Main Ledger MainProofs Names Conflict Balance.
Import ListNotations.
Local Open Scope string_scope.
Local Open Scope list_scope.
Local Open Scope R_scope.

(** frames from the state after a generation step to the final system *)
Lemma gen_entry_frames p Rn x : build_run p = Ok Rn -> List.In x (r_gen Rn) ->
  gen_step (r_info Rn) (snd (fst x)) (fst (fst x)) = Ok (snd x) /\
  Forall2 frame (g_zone (snd x)) (fs_zone (r_final Rn)).
Proof.
  intros HR Hx. destruct (build_run_inv _ _ HR) as (st & HC & HM).
  destruct (main_run_inv _ _ HM) as (gfin & Z1 & E0 & EI & C1 & M1 & C2 & M2 & C3 & M3 & _).
  assert (FG : forall st0 b st', gen_step (r_info Rn) st0 b = Ok st' -> Forall2 frame (g_zone st0) (g_zone st')).
  { intros st0 b st' Hs. apply (zstep_frame _ _ _ (gen_step_zstep _ _ _ _ Hs)). }
  assert (FFl : forall Z b Z', flow_step Z b = Ok Z' -> Forall2 frame Z Z').
  { intros Z b Z' Hs. apply (zstep_frame _ _ _ (flow_zstep _ _ _ Hs)). }
  pose proof (chain_frames exo_step (fun Z => Z) exo_step_frame _ _ _ C3) as F3.
  pose proof (chain_frames flow_step (fun Z => Z) FFl _ _ _ C2) as F2.
  split; [exact (chain_In _ _ _ _ _ C1 Hx)|].
  assert (G : forall tr a a', chain (gen_step (r_info Rn)) tr a a' -> List.In x tr -> Forall2 frame (g_zone (snd x)) (g_zone a')).
  { clear -FG. intros tr a a' C. induction C as [a0|b a0 a1 tr a2 Hf C IH]; simpl; [contradiction|].
    intros [<-|Hin]; [|now apply IH]. simpl. apply (chain_frames _ g_zone FG _ _ _ C). }
  eapply Forall2_trans_frame; [exact (G _ _ _ C1 Hx)|]. eapply Forall2_trans_frame; eassumption.
Qed.

Lemma no_conflict_gen p Rn x : build_run p = Ok Rn -> no_conflict p = true -> List.In x (r_gen Rn) ->
  gen_ok (fs_zone (r_final Rn)) (r_info Rn) x = true.
Proof.
  intros HR NC Hx. unfold no_conflict in NC. rewrite HR in NC. apply andb_true_iff in NC as [_ CF].
  unfold conflict_free in CF. repeat (apply andb_true_iff in CF as [CF ?]). rewrite forallb_forall in CF. now apply CF.
Qed.

(** goods / labour markets: supply = demand = the sum of the demand variables of exactly the sectors
    of the zone that declared one; the suppliers' allocations add up to total supply *)
Theorem main_goods_markets_clear p Rn : build_run p = Ok Rn -> no_conflict p = true ->
  forall (v vprev : string -> R) (bv : string -> string -> R), sat (r_final Rn) v vprev bv ->
  forall i st st' mk, List.In ((i, CMarket), st, st') (r_gen Rn) -> find_sec i (g_zone st) = Some mk ->
    v (full_name mk (sup_short mk)) = v (full_name mk (dem_short mk)) /\
    v (full_name mk (dem_short mk)) =
      zsum (fun d => v (full_name d (Market.dem_name mk d))) (demanders mk (g_zone st)) /\
    exists r osecs rs,
      the_residual (g_zone st) mk (fst (sup_of i (i_sup (r_info Rn)))) = Ok r /\
      Forall2 (fun j s => find_sec j (g_zone st) = Some s) (map fst (snd (sup_of i (i_sup (r_info Rn))))) osecs /\
      find_sec r (g_zone st) = Some rs /\
      zsum (fun s => v (full_name mk (alloc_name s))) (osecs ++ [rs]) = v (full_name mk (sup_short mk)).
Proof.
  intros HR NC v vprev bv HS i st st' mk Hx Fm.
  destruct (gen_entry_frames _ _ _ HR Hx) as [GS HF]. cbn [fst snd] in GS, HF.
  pose proof (no_conflict_gen _ _ _ HR NC Hx) as HOK. unfold gen_ok in HOK.
  destruct (sup_of i (i_sup (r_info Rn))) as [res others] eqn:SO. cbn [fst snd].
  apply andb_true_iff in HOK as [HOK _]. unfold gen_step in GS. rewrite Fm, SO in GS.
  apply market_flows_inv in GS as (W' & MG & HW). rewrite <- HW in *. set (Z := g_zone st) in *.
  unfold market_ok in HOK. rewrite Fm in HOK.
  destruct (the_residual Z mk res) as [r|] eqn:TR; [|discriminate].
  destruct (find_all Z (map fst others)) as [osecs|] eqn:FA; [|discriminate].
  destruct (find_sec r Z) as [rs|] eqn:Fr; [|discriminate].
  repeat (apply andb_true_iff in HOK as [HOK ?]).
  rename H into K9, H0 into K8, H1 into K7, H2 into K6, H3 into K5, H4 into K4, H5 into K3, H6 into K2. rename HOK into K1.
  set (W := mkWorld Z [] None []) in *. set (ids := (map fst others ++ [r])%list) in *.
  pose proof (market_zstep _ _ _ _ _ _ _ mk MG Fm) as ZS. cbn [home W] in ZS.
  destruct (find_sec_zstep _ _ _ _ _ ZS Fm) as (mk' & Fm' & Fmk).
  apply find_all_spec in FA.
  assert (ALL : Forall2 (fun i s => find_sec i Z = Some s) ids (osecs ++ [rs])%list).
  { unfold ids. apply Forall2_app; [exact FA|]. constructor; [exact Fr|constructor]. }
  assert (FAny : forall j s, find_sec j Z = Some s -> find_any W j = Some s).
  { intros j s Hs. unfold find_any, W. cbn [home]. now rewrite Hs. }
  assert (FAny' : forall j s, find_any W j = Some s -> find_sec j Z = Some s).
  { intros j s. unfold find_any, W. cbn [home abroad]. destruct (find_sec j Z); [auto|]. simpl. discriminate. }
  assert (MKsel : forall n, List.In n [sup_short mk; dem_short mk; alloc_name rs] -> holds v bv mk' n).
  { intros n Hn. eapply (kept_holds v vprev bv _ _ (home W') HS K9 HF mk' n); [eapply find_sec_In; exact Fm'|].
    unfold market_sel. rewrite (find_sec_sid _ _ _ Fm'), (find_sec_sid _ _ _ Fm), Nat.eqb_refl. apply in_or_app. now left. }
  rewrite forallb_forall in K1, K6, K7.
  assert (NM : Forall (fun j => j <> i) ids).
  { apply Forall_forall. intros j Hj. specialize (K1 j Hj). apply negb_true_iff in K1. now apply Nat.eqb_neq in K1. }
  destruct (PropMarket.Market_clears HCUR ACUR v bv W W' i res others mk mk' r MG Fm TR NM) as [C1 C2].
  - intros j s Hj Hs. apply FAny' in Hs. pose proof (Forall2_lookup_sec _ _ _ _ _ ALL Hj Hs) as Hin.
    specialize (K7 s Hin). apply negb_true_iff in K7. now apply String.eqb_neq in K7.
  - now apply no_dunder_ok.
  - exact Fm'.
  - apply MKsel. now left.
  - apply MKsel. right. now left.
  - split; [exact C1|]. split; [exact C2|]. exists r, osecs, rs. repeat split; try assumption.
    apply (PropMarket.Market_allocated HCUR ACUR v bv W W' i res others mk mk' r osecs rs MG Fm TR NM).
    + eapply Forall2_imp; [|exact FA]. intros j s Hs. now apply FAny.
    + now apply FAny.
    + now apply no_dunder_ok.
    + apply Forall_forall. intros s Hs. apply no_dunder_ok. now apply K6.
    + exact Fm'.
    + apply MKsel. right. right. now left.
Qed.

(** money markets: total demand = the sum of the holders' demands (every sector with F other than
    the issuer); the issuer's supply and the market's supply equal it *)
Theorem main_money_markets_clear p Rn : build_run p = Ok Rn -> no_conflict p = true ->
  forall (v vprev : string -> R) (bv : string -> string -> R), sat (r_final Rn) v vprev bv ->
  forall i issuer st st' self, List.In ((i, CMoneyMarket issuer), st, st') (r_gen Rn) ->
    find_sec i (g_zone st) = Some self ->
    let c := code self in
    exists m, market_at i (g_zone st) = Some m /\
      v (fullname m (Common.dem_name c)) =
        CommonProofs.sumR (fun h => v (fullname h (Common.dem_name c))) (filter (money_holder issuer) (g_zone st)) /\
      (forall s, List.In s (g_zone st) -> money_issuer issuer s = true ->
         v (fullname s (Common.sup_name c)) = v (fullname m (Common.dem_name c))) /\
      v (fullname m (Common.sup_name c)) = v (fullname m (Common.dem_name c)).
Proof.
  intros HR NC v vprev bv HS i issuer st st' self Hx Fs c.
  destruct (gen_entry_frames _ _ _ HR Hx) as [GS HF]. cbn [fst snd] in GS, HF.
  pose proof (no_conflict_gen _ _ _ HR NC Hx) as HOK. unfold gen_ok in HOK. rewrite Fs in HOK.
  apply andb_true_iff in HOK as [K _]. unfold gen_step in GS. rewrite Fs in GS. apply same_flows_inv in GS.
  apply money_generate_checked_ok in GS as [GS ISS].
  destruct (PropAsset.Money_clears c issuer i _ _ GS v bv) as (m & M1 & M2 & M3 & M4).
  - intros s' Hs'. split; eapply (kept_holds v vprev bv _ _ _ HS K HF s' _ Hs'); unfold asset_sel; simpl; auto.
  - exists m. repeat split; auto.
Qed.

(** deposit markets: total demand = the sum of the demands of the holders; issuer's and market's supply equal it *)
Theorem main_deposit_markets_clear p Rn : build_run p = Ok Rn -> no_conflict p = true ->
  forall (v vprev : string -> R) (bv : string -> string -> R), sat (r_final Rn) v vprev bv ->
  forall i issuer st st' self, List.In ((i, CDepositMarket issuer), st, st') (r_gen Rn) ->
    find_sec i (g_zone st) = Some self ->
    let c := code self in
    exists m, market_at i (g_zone st) = Some m /\
      v (fullname m (Common.dem_name c)) =
        CommonProofs.sumR (fun h => v (fullname h (Common.dem_name c))) (filter (dep_holder c issuer) (g_zone st)) /\
      (forall s, List.In s (g_zone st) -> dep_issuer issuer s = true ->
         v (fullname s (Common.sup_name c)) = v (fullname m (Common.dem_name c))) /\
      v (fullname m (Common.sup_name c)) = v (fullname m (Common.dem_name c)).
Proof.
  intros HR NC v vprev bv HS i issuer st st' self Hx Fs c.
  destruct (gen_entry_frames _ _ _ HR Hx) as [GS HF]. cbn [fst snd] in GS, HF.
  pose proof (no_conflict_gen _ _ _ HR NC Hx) as HOK. unfold gen_ok in HOK. rewrite Fs in HOK.
  apply andb_true_iff in HOK as [HOK _]. unfold deposit_ok in HOK.
  repeat (apply andb_true_iff in HOK as [HOK ?]). rename HOK into K.
  unfold gen_step in GS. rewrite Fs in GS. apply same_flows_inv in GS.
  apply deposit_generate_checked_ok in GS as [GS (i0 & ISS)].
  destruct (PropAsset.Deposit_clears c issuer i _ _ GS v bv) as (m & M1 & M2 & M3 & M4).
  - intros s' Hs'. split; eapply (kept_holds v vprev bv _ _ _ HS K HF s' _ Hs'); unfold asset_sel; simpl; auto.
  - exists m. repeat split; auto. apply M4. exists i0. 
    assert (Hin : List.In i0 (filter (dep_issuer issuer) (g_zone st))) by (rewrite ISS; now left).
    apply filter_In in Hin. exact Hin.
Qed.

(* ------------------------------------------------------------------ *)
(** * Two consecutive periods *)

Lemma kept_final_kdef sel : forall Z' Zf, kept sel Z' Zf = true -> Forall2 frame Z' Zf ->
  forall sf, List.In sf Zf -> forall s', frame s' sf -> forall n, (forall a b, frame a b -> sel b = sel a) ->
  List.In n (sel sf) -> is_kdef sf n = true.
Proof.
  intros Z' Zf HK HF. unfold kept in HK. revert HK. induction HF as [|a b l l' Hab _ IH]; simpl; intros HK sf Hsf s' Fr n Hsel Hn; [contradiction|].
  apply andb_true_iff in HK as [K1 K2]. destruct Hsf as [<-|Hsf].
  - rewrite forallb_forall in K1. rewrite (Hsel _ _ Hab) in Hn. specialize (K1 n Hn). unfold kept1 in K1.
    now apply andb_true_iff in K1 as [_ K1].
  - eapply IH; eassumption.
Qed.

(** when the previous period satisfied the final system too, its deposit stocks were consistent *)
Theorem sat_stock_consistent p Rn : build_run p = Ok Rn -> no_conflict p = true ->
  forall (vprev vpp : string -> R) (bvp : string -> string -> R),
    sat (r_final Rn) vprev vpp bvp -> stock_consistent Rn vprev bvp.
Proof.
  intros HR NC vprev vpp bvp HS i issuer st st' self Hx Fs sf Hsf.
  destruct (gen_entry_frames _ _ _ HR Hx) as [GS HF]. cbn [fst snd] in GS, HF.
  pose proof (no_conflict_gen _ _ _ HR NC Hx) as HOK. unfold gen_ok in HOK. rewrite Fs in HOK.
  apply andb_true_iff in HOK as [HOK _]. unfold deposit_ok in HOK.
  repeat (apply andb_true_iff in HOK as [HOK ?]). rename HOK into K.
  destruct (Forall2_In_r _ _ _ _ HF Hsf) as (s' & Hs' & Fr).
  assert (KD : forall n, List.In n (asset_sel (code self) sf) -> is_kdef sf n = true).
  { intros n Hn. eapply (kept_final_kdef _ _ _ K HF sf Hsf s' Fr n); [reflexivity|exact Hn]. }
  split; intros _; apply (sat_holds vprev vpp bvp _ sf _ HS Hsf); apply KD; unfold asset_sel; simpl; auto.
Qed.

Theorem main_stock_flow_two_periods p Rn : build_run p = Ok Rn -> no_conflict p = true ->
  forall (v vprev vpp : string -> R) (bv bvp : string -> string -> R),
    bv_zero bv -> sat (r_final Rn) v vprev bv -> sat (r_final Rn) vprev vpp bvp ->
    ledger_sum v (fs_zone (r_final Rn)) = 0.
Proof.
  intros HR NC v vprev vpp bv bvp HB H1 H2.
  eapply main_stock_flow_consistent; try eassumption. eapply sat_stock_consistent; eassumption.
Qed.
