(** Program-level C01 per currency zone and C07 for the multi-currency pipeline model. *)
From Coq Require Import List String Bool ZArith Arith Lia Reals Lra.
From SFC.Base Require Import Res Str Sorting.
From SFC.Gen Require Import Fx Flows Zone.
From SFC.GenMarket Require Import Market MarketProofs.
From SFC.GenTax Require Import Tax Dividends TaxProofs DividendProofs.
From SFC.GenMain2 Require Import Program Classes Main Ledger MainProofs Names Conflict Balance
                                 Program2 Main2 Ledger2 MainProofs2 Names2 Conflict2 Balance2.
Import ListNotations.
Local Open Scope string_scope.
Local Open Scope list_scope.
Local Open Scope R_scope.

Definition sum_lag (v : string -> R) (l : zone) : R :=
  TaxProofs.sumR (fun s => if hasF s then v (fullcode s ++ "__" ++ "LAG_F")%string else 0) l.
Definition sum_F (v : string -> R) (l : zone) : R :=
  TaxProofs.sumR (fun s => if hasF s then v (fullcode s ++ "__" ++ "F")%string else 0) l.

Lemma ledger_sum_split v l : ledger_sum v l = sum_F v l - sum_lag v l.
Proof.
  unfold ledger_sum, sum_F, sum_lag. induction l as [|a l IH]; cbn [TaxProofs.sumR]; [lra|]. rewrite IH. destruct (hasF a); lra.
Qed.

Lemma pot_start v bv bizs l : Forall ledger_init l -> pot v bv bizs l = sum_lag v l.
Proof.
  intros LI. unfold pot, zone_F, sum_lag.
  assert (A : forall s, List.In s l -> F_sum v s = (if hasF s then v (fullcode s ++ "__" ++ "LAG_F")%string else 0) /\ dv v bv bizs s = 0).
  { intros s Hs. rewrite Forall_forall in LI. specialize (LI s Hs). unfold ledger_init, F_of, INC_of in LI.
    assert (Q : qualify s "LAG_F" = (fullcode s ++ "__" ++ "LAG_F")%string) by reflexivity.
    unfold F_sum, dv, recv, f_has_div. destruct (hasF s); destruct LI as [L1 L2]; rewrite L1.
    - split.
      + change (tsum_in v s (terms (mkEqn "" [(1%Z, ["LAG_F"])]))) with (IZR 1 * (v (qualify s "LAG_F") * 1) + 0).
        rewrite Q. lra.
      + simpl. rewrite andb_false_r. reflexivity.
    - split; [reflexivity|]. rewrite andb_false_r. reflexivity. }
  rewrite (TaxProofs.sumR_ext _ _ _ (fun s Hs => proj1 (A s Hs))), (TaxProofs.sumR_ext (dv v bv bizs) (fun _ => 0) _ (fun s Hs => proj2 (A s Hs))).
  clear. induction l as [|a l IH]; cbn [TaxProofs.sumR]; lra.
Qed.

Lemma pot_fin v vprev bv (I : ginfo) E l :
  sat E v vprev bv -> final_ok I (fs_zone E) = true -> (forall sf, List.In sf l -> List.In sf (fs_zone E)) ->
  (forall sf, List.In sf l -> if hasF sf then exists tss, F_of sf = Some (mkEqn "" tss) else F_of sf = None) ->
  pot v bv (all_biz I (fs_zone E)) l = sum_F v l.
Proof.
  intros HS FOK SUB SH. unfold final_ok in FOK. rewrite forallb_forall in FOK. unfold pot, zone_F, sum_F.
  assert (B : forall sf, List.In sf l -> F_sum v sf = (if hasF sf then v (fullcode sf ++ "__" ++ "F")%string else 0) /\
                                        dv v bv (all_biz I (fs_zone E)) sf = 0).
  { intros sf Hl. pose proof (SUB sf Hl) as Hsf. specialize (FOK sf Hsf). apply andb_true_iff in FOK as [K1 K2].
    specialize (SH sf Hl). split.
    - unfold F_sum. unfold F_of in SH. destruct (hasF sf).
      + destruct SH as (tss & HFo). pose proof (sat_holds v vprev bv _ sf "F" HS Hsf K1) as HH.
        pose proof (holds_struct v bv sf "F" _ HFo HH) as X. unfold vname in X. rewrite HFo. cbn [terms]. lra.
      + now rewrite SH.
    - unfold dv. destruct (recv (all_biz I (fs_zone E)) sf); [|reflexivity].
      pose proof (sat_holds v vprev bv _ sf "DIV" HS Hsf K2) as HH. unfold holds in HH.
      destruct (lookup_var "DIV" (vars sf)); [|reflexivity]. rewrite HH. lra. }
  rewrite (TaxProofs.sumR_ext _ _ _ (fun s Hs => proj1 (B s Hs))), (TaxProofs.sumR_ext (dv v bv _) (fun _ => 0) _ (fun s Hs => proj2 (B s Hs))).
  clear. induction l as [|a l IH]; cbn [TaxProofs.sumR]; lra.
Qed.

Lemma sum_lag_frames v l l' : Forall2 frame l l' -> sum_lag v l' = sum_lag v l.
Proof.
  intros H. unfold sum_lag. induction H as [|a b l l' Hab _ IH]; cbn [TaxProofs.sumR]; [reflexivity|].
  now rewrite IH, (frame_hasF _ _ Hab), (frame_fullcode _ _ Hab).
Qed.

Lemma ledger_untouched2_b_ok p : ledger_untouched2_b p = true -> ledger_untouched2 p.
Proof.
  unfold ledger_untouched2_b, ledger_untouched2. rewrite forallb_forall. intros H x Hx. specialize (H _ Hx).
  assert (N : forall n, name_ok_b n = true -> name_ok n).
  { intros n Hn. unfold name_ok_b in Hn. apply andb_true_iff in Hn as [H1 H2]. apply negb_true_iff in H1, H2.
    apply String.eqb_neq in H1, H2. now split. }
  destruct x as [c cur rg| |ci c k|o]; simpl in *; auto.
  - apply andb_true_iff in H as [H1 H2]. split; [now apply N|]. destruct cur; [now apply N|exact I].
  - destruct o as [o|]; simpl in *; [|exact I]. destruct o; simpl in *; auto; now apply N.
Qed.

Lemma lookup_zones (g : string -> list term) c : forall zs, List.In c zs ->
  ledger_lookup c (map (fun x => (x, g x)) zs) = g c.
Proof.
  induction zs as [|z zs IH]; simpl; [contradiction|]. intros [->|H].
  - now rewrite String.eqb_refl.
  - destruct (String.eqb_spec c z) as [->|N]; [reflexivity|now apply IH].
Qed.

Lemma lookup_all_empty c : forall L, forallb (fun ct : string * list term => match snd ct with [] => true | _ => false end) L = true ->
  ledger_lookup c L = [].
Proof.
  induction L as [|[d ts] L IH]; simpl; [reflexivity|]. intros H. apply andb_true_iff in H as [H1 H2].
  destruct (String.eqb c d); [destruct ts; [reflexivity|discriminate]|now apply IH].
Qed.

(** the FX intermediary's net position in currency [c]: the variable EXT_FX__NET_<c> (0 without ExternalSector) *)
Definition net_value (Rn : run2) (v : string -> R) (c : string) : R :=
  match j_ext (q_info Rn) with Some _ => v (net_key c) | None => 0 end.

Lemma full_terms_tsum v s l : forallb full_term_b l = true -> tsum_in v s l = tsum v l.
Proof.
  intros H. apply tsum_in_full. apply Forall_forall. intros t Ht. rewrite forallb_forall in H. specialize (H t Ht).
  unfold full_term, full_term_b in *. apply Forall_forall. intros f Hf. rewrite forallb_forall in H. now apply H.
Qed.

(** value of NET_<c> at the end *)
Lemma net_final Rn v vprev bv c : sat (q_final Rn) v vprev bv ->
  final_ok2 (q_info Rn) (q_zone0 Rn) (fs_zone (q_final Rn)) = true ->
  List.In c (zones_of (j_countries (q_info Rn))) ->
  netv v (q_info Rn) (fs_zone (q_final Rn)) c = net_value Rn v c /\ netv v (q_info Rn) (q_zone0 Rn) c = 0.
Proof.
  intros HS FOK Hc. unfold final_ok2 in FOK. apply andb_true_iff in FOK as [_ FOK]. unfold netv, net_value, ledger_of.
  destruct (j_ext (q_info Rn)) as [e|] eqn:EX; [|split; reflexivity].
  destruct (find_sec (e_fx e) (fs_zone (q_final Rn))) as [fx|] eqn:Ffx; [|discriminate].
  destruct (find_sec (e_xr e) (fs_zone (q_final Rn))) as [xr|]; [|discriminate].
  unfold ledger_of in FOK. rewrite EX in FOK.
  destruct (find_sec (e_fx e) (q_zone0 Rn)) as [fx0|]; [|discriminate].
  repeat (apply andb_true_iff in FOK as [FOK ?]). rename H into KN, H0 into KE, H1 into KX. rename FOK into KF.
  apply String.eqb_eq in KF. rewrite forallb_forall in KN. specialize (KN c Hc).
  split.
  - cbn [net_terms]. rewrite (lookup_zones (net_of fx) c _ Hc). unfold net_of.
    destruct (lookup_var ("NET_" ++ c) (vars fx)) as [e0|] eqn:EL; [|discriminate].
    apply andb_true_iff in KN as [KN K3]. apply andb_true_iff in KN as [K1 K2]. apply String.eqb_eq in K1.
    pose proof (sat_holds v vprev bv _ fx _ HS (find_sec_In _ _ _ Ffx) K3) as HH.
    destruct e0 as [b0 ts0]. simpl in K1. subst b0.
    pose proof (holds_struct v bv fx _ _ EL HH) as X. unfold vname in X. rewrite KF in X.
    cbn [terms]. rewrite <- (full_terms_tsum v fx ts0 K2). rewrite <- X. reflexivity.
  - cbn [net_terms]. now rewrite (lookup_all_empty c _ KE).
Qed.

(** C01 per currency zone: under [no_conflict2], for every valuation satisfying the final system
    (previous-period deposit stocks consistent), the changes of the financial assets of the sectors
    of a real currency zone plus the FX intermediary's net position in that currency sum to zero. *)
Theorem main2_stock_flow_consistent p Rn : build_run2 p = Ok Rn -> no_conflict2 p = true ->
  forall (v vprev : string -> R) (bv bvp : string -> string -> R),
    bv_zero bv -> sat (q_final Rn) v vprev bv -> stock_consistent2 Rn vprev bvp ->
    forall c, c <> NUM -> List.In c (zones_of (j_countries (q_info Rn))) ->
      ledger_sum v (filter (in_zone (j_countries (q_info Rn)) c) (fs_zone (q_final Rn))) + net_value Rn v c = 0.
Proof.
  intros HR NC v vprev bv bvp HB HS SC c Hc Hz. unfold no_conflict2 in NC. rewrite HR in NC.
  apply andb_true_iff in NC as [LU CF]. apply ledger_untouched2_b_ok in LU.
  pose proof (main2_ledger_decomposition _ _ HR LU) as LD.
  destruct (build_run2_inv _ _ HR) as (st & HC & HM).
  pose proof (construct_all2_cinv _ _ HC) as CI.
  destruct (main_run2_inv _ _ HM) as (gfin & Z1 & E0 & EI & C1 & M1 & C2 & C3 & M3 & _).
  unfold conflict_free2 in CF. repeat (apply andb_true_iff in CF as [CF ?]).
  rename H into FOK, H0 into XOK, H1 into FLOK. rename CF into GOK.
  rewrite forallb_forall in GOK, FLOK, XOK.
  set (Zf := fs_zone (q_final Rn)) in *. set (J := q_info Rn) in *. set (bizsG := all_biz (to_old J) Zf).
  assert (FG : forall st0 b st', gen_step2 J st0 b = Ok st' -> Forall2 frame (h_zone st0) (h_zone st')).
  { intros st0 b st' Hs. apply (zstep_frame _ _ _ (gen_step2_zstep _ _ _ _ Hs)). }
  assert (FFl : forall Z b Z', flow_step2 J Z b = Ok Z' -> Forall2 frame Z Z').
  { intros Z b Z' Hs. apply (zstep_frame _ _ _ (flow2_zstep _ _ _ _ Hs)). }
  pose proof (chain_frames exo_step (fun Z => Z) exo_step_frame _ _ _ C3) as F3.
  pose proof (chain_frames (flow_step2 J) (fun Z => Z) FFl _ _ _ C2) as F2.
  pose proof (chain_frames (gen_step2 J) h_zone FG _ _ _ C1) as F1. cbn [h_zone] in F1.
  assert (ND0 : NoDup (map sid (zone02 st))).
  { apply NoDup_map_inj; [eapply zone02_nodup; exact CI|].
    intros x y Hx Hy E. apply zone02_In in Hx as (s & Hs & -> & _). apply zone02_In in Hy as (s' & Hs' & -> & _).
    f_equal. simpl in E. apply (NoDup_map_In_inj sid (k_secs st)); [|exact Hs|exact Hs'|exact E].
    rewrite (d_sids _ _ _ _ CI). apply seq_NoDup. }
  assert (NDg : NoDup (map sid (h_zone gfin))) by (rewrite (map_frame sid _ _ frame_sid F1); exact ND0).
  assert (ND1 : NoDup (map sid Z1)) by (rewrite (map_frame sid _ _ frame_sid F2); exact NDg).
  assert (BZ : forall Z, Forall2 frame Z Zf -> forall s, List.In s Z ->
                existsb (Nat.eqb (sid s)) bizsG = is_fmb (class_of (i_classes (to_old J)) (sid s))).
  { intros Z HF s Hs. apply all_biz_member. rewrite (map_frame sid _ _ frame_sid HF). now apply in_map. }
  assert (P3 : pot2 v bv J bizsG c Zf = pot2 v bv J bizsG c Z1).
  { apply (chain_pot exo_step (fun Z => Z) (pot2 v bv J bizsG c) Zf exo_step_frame _ _ _ C3); [|apply Forall2_refl_frame|exact ND1].
    intros [[x Za] Zb] Hx HF _. cbn [fst snd].
    apply (exo2_pot v bv J bizsG x Za Zb (chain_In _ _ _ _ _ C3 Hx) (XOK _ Hx)). }
  assert (P2 : pot2 v bv J bizsG c Z1 = pot2 v bv J bizsG c (h_zone gfin)).
  { apply (chain_pot (flow_step2 J) (fun Z => Z) (pot2 v bv J bizsG c) Z1 FFl _ _ _ C2); [|apply Forall2_refl_frame|exact NDg].
    intros [[fl Za] Zb] Hx HF ND. cbn [fst snd] in *.
    pose proof (chain_In _ _ _ _ _ C2 Hx) as FS. cbn [fst snd] in FS.
    apply (flow2_pot v bv J bizsG fl Za Zb ND (FFl _ _ _ FS) (FLOK _ Hx) c Hc). }
  assert (P1 : pot2 v bv J bizsG c (h_zone gfin) = pot2 v bv J bizsG c (zone02 st)).
  { apply (chain_pot (gen_step2 J) h_zone (pot2 v bv J bizsG c) Zf FG _ _ _ C1); [| |exact ND0].
    2:{ eapply Forall2_trans_frame; [exact F2|exact F3]. }
    intros [[[i k] sa] sb] Hx HF ND. cbn [fst snd] in *.
    pose proof (chain_In _ _ _ _ _ C1 Hx) as GS. cbn [fst snd] in GS.
    apply (gen_step2_pot v vprev bv bvp J bizsG Rn i k sa sb HS HB SC Hx GS); [|apply GOK; exact Hx|exact HF|exact ND| |exact Hc].
    - assert (Hm : List.In (i, k) (map (fun x => fst (fst x)) (q_gen Rn))) by (apply in_map_iff; exists (i, k, sa, sb); auto).
      rewrite M1 in Hm. apply in_map_iff in Hm as (s0 & E & _). injection E as <- <-. rewrite EI. reflexivity.
    - apply BZ. eapply Forall2_trans_frame; [apply (FG _ _ _ GS)|exact HF]. }
  rewrite E0 in LD.
  pose proof (Forall2_trans_frame _ _ _ F1 (Forall2_trans_frame _ _ _ F2 F3)) as FA. fold Zf in FA.
  set (inzc := in_zone (j_countries J) c) in *.
  assert (FAc : Forall2 frame (filter inzc (zone02 st)) (filter inzc Zf)) by (apply filter_frame; [apply in_zone_stable|exact FA]).
  (* the two ends *)
  destruct (net_final Rn v vprev bv c HS FOK Hz) as [NF N0]. fold J Zf in NF, N0. rewrite E0 in N0.
  assert (START : pot2 v bv J bizsG c (zone02 st) = sum_lag v (filter inzc (zone02 st))).
  { unfold pot2. rewrite N0. fold inzc. change (inz J c) with inzc. rewrite pot_start; [lra|].
    pose proof (zone02_ledger_init _ _ CI LU) as LI. rewrite Forall_forall in *. intros s Hs. apply filter_In in Hs as [Hs _]. now apply LI. }
  assert (FIN : pot2 v bv J bizsG c Zf = sum_F v (filter inzc Zf) + net_value Rn v c).
  { unfold pot2. rewrite NF. change (inz J c) with inzc. f_equal.
    apply andb_true_iff in FOK as [FOK1 _].
    apply (pot_fin v vprev bv (to_old J) (q_final Rn) (filter inzc Zf) HS FOK1).
    - intros sf Hsf. now apply filter_In in Hsf as [Hsf _].
    - intros sf Hsf. apply filter_In in Hsf as [Hsf _].
      destruct (Forall2_In_r _ _ _ _ LD Hsf) as (s & Hs & (Fr & tss & _ & HH)).
      rewrite (frame_hasF _ _ Fr). destruct (hasF s); [destruct HH as (HH & _); eauto|tauto]. }
  rewrite ledger_sum_split, (sum_lag_frames v _ _ FAc).
  assert (TOT : pot2 v bv J bizsG c Zf = pot2 v bv J bizsG c (zone02 st)) by (rewrite P3, P2, P1; reflexivity).
  rewrite FIN, START in TOT. lra.
Qed.

(* ------------------------------------------------------------------ *)
(** * C07: the FX intermediary's position valued in the numeraire *)

Inductive paired : list fxop -> Prop :=
| paired_nil : paired []
| paired_cons h a x r : paired r -> paired (Send h x :: Receive h a x :: r).

Lemma market_ops_paired J Z h mk : forall ids, paired (market_ops J Z h mk ids).
Proof.
  induction ids as [|i r IH]; simpl; [constructor|]. destruct (find_sec i Z) as [s|]; [|exact IH].
  destruct (String.eqb (cur_of_sec J s) h); [exact IH|now constructor].
Qed.

(** what the checks of [no_conflict2] say about the NET term lists across a step: they evolved by
    FX operations between registered real currencies; by send/receive pairs unless the step is a gold purchase *)
Definition step_fx (J : ginfo2) (gold : bool) (Z Z' : zone) : Prop :=
  exists ops, ledger_of J Z' = apply_ops (ledger_of J Z) ops /\ forallb op_real ops = true /\
              forallb (op_in (zones_of (j_countries J))) ops = true /\ (gold = false -> paired ops).

Lemma fx_ok_step J g Z Z' ops : fx_ok J Z Z' ops = true -> (g = false -> paired ops) -> step_fx J g Z Z'.
Proof.
  unfold fx_ok. intros H P. apply andb_true_iff in H as [H H3]. apply andb_true_iff in H as [H1 H2].
  apply oledger_eqb_eq in H1. exists ops. auto.
Qed.

Lemma same_step J g Z : step_fx J g Z Z.
Proof. exists []. repeat split; auto; [unfold apply_ops; destruct (ledger_of J Z); reflexivity|intros _; constructor]. Qed.

Definition is_gold (k : cls2) : bool := match k with CGoldGov _ | CGoldCB _ _ => true | _ => false end.

Lemma gen_ok2_fx J Zf i k st st' : gen_ok2 J Zf ((i, k), st, st') = true -> step_fx J (is_gold k) (h_zone st) (h_zone st').
Proof.
  unfold gen_ok2. destruct (find_sec i (h_zone st)) as [self|]; [|discriminate].
  assert (SAME : zone_eqb (h_zone st') (h_zone st) = true -> step_fx J (is_gold k) (h_zone st) (h_zone st')).
  { intros E. apply zone_eqb_eq in E. rewrite E. apply same_step. }
  assert (LOC : forall k0, local_ok J Zf i k0 self (h_zone st) (h_zone st') = true -> step_fx J (is_gold k) (h_zone st) (h_zone st')).
  { intros k0 H. unfold local_ok in H. destruct (gen_step _ _ _); [|discriminate]. apply andb_true_iff in H as [_ H].
    eapply fx_ok_step; [exact H|intros _; constructor]. }
  assert (GOLD : gold_ok J i self (h_zone st) (h_zone st') = true -> step_fx J true (h_zone st) (h_zone st')).
  { intros H. unfold gold_ok in H. repeat (apply andb_true_iff in H as [H ?]). eapply fx_ok_step; [eassumption|discriminate]. }
  destruct k as [k0|stock|t stock| | |]; simpl; auto.
  destruct k0; auto; try (apply LOC).
  destruct (sup_of i (j_sup J)) as [res others].
  destruct (supplier_currencies J (h_zone st) (cur_of_sec J self) _) as [|a [|b l]]; [apply LOC| |discriminate].
  intros H. unfold foreign_market_ok in H.
  destruct (market_generate _ _ _ _ _ _); [|discriminate]. destruct (find_sec i (filter _ (h_zone st))) as [mk|]; [|discriminate].
  destruct (the_residual _ mk res) as [r|]; [|discriminate]. destruct (find_all _ _); [|discriminate]. destruct (find_sec r _); [|discriminate].
  repeat (apply andb_true_iff in H as [H ?]). eapply fx_ok_step; [eassumption|]. intros _. apply market_ops_paired.
Qed.

Lemma flow_ok2_fx J f Z Z' : flow_ok2 J (f, Z, Z') = true -> step_fx J false Z Z'.
Proof.
  destruct f as [[[[src tgt] var] a] b]. unfold flow_ok2. intros H. apply andb_true_iff in H as [_ H].
  destruct tgt as [tg|]; [|discriminate]. destruct (find_sec src Z) as [s|]; [|discriminate]. destruct (find_sec tg Z) as [t|]; [|discriminate].
  destruct (String.eqb _ _).
  - destruct (flow_step _ _); [|discriminate]. apply andb_true_iff in H as [_ H]. eapply fx_ok_step; [exact H|intros _; constructor].
  - repeat (apply andb_true_iff in H as [H ?]). eapply fx_ok_step; [eassumption|]. intros _. repeat constructor.
Qed.

Lemma exo_ok2_fx J x Z Z' : exo_ok2 J (x, Z, Z') = true -> step_fx J false Z Z'.
Proof.
  destruct x as [[s n] spec]. unfold exo_ok2. intros H. repeat (apply andb_true_iff in H as [H ?]).
  eapply fx_ok_step; [eassumption|intros _; constructor].
Qed.

Section Val.
Variables (v : string -> R) (J : ginfo2).
Let zs := zones_of (j_countries J).
Hypothesis RT : rates_ok2 zs v.

Definition VAL (Z : zone) : R := match ledger_of J Z with Some L => valued v L | None => 0 end.
Definition NUMS (Z : zone) : R := match ledger_of J Z with Some L => num_sum v L | None => 0 end.

Lemma ops_valued : forall ops L, forallb op_real ops = true -> forallb (op_in zs) ops = true ->
  valued v (fold_left fx_step ops L) = valued v L.
Proof.
  induction ops as [|o ops IH]; intros L H1 H2; simpl in *; [reflexivity|].
  apply andb_true_iff in H1 as [R1 R2]. apply andb_true_iff in H2 as [I1 I2].
  rewrite (IH _ R2 I2). apply fx_step_valued. constructor; [|constructor].
  destruct o as [s x|s t x]; simpl in *.
  - apply negb_true_iff in R1. now apply String.eqb_neq in R1.
  - apply andb_true_iff in R1 as [R1 R3]. apply andb_true_iff in R1 as [R1 R4].
    apply negb_true_iff in R1, R4. apply String.eqb_neq in R1, R4.
    apply andb_true_iff in I1 as [I1 I3]. apply mem_In in I1, I3.
    apply negb_true_iff in R3. apply String.eqb_neq in R3.
    destruct (RT s t I1 I3 R4 R3) as [A B]. auto.
Qed.

Lemma step_val g Z Z' : step_fx J g Z Z' -> VAL Z' = VAL Z.
Proof.
  intros (ops & E & H1 & H2 & _). unfold VAL. rewrite E. unfold apply_ops. destruct (ledger_of J Z); simpl; [|reflexivity].
  now apply ops_valued.
Qed.

Lemma paired_num : forall ops, paired ops -> forallb op_real ops = true -> forall L, num_sum v (fold_left fx_step ops L) = num_sum v L.
Proof.
  intros ops P. induction P as [|h a x r P IH]; intros H L; simpl in *; [reflexivity|].
  apply andb_true_iff in H as [R1 H]. apply andb_true_iff in H as [R2 H].
  rewrite (IH H). apply andb_true_iff in R2 as [R2 _]. apply andb_true_iff in R2 as [R2 R3].
  apply negb_true_iff in R2, R3. apply String.eqb_neq in R2, R3.
  now apply fx_pair_numeraire.
Qed.

Lemma step_nums Z Z' : step_fx J false Z Z' -> NUMS Z' = NUMS Z.
Proof.
  intros (ops & E & H1 & H2 & P). unfold NUMS. rewrite E. unfold apply_ops. destruct (ledger_of J Z); simpl; [|reflexivity].
  apply paired_num; auto.
Qed.
End Val.

Lemma valued_zones v (g : string -> list term) : forall zs,
  valued v (map (fun c => (c, g c)) zs) = TaxProofs.sumR (fun c => tsum v (g c) * rate v c) zs.
Proof. induction zs as [|z zs IH]; simpl; [reflexivity|]. now rewrite IH. Qed.

Lemma valued_all_empty v : forall L, forallb (fun ct : string * list term => match snd ct with [] => true | _ => false end) L = true ->
  valued v L = 0 /\ num_sum v L = 0.
Proof.
  induction L as [|[d ts] L IH]; simpl; [split; reflexivity|]. intros H. apply andb_true_iff in H as [H1 H2].
  destruct (IH H2) as [A B]. destruct ts; [|discriminate]. simpl. rewrite A, B. destruct (String.eqb d NUM); split; lra.
Qed.

Lemma num_sum_zones v (g : string -> list term) : forall zs, NoDup zs ->
  num_sum v (map (fun c => (c, g c)) zs) = if mem NUM zs then tsum v (g NUM) else 0.
Proof.
  induction zs as [|z zs IH]; intros ND; cbn [num_sum map mem fst snd]; [reflexivity|]. inversion ND as [|? ? Hn Hd]; subst.
  rewrite (IH Hd). rewrite (String.eqb_sym NUM z). destruct (String.eqb_spec z NUM) as [->|N].
  - assert (M : mem NUM zs = false) by (destruct (mem NUM zs) eqn:M; [apply mem_In in M; contradiction|reflexivity]).
    rewrite M. lra.
  - lra.
Qed.

Lemma chain_inv {S B} (f : S -> B -> result S) (pz : S -> zone) (P : zone -> R) : forall tr st st', chain f tr st st' ->
  (forall x, List.In x tr -> P (pz (snd x)) = P (pz (snd (fst x)))) -> P (pz st') = P (pz st).
Proof.
  induction tr as [|[[b x] y] tr IH]; intros st st' C HX; inversion C; subst; [reflexivity|].
  match goal with Hc : chain f tr _ st' |- _ => rewrite (IH _ _ Hc (fun x0 Hx => HX x0 (or_intror Hx))) end.
  apply (HX (b, st, y) (or_introl eq_refl)).
Qed.

(** C07: with an ExternalSector, for every valuation satisfying the final system in which every real
    currency has a non-zero rate and every cross rate is the quotient of the two rates, the FX
    intermediary's net transactions valued in the numeraire sum to zero over all currencies (the
    numeraire itself included, at rate 1); and NET_NUMERAIRE itself is zero when the program has no
    gold purchases, whatever the rates. *)
Theorem main2_fx_valued_zero p Rn : build_run2 p = Ok Rn -> no_conflict2 p = true ->
  j_ext (q_info Rn) <> None ->
  forall (v vprev : string -> R) (bv : string -> string -> R), sat (q_final Rn) v vprev bv ->
    let zs := zones_of (j_countries (q_info Rn)) in
    (rates_ok2 zs v -> TaxProofs.sumR (fun c => v (net_key c) * rate v c) zs = 0) /\
    (forallb (fun x => negb (is_gold (snd (fst (fst x))))) (q_gen Rn) = true -> List.In NUM zs -> v (net_key NUM) = 0).
Proof.
  intros HR NC EX v vprev bv HS zs. unfold no_conflict2 in NC. rewrite HR in NC.
  apply andb_true_iff in NC as [LU CF].
  destruct (build_run2_inv _ _ HR) as (st & HC & HM).
  destruct (main_run2_inv _ _ HM) as (gfin & Z1 & E0 & EI & C1 & M1 & C2 & C3 & M3 & _).
  unfold conflict_free2 in CF. repeat (apply andb_true_iff in CF as [CF ?]).
  rename H into FOK, H0 into XOK, H1 into FLOK. rename CF into GOK.
  rewrite forallb_forall in GOK, FLOK, XOK.
  set (Zf := fs_zone (q_final Rn)) in *. set (J := q_info Rn) in *.
  assert (ALLC : forall c, List.In c zs -> netv v J Zf c = net_value Rn v c).
  { intros c Hc. apply (net_final Rn v vprev bv c HS FOK Hc). }
  pose proof FOK as FOK'. unfold final_ok2 in FOK'. apply andb_true_iff in FOK' as [_ FOK'].
  fold J in FOK'. destruct (j_ext J) as [e|] eqn:EJ; [|congruence].
  fold Zf in FOK'. destruct (find_sec (e_fx e) Zf) as [fx|] eqn:Ffx; [|discriminate]. destruct (find_sec (e_xr e) Zf) as [xr|]; [|discriminate].
  destruct (ledger_of J (q_zone0 Rn)) as [L0|] eqn:EL0; [|discriminate].
  repeat (apply andb_true_iff in FOK' as [FOK' ?]). rename H0 into KE.
  destruct (valued_all_empty v L0 KE) as [V0 N0].
  assert (LF : ledger_of J Zf = Some (map (fun c => (c, net_of fx c)) zs)).
  { unfold ledger_of. rewrite EJ. now rewrite Ffx. }
  assert (NETC : forall c, List.In c zs -> v (net_key c) = tsum v (net_of fx c)).
  { intros c Hc. specialize (ALLC c Hc). unfold netv, net_value in ALLC. fold J in ALLC. rewrite EJ, LF in ALLC.
    cbn [net_terms] in ALLC. rewrite (lookup_zones (net_of fx) c _ Hc) in ALLC. now rewrite ALLC. }
  split.
  - intros RT.
    assert (INV : VAL v J Zf = VAL v J (q_zone0 Rn)).
    { rewrite E0.
      rewrite (chain_inv exo_step (fun Z => Z) (VAL v J) _ _ _ C3).
      2:{ intros [[x Za] Zb] Hx. cbn [fst snd]. eapply (step_val v J RT). apply (exo_ok2_fx _ _ _ _ (XOK _ Hx)). }
      rewrite (chain_inv (flow_step2 J) (fun Z => Z) (VAL v J) _ _ _ C2).
      2:{ intros [[x Za] Zb] Hx. cbn [fst snd]. eapply (step_val v J RT). apply (flow_ok2_fx _ _ _ _ (FLOK _ Hx)). }
      apply (chain_inv (gen_step2 J) h_zone (VAL v J) _ _ _ C1).
      intros [[[i k] sa] sb] Hx. cbn [fst snd]. eapply (step_val v J RT). apply (gen_ok2_fx _ _ _ _ _ _ (GOK _ Hx)). }
    unfold VAL in INV. rewrite LF, EL0, valued_zones, V0 in INV. rewrite <- INV.
    apply TaxProofs.sumR_ext. intros c Hc. now rewrite (NETC c Hc).
  - intros NG HN.
    rewrite forallb_forall in NG.
    assert (INV : NUMS v J Zf = NUMS v J (q_zone0 Rn)).
    { rewrite E0.
      rewrite (chain_inv exo_step (fun Z => Z) (NUMS v J) _ _ _ C3).
      2:{ intros [[x Za] Zb] Hx. cbn [fst snd]. apply (step_nums v J). apply (exo_ok2_fx _ _ _ _ (XOK _ Hx)). }
      rewrite (chain_inv (flow_step2 J) (fun Z => Z) (NUMS v J) _ _ _ C2).
      2:{ intros [[x Za] Zb] Hx. cbn [fst snd]. apply (step_nums v J). apply (flow_ok2_fx _ _ _ _ (FLOK _ Hx)). }
      apply (chain_inv (gen_step2 J) h_zone (NUMS v J) _ _ _ C1).
      intros [[[i k] sa] sb] Hx. cbn [fst snd]. apply (step_nums v J).
      pose proof (gen_ok2_fx _ _ _ _ _ _ (GOK _ Hx)) as SF. specialize (NG _ Hx). cbn [fst snd] in NG.
      apply negb_true_iff in NG. now rewrite NG in SF. }
    unfold NUMS in INV. rewrite LF, EL0, N0 in INV. rewrite (num_sum_zones v (net_of fx) zs (NoDup_nodup _ _)) in INV.
    apply mem_In in HN. rewrite HN in INV. now rewrite (NETC NUM (proj1 (mem_In _ _) HN)).
Qed.
