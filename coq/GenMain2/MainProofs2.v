(** Program-level facts about the multi-currency pipeline model Main2.v: construction invariant,
    the run as a chain of [zstep]s. *)
From Coq Require Import List String Bool ZArith Arith Lia.
From SFC.Base Require Import Res Str Sorting.
From SFC.Gen Require Import Fx Zone.
From SFC.GenMarket Require Import Market MarketProofs.
From SFC.GenAsset Require Import Common CommonProofs Money MoneyProofs Deposit DepositProofs Weighting WeightingProofs.
From SFC.GenTax Require Import Tax Dividends TaxProofs DividendProofs.
From SFC.GenMain2 Require Import Program Classes Main Ledger MainProofs Names Program2 Main2 Ledger2.
Import ListNotations.
Local Open Scope string_scope.
Local Open Scope list_scope.

Definition name_ok (n : string) : Prop := n <> "F" /\ n <> "INC".

(* ------------------------------------------------------------------ *)
(** * Constructors *)

Definition bare2 (i : nat) (c cc : string) (k : cls2) : sector :=
  match k with
  | CXR | CFX | CGOLD => base_sector i c cc false false false []
  | _ => bare i c cc (old_class k)
  end.

Lemma construct2_facts i cc c k mrefs s : construct2 i cc c k mrefs = Ok s ->
  sid s = i /\ code s = c /\ country s = cc /\ fullcode s = "" /\ ledger_init s.
Proof.
  destruct k; simpl; try (apply construct_facts).
  all: intros H; injection H as <-; unfold ledger_init; simpl; repeat split.
Qed.

(* ------------------------------------------------------------------ *)
(** * Registering currencies *)

Lemma register_currency_zstep e cur SL SL' : name_ok cur -> register_currency e cur SL = Ok SL' -> zstep nothing SL SL'.
Proof.
  intros [N1 N2] H. unfold register_currency in H. bind_step H S1 E1.
  eapply zstep_trans; [apply nothing_stable| |].
  - eapply on_sector_zstep; [exact E1|]. intros s s' E. eapply addv_lstep; [exact N1|exact N2|exact E].
  - eapply on_sector_zstep; [exact H|]. intros s s' E. eapply addvs_lstep; [|exact E]. reflexivity.
Qed.

Lemma addvs_frame : forall l s s', addvs s l = Ok s' -> frame s s'.
Proof.
  induction l as [|[n t] l IH]; intros s s' E; simpl in E; [injection E as <-; apply frame_refl|].
  destruct (addv s n t) as [s1|] eqn:A; [|discriminate]. simpl in E.
  eapply frame_trans; [eapply addv_frame; exact A|now apply IH].
Qed.

Lemma register_currency_frame e cur SL SL' : register_currency e cur SL = Ok SL' -> Forall2 frame SL SL'.
Proof.
  intros H. unfold register_currency in H. bind_step H S1 E1.
  eapply Forall2_trans_frame.
  - eapply on_sector_frame; [exact E1|]. intros s s' E. eapply addv_frame; exact E.
  - eapply on_sector_frame; [exact H|]. intros s s' E. eapply addvs_frame; exact E.
Qed.

Lemma register_all_frame e : forall curs SL SL', register_all e curs SL = Ok SL' -> Forall2 frame SL SL'.
Proof.
  induction curs as [|c r IH]; intros SL SL' H; simpl in H; [injection H as <-; apply Forall2_refl_frame|].
  bind_step H S1 E1. eapply Forall2_trans_frame; [eapply register_currency_frame; exact E1|now apply IH].
Qed.

Lemma register_all_zstep e : forall curs SL SL', Forall name_ok curs -> register_all e curs SL = Ok SL' -> zstep nothing SL SL'.
Proof.
  induction curs as [|c r IH]; intros SL SL' HN H; simpl in H; [injection H as <-; apply zstep_refl|].
  inversion HN; subst. bind_step H S1 E1.
  eapply zstep_trans; [apply nothing_stable|eapply register_currency_zstep; eassumption|now apply IH].
Qed.

(* ------------------------------------------------------------------ *)
(** * Specifications of the construction steps *)

Definition same_aux (st st' : kstate) : Prop :=
  k_classes st' = k_classes st /\ k_sup st' = k_sup st /\ k_flows st' = k_flows st /\ k_exo st' = k_exo st /\ k_ic st' = k_ic st.

Lemma add_country_spec st code cur st' : add_country st code cur = Ok st' ->
  k_countries st' = k_countries st ++ [(code, cur)] /\ ~ List.In code (map fst (k_countries st)) /\
  Forall2 frame (k_secs st) (k_secs st') /\ (name_ok cur -> zstep nothing (k_secs st) (k_secs st')) /\
  k_ext st' = k_ext st /\ k_exo st' = k_exo st.
Proof.
  unfold add_country. destruct (mem code (map fst (k_countries st))) eqn:M; [discriminate|]. intros H.
  bind_step H SL E. injection H as <-. cbn.
  assert (NI : ~ List.In code (map fst (k_countries st))) by (intros Hin; apply mem_In in Hin; congruence).
  assert (FR : Forall2 frame (k_secs st) SL /\ (name_ok cur -> zstep nothing (k_secs st) SL)).
  { destruct (k_ext st) as [e|]; [destruct (negb _)|]; try (injection E as <-; split; [apply Forall2_refl_frame|intros _; apply zstep_refl]).
    split; [eapply register_currency_frame; exact E|intros N; eapply register_currency_zstep; eassumption]. }
  destruct FR. repeat split; auto.
Qed.

Lemma add_sector_spec st ci c k st' : add_sector st ci c k = Ok st' ->
  exists cc cur s,
    nth_error (k_countries st) ci = Some (cc, cur) /\
    k_secs st' = k_secs st ++ [s] /\ k_classes st' = k_classes st ++ [k] /\
    sid s = List.length (k_secs st) /\ code s = c /\ country s = cc /\ fullcode s = "" /\ ledger_init s /\
    ~ List.In (cc, c) (map pair_of (k_secs st)) /\
    k_countries st' = k_countries st /\ k_ext st' = k_ext st /\ k_exo st' = k_exo st /\ k_default st' = k_default st.
Proof.
  unfold add_sector. destruct (nth_error (k_countries st) ci) as [[cc cur]|] eqn:N; [|discriminate].
  destruct (existsb _ (k_secs st)) eqn:EX; [discriminate|]. intros H.
  bind_step H mrefs E1. bind_step H s E2. injection H as <-. cbn.
  destruct (construct2_facts _ _ _ _ _ _ E2) as (F1 & F2 & F3 & F4 & F5).
  exists cc, cur, s. repeat split; auto.
  intros Hin. apply in_map_iff in Hin as (s0 & P & Hin).
  assert (T : existsb (fun s1 => in_country cc s1 && String.eqb (code s1) c) (k_secs st) = true).
  { apply existsb_exists. exists s0. split; [exact Hin|]. unfold pair_of in P.
    injection P as P1 P2. unfold in_country. rewrite P1, P2, !String.eqb_refl. reflexivity. }
  congruence.
Qed.

(* ------------------------------------------------------------------ *)
(** * The construction invariant *)

Definition op2_name_ok (o : uop2) : Prop := match o with UOld x => op_name_ok x | UAddMarket _ _ => True end.

Definition step2_ok (x : step2) : Prop :=
  match x with
  | S2Country c cur _ => name_ok c /\ match cur with Some y => name_ok y | None => True end
  | S2Op o => op2_name_ok o
  | _ => True
  end.

(** no user operation names F or INC, and no country code / currency is spelled F or INC (a
    currency becomes a variable name of EXT's XR sector) *)
Definition ledger_untouched2 (p : program2) : Prop := forall x, List.In x p -> step2_ok x.

Lemma country_steps_app p q : country_steps (p ++ q) = country_steps p ++ country_steps q.
Proof. induction p as [|x p IH]; [reflexivity|]. destruct x; simpl; [now rewrite IH|now rewrite IH|exact IH|exact IH]. Qed.

Lemma sector_decls2_from_app p q : forall n,
  sector_decls2_from n (p ++ q) = sector_decls2_from n p ++ sector_decls2_from (n + List.length (country_steps p)) q.
Proof.
  induction p as [|[c cur rg| |ci c k|o] p IH]; intros n; simpl.
  - now rewrite Nat.add_0_r.
  - rewrite IH. simpl. now rewrite Nat.add_succ_r.
  - rewrite IH. simpl. now rewrite Nat.add_succ_r.
  - now rewrite IH.
  - apply IH.
Qed.

Record cinvL (ccodes : list string) (decls : list (nat * string * cls2)) (ok : Prop) (st : kstate) : Prop := mkCinvL {
  d_countries : map fst (k_countries st) = ccodes;
  d_cnodup : NoDup (map fst (k_countries st));
  d_codes : map code (k_secs st) = map (fun d => snd (fst d)) decls;
  d_ctry : Forall2 (fun d cc => nth_error (map fst (k_countries st)) (fst (fst d)) = Some cc)
                   decls (map country (k_secs st));
  d_sids : map sid (k_secs st) = seq 0 (List.length (k_secs st));
  d_pairs : NoDup (map pair_of (k_secs st));
  d_fc : map fullcode (k_secs st) = map (fun _ => "") (k_secs st);
  d_ledger : ok ->
             Forall ledger_init (k_secs st) /\
             Forall (fun x : nat * string * string => snd (fst x) <> "F" /\ snd (fst x) <> "INC") (k_exo st) /\
             Forall name_ok (map snd (k_countries st)) /\ name_ok (k_default st)
}.

Definition cinv2 (p : program2) (st : kstate) : Prop :=
  cinvL (country_codes2 p) (sector_decls2 p) (ledger_untouched2 p) st.

Lemma untouched2_prefix p x : ledger_untouched2 (p ++ [x]) -> ledger_untouched2 p /\ step2_ok x.
Proof.
  intros H. split; [intros y Hy; apply H; apply in_or_app; now left|apply H; apply in_or_app; right; now left].
Qed.

(** a step that changes only equations of existing sectors (and possibly the auxiliary lists) *)
Lemma cinvL_same_statics cc dl (ok ok' : Prop) st st' :
  cinvL cc dl ok st -> (ok' -> ok) ->
  k_countries st' = k_countries st -> Forall2 frame (k_secs st) (k_secs st') ->
  (ok' -> Forall ledger_init (k_secs st) ->
     Forall (fun y : nat * string * string => snd (fst y) <> "F" /\ snd (fst y) <> "INC") (k_exo st) ->
     name_ok (k_default st) ->
     Forall ledger_init (k_secs st') /\
     Forall (fun y : nat * string * string => snd (fst y) <> "F" /\ snd (fst y) <> "INC") (k_exo st') /\ name_ok (k_default st')) ->
  cinvL cc dl ok' st'.
Proof.
  intros [I1 I2 I3 I4 I5 I6 I7 I8] Hok Hcs Hf HL.
  assert (Len : List.length (k_secs st') = List.length (k_secs st)).
  { clear -Hf. induction Hf; simpl; congruence. }
  constructor.
  - now rewrite Hcs.
  - now rewrite Hcs.
  - rewrite <- I3. apply map_frame; [apply frame_code|exact Hf].
  - rewrite Hcs, (map_frame country _ _ frame_country Hf). exact I4.
  - rewrite Len, <- I5. apply map_frame; [apply frame_sid|exact Hf].
  - rewrite (map_frame pair_of _ _ (fun s s' H => f_equal2 pair (frame_country _ _ H) (frame_code _ _ H)) Hf). exact I6.
  - rewrite (map_frame fullcode _ _ frame_fullcode Hf), I7. clear -Len.
    revert Len. generalize (k_secs st). induction (k_secs st') as [|a l IH]; intros [|b l2]; simpl; try discriminate; [reflexivity|].
    intros H. f_equal. apply IH. congruence.
  - intros LU. destruct (I8 (Hok LU)) as (A & B & C & D).
    destruct (HL LU A B D) as (A' & B' & D'). rewrite Hcs. auto.
Qed.

Lemma cinv2_same_statics p x st st' :
  cinv2 p st -> country_steps (p ++ [x]) = country_steps p -> sector_decls2 (p ++ [x]) = sector_decls2 p ->
  k_countries st' = k_countries st -> Forall2 frame (k_secs st) (k_secs st') ->
  (ledger_untouched2 (p ++ [x]) -> Forall ledger_init (k_secs st) ->
     Forall (fun y : nat * string * string => snd (fst y) <> "F" /\ snd (fst y) <> "INC") (k_exo st) ->
     name_ok (k_default st) ->
     Forall ledger_init (k_secs st') /\
     Forall (fun y : nat * string * string => snd (fst y) <> "F" /\ snd (fst y) <> "INC") (k_exo st') /\ name_ok (k_default st')) ->
  cinv2 (p ++ [x]) st'.
Proof.
  intros CI Hc Hd Hcs Hf HL. unfold cinv2, country_codes2. rewrite Hc, Hd.
  eapply cinvL_same_statics; [exact CI|apply untouched2_prefix|exact Hcs|exact Hf|exact HL].
Qed.

Lemma run_op2_cinv p st o st' : cinv2 p st -> run_op2 st o = Ok st' -> cinv2 (p ++ [S2Op o]) st'.
Proof.
  intros CI H.
  assert (CS : country_steps (p ++ [S2Op o]) = country_steps p) by (rewrite country_steps_app; apply app_nil_r).
  assert (SD : sector_decls2 (p ++ [S2Op o]) = sector_decls2 p).
  { unfold sector_decls2. rewrite sector_decls2_from_app. apply List.app_nil_r. }
  assert (K : forall st'', k_countries st'' = k_countries st -> k_secs st'' = k_secs st -> k_exo st'' = k_exo st ->
              k_default st'' = k_default st -> cinv2 (p ++ [S2Op o]) st'').
  { intros st'' E1 E2 E3 E4. eapply cinv2_same_statics; [exact CI|exact CS|exact SD|exact E1| |].
    - rewrite E2. apply Forall2_refl_frame.
    - intros _ A B D. rewrite E2, E3, E4. auto. }
  assert (KS : forall SL, Forall2 frame (k_secs st) SL ->
              (op2_name_ok o -> zstep nothing (k_secs st) SL) -> cinv2 (p ++ [S2Op o]) (upd_k st SL)).
  { intros SL FR ZS. eapply cinv2_same_statics; [exact CI|exact CS|exact SD|reflexivity|exact FR|].
    cbn. intros LU A B D. destruct (untouched2_prefix _ _ LU) as [_ OK]. simpl in OK.
    split; [eapply zstep_nothing_init; [apply ZS; exact OK|exact A]|auto]. }
  destruct o as [[s n t|s n spec|src tgt var a b|m sup text|s ws res|s n value|cb tre]|s m]; simpl in H.
  - bind_step H SL E. injection H as <-. apply KS.
    + eapply on_sector_frame; [exact E|]. intros x x' Hx. eapply addv_frame; exact Hx.
    + intros OK. simpl in OK. eapply on_sector_zstep; [exact E|]. intros x x' Hx. eapply addv_lstep; [apply OK|apply OK|exact Hx].
  - destruct (find_sec s (k_secs st)); [|discriminate]. injection H as <-.
    eapply cinv2_same_statics; [exact CI|exact CS|exact SD|reflexivity|apply Forall2_refl_frame|].
    cbn. intros LU A B D. destruct (untouched2_prefix _ _ LU) as [_ OK]. simpl in OK.
    split; [exact A|]. split; [|exact D]. apply Forall_app. split; [exact B|]. constructor; [exact OK|constructor].
  - destruct (find_sec src (k_secs st)); [|discriminate]. destruct (find_sec tgt (k_secs st)); [|discriminate].
    injection H as <-. now apply K.
  - destruct (find_sec m (k_secs st)); [|discriminate]. destruct (find_sec sup (k_secs st)); [|discriminate].
    destruct (has_add_supplier2 _); [|discriminate]. destruct (sup_of m (k_sup st)) as [res others].
    injection H as <-. now apply K.
  - bind_step H SL E. injection H as <-. apply KS.
    + eapply on_sector_frame; [exact E|]. intros x x' Hx. apply asset_weighting_lstep in Hx. apply (ls_frame _ _ _ Hx).
    + intros _. eapply on_sector_zstep; [exact E|]. intros x x' Hx. eapply asset_weighting_lstep; exact Hx.
  - destruct (find_sec s (k_secs st)); [|discriminate]. injection H as <-. now apply K.
  - destruct (find_sec cb (k_secs st)); [|discriminate]. destruct (find_sec tre (k_secs st)); [|discriminate].
    injection H as <-. now apply K.
  - destruct (find_sec m (k_secs st)) as [mk|]; [|discriminate]. bind_step H SL E. injection H as <-. apply KS.
    + eapply on_sector_frame; [exact E|]. intros x x' Hx.
      pose proof (add_markets_lstep [(code mk, country mk)] x x') as L. simpl in L. rewrite Hx in L. apply (ls_frame _ _ _ (L eq_refl)).
    + intros _. eapply on_sector_zstep; [exact E|]. intros x x' Hx.
      pose proof (add_markets_lstep [(code mk, country mk)] x x') as L. simpl in L. rewrite Hx in L. exact (L eq_refl).
Qed.

Lemma cinvL_country cc dl (ok ok' : Prop) st code cur st' :
  cinvL cc dl ok st -> (ok' -> ok) -> (ok' -> name_ok cur) -> add_country st code cur = Ok st' ->
  cinvL (cc ++ [code]) dl ok' st'.
Proof.
  intros CI Hok Hn H. destruct (add_country_spec _ _ _ _ H) as (EC & NI & FR & ZS & EX & EE).
  assert (DF : k_default st' = cur).
  { unfold add_country in H. destruct (mem _ _); [discriminate|]. bind_step H SL E. now injection H as <-. }
  assert (P : ok' -> Forall ledger_init (k_secs st) ->
     Forall (fun y : nat * string * string => snd (fst y) <> "F" /\ snd (fst y) <> "INC") (k_exo st) -> name_ok (k_default st) ->
     Forall ledger_init (k_secs st') /\
     Forall (fun y : nat * string * string => snd (fst y) <> "F" /\ snd (fst y) <> "INC") (k_exo st') /\ name_ok cur).
  { intros O A X D. split; [eapply zstep_nothing_init; [apply ZS, Hn, O|exact A]|]. rewrite EE. split; [exact X|apply Hn, O]. }
  destruct (cinvL_same_statics cc dl ok ok' st (mkK (k_countries st) cur (k_ext st') (k_secs st') (k_classes st') (k_sup st') (k_flows st') (k_exo st') (k_ic st'))
                CI Hok eq_refl FR P) as [I1 I2 I3 I4 I5 I6 I7 I8].
  constructor; cbn in *.
  - rewrite EC, map_app, I1. reflexivity.
  - rewrite EC, map_app. simpl. apply NoDup_snoc; [exact I2|exact NI].
  - exact I3.
  - rewrite EC, map_app. eapply Forall2_imp; [|exact I4]. intros d c0 Hd. simpl in Hd.
    rewrite nth_error_app1; [exact Hd|]. apply nth_error_Some. congruence.
  - exact I5.
  - exact I6.
  - exact I7.
  - intros O. destruct (I8 O) as (A & X & C & D). rewrite EC, map_app, DF. simpl.
    split; [exact A|]. split; [exact X|]. split; [|apply Hn, O].
    apply Forall_app. split; [exact C|]. constructor; [apply Hn, O|constructor].
Qed.

Lemma cinvL_sector cc dl (ok : Prop) st ci c k st' :
  cinvL cc dl ok st -> add_sector st ci c k = Ok st' -> cinvL cc (dl ++ [(ci, c, k)]) ok st'.
Proof.
  intros [I1 I2 I3 I4 I5 I6 I7 I8] H.
  destruct (add_sector_spec _ _ _ _ _ H) as (c0 & cur & s & N & ES & ECl & F1 & F2 & F3 & F4 & F5 & NP & EC & EX & EE & ED).
  constructor.
  - now rewrite EC.
  - now rewrite EC.
  - rewrite ES, !map_app, I3. simpl. now rewrite F2.
  - rewrite ES, EC, map_app. apply Forall2_app; [exact I4|]. simpl. constructor; [|constructor]. simpl.
    rewrite F3. rewrite nth_error_map, N. reflexivity.
  - rewrite ES, map_app, app_length, I5. simpl. rewrite F1, Nat.add_1_r, seq_S. reflexivity.
  - rewrite ES, map_app. simpl. apply NoDup_snoc; [exact I6|]. unfold pair_of at 1. now rewrite F3, F2.
  - rewrite ES, !map_app, I7. simpl. now rewrite F4.
  - intros O. destruct (I8 O) as (A & X & C & D). rewrite ES, EE, EC, ED.
    split; [|split; [exact X|split; [exact C|exact D]]].
    apply Forall_app. split; [exact A|]. constructor; [exact F5|constructor].
Qed.

Lemma nodup_names_ok l : Forall name_ok l -> Forall name_ok (nodup string_dec l).
Proof. intros H. apply Forall_forall. intros x Hx. apply nodup_In in Hx. rewrite Forall_forall in H. now apply H. Qed.

Lemma run_step2_cinv p st x st' : cinv2 p st -> run_step2 st x = Ok st' -> cinv2 (p ++ [x]) st'.
Proof.
  intros CI H. destruct x as [c cur rg| |ci c k|o]; [| | |eapply run_op2_cinv; eassumption]; simpl in H.
  - unfold cinv2, country_codes2, sector_decls2. rewrite country_steps_app, sector_decls2_from_app, map_app. simpl. rewrite List.app_nil_r.
    eapply cinvL_country; [exact CI|apply untouched2_prefix| |exact H].
    intros LU. destruct (untouched2_prefix _ _ LU) as [LU0 [Nc Ncur]].
    destruct cur as [y|]; [exact Ncur|]. destruct rg; [|exact Nc]. now destruct (d_ledger _ _ _ _ CI LU0) as (_ & _ & _ & D).
  - destruct (k_ext st); [discriminate|].
    bind_step H st1 E1. bind_step H st2 E2. bind_step H st3 E3. bind_step H st4 E4. bind_step H SL E5. injection H as <-.
    unfold cinv2, country_codes2, sector_decls2. rewrite country_steps_app, sector_decls2_from_app, map_app. simpl.
    assert (LEN : List.length (country_steps p) = List.length (k_countries st)).
    { rewrite <- (map_length (fun x => fst (fst x))). fold (country_codes2 p). rewrite <- (d_countries _ _ _ _ CI). apply map_length. }
    rewrite LEN.
    assert (C1 : cinvL (country_codes2 p ++ ["EXT"]) (sector_decls2 p) (ledger_untouched2 (p ++ [S2External])) st1).
    { eapply cinvL_country; [exact CI|apply untouched2_prefix| |exact E1]. intros _. split; discriminate. }
    pose proof (cinvL_sector _ _ _ _ _ _ _ _ C1 E2) as C2. pose proof (cinvL_sector _ _ _ _ _ _ _ _ C2 E3) as C3.
    pose proof (cinvL_sector _ _ _ _ _ _ _ _ C3 E4) as C4. rewrite <- !app_assoc in C4. simpl in C4.
    eapply cinvL_same_statics; [exact C4|auto|reflexivity|eapply register_all_frame; exact E5|].
    cbn. intros LU A X D. split; [|auto]. eapply zstep_nothing_init; [|exact A].
    eapply register_all_zstep; [|exact E5]. apply nodup_names_ok. now destruct (d_ledger _ _ _ _ C4 LU) as (_ & _ & C & _).
  - unfold cinv2, country_codes2, sector_decls2. rewrite country_steps_app, sector_decls2_from_app. simpl. rewrite List.app_nil_r.
    assert (OK : ledger_untouched2 (p ++ [S2Sector ci c k]) -> ledger_untouched2 p) by (intros LU; now apply untouched2_prefix in LU).
    pose proof (cinvL_sector _ _ _ _ _ _ _ _ CI H) as C1.
    destruct C1 as [I1 I2 I3 I4 I5 I6 I7 I8]. constructor; auto.
Qed.

Lemma cinv2_init : cinv2 [] k_init.
Proof.
  constructor; simpl; [reflexivity|constructor|reflexivity|constructor|reflexivity|constructor|reflexivity|].
  intros _. repeat split; try constructor; discriminate.
Qed.

Theorem construct_all2_cinv p st : construct_all2 p = Ok st -> cinv2 p st.
Proof.
  unfold construct_all2. revert st. induction p as [|x p IH] using rev_ind; intros st H.
  - simpl in H. injection H as <-. apply cinv2_init.
  - apply foldM_app in H as (st1 & H1 & H2). simpl in H2.
    destruct (run_step2 st1 x) as [st2|] eqn:E; [|discriminate]. injection H2 as <-.
    eapply run_step2_cinv; [apply IH; exact H1|exact E].
Qed.

(* ------------------------------------------------------------------ *)
(** * Model.main() as a chain of steps *)

Inductive event2 :=
| EGen2 (ik : nat * cls2) (Z : zone)
| EFlow2 (f : flow) (Z : zone)
| EExo2 (x : nat * string * string) (Z : zone).

Definition ev_terms2 (e : event2) : sector -> term -> Prop :=
  match e with
  | EGen2 ik Z => gen_terms2 ik Z
  | EFlow2 f Z => flow_terms2 f Z
  | EExo2 _ _ => nothing
  end.

Definition run_events2 (Rn : run2) : list event2 :=
  map (fun x => EGen2 (fst (fst x)) (h_zone (snd (fst x)))) (q_gen Rn) ++
  map (fun x => EFlow2 (fst (fst x)) (snd (fst x))) (q_flows Rn) ++
  map (fun x => EExo2 (fst (fst x)) (snd (fst x))) (q_exo Rn).

Definition is_multi2 (st : kstate) : bool := Nat.ltb 1 (List.length (k_countries st)).

Definition zone02 (st : kstate) : zone :=
  zone_order (map fst (k_countries st)) (map (set_fullcode (is_multi2 st)) (k_secs st)).

Lemma main_run2_inv st Rn : main_run2 st = Ok Rn ->
  exists gfin Z1,
    q_zone0 Rn = zone02 st /\ q_info Rn = mkI2 (k_classes st) (k_sup st) (k_countries st) (k_ext st) /\
    chain (gen_step2 (q_info Rn)) (q_gen Rn) (mkG2 (zone02 st) (k_flows st) (k_ic st)) gfin /\
    map (fun x => fst (fst x)) (q_gen Rn) = map (fun s => (sid s, class_of2 (k_classes st) (sid s))) (zone02 st) /\
    chain (flow_step2 (q_info Rn)) (q_flows Rn) (h_zone gfin) Z1 /\
    chain exo_step (q_exo Rn) Z1 (fs_zone (q_final Rn)) /\
    map (fun x => fst (fst x)) (q_exo Rn) = k_exo st /\
    fs_rows (q_final Rn) = zone_rows (fs_zone (q_final Rn)).
Proof.
  unfold main_run2. fold (is_multi2 st). fold (zone02 st). intros H.
  bind_step H g E1. bind_step H f E2. bind_step H x E3. bind_step H ics E4.
  destruct g as [trg gfin], f as [trf Z1], x as [trx Zf]. cbn [fst snd] in *.
  apply run_trace_chain in E1 as [C1 M1]. apply run_trace_chain in E2 as [C2 M2]. apply run_trace_chain in E3 as [C3 M3].
  assert (HR : Rn = mkRun2 (mkI2 (k_classes st) (k_sup st) (k_countries st) (k_ext st)) (zone02 st) trg trf trx (mkFS Zf (zone_rows Zf) ics)).
  { destruct (zone_rows Zf); [destruct ics; [discriminate|]|]; now injection H as <-. }
  subst Rn. cbn. exists gfin, Z1. repeat split; assumption.
Qed.

Definition run_rel2 (Rn : run2) (s sf : sector) : Prop :=
  exists tss, Forall2 (fun e ts => Forall (ev_terms2 e s) ts) (run_events2 Rn) tss /\ lstep s sf (List.concat tss).

Lemma ev_terms2_stable e : frame_stable (ev_terms2 e).
Proof. destruct e; simpl; [apply gen_terms2_stable|apply flow_terms2_stable|apply nothing_stable]. Qed.

Theorem main_run2_ledger st Rn : main_run2 st = Ok Rn ->
  Forall (fun x : nat * string * string => snd (fst x) <> "F" /\ snd (fst x) <> "INC") (k_exo st) ->
  Forall2 (run_rel2 Rn) (q_zone0 Rn) (fs_zone (q_final Rn)).
Proof.
  intros H HX. destruct (main_run2_inv _ _ H) as (gfin & Z1 & E0 & EI & C1 & M1 & C2 & C3 & M3 & _).
  rewrite E0.
  pose proof (chain_zstep (gen_step2 (q_info Rn)) h_zone (fun b st0 => gen_terms2 b (h_zone st0)) (fun _ => True)
                (fun st0 b st' _ Hs => gen_step2_zstep _ _ _ _ Hs) (fun b st0 => gen_terms2_stable b (h_zone st0))
                _ _ _ C1 (proj2 (Forall_forall _ _) (fun _ _ => I))) as G1.
  pose proof (chain_zstep (flow_step2 (q_info Rn)) (fun Z => Z) (fun b Z => flow_terms2 b Z) (fun _ => True)
                (fun Z b Z' _ Hs => flow2_zstep _ _ _ _ Hs) (fun b Z => flow_terms2_stable b Z)
                _ _ _ C2 (proj2 (Forall_forall _ _) (fun _ _ => I))) as G2.
  assert (PX : Forall (fun x : (nat * string * string) * zone * zone => snd (fst (fst (fst x))) <> "F" /\ snd (fst (fst (fst x))) <> "INC") (q_exo Rn)).
  { rewrite <- M3 in HX. rewrite Forall_map in HX. exact HX. }
  pose proof (chain_zstep exo_step (fun Z => Z) (fun _ _ => nothing) (fun b => snd (fst b) <> "F" /\ snd (fst b) <> "INC")
                (fun Z b Z' Hb Hs => exo_zstep _ _ _ Hs (proj1 Hb) (proj2 Hb)) (fun b Z s s' t _ (Hn : nothing s' t) => Hn)
                _ _ _ C3 PX) as G3.
  cbn [h_zone] in G1.
  set (ev23 := map (fun x : flow * zone * zone => EFlow2 (fst (fst x)) (snd (fst x))) (q_flows Rn) ++
               map (fun x : (nat * string * string) * zone * zone => EExo2 (fst (fst x)) (snd (fst x))) (q_exo Rn)).
  assert (G23 : Forall2 (fun b c => exists tss, Forall2 (fun e ts => Forall (ev_terms2 e b) ts) ev23 tss /\
                                      lstep b c (List.concat tss)) (h_zone gfin) (fs_zone (q_final Rn))).
  { eapply Forall2_trans_rel; [|exact G2|exact G3].
    intros a b c (t2 & F2 & L2) (t3 & F3 & L3). exists (t2 ++ t3). split; [|rewrite concat_app; eapply lstep_trans; eassumption].
    apply Forall2_app; [apply Forall2_map_l; exact F2|]. apply Forall2_map_l.
    eapply Forall2_imp; [|exact F3]. intros e ts. apply Forall_impl. intros t []. }
  eapply Forall2_trans_rel; [|exact G1|exact G23].
  intros a b c (t1 & F1 & L1) (t23 & F23 & L23). exists (t1 ++ t23). split; [|rewrite concat_app; eapply lstep_trans; eassumption].
  unfold run_events2. apply Forall2_app; [apply Forall2_map_l; exact F1|].
  eapply Forall2_imp; [|exact F23]. intros e ts. apply Forall_impl. intros t. apply ev_terms2_stable. apply (ls_frame _ _ _ L1).
Qed.
