(** Concrete programs: SIM-, PC- and REG-like programs on which [no_conflict] holds, and a miniature
    in which a user AddVariable overwrites a definition the tax flow relies on ([no_conflict] fails
    and so does stock-flow consistency). *)
From Coq Require Import List String Bool ZArith Arith Lia Reals Lra.
From SFC.Base Require Import Res Str Sorting.
From SFC.Gen Require Import Fx Zone.
From SFC.GenMarket Require Import Market.
From SFC.GenTax Require Import Tax TaxProofs.
From SFC.GenMain2 Require Import Program Classes Main Ledger MainProofs Names Conflict Balance.
Import ListNotations.
Local Open Scope string_scope.

(** [sat] from a finite check on plain data: (full code, local name, equation, kind) per row *)
Definition compiled (E : final_system) : list (string * string * option eqn * kind) :=
  flat_map (fun s => map (fun n => (fullcode s, n, lookup_var n (vars s), row_kind s n)) (keys s)) (fs_zone E).

Definition dummy (fc : string) : sector := mkSector 0 "" "" fc false false false [] [].

Definition sem1 (v vprev : string -> R) (bv : string -> string -> R) (x : string * string * option eqn * kind) : Prop :=
  let '(fc, n, oe, k) := x in
  match k with
  | KDef _ => match oe with Some e => v (fc ++ "__" ++ n) = eqn_val v bv (dummy fc) e | None => True end
  | KLag src => v (fc ++ "__" ++ n) = vprev src
  | KExo _ => True
  end.

Lemma sat_intro E v vprev bv : Forall (sem1 v vprev bv) (compiled E) -> sat E v vprev bv.
Proof.
  intros H s n Hs Hn. rewrite Forall_forall in H.
  specialize (H (fullcode s, n, lookup_var n (vars s), row_kind s n)). cbv beta iota zeta delta [sem1] in H.
  assert (Hin : List.In (fullcode s, n, lookup_var n (vars s), row_kind s n) (compiled E)).
  { unfold compiled. apply in_flat_map. exists s. split; [exact Hs|]. apply in_map_iff. exists n. split; [reflexivity|].
    now apply keys_In. }
  specialize (H Hin). destruct (row_kind s n); auto. unfold holds.
  destruct (lookup_var n (vars s)) as [e|]; [|exact I]. rewrite H. now apply eqn_val_ext.
Qed.

(* ------------------------------------------------------------------ *)
(** * Well-formed programs *)

(** model SIM: government, household, business, tax flow, labour and goods markets *)
Definition p_SIM : program :=
  [ StCountry "CA";
    StSector 0 "GOV" CGov;
    StSector 0 "HH" (CHousehold "0.6000" "0.4000" "GOOD" "LAB");
    StSector 0 "BUS" (CBusiness true "1.000" "0.000" "LAB" "GOOD");
    StSector 0 "TF" (CTaxFlow "0.2000" "GOV");
    StSector 0 "LAB" CMarket;
    StSector 0 "GOOD" CMarket;
    StOp (OSetExogenous 0 "DEM_GOOD" "[20.,] * 105") ].

(** model PC: treasury and central bank (treasury attached after creation), deposits and money,
    a portfolio rule, capitalists receiving the profits of two firms *)
Definition p_PC : program :=
  [ StCountry "CA";
    StSector 0 "CB" (CCentralBank None);
    StSector 0 "TRE" CTreasury;
    StOp (OSetTreasury 0 1);
    StSector 0 "HH" (CHouseholdExp "0.6000" "0.4000" "GOOD" "LAB");
    StSector 0 "CAP" (CCapitalists "0.7000" "0.3000" "GOOD");
    StSector 0 "BUS" (CBusiness false "0.900" "0.100" "LAB" "GOOD");
    StSector 0 "BSV" (CBusiness false "0.750" "0.250" "LAB" "SERV");
    StSector 0 "TF" (CTaxFlow "0.2000" "TRE");
    StSector 0 "LAB" CMarket;
    StSector 0 "GOOD" CMarket;
    StSector 0 "SERV" CMarket;
    StSector 0 "MON" (CMoneyMarket "CB");
    StSector 0 "DEP" (CDepositMarket "TRE");
    StOp (OAddVariable 1 "DEM_SERV" "0.0");
    StOp (OSetExogenous 1 "DEM_SERV" "[5.0]*40");
    StOp (OAssetWeighting 2 [("DEP", "0.4 + 2.0*DEP__r")] "MON");
    StOp (OSetExogenous 11 "r" "[0.025]*40");
    StOp (OSetExogenous 1 "DEM_GOOD" "[20.0]*40");
    StOp (OAddVariable 1 "GIFT" "1.5");
    StOp (ORegisterCashFlow 1 2 "GIFT" false true) ].

(** model REG: a central government in the first region buying in both, a multi-output firm and two
    labour suppliers in the second *)
Definition p_REG : program :=
  [ StCountry "GV";
    StSector 0 "GOV" CGov;
    StSector 0 "HH" (CHousehold "0.6000" "0.4000" "GOOD" "LAB");
    StSector 0 "BUS" (CBusiness true "1.000" "0.000" "LAB" "GOOD");
    StSector 0 "TF" (CTaxFlow "0.2000" "GOV");
    StSector 0 "LAB" CMarket;
    StSector 0 "GOOD" CMarket;
    StSector 0 "MON" (CMoneyMarket "GOV");
    StCountry "N";
    StSector 1 "HH" (CHousehold "0.7000" "0.3000" "GOOD" "LAB");
    StSector 1 "HW" (CHousehold "0.5000" "0.3000" "GOOD" "LAB");
    StSector 1 "GOOD" CMarket;
    StSector 1 "BUS" (CBusinessMulti true "1.000" "LAB" [9%nat]);
    StSector 1 "LAB" CMarket;
    StOp (OAddSupplier 9 10 None);
    StOp (OAddSupplier 11 7 None);
    StOp (OAddSupplier 11 8 (Some "0.25*DEM_LAB"));
    StOp (OSetExogenous 0 "DEM_GOOD" "[20.0]*40");
    StOp (OAddVariable 0 "DEM_N_GOOD" "0.0");
    StOp (OSetExogenous 0 "DEM_N_GOOD" "[10.0]*40") ].

Lemma SIM_no_conflict : is_ok (build p_SIM) = true /\ no_conflict p_SIM = true.
Proof. vm_compute. split; reflexivity. Qed.
Lemma PC_no_conflict : is_ok (build p_PC) = true /\ no_conflict p_PC = true.
Proof. vm_compute. split; reflexivity. Qed.
Lemma REG_no_conflict : is_ok (build p_REG) = true /\ no_conflict p_REG = true.
Proof. vm_compute. split; reflexivity. Qed.

(* ------------------------------------------------------------------ *)
(** * An overwritten definition *)

(** the user gives the household a tax of its own before main(): the tax flow's AddCashFlow finds T
    already defined and keeps it, so the household pays 5 while the government receives rate * INC *)
Definition p_bad : program :=
  [ StCountry "CA"; StSector 0 "GOV" CGov; StSector 0 "HH" (CHousehold "0.6000" "0.4000" "GOOD" "LAB");
    StSector 0 "TF" (CTaxFlow "0.2000" "GOV"); StOp (OAddVariable 1 "T" "5.") ].

Definition R_bad : run := match build_run p_bad with Ok r => r | Err _ => mkRun (mkI [] []) [] [] [] [] (mkFS [] [] []) end.

Local Open Scope R_scope.
Definition v_bad (x : string) : R :=
  if String.eqb x "HH__T" then 5 else if String.eqb x "HH__F" then -5 else 0.
Definition bv_bad (fc b : string) : R := if String.eqb b "5." then 5 else 0.

Lemma all_in {A : Type} (P : A -> Prop) (l : list A) : Forall P l -> forall x, List.In x l -> P x.
Proof. apply Forall_forall. Qed.

Theorem overwritten_tax_refuted :
  build_run p_bad = Ok R_bad /\ no_conflict p_bad = false /\ bv_zero bv_bad /\
  sat (r_final R_bad) v_bad (fun _ => 0) bv_bad /\
  stock_consistent R_bad (fun _ => 0) (fun _ _ => 0) /\
  ledger_sum v_bad (fs_zone (r_final R_bad)) = -5.
Proof.
  split; [vm_compute; reflexivity|]. split; [vm_compute; reflexivity|].
  split; [intros fc; split; reflexivity|]. split; [|split].
  - apply sat_intro. set (L := compiled (r_final R_bad)). vm_compute in L. subst L.
    repeat constructor; unfold sem1, eqn_val, v_bad, bv_bad; simpl; unfold tval_in; simpl; lra.
  - intros i issuer st st' self Hin. exfalso. revert Hin. set (G := r_gen R_bad). vm_compute in G. subst G.
    simpl. intros Hin. repeat (destruct Hin as [Hin|Hin]; [discriminate Hin|]). exact Hin.
  - unfold ledger_sum. set (Z := fs_zone (r_final R_bad)). vm_compute in Z. subst Z.
    unfold v_bad. simpl. lra.
Qed.
