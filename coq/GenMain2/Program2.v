(** The program language of the multi-currency pipeline model (Main2.v): everything
    [gen_common.ProgGen.any()] generates — the single-currency language of Program.v plus countries
    with their own currency, the ExternalSector created at any position among the countries,
    the gold-standard government / central bank, and AddMarket on a multi-output business.

    Countries are referred to by their position in Model.CountryList (the external sector is a
    country: it occupies a position); sectors by creation index, where the ExternalSector step
    creates three sectors in a row: EXT's XR, FX and GOLD. *)
From Coq Require Import List String Bool ZArith Arith.
From SFC.Base Require Import Res Str.
From SFC.GenMain2 Require Import Program.
Import ListNotations.
Local Open Scope string_scope.

Inductive cls2 :=
| COld (k : cls)                                          (* the classes of Program.v *)
| CGoldGov (stock : string)                               (* GoldStandardGovernment(initial_gold_stock): str(float(stock)) *)
| CGoldCB (treasury : option nat) (stock : string)        (* GoldStandardCentralBank *)
| CXR | CFX | CGOLD.                                      (* ExchangeRates, ForexTransations, InternationalGold (created by the ExternalSector only) *)

Inductive uop2 :=
| UOld (o : uop)
| UAddMarket (s m : nat).                                 (* multi_output_business.AddMarket(market) *)

Inductive step2 :=
| S2Country (code : string) (currency : option string) (region : bool)
      (* Country(model, code, currency=...) / Region: a Region without currency takes Model.DefaultCurrency *)
| S2External                                              (* ExternalSector(model) *)
| S2Sector (country : nat) (code : string) (k : cls2)
| S2Op (o : uop2).

Definition program2 := list step2.

(** Model.CountryList as the steps build it: (code, explicit currency, region flag); EXT included *)
Fixpoint country_steps (p : program2) : list (string * option string * bool) :=
  match p with
  | [] => []
  | S2Country c cur rg :: r => (c, cur, rg) :: country_steps r
  | S2External :: r => ("EXT", Some "NUMERAIRE", false) :: country_steps r
  | _ :: r => country_steps r
  end.

Definition country_codes2 (p : program2) : list string := map (fun x => fst (fst x)) (country_steps p).

(** declared sectors in creation order: (country index, code, class); the ExternalSector declares
    XR, FX, GOLD in the country it creates *)
Fixpoint sector_decls2_from (ncountries : nat) (p : program2) : list (nat * string * cls2) :=
  match p with
  | [] => []
  | S2Country _ _ _ :: r => sector_decls2_from (S ncountries) r
  | S2External :: r =>
      (ncountries, "XR", CXR) :: (ncountries, "FX", CFX) :: (ncountries, "GOLD", CGOLD) :: sector_decls2_from (S ncountries) r
  | S2Sector ci c k :: r => (ci, c, k) :: sector_decls2_from ncountries r
  | S2Op _ :: r => sector_decls2_from ncountries r
  end.
Definition sector_decls2 (p : program2) : list (nat * string * cls2) := sector_decls2_from 0 p.

Definition multi_country2 (p : program2) : bool := Nat.ltb 1 (List.length (country_steps p)).

(** the single-currency language embedded *)
Definition embed_step (x : step) : step2 :=
  match x with
  | StCountry c => S2Country c None true
  | StSector ci c k => S2Sector ci c (COld k)
  | StOp o => S2Op (UOld o)
  end.
