(** GenMain2: program-level theorems about the Gallina model [Main2.build2] of the whole generator
    pipeline for MULTI-CURRENCY programs (Program2.v: the language of coq/GenMain's Program.v plus
    countries with their own currency, the ExternalSector at any position, the gold-standard classes,
    AddMarket), tied to the Python on every run by the whole-program correspondence of
    harness/gen_main2.py on gen_common.ProgGen.any().

    Reading guide (see also PropMain.v):
      [build2 p = Ok E] / [build_run2 p = Ok Rn]   the model of Model.main() and its trace;
      [in_zone cs c s]        sector [s] belongs to a country whose currency is [c];
      [net_key c]             the FX intermediary's variable EXT_FX__NET_<c>;  [net_value] = its value
                              (0 when the program has no ExternalSector);
      [no_conflict2 p]        decidable side condition computed over the run (Conflict2.v): the
                              semantic conditions of [no_conflict] evaluated zone by zone, the same for
                              markets with suppliers in one other zone, cross-zone flows and gold
                              purchases, and plumbing checks (each step changed exactly the part of the
                              sector list it acts on; the NET term lists evolved by the Fx.fx_step
                              operations of the step).  Programs with a market supplied from TWO other
                              zones are outside it (the model and the correspondence cover them). *)
From Coq Require Import List String Bool ZArith Arith Reals.
From SFC.Base Require Import Res Str.
From SFC.Gen Require Import Fx Flows Zone.
From SFC.GenTax Require Import Tax TaxProofs.
From SFC.GenMain2 Require Import Program Classes Main Ledger MainProofs Names Conflict Balance Witness
                                 Program2 Main2 Ledger2 MainProofs2 Names2 Conflict2 Balance2 Zones Witness2.
Import ListNotations.
Local Open Scope string_scope.

(* ------------------------------------------------------------------ *)
(** * 1. Names *)

Theorem Main2_canonical_names : forall p E, build2 p = Ok E ->
  forall r, List.In r (fs_rows E) ->
  exists ci c k cc s n,
    List.In (ci, c, k) (sector_decls2 p) /\ nth_error (country_codes2 p) ci = Some cc /\
    List.In s (fs_zone E) /\ code s = c /\ country s = cc /\ has_var s n = true /\
    fullcode s = (if multi_country2 p then (cc ++ "_" ++ c)%string else c) /\
    r_lhs r = (fullcode s ++ "__" ++ n)%string.
Proof. exact main2_canonical_names. Qed.
Print Assumptions Main2_canonical_names.

Theorem Main2_codes_distinct : forall p E, build2 p = Ok E ->
  NoDup (country_codes2 p) /\ NoDup (map (fun s => (country s, code s)) (fs_zone E)).
Proof. exact main2_codes_distinct. Qed.
Print Assumptions Main2_codes_distinct.

Theorem Main2_defined_once : forall p E, build2 p = Ok E -> countries_wf2 p = true -> names_wf E = true ->
  NoDup (map r_lhs (fs_rows E)).
Proof. exact main2_defined_once. Qed.
Print Assumptions Main2_defined_once.

(* ------------------------------------------------------------------ *)
(** * 2. The ledger *)

(** as Main_ledger_decomposition; the kinds of terms ([ev_terms2]) now include the allocation times
    the cross rate a market books on a supplier in another zone, the credited amount times the cross
    rate of a cross-zone flow, and -GOLDPURCHASES *)
Theorem Main2_ledger_decomposition : forall p Rn, build_run2 p = Ok Rn -> ledger_untouched2 p ->
  Forall2 (fun s sf =>
    frame s sf /\
    exists tss, Forall2 (fun e ts => Forall (ev_terms2 e s) ts) (run_events2 Rn) tss /\
      (if hasF s
       then F_of sf = Some (mkEqn "" (extend (List.concat tss) [(1%Z, ["LAG_F"])])) /\
            exists ti, incl ti (List.concat tss) /\ INC_of sf = Some (mkEqn "" (extend ti []))
       else F_of sf = None /\ INC_of sf = None /\ List.concat tss = []))
    (q_zone0 Rn) (fs_zone (q_final Rn)).
Proof. exact main2_ledger_decomposition. Qed.
Print Assumptions Main2_ledger_decomposition.

(* ------------------------------------------------------------------ *)
(** * 3. Stock-flow consistency per currency zone (C01) *)

(** for every real currency zone: the changes of the financial assets of its sectors plus the FX
    intermediary's net position in that currency sum to zero — whatever the exchange rates *)
Theorem Main2_stock_flow_consistent : forall p Rn, build_run2 p = Ok Rn -> no_conflict2 p = true ->
  forall (v vprev : string -> R) (bv bvp : string -> string -> R),
    bv_zero bv -> sat (q_final Rn) v vprev bv -> stock_consistent2 Rn vprev bvp ->
    forall c, c <> NUM -> List.In c (zones_of (j_countries (q_info Rn))) ->
      (ledger_sum v (filter (in_zone (j_countries (q_info Rn)) c) (fs_zone (q_final Rn))) + net_value Rn v c = 0)%R.
Proof. exact main2_stock_flow_consistent. Qed.
Print Assumptions Main2_stock_flow_consistent.

(* ------------------------------------------------------------------ *)
(** * 4. The FX intermediary (C07) *)

Theorem Main2_fx_valued_zero : forall p Rn, build_run2 p = Ok Rn -> no_conflict2 p = true ->
  j_ext (q_info Rn) <> None ->
  forall (v vprev : string -> R) (bv : string -> string -> R), sat (q_final Rn) v vprev bv ->
    let zs := zones_of (j_countries (q_info Rn)) in
    (rates_ok2 zs v -> TaxProofs.sumR (fun c => v (net_key c) * rate v c) zs = 0)%R /\
    (forallb (fun x => negb (is_gold (snd (fst (fst x))))) (q_gen Rn) = true -> List.In NUM zs -> v (net_key NUM) = 0%R).
Proof. exact main2_fx_valued_zero. Qed.
Print Assumptions Main2_fx_valued_zero.

(* ------------------------------------------------------------------ *)
(** * Non-vacuity *)

(** two currency zones, the ExternalSector created between the countries, a gift from CA_HH to US_HH,
    US_BUS supplying part of CA's goods market *)
Example Main2_example_OPEN : is_ok (build2 p_OPEN) = true /\ no_conflict2 p_OPEN = true.
Proof. exact OPEN_no_conflict. Qed.
Print Assumptions Main2_example_OPEN.

Example Main2_example_GOLD : is_ok (build2 p_GOLD) = true /\ no_conflict2 p_GOLD = true.
Proof. exact GOLD_no_conflict. Qed.
Print Assumptions Main2_example_GOLD.

Example Main2_example_SIM_embedded :
  is_ok (build2 (map embed_step p_SIM)) = true /\ no_conflict2 (map embed_step p_SIM) = true.
Proof. exact SIM_embedded. Qed.
Print Assumptions Main2_example_SIM_embedded.

(** the hypotheses of [Main2_defined_once] hold on the witness programs *)
Example Main2_defined_once_hypotheses :
  forallb (fun p => countries_wf2 p && match build2 p with Ok E => names_wf E | Err _ => false end) [p_OPEN; p_GOLD] = true.
Proof. vm_compute. reflexivity. Qed.
Print Assumptions Main2_defined_once_hypotheses.

(** [no_conflict2] is needed: a user AddVariable gives NET_CA an opaque part of 5; every row of the
    final system is satisfied with unit rates, yet the valued position is 5 *)
Theorem Main2_fx_valued_zero_refuted :
  build_run2 p_bad2 = Ok R_bad2 /\ no_conflict2 p_bad2 = false /\
  sat (q_final R_bad2) v_bad2 (fun _ => 0%R) bv_bad2 /\
  rates_ok2 ["CA"; "NUMERAIRE"] v_bad2 /\
  (TaxProofs.sumR (fun c => v_bad2 (net_key c) * rate v_bad2 c) (zones_of (j_countries (q_info R_bad2))) = 5)%R.
Proof. exact overwritten_net_refuted. Qed.
Print Assumptions Main2_fx_valued_zero_refuted.
