(** Constructors of the sector classes of sfc_models/sector.py and sector_definitions.py: the
    state of a freshly created object — initial variables (EquationBlock in insertion order),
    flags (HasF, IsTaxable, isinstance Market) and income exclusions — on the sector record of
    coq/Gen/Zone.v.  FullCode is '' until Model._GenerateFullSectorCodes runs.

    Every right-hand side goes through Term(text, is_blob=True): stripped, interior blanks
    removed ([squeeze]).  AddVariable raises ValueError on a name containing "__". *)
From Coq Require Import List String Bool ZArith Arith.
From SFC.Base Require Import Res Str.
From SFC.Gen Require Import Fx Zone.
From SFC.GenAsset Require Import Weighting.
From SFC.GenMain2 Require Import Program.
Import ListNotations.
Local Open Scope string_scope.

(** Sector.AddVariable(name, desc, text) *)
Definition addv (s : sector) (n text : string) : result sector :=
  if has_substring "__" n then Err ValueError else Ok (add_variable s n (squeeze text)).

Fixpoint addvs (s : sector) (l : list (string * string)) : result sector :=
  match l with
  | [] => Ok s
  | (n, t) :: r => do s1 <- addv s n t ;; addvs s1 r
  end.

(** Sector.__init__(country, code, has_F): F = +LAG_F (a parsed term), INC = no terms,
    LAG_F = 'F(k-1)' *)
Definition ledger_vars : list (string * eqn) :=
  [("F", mkEqn "" [(1%Z, ["LAG_F"])]); ("INC", mkEqn "" []); ("LAG_F", mkEqn "F(k-1)" [])].

Definition base_sector (i : nat) (c cc : string) (has_f taxable_ is_mkt : bool) (ex : list string) : sector :=
  mkSector i c cc "" has_f taxable_ is_mkt ex (if has_f then ledger_vars else []).

(** BaseHousehold.__init__ *)
Definition base_household (i : nat) (c cc ai af good : string) : result sector :=
  addvs (base_sector i c cc true true false ["DEM_" ++ good])
        [("AlphaIncome", ai); ("AlphaFin", af);
         ("DEM_" ++ good, "AlphaIncome * AfterTax + AlphaFin * LAG_F");
         ("AfterTax", "INC - T"); ("T", "")].

(** Market.__init__ *)
Definition base_market (i : nat) (c cc : string) : result sector :=
  addvs (base_sector i c cc false false true []) [("SUP_" ++ c, ""); ("DEM_" ++ c, "")].

(** FixedMarginBusinessMultiOutput.AddMarket(market): [mc], [mcc] = the market's code and the
    code of its country *)
Definition add_market (s : sector) (m : string * string) : result sector :=
  let t := if String.eqb (snd m) (country s) then "SUP_" ++ fst m else "SUP_" ++ snd m ++ "_" ++ fst m in
  do s1 <- addv s t "" ;;
  match add_term_to_eq s1 "SUP" (1%Z, [t]) with Some s2 => Ok s2 | None => Err KeyError end.

Fixpoint add_markets (s : sector) (l : list (string * string)) : result sector :=
  match l with
  | [] => Ok s
  | m :: r => do s1 <- add_market s m ;; add_markets s1 r
  end.

(** the object created by  cls(country, code, **kw) ; [i] = creation index, [cc] = country code,
    [mrefs] = (code, country code) of the markets passed to a multi-output business *)
Definition construct (i : nat) (cc c : string) (k : cls) (mrefs : list (string * string)) : result sector :=
  match k with
  | CGov =>
      addvs (base_sector i c cc true false false [])
            [("DEM_GOOD", "0.0"); ("PRIM_BAL", "T - DEM_GOOD"); ("FISC_BAL", "INC"); ("T", "0.")]
  | CTreasury =>
      addvs (base_sector i c cc true false false [])
            [("DEM_GOOD", "0.0"); ("PRIM_BAL", "T - DEM_GOOD"); ("DEM_MON", "0.0"); ("T", "0.0")]
  | CCentralBank _ =>
      addvs (base_sector i c cc true false false []) [("DEM_DEP", "F + SUP_MON")]
  | CHousehold ai af good lab =>
      do s <- base_household i c cc ai af good ;; addv s ("SUP_" ++ lab) "0."
  | CHouseholdExp ai af good lab =>
      do s <- base_household i c cc ai af good ;;
      do s1 <- addv s ("SUP_" ++ lab) "0." ;;
      match set_rhs s1 ("DEM_" ++ good) (squeeze "AlphaIncome * EXP_AfterTax + AlphaFin * LAG_F") with
      | None => Err KeyError
      | Some s2 => addvs s2 [("LAG_AfterTax", "AfterTax(k-1)"); ("EXP_AfterTax", "LAG_AfterTax")]
      end
  | CCapitalists ai af good =>
      do s <- base_household i c cc ai af good ;; addv s "DIV" ""
  | CBusiness _ _ _ lab out =>
      addvs (base_sector i c cc true false false [])
            [("SUP_" ++ out, ""); ("PROF", "SUP_" ++ out ++ " - DEM_" ++ lab); ("DEM_" ++ lab, "")]
  | CBusinessMulti _ _ lab _ =>
      do s <- addv (base_sector i c cc true false false []) "SUP" "" ;;
      do s1 <- add_markets s mrefs ;;
      addvs s1 [("PROF", "SUP - DEM_" ++ lab); ("DEM_" ++ lab, "")]
  | CTaxFlow rate _ =>
      addvs (base_sector i c cc false false false []) [("TaxRate", rate); ("T", "")]
  | CMarket => base_market i c cc
  | CMoneyMarket _ => base_market i c cc
  | CDepositMarket _ =>
      do s <- base_market i c cc ;; addvs s [("r", "0."); ("LAG_r", "r(k-1)")]
  end.

(** isinstance(s, FixedMarginBusiness) — the multi-output class derives from Sector, not from it *)
Definition is_fmb (k : cls) : bool := match k with CBusiness _ _ _ _ _ => true | _ => false end.
Definition is_goods_market (k : cls) : bool := match k with CMarket => true | _ => false end.
