(** The decidable side condition [no_conflict2] of the multi-currency C01 / C07 theorems.

    It has three kinds of components, all booleans over the run [Main2.run2]:
    (a) the semantic conditions of Conflict.v ([gen_ok]: freshness when a group ran, installed
        definitions kept and endogenous at the end), evaluated on the currency zone the step acts in;
    (b) for the steps that involve the FX intermediary (market with suppliers in ONE other zone,
        cross-zone registered flow, gold purchase) the corresponding conditions;
    (c) plumbing checks, which recompute a step on the part of the sector list it acts on and compare:
        the step changed exactly that part and nothing else, and the FX sector's NET_<currency> term
        lists evolved by exactly the [Fx.fx_step] operations of the step.  (These always hold; they are
        checked instead of proved.) *)
From Coq Require Import List String Bool ZArith Arith Reals.
From SFC.Base Require Import Res Str.
From SFC.Gen Require Import Fx Zone.
From SFC.GenMarket Require Import Market.
From SFC.GenTax Require Import Tax Dividends.
From SFC.GenAsset Require Import Common Money Deposit Weighting.
From SFC.GenMain2 Require Import Program Classes Main Conflict Program2 Main2.
Import ListNotations.
Local Open Scope string_scope.

(* ------------------------------------------------------------------ *)
(** * Boolean equalities *)

Fixpoint strs_eqb (a b : list string) : bool :=
  match a, b with
  | [], [] => true
  | x :: a', y :: b' => String.eqb x y && strs_eqb a' b'
  | _, _ => false
  end.

Fixpoint vars_eqb (a b : list (string * eqn)) : bool :=
  match a, b with
  | [], [] => true
  | (n, e) :: a', (m, f) :: b' => String.eqb n m && eqn_eqb e f && vars_eqb a' b'
  | _, _ => false
  end.

Definition sector_eqb (s t : sector) : bool :=
  Nat.eqb (sid s) (sid t) && String.eqb (code s) (code t) && String.eqb (country s) (country t) &&
  String.eqb (fullcode s) (fullcode t) && Bool.eqb (hasF s) (hasF t) && Bool.eqb (taxable s) (taxable t) &&
  Bool.eqb (is_market s) (is_market t) && strs_eqb (excl s) (excl t) && vars_eqb (vars s) (vars t).

Definition zone_eqb (a b : zone) : bool := forallb2 sector_eqb a b.

Fixpoint ledger_eqb (a b : ledger) : bool :=
  match a, b with
  | [], [] => true
  | (c, ts) :: a', (d, us) :: b' => String.eqb c d && terms_eqb ts us && ledger_eqb a' b'
  | _, _ => false
  end.

Definition oledger_eqb (a b : option ledger) : bool :=
  match a, b with Some x, Some y => ledger_eqb x y | None, None => true | _, _ => false end.

(* ------------------------------------------------------------------ *)
(** * The FX operations of a step *)

Definition apply_ops (L : option ledger) (ops : list fxop) : option ledger :=
  option_map (fun l => fold_left fx_step ops l) L.

Definition op_real (o : fxop) : bool :=
  match o with
  | Send src _ => negb (String.eqb src NUM)
  | Receive src tgt _ => negb (String.eqb src NUM) && negb (String.eqb tgt NUM) && negb (String.eqb src tgt)
  end.

Definition op_in (zs : list string) (o : fxop) : bool :=
  match o with
  | Send src _ => mem src zs
  | Receive src tgt _ => mem src zs && mem tgt zs
  end.

Definition fx_ok (J : ginfo2) (Z Z' : zone) (ops : list fxop) : bool :=
  oledger_eqb (ledger_of J Z') (apply_ops (ledger_of J Z) ops) && forallb op_real ops &&
  forallb (op_in (zones_of (j_countries J))) ops.

(* ------------------------------------------------------------------ *)
(** * Steps inside one zone: the single-currency step recomputed on the zone *)

Definition to_old (J : ginfo2) : ginfo := mkI (map old_class (j_classes J)) (j_sup J).

Definition notb (p : sector -> bool) (s : sector) : bool := negb (p s).

(** the sectors selected by [p] became [C'], the others are what they were *)
Definition part_ok (p : sector -> bool) (Z Z' C' : zone) : bool :=
  zone_eqb (filter p Z') C' && zone_eqb (filter (notb p) Z') (filter (notb p) Z).

Definition local_ok (J : ginfo2) (Zf : zone) (i : nat) (k : cls) (self : sector) (Z Z' : zone) : bool :=
  let p := in_zone (j_countries J) (cur_of_sec J self) in
  match gen_step (to_old J) (mkG (filter p Z) []) (i, k) with
  | Ok g =>
      part_ok p Z Z' (g_zone g) &&
      gen_ok (filter p Zf) (to_old J) ((i, k), mkG (filter p Z) [], g) &&
      fx_ok J Z Z' []
  | Err _ => false
  end.

(* ------------------------------------------------------------------ *)
(** * A market with suppliers in ONE other zone *)

Definition market_sel2 (mk : sector) (ids : list nat) (rs : sector) (s : sector) : list string :=
  market_sel mk ids rs s.

Fixpoint market_ops (J : ginfo2) (Z : zone) (hcur : string) (mk : sector) (ids : list nat) : list fxop :=
  match ids with
  | [] => []
  | i :: r =>
      match find_sec i Z with
      | Some s =>
          let a := cur_of_sec J s in
          if String.eqb a hcur then market_ops J Z hcur mk r
          else Send hcur (full_name mk (alloc_name s)) :: Receive hcur a (full_name mk (alloc_name s)) :: market_ops J Z hcur mk r
      | None => market_ops J Z hcur mk r
      end
  end.

(** [market_ok] of Conflict.v with the suppliers looked up in the market's zone or in the other one *)
Definition foreign_market_ok (J : ginfo2) (Zf : zone) (m : nat) (self : sector) (acur : string)
           (res : option nat) (others : list (nat * string)) (Z Z' : zone) : bool :=
  let hcur := cur_of_sec J self in
  let inh := in_zone (j_countries J) hcur in
  let ina := in_zone (j_countries J) acur in
  let both := fun s => inh s || ina s in
  let both3 := fun s => inh s || ina s || in_zone (j_countries J) NUM s in
  let W := mkWorld (filter inh Z) (filter ina Z) (ledger_of J Z) [] in
  match market_generate hcur acur W m res others, find_sec m (filter inh Z) with
  | Ok W', Some mk =>
      match the_residual (filter inh Z) mk res with
      | Err _ => false
      | Ok r =>
          let ids := (map fst others ++ [r])%list in
          match find_all (filter both Z) (map fst others), find_sec r (filter both Z) with
          | Some osecs, Some rs =>
              zone_eqb (filter inh Z') (home W') && zone_eqb (filter ina Z') (abroad W') &&
              zone_eqb (filter (notb both3) Z') (filter (notb both3) Z) &&
              oledger_eqb (ledger_of J Z') (fxl W') &&
              fx_ok J Z Z' (market_ops J Z hcur mk ids) &&
              forallb (fun o => match o with
                                | Send s0 _ => String.eqb s0 hcur
                                | Receive s0 t0 _ => String.eqb s0 hcur && String.eqb t0 acur
                                end) (market_ops J Z hcur mk ids) &&
              negb (String.eqb hcur acur) && negb (String.eqb hcur NUM) && negb (String.eqb acur NUM) &&
              forallb (fun i => negb (Nat.eqb i m)) ids && nodupb ids &&
              no_dunder (dem_short mk) && no_dunder (dem_long mk) && no_dunder (sup_short mk) &&
              forallb (fun s => no_dunder (alloc_name s)) osecs &&
              forallb (fun s => negb (String.eqb (fullcode s) (code mk))) (osecs ++ [rs])%list &&
              forallb (fun s => negb (inh s) ||
                                (no_dunder (supply_name mk s) &&
                                 zero_eqn (match lookup_var (supply_name mk s) (vars s) with Some e => e | None => mkEqn "" [] end)))
                      (osecs ++ [rs])%list &&
              kept (market_sel mk ids rs) (home W') (filter inh Zf) &&
              div_quiet Z Z'
          | _, _ => false
          end
      end
  | _, _ => false
  end.

(* ------------------------------------------------------------------ *)
(** * Gold purchases, cross-zone flows *)

(** the F equation of [s'] is that of [s] extended by the terms [ts] (Equation.AddTerm, in order) *)
Definition F_ext_ok (ts : list term) (s s' : sector) : bool :=
  match lookup_var "F" (vars s), lookup_var "F" (vars s') with
  | Some e, Some e' => eqn_eqb e' (mkEqn (blob e) (fold_left (fun acc t => add_term t acc) ts (terms e)))
  | None, None => match ts with [] => true | _ => false end
  | _, _ => false
  end.

Definition gold_ok (J : ginfo2) (i : nat) (self : sector) (Z Z' : zone) : bool :=
  let cur := cur_of_sec J self in
  let full := fullcode self ++ "__" ++ "GOLDPURCHASES" in
  match ledger_of J Z with Some _ => true | None => false end &&
  fx_ok J Z Z' [Send cur full] && div_quiet Z Z' && no_dunder "GOLDPURCHASES" &&
  forallb2 (fun s s' => F_ext_ok (if Nat.eqb (sid s) i then [((-1)%Z, ["GOLDPURCHASES"])] else []) s s') Z Z'.

Definition gen_ok2 (J : ginfo2) (Zf : zone) (x : (nat * cls2) * gstate2 * gstate2) : bool :=
  let '((i, k), st, st') := x in
  let Z := h_zone st in
  let Z' := h_zone st' in
  match find_sec i Z with
  | None => false
  | Some self =>
      match k with
      | CXR | CFX | CGOLD | COld CGov | COld CTreasury | COld (CCentralBank _) => zone_eqb Z' Z
      | CGoldGov _ | CGoldCB _ _ => gold_ok J i self Z Z'
      | COld CMarket =>
          let hcur := cur_of_sec J self in
          let '(res, others) := sup_of i (j_sup J) in
          let ids := (map fst others ++ match res with Some r => [r] | None => [] end)%list in
          match supplier_currencies J Z hcur ids with
          | [] => local_ok J Zf i CMarket self Z Z'
          | [acur] => foreign_market_ok J Zf i self acur res others Z Z'
          | _ => false                      (* suppliers in two other zones: outside the theorems *)
          end
      | COld k0 => local_ok J Zf i k0 self Z Z'
      end
  end.

(** a registered flow: inside one zone the single-currency step recomputed; across zones the two
    bookings and the FX operations *)
Definition flow_ok2 (J : ginfo2) (x : flow * zone * zone) : bool :=
  let '(f, Z, Z') := x in
  let '(src, tgt, var, a, b) := f in
  div_quiet Z Z' &&
  match tgt with
  | None => false
  | Some tg =>
      match find_sec src Z, find_sec tg Z with
      | Some s, Some t =>
          let csrc := cur_of_sec J s in
          let ctgt := cur_of_sec J t in
          let full := fullcode s ++ "__" ++ var in
          if String.eqb csrc ctgt then
            let p := in_zone (j_countries J) csrc in
            match flow_step (filter p Z) f with
            | Ok C' => part_ok p Z Z' C' && fx_ok J Z Z' []
            | Err _ => false
            end
          else
            match ledger_of J Z with Some _ => true | None => false end &&
            fx_ok J Z Z' [Send csrc full; Receive csrc ctgt full] &&
            forallb2 (fun x x' =>
              F_ext_ok ((if Nat.eqb (sid x) src then [((-1)%Z, [full])] else []) ++
                        (if Nat.eqb (sid x) tg then [(1%Z, [full; cross_name csrc ctgt])] else []))%list x x') Z Z'
      | _, _ => false
      end
  end.

Definition exo_ok2 (J : ginfo2) (x : (nat * string * string) * zone * zone) : bool :=
  let '((s, n, spec), Z, Z') := x in
  div_quiet Z Z' && negb (String.eqb n "F") && negb (String.eqb n "INC") && fx_ok J Z Z' [].

Definition full_term_b (t : term) : bool := forallb (has_substring "__") (snd t).

(** the final system: as [Conflict.final_ok]; every NET_<currency> is an endogenous row with empty
    opaque part whose terms are products of full names; at the start of main() they were empty *)
Definition final_ok2 (J : ginfo2) (Z0 Zf : zone) : bool :=
  final_ok (to_old J) Zf &&
  match j_ext J with
  | None => true
  | Some e =>
      match find_sec (e_fx e) Zf, find_sec (e_xr e) Zf, ledger_of J Z0 with
      | Some fx, Some xr, Some L0 =>
          String.eqb (fullcode fx) "EXT_FX" && String.eqb (fullcode xr) "EXT_XR" &&
          forallb (fun ct => match snd ct with [] => true | _ => false end) L0 &&
          forallb (fun c => match lookup_var ("NET_" ++ c) (vars fx) with
                            | Some e0 => String.eqb (blob e0) "" && forallb full_term_b (terms e0) && is_kdef fx ("NET_" ++ c)
                            | None => false
                            end) (zones_of (j_countries J))
      | _, _, _ => false
      end
  end.

Definition op2_name_ok_b (o : uop2) : bool := match o with UOld x => op_name_ok_b x | UAddMarket _ _ => true end.

Definition name_ok_b (n : string) : bool := negb (String.eqb n "F") && negb (String.eqb n "INC").

Definition ledger_untouched2_b (p : program2) : bool :=
  forallb (fun x => match x with
                    | S2Op o => op2_name_ok_b o
                    | S2Country c cur _ => name_ok_b c && match cur with Some y => name_ok_b y | None => true end
                    | _ => true
                    end) p.

Definition conflict_free2 (Rn : run2) : bool :=
  let Zf := fs_zone (q_final Rn) in
  forallb (gen_ok2 (q_info Rn) Zf) (q_gen Rn) &&
  forallb (flow_ok2 (q_info Rn)) (q_flows Rn) &&
  forallb (exo_ok2 (q_info Rn)) (q_exo Rn) &&
  final_ok2 (q_info Rn) (q_zone0 Rn) Zf.

Definition no_conflict2 (p : program2) : bool :=
  ledger_untouched2_b p &&
  match build_run2 p with Ok Rn => conflict_free2 Rn | Err _ => false end.

(** previous-period consistency of the deposit stocks, as in Conflict.v *)
Definition stock_consistent2 (Rn : run2) (vprev : string -> R) (bvp : string -> string -> R) : Prop :=
  forall i issuer st st' self, List.In ((i, COld (CDepositMarket issuer)), st, st') (q_gen Rn) ->
    find_sec i (h_zone st) = Some self ->
    forall sf, List.In sf (fs_zone (q_final Rn)) ->
      (dep_issuer issuer sf = true -> holds vprev bvp sf (Common.sup_name (code self))) /\
      (sid sf = i -> holds vprev bvp sf (Common.dem_name (code self))).

(** exchange rates: every real currency has a non-zero rate and every cross rate is the quotient *)
Definition rates_ok2 (zones : list string) (v : string -> R) : Prop :=
  forall a b, List.In a zones -> List.In b zones -> b <> NUM -> a <> b ->
    v (xr_name b) <> 0%R /\ v (cross_name a b) = (v (xr_name a) / v (xr_name b))%R.
