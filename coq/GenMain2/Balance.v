(** Composition of the booking-group theorems along a run of the pipeline model:
    stock-flow consistency of the final system (C01 for the model). *)
From Coq Require Import List String Bool ZArith Arith Lia Reals Lra.
From SFC.Base Require Import Res Str Sorting.
From SFC.Gen Require Import Fx Zone.
From SFC.GenMarket Require Import Market MarketProofs.
From SFC.GenAsset Require Import Common CommonProofs Money MoneyProofs Deposit DepositProofs Weighting WeightingProofs.
From SFC.GenTax Require Import Tax Dividends TaxProofs DividendProofs.
From SFC.GenMarket Require PropMarket.
From SFC.GenTax Require PropTax.
From SFC.GenAsset Require PropAsset.
From SFC.GenMain2 Require Import Program Classes Main Ledger MainProofs Names Conflict.
Import ListNotations.
Local Open Scope string_scope.
Local Open Scope list_scope.
Local Open Scope R_scope.

(* ------------------------------------------------------------------ *)
(** * Reflection of the boolean helpers *)

Lemma terms_eqb_eq : forall a b, terms_eqb a b = true -> a = b.
Proof.
  induction a as [|[c f] a IH]; intros [|[d g] b]; simpl; try discriminate; [reflexivity|].
  unfold term_eqb. simpl. intros H. apply andb_true_iff in H as [H1 H2]. apply andb_true_iff in H1 as [H0 H1].
  apply Z.eqb_eq in H0. apply factors_eqb_eq in H1. subst. f_equal. now apply IH.
Qed.

Lemma eqn_eqb_eq a b : eqn_eqb a b = true -> a = b.
Proof.
  destruct a, b. unfold eqn_eqb. simpl. intros H. apply andb_true_iff in H as [H1 H2].
  apply String.eqb_eq in H1. apply terms_eqb_eq in H2. now subst.
Qed.

Lemma oeqn_eqb_eq a b : oeqn_eqb a b = true -> a = b.
Proof. destruct a, b; simpl; try discriminate; [intros H; f_equal; now apply eqn_eqb_eq|reflexivity]. Qed.

Lemma forallb2_Forall2 {A B} (f : A -> B -> bool) : forall la lb, forallb2 f la lb = true -> Forall2 (fun a b => f a b = true) la lb.
Proof.
  induction la as [|a la IH]; intros [|b lb]; simpl; try discriminate; [constructor|].
  intros H. apply andb_true_iff in H as [H1 H2]. constructor; [exact H1|now apply IH].
Qed.

Lemma nodupb_NoDup l : nodupb l = true -> NoDup l.
Proof.
  induction l as [|x l IH]; simpl; [constructor|]. intros H. apply andb_true_iff in H as [H1 H2].
  constructor; [|now apply IH]. intros Hin. apply negb_true_iff in H1.
  assert (T : existsb (Nat.eqb x) l = true) by (apply existsb_exists; exists x; split; [exact Hin|apply Nat.eqb_refl]).
  congruence.
Qed.

Lemma fresh_b_fresh s n : fresh_b s n = true -> fresh s n.
Proof. unfold fresh_b, fresh. destruct (lookup_var n (vars s)); auto. Qed.

Lemma Forall2_frame_In_l Z Z' s : Forall2 frame Z Z' -> List.In s Z -> exists s', List.In s' Z' /\ frame s s'.
Proof.
  intros H. induction H as [|a b l l' Hab _ IH]; simpl; [contradiction|].
  intros [<-|Hs]; [exists b; auto|]. destruct (IH Hs) as (s' & H1 & H2). exists s'. auto.
Qed.

(* ------------------------------------------------------------------ *)
Section Sem.
Variables (v vprev : string -> R) (bv bvp : string -> string -> R).

Lemma eqn_val_ext (w : string -> R) (b : string -> string -> R) s s' e : fullcode s' = fullcode s -> eqn_val w b s' e = eqn_val w b s e.
Proof. intros H. unfold eqn_val. rewrite H. f_equal. now apply tsum_in_frame. Qed.

Lemma holds_ext (w : string -> R) (b : string -> string -> R) s s' n : fullcode s' = fullcode s ->
  lookup_var n (vars s') = lookup_var n (vars s) -> holds w b s n -> holds w b s' n.
Proof.
  intros Hf Hl. unfold holds. rewrite Hl, Hf. destruct (lookup_var n (vars s)); [|auto].
  now rewrite (eqn_val_ext w b s s' e Hf).
Qed.

Lemma sat_holds E sf n : sat E v vprev bv -> List.In sf (fs_zone E) -> is_kdef sf n = true -> holds v bv sf n.
Proof.
  intros HS Hin Hk. destruct (has_var sf n) eqn:Hv.
  - specialize (HS sf n Hin Hv). unfold is_kdef in Hk. destruct (row_kind sf n); [exact HS|discriminate|discriminate].
  - unfold holds. unfold has_var in Hv. destruct (lookup_var n (vars sf)); [discriminate|exact I].
Qed.

(** definitions kept until the end hold in the state where they were installed *)
Lemma kept_holds E sel Z' : sat E v vprev bv -> kept sel Z' (fs_zone E) = true -> Forall2 frame Z' (fs_zone E) ->
  forall s' n, List.In s' Z' -> List.In n (sel s') -> holds v bv s' n.
Proof.
  intros HS HK HF.
  assert (G : forall sf, List.In sf (fs_zone E) -> forall n, is_kdef sf n = true -> holds v bv sf n).
  { intros sf Hin n Hk. eapply sat_holds; eassumption. }
  clear HS. unfold kept in HK. revert HK G. induction HF as [|a b l l' Hab _ IH]; simpl; intros HK G s' n Hs Hn; [contradiction|].
  apply andb_true_iff in HK as [K1 K2]. destruct Hs as [<-|Hs].
  - rewrite forallb_forall in K1. specialize (K1 n Hn). unfold kept1 in K1. apply andb_true_iff in K1 as [E1 E2].
    apply oeqn_eqb_eq in E1. apply (holds_ext v bv b a n (eq_sym (frame_fullcode _ _ Hab)) E1).
    apply G; [now left|exact E2].
  - apply (IH K2 (fun sf Hin => G sf (or_intror Hin)) s' n Hs Hn).
Qed.

Lemma same_holds (w : string -> R) (b : string -> string -> R) sel Z' Zf : same_eqs sel Z' Zf = true -> Forall2 frame Z' Zf ->
  forall s' n, List.In s' Z' -> List.In n (sel s') ->
  (forall sf, List.In sf Zf -> frame s' sf -> holds w b sf n) -> holds w b s' n.
Proof.
  intros HK HF. unfold same_eqs in HK. revert HK. induction HF as [|a c l l' Hab _ IH]; simpl; intros HK s' n Hs Hn G; [contradiction|].
  apply andb_true_iff in HK as [K1 K2]. destruct Hs as [<-|Hs].
  - rewrite forallb_forall in K1. specialize (K1 n Hn). unfold same1 in K1. apply oeqn_eqb_eq in K1.
    apply (holds_ext w b c a n (eq_sym (frame_fullcode _ _ Hab)) K1). apply G; [now left|exact Hab].
  - apply (IH K2 s' n Hs Hn). intros sf Hin. apply G. now right.
Qed.

(* ------------------------------------------------------------------ *)
(** * F sums *)

Lemma tsum_extend s ts l : tsum_in v s (extend ts l) = tsum_in v s l + tsum_in v s ts.
Proof.
  revert l. induction ts as [|t ts IH]; intros l; simpl; [lra|].
  unfold extend in *. simpl. rewrite IH, add_term_sum_in. lra.
Qed.

Lemma F_sum_lstep s s' ts : lstep s s' ts -> F_sum v s' = F_sum v s + tsum_in v s ts.
Proof.
  intros [Hf HF _]. unfold F_sum. unfold F_of in HF. destruct (lookup_var "F" (vars s)) as [e|]; simpl in HF.
  - rewrite HF. simpl. rewrite (tsum_in_frame v s s' _ (frame_fullcode _ _ Hf)). apply tsum_extend.
  - destruct HF as [-> ->]. simpl. lra.
Qed.

Lemma zone_F_quiet Z Z' : zstep nothing Z Z' -> zone_F v Z' = zone_F v Z.
Proof.
  intros H. unfold zone_F. induction H as [|a b l l' (ts & L & F) _ IH]; simpl; [reflexivity|].
  destruct ts as [|t ts]; [|inversion F as [|? ? []]].
  rewrite (F_sum_lstep _ _ _ L), IH. simpl. lra.
Qed.

Lemma zsum_zone_F Z : zsum (Fsum v) Z = zone_F v Z.
Proof. unfold zone_F. induction Z as [|s Z IH]; simpl; [reflexivity|]. now rewrite IH. Qed.

Lemma F_total_zone_F Z : F_total v Z = zone_F v Z.
Proof.
  unfold zone_F, F_total. induction Z as [|s Z IH]; simpl; [reflexivity|]. rewrite IH. f_equal.
  unfold F_sum, F_terms. destruct (lookup_var "F" (vars s)); reflexivity.
Qed.

(* ------------------------------------------------------------------ *)
(** * Dividend receivers: the potential *)

Definition dv (bizs : list nat) (s : sector) : R :=
  if recv bizs s
  then match lookup_var "DIV" (vars s) with
       | Some e => eqn_val v bv s e - v (fullcode s ++ "__" ++ "DIV")%string
       | None => 0
       end
  else 0.

Definition pot (bizs : list nat) (Z : zone) : R := zone_F v Z + TaxProofs.sumR (dv bizs) Z.

Lemma div_quiet_dv bizs Z Z' : div_quiet Z Z' = true -> Forall2 frame Z Z' ->
  TaxProofs.sumR (dv bizs) Z' = TaxProofs.sumR (dv bizs) Z.
Proof.
  intros HQ HF. unfold div_quiet in HQ. revert HQ. induction HF as [|a b l l' Hab _ IH]; simpl; intros HQ; [reflexivity|].
  apply andb_true_iff in HQ as [Q1 Q2]. apply andb_true_iff in Q1 as [E1 E2]. apply oeqn_eqb_eq in E1.
  rewrite (IH Q2). f_equal. unfold dv, recv. rewrite (frame_sid _ _ Hab), (frame_fullcode _ _ Hab), <- E1.
  assert (E3 : f_has_div b = f_has_div a).
  { destruct (f_has_div a) as [[]|], (f_has_div b) as [[]|]; simpl in E2; try discriminate; reflexivity. }
  rewrite E3. destruct (negb _ && _); [|reflexivity]. destruct (lookup_var "DIV" (vars a)); [|reflexivity].
  now rewrite (eqn_val_ext v bv a b e (frame_fullcode _ _ Hab)).
Qed.

Lemma pot_quiet bizs Z Z' : zstep nothing Z Z' -> div_quiet Z Z' = true -> pot bizs Z' = pot bizs Z.
Proof.
  intros H HQ. unfold pot. rewrite (zone_F_quiet _ _ H), (div_quiet_dv bizs _ _ HQ (zstep_frame _ _ _ H)). reflexivity.
Qed.

(* ------------------------------------------------------------------ *)
(** * Tax flow *)

Lemma tax_step_F E me rt pt Z Z' : sat E v vprev bv -> tax_generate me rt pt Z = Ok Z' ->
  tax_ok (fs_zone E) me pt Z Z' = true -> Forall2 frame Z' (fs_zone E) -> zone_F v Z' = zone_F v Z.
Proof.
  intros HS HT HOK HF. unfold tax_ok in HOK. apply andb_true_iff in HOK as [HOK K3]. apply andb_true_iff in HOK as [K1 K2].
  rewrite forallb_forall in K1, K2.
  refine (proj2 (PropTax.Tax_bookings_cancel v bv me rt pt Z Z' HT _ _ _)).
  - intros s Hs Hp. specialize (K1 s Hs). rewrite Hp in K1. now apply fresh_b_fresh.
  - intros s Hs Hc. specialize (K2 s Hs). change (String.eqb (code s) pt) with (code_is pt s) in Hc. rewrite Hc in K2.
    apply andb_true_iff in K2 as [A B]. apply negb_true_iff in A, B. now split.
  - intros s' Hs' Hp. eapply (kept_holds E _ Z' HS K3 HF s' "T" Hs').
    unfold tax_sel. unfold participant in Hp. rewrite Hp. now left.
Qed.

(* ------------------------------------------------------------------ *)
(** * Goods / labour market *)

Lemma find_all_spec Z : forall ids secs, find_all Z ids = Some secs -> Forall2 (fun i s => find_sec i Z = Some s) ids secs.
Proof.
  induction ids as [|i ids IH]; intros secs H; simpl in H.
  - injection H as <-. constructor.
  - destruct (find_sec i Z) as [s|] eqn:E; [|discriminate]. destruct (find_all Z ids) as [l|]; [|discriminate].
    injection H as <-. constructor; [exact E|now apply IH].
Qed.

Lemma Forall2_lookup_sec Z ids secs i s : Forall2 (fun i s => find_sec i Z = Some s) ids secs ->
  List.In i ids -> find_sec i Z = Some s -> List.In s secs.
Proof.
  intros H. induction H as [|j t ids secs Hj _ IH]; simpl; [contradiction|].
  intros [->|Hi] Hs; [left; congruence|right; now apply IH].
Qed.

Lemma Forall2_find_some Z ids secs i : Forall2 (fun i s => find_sec i Z = Some s) ids secs ->
  List.In i ids -> find_sec i Z <> None.
Proof.
  intros H. induction H as [|j t a b Hj _ IH]; simpl; [contradiction|]. intros [->|Hi]; [congruence|auto].
Qed.

Lemma zero_eqn_val s e : bv_zero bv -> zero_eqn e = true -> eqn_val v bv s e = 0.
Proof.
  intros HB H. unfold zero_eqn in H. apply andb_true_iff in H as [H1 H2]. unfold eqn_val.
  assert (T : tsum_in v s (terms e) = 0).
  { clear H1. induction (terms e) as [|t l IH]; simpl in *; [reflexivity|]. apply andb_true_iff in H2 as [A B].
    apply Z.eqb_eq in A. rewrite (IH B). unfold tval_in. rewrite A. simpl. lra. }
  rewrite T. destruct (String.eqb (blob e) "") eqn:E0; [lra|]. simpl in H1.
  apply orb_true_iff in H1 as [H1|H1]; apply String.eqb_eq in H1; rewrite H1.
  - rewrite (proj1 (HB (fullcode s))). lra.
  - rewrite (proj2 (HB (fullcode s))). lra.
Qed.

Lemma no_dunder_ok n : no_dunder n = true -> has_substring "__" n = false.
Proof. unfold no_dunder. apply negb_true_iff. Qed.

Lemma Forall2_length_frame Z Z' : Forall2 frame Z Z' -> List.length Z' = List.length Z.
Proof. intros H. induction H; simpl; congruence. Qed.

Lemma market_step_F E m res others Z W' : sat E v vprev bv -> bv_zero bv ->
  market_generate HCUR ACUR (mkWorld Z [] None []) m res others = Ok W' ->
  market_ok (fs_zone E) m res others Z (home W') = true -> Forall2 frame (home W') (fs_zone E) ->
  zone_F v (home W') = zone_F v Z.
Proof.
  intros HS HB MG HOK HF. unfold market_ok in HOK.
  destruct (find_sec m Z) as [mk|] eqn:Fm; [|discriminate].
  destruct (the_residual Z mk res) as [r|] eqn:TR; [|discriminate].
  destruct (find_all Z (map fst others)) as [osecs|] eqn:FA; [|discriminate].
  destruct (find_sec r Z) as [rs|] eqn:Fr; [|discriminate].
  repeat (apply andb_true_iff in HOK as [HOK ?]).
  rename H into K9, H0 into K8, H1 into K7, H2 into K6, H3 into K5, H4 into K4, H5 into K3, H6 into K2. rename HOK into K1.
  set (W := mkWorld Z [] None []) in *. set (ids := (map fst others ++ [r])%list) in *.
  pose proof (market_zstep _ _ _ _ _ _ _ mk MG Fm) as ZS. cbn [home W] in ZS.
  pose proof (zstep_frame _ _ _ ZS) as FR.
  destruct (find_sec_zstep _ _ _ _ _ ZS Fm) as (mk' & Fm' & Fmk).
  apply find_all_spec in FA.
  assert (ALL : Forall2 (fun i s => find_sec i Z = Some s) ids (osecs ++ [rs])%list).
  { unfold ids. apply Forall2_app; [exact FA|]. constructor; [exact Fr|constructor]. }
  assert (FAny : forall i s, find_sec i Z = Some s -> find_any W i = Some s).
  { intros i s Hs. unfold find_any, W. cbn [home]. now rewrite Hs. }
  assert (KH : forall s' n, List.In s' (home W') -> List.In n (market_sel mk ids rs s') -> holds v bv s' n).
  { intros s' n. eapply kept_holds; eassumption. }
  assert (MKsel : forall n, List.In n [sup_short mk; dem_short mk; alloc_name rs] -> holds v bv mk' n).
  { intros n Hn. apply KH; [eapply find_sec_In; exact Fm'|]. unfold market_sel.
    rewrite (find_sec_sid _ _ _ Fm'), (find_sec_sid _ _ _ Fm), Nat.eqb_refl. apply in_or_app. now left. }
  rewrite forallb_forall in K1, K6, K7, K8.
  destruct (PropMarket.Market_bookings_cancel HCUR ACUR v bv W W' m res others mk mk' r osecs rs MG Fm TR) as (D & _).
  - apply Forall_forall. intros i Hi. specialize (K1 i Hi). apply negb_true_iff in K1. now apply Nat.eqb_neq in K1.
  - now apply nodupb_NoDup.
  - unfold HCUR, ACUR. discriminate.
  - unfold HCUR, NUM. discriminate.
  - intros i Hi. cbn [home W]. eapply Forall2_find_some; eassumption.
  - eapply Forall2_imp; [|exact FA]. intros i s Hs. now apply FAny.
  - now apply FAny.
  - constructor.
    + split; now apply no_dunder_ok.
    + now apply no_dunder_ok.
    + apply Forall_forall. intros s Hs. apply no_dunder_ok. now apply K6.
    + apply Forall_forall. intros s Hs. specialize (K7 s Hs). apply negb_true_iff in K7. now apply String.eqb_neq in K7.
    + intros i s Hi Hs. cbn [home W] in Hs. pose proof (Forall2_lookup_sec _ _ _ _ _ ALL Hi Hs) as Hin.
      specialize (K8 s Hin). apply andb_true_iff in K8 as [A B]. split; [now apply no_dunder_ok|].
      unfold prior_eqn. now apply zero_eqn_val.
    + intros i s s' Hi Hs Hs'. cbn [home W] in Hs.
      destruct (find_sec_zstep _ _ _ _ _ ZS Hs) as (s2 & Hs2 & Fss). rewrite Hs' in Hs2. injection Hs2 as <-.
      assert (SN : supply_name mk s' = supply_name mk s).
      { unfold supply_name, share_parent. now rewrite (frame_country _ _ Fss). }
      rewrite <- SN. apply KH; [eapply find_sec_In; exact Hs'|]. unfold market_sel. apply in_or_app. right.
      assert (T : existsb (Nat.eqb (sid s')) ids = true).
      { apply existsb_exists. exists i. split; [exact Hi|]. rewrite (find_sec_sid _ _ _ Hs'). apply Nat.eqb_refl. }
      rewrite T. now left.
  - exact Fm'.
  - apply MKsel. now left.
  - apply MKsel. right. now left.
  - apply MKsel. right. right. now left.
  - cbn [home W] in D. rewrite (dsum_zsum _ _ _ (Forall2_length_frame _ _ FR)) in D.
    rewrite <- !zsum_zone_F. lra.
Qed.

(* ------------------------------------------------------------------ *)
(** * Deposit market (interest) *)

Lemma lag_ok_link E l src : sat E v vprev bv -> lag_ok (fs_zone E) (l, src) = true -> v l = vprev src.
Proof.
  intros HS H. unfold lag_ok in H. apply existsb_exists in H as (sf & Hsf & H).
  apply existsb_exists in H as (n & Hn & H). apply andb_true_iff in H as [H1 H2]. simpl in H1, H2.
  apply String.eqb_eq in H1. apply (proj1 (keys_In _ _)) in Hn. specialize (HS sf n Hsf Hn).
  unfold kind_is_lag in H2. destruct (row_kind sf n) as [t|t|t]; try discriminate.
  apply String.eqb_eq in H2. subst. exact HS.
Qed.

Lemma dep_issuer_frame issuer s s' : frame s s' -> dep_issuer issuer s' = dep_issuer issuer s.
Proof. intros H. unfold dep_issuer. now rewrite (frame_is_market _ _ H), (frame_code _ _ H). Qed.

Lemma deposit_step_F E mk c issuer Z Z' : sat E v vprev bv ->
  deposit_generate_checked c issuer mk Z = Ok Z' ->
  deposit_ok (fs_zone E) mk c issuer Z Z' = true -> Forall2 frame Z' (fs_zone E) ->
  (forall sf, List.In sf (fs_zone E) ->
     (dep_issuer issuer sf = true -> holds vprev bvp sf (Common.sup_name c)) /\
     (sid sf = mk -> holds vprev bvp sf (Common.dem_name c))) ->
  zone_F v Z' = zone_F v Z.
Proof.
  intros HS DG HOK HF HP. unfold deposit_ok in HOK.
  repeat (apply andb_true_iff in HOK as [HOK ?]). rename H into K5, H0 into K4, H1 into K3, H2 into K2, H3 into K1. clear HOK.
  rewrite forallb_forall in K2, K3.
  rewrite <- !F_total_zone_F.
  refine (proj2 (PropAsset.Deposit_interest_cancels_checked c issuer mk Z Z' DG (no_dunder_ok _ K1) _ v vprev bv bvp _ _ _)).
  - intros s Hs Hp. specialize (K2 s Hs). unfold dep_part in Hp. now rewrite Hp in K2.
  - intros l src Hin. apply (lag_ok_link E); [exact HS|]. now apply K3.
  - intros s' Hs'. split.
    + intros Hi. apply (same_holds vprev bvp _ _ _ K5 HF s' _ Hs').
      * unfold dep_prev_sel. rewrite Hi. apply in_or_app. left. now left.
      * intros sf Hsf Fr. apply (proj1 (HP sf Hsf)). now rewrite (dep_issuer_frame _ _ _ Fr).
    + intros Hm. apply (same_holds vprev bvp _ _ _ K5 HF s' _ Hs').
      * unfold dep_prev_sel. rewrite Hm, Nat.eqb_refl. apply in_or_app. right. now left.
      * intros sf Hsf Fr. apply (proj2 (HP sf Hsf)). now rewrite (frame_sid _ _ Fr).
  - intros s' Hs' Hp. eapply (kept_holds E _ Z' HS K4 HF s' _ Hs'). unfold dep_sel. unfold dep_part in Hp. rewrite Hp. now left.
Qed.

(* ------------------------------------------------------------------ *)
(** * Registered cash flows *)

Lemma F_sum_acf_none s t b s' : add_cash_flow s t None b = Some s' -> F_sum v s' = F_sum v s + tval_in v s t.
Proof. intros H. apply lstep_acf_none in H. rewrite (F_sum_lstep _ _ _ H). simpl. lra. Qed.

Lemma tval_full s c x : has_substring "__" x = true -> tval_in v s (c, [x]) = IZR c * v x.
Proof. intros H. unfold tval_in. simpl. unfold qualify. rewrite H. lra. Qed.

Lemma upd_sum mu i f Z Z' : upd i f Z = Ok Z' -> (forall s s', f s = Ok s' -> sid s' = sid s) ->
  exists s s', find_sec i Z = Some s /\ f s = Ok s' /\ zsum mu Z' = zsum mu Z - mu s + mu s'.
Proof.
  intros H Hf. destruct (upd_spec _ _ _ _ H Hf) as (s & s' & A & B & _ & _ & C & _). exists s, s'. auto.
Qed.

Lemma flow_step_F Z f Z' : flow_step Z f = Ok Z' -> zone_F v Z' = zone_F v Z.
Proof.
  destruct f as [[[[src tgt] var] a] b]. unfold flow_step. destruct tgt as [tg|]; [|discriminate].
  destruct (find_sec src Z) as [s0|] eqn:Fs; [|discriminate].
  destruct (find_sec tg Z) as [t0|]; [|discriminate].
  destruct (has_var s0 var); [|discriminate].
  destruct (upd src _ Z) as [Z1|] eqn:U1; [|discriminate]. simpl. intros U2.
  set (full := (fullcode s0 ++ "__" ++ var)%string) in *.
  assert (HFu : has_substring "__" full = true) by apply TaxProofs.has_sub_full.
  assert (SID : forall t x x', opt_key (add_cash_flow x t None a) = Ok x' -> sid x' = sid x).
  { intros t x x' E. unfold opt_key in E. destruct (add_cash_flow x t None a) as [y|] eqn:E2; [|discriminate].
    injection E as <-. apply lstep_acf_none in E2. apply (frame_sid _ _ (ls_frame _ _ _ E2)). }
  assert (SID' : forall t x x', opt_key (add_cash_flow x t None b) = Ok x' -> sid x' = sid x).
  { intros t x x' E. unfold opt_key in E. destruct (add_cash_flow x t None b) as [y|] eqn:E2; [|discriminate].
    injection E as <-. apply lstep_acf_none in E2. apply (frame_sid _ _ (ls_frame _ _ _ E2)). }
  destruct (upd_sum (Fsum v) _ _ _ _ U1 (SID _)) as (x & x' & _ & E1 & S1).
  destruct (upd_sum (Fsum v) _ _ _ _ U2 (SID' _)) as (y & y' & _ & E2 & S2).
  unfold opt_key in E1, E2.
  destruct (add_cash_flow x _ None a) as [x2|] eqn:A1; [|discriminate]. injection E1 as <-.
  destruct (add_cash_flow y _ None b) as [y2|] eqn:A2; [|discriminate]. injection E2 as <-.
  change (Fsum v) with (F_sum v) in S1, S2.
  rewrite (F_sum_acf_none _ _ _ _ A1), (tval_full _ _ _ HFu) in S1.
  rewrite (F_sum_acf_none _ _ _ _ A2), (tval_full _ _ _ HFu) in S2.
  rewrite <- !zsum_zone_F. change (Fsum v) with (F_sum v). lra.
Qed.

(* ------------------------------------------------------------------ *)
(** * FixedMarginBusiness: wage bill and dividends *)

Lemma put_back_sum (f : sector -> R) cc : forall Z C', List.length C' = List.length (filter (in_country cc) Z) ->
  TaxProofs.sumR f (put_back cc C' Z) =
  TaxProofs.sumR f Z - TaxProofs.sumR f (filter (in_country cc) Z) + TaxProofs.sumR f C'.
Proof.
  induction Z as [|s r IH]; intros C' HL; simpl in *.
  - destruct C'; [simpl; lra|discriminate].
  - destruct (in_country cc s); simpl in *.
    + destruct C' as [|c C'']; [discriminate|]. simpl. rewrite IH by (simpl in HL; lia). lra.
    + rewrite IH by exact HL. lra.
Qed.

Lemma sum_indicator_zero (c : R) i : forall Z, (forall s, List.In s Z -> sid s <> i) ->
  TaxProofs.sumR (fun s => if Nat.eqb (sid s) i then c else 0) Z = 0.
Proof.
  induction Z as [|a l IH]; intros H; simpl; [reflexivity|].
  destruct (Nat.eqb_spec (sid a) i) as [E|E]; [exfalso; apply (H a); [now left|exact E]|].
  rewrite IH; [lra|]. intros s Hs. apply H. now right.
Qed.

Lemma sum_indicator (c : R) r : forall Z, NoDup (map sid Z) -> List.In r Z ->
  TaxProofs.sumR (fun s => if Nat.eqb (sid s) (sid r) then c else 0) Z = c.
Proof.
  induction Z as [|a l IH]; intros ND Hin; simpl in *; [contradiction|]. inversion ND as [|? ? Ha Hl]; subst.
  destruct Hin as [->|Hin].
  - rewrite Nat.eqb_refl. rewrite sum_indicator_zero; [lra|]. intros s Hs E. apply Ha. rewrite <- E. now apply in_map.
  - destruct (Nat.eqb_spec (sid a) (sid r)) as [E|E]; [exfalso; apply Ha; rewrite E; now apply in_map|].
    rewrite (IH Hl Hin). lra.
Qed.

Lemma tsum_in_app s a b : tsum_in v s (a ++ b) = tsum_in v s a + tsum_in v s b.
Proof. induction a as [|t a IH]; simpl; [lra|]. rewrite IH. lra. Qed.

Lemma renders_empty_zero e : renders_empty e = true -> zero_eqn e = true.
Proof.
  unfold renders_empty, zero_eqn. intros H. apply andb_true_iff in H as [H1 H2]. rewrite H2, andb_true_r.
  apply orb_true_iff in H1 as [H1|H1]; rewrite H1; [reflexivity|]. now rewrite !orb_true_r.
Qed.

Lemma eqn_val_append_def s e t : bv_zero bv -> eqn_val v bv s (append_def e t) = eqn_val v bv s e + tval_in v s t.
Proof.
  intros HB. unfold append_def. destruct (renders_empty e) eqn:RE.
  - rewrite (zero_eqn_val s e HB (renders_empty_zero _ RE)). unfold eqn_val. simpl.
    rewrite (proj2 (HB (fullcode s))). lra.
  - unfold eqn_val. simpl. rewrite tsum_in_app. simpl. lra.
Qed.

Lemma firm_no_cand bizs p rs C C' : find (cand bizs) C = None -> List.In p bizs ->
  firm_generate bizs (p, rs) C = Ok C' -> update_where (sid_is p) (apply_resets rs) C = Ok C'.
Proof.
  intros HN Hp H. unfold firm_generate in H. cbn [fst snd] in H.
  destruct (update_where (sid_is p) (apply_resets rs) C) as [C1|] eqn:U; [|discriminate]. cbn [bind] in H.
  unfold div_step in H.
  assert (EX : existsb (candidate bizs p) C1 = false).
  { rewrite (existsb_ext_eq _ _ C1 (fun a => candidate_cand bizs p a Hp)).
    apply update_where_spec in U. clear H. revert HN. induction U as [|a b l l' Hab _ IH]; simpl; [reflexivity|].
    fold (resrel p rs a b) in Hab. rewrite (resrel_cand bizs _ _ _ _ Hab).
    destruct (cand bizs a); [discriminate|]. simpl. exact IH. }
  rewrite EX in H. exact H.
Qed.

Lemma biz_member (I : ginfo) C s : List.In s C -> NoDup (map sid C) ->
  existsb (Nat.eqb (sid s)) (biz_ids I C) = is_fmb (class_of (i_classes I) (sid s)).
Proof.
  intros Hs ND. unfold biz_ids. destruct (is_fmb (class_of (i_classes I) (sid s))) eqn:E.
  - apply existsb_exists. exists (sid s). split; [|apply Nat.eqb_refl]. apply in_map. apply filter_In. now split.
  - destruct (existsb _ _) eqn:X; [|reflexivity]. apply existsb_exists in X as (j & Hj & Ej).
    apply Nat.eqb_eq in Ej. subst j. apply in_map_iff in Hj as (s2 & E2 & H2). apply filter_In in H2 as [H2 F2].
    rewrite E2 in F2. congruence.
Qed.

Lemma NoDup_map_filter_sid (f : sector -> bool) Z : NoDup (map sid Z) -> NoDup (map sid (filter f Z)).
Proof.
  induction Z as [|a l IH]; simpl; intros H; [constructor|]. inversion H as [|? ? Ha Hl]; subst.
  destruct (f a); simpl; [constructor|]; auto.
  intros Hin. apply Ha. apply in_map_iff in Hin as (x & E & Hx). apply filter_In in Hx as [Hx _]. rewrite <- E. now apply in_map.
Qed.

Lemma paid_by_single p C self : NoDup (map sid C) -> List.In self C -> sid self = p ->
  paid_by v p C = v (vname self "DIV").
Proof.
  intros ND Hin Hs. unfold paid_by, sid_is.
  assert (E : forall s, List.In s C -> (if Nat.eqb (sid s) p then v (vname s "DIV") else 0) =
                                      (if Nat.eqb (sid s) (sid self) then v (vname self "DIV") else 0)).
  { intros s Hsin. rewrite Hs. destruct (Nat.eqb_spec (sid s) p) as [E|E]; [|reflexivity].
    assert (s = self); [|now subst].
    apply (NoDup_map_In_inj sid C ND); [exact Hsin|exact Hin|congruence]. }
  rewrite (TaxProofs.sumR_ext _ _ _ E). now apply sum_indicator.
Qed.

Lemma Forall2_and_In {X Y} (P Q T : X -> Y -> Prop) l l' :
  Forall2 P l l' -> Forall2 Q l l' -> (forall a b, List.In a l -> P a b -> Q a b -> T a b) -> Forall2 T l l'.
Proof.
  intros HP. induction HP as [|a b l l' Hab _ IH]; intros HQ HT; inversion HQ; subst; constructor.
  - apply HT; [now left|assumption|assumption].
  - apply IH; [assumption|]. intros x y Hx. apply HT. now right.
Qed.

Lemma sum_pairs (f g d : sector -> R) Z Z' : Forall2 (fun s s' => g s' = f s + d s) Z Z' ->
  TaxProofs.sumR g Z' = TaxProofs.sumR f Z + TaxProofs.sumR d Z.
Proof. intros H. induction H as [|a b l l' Hab _ IH]; simpl; [lra|]. rewrite Hab, IH. lra. Qed.

Lemma firm_step_pot E (I : ginfo) p mz wage margin lab out st st' bizsG :
  sat E v vprev bv -> bv_zero bv ->
  gen_step I st (p, CBusiness mz wage margin lab out) = Ok st' ->
  is_fmb (class_of (i_classes I) p) = true ->
  firm_ok (fs_zone E) I p (g_zone st) (g_zone st') = true ->
  Forall2 frame (g_zone st') (fs_zone E) -> NoDup (map sid (g_zone st)) ->
  (forall s, List.In s (g_zone st) -> existsb (Nat.eqb (sid s)) bizsG = is_fmb (class_of (i_classes I) (sid s))) ->
  pot bizsG (g_zone st') = pot bizsG (g_zone st).
Proof.
  intros HS HB GS CL HOK HF ND HBZ.
  pose proof (zstep_frame _ _ _ (gen_step_zstep _ _ _ _ GS)) as FR.
  unfold gen_step in GS. unfold firm_ok in HOK. set (Z := g_zone st) in *.
  destruct (find_sec p Z) as [self|] eqn:Fs; [|discriminate].
  set (cc := country self) in *. set (C := filter (in_country cc) Z) in *.
  destruct (find (fun s => String.eqb (code s) out) C) as [mk0|]; [|discriminate].
  destruct (has_var mk0 ("SUP_" ++ out)); [|discriminate].
  apply same_flows_inv in GS. set (rs := wage_resets mz wage margin lab _) in GS.
  destruct (firm_generate (biz_ids I C) (p, rs) C) as [C'|] eqn:FG; [|discriminate]. simpl in GS. injection GS as GS.
  set (Z' := g_zone st') in *. symmetry in GS.
  assert (SelfZ : List.In self Z) by (eapply find_sec_In; exact Fs).
  assert (Sp : sid self = p) by (eapply find_sec_sid; exact Fs).
  assert (SelfC : List.In self C) by (apply filter_In; split; [exact SelfZ|unfold in_country, cc; apply String.eqb_refl]).
  assert (NDC : NoDup (map sid C)) by (now apply NoDup_map_filter_sid).
  assert (Hp : List.In p (biz_ids I C)).
  { unfold biz_ids. rewrite <- Sp. apply in_map. apply filter_In. split; [exact SelfC|]. now rewrite Sp. }
  assert (ROK : resets_ok rs).
  { intros k Hk. unfold rs, wage_resets in Hk. destruct mz; simpl in Hk.
    - destruct Hk as [<-|[]]. split; simpl; intros X; discriminate X.
    - destruct Hk as [<-|[<-|[]]]; split; simpl; intros X; discriminate X. }
  assert (ROKL : ledger_free (map fst rs)).
  { intros k Hk. unfold rs, wage_resets in Hk. destruct mz; simpl in Hk.
    - destruct Hk as [<-|[]]. split; simpl; intros X; discriminate X.
    - destruct Hk as [<-|[<-|[]]]; split; simpl; intros X; discriminate X. }
  change (cand_b (biz_ids I C)) with (cand (biz_ids I C)) in HOK.
  destruct (find (cand (biz_ids I C)) C) as [r|] eqn:FC.
  2:{ (* no receiver: only the wage bill *)
      apply pot_quiet; [|exact HOK]. rewrite GS. apply put_back_rel; [intros s; quiet_; apply lstep_refl|].
      eapply zstep_update_where; [eapply firm_no_cand; eassumption|].
      intros s s' Es. quiet_. eapply lstep_apply_resets; eassumption. }
  (* a receiver *)
  set (pf := (fullcode self ++ "__" ++ "PROF")%string) in *.
  apply andb_true_iff in HOK as [HOK K4]. apply andb_true_iff in HOK as [HOK K3]. apply andb_true_iff in HOK as [_ K2].
  destruct (firm_step v _ _ _ _ _ _ FG Hp ROK FC) as (self2 & r' & b & Fself & Fr' & FCC & Hb & RD & SQ & ZF).
  assert (self2 = self).
  { apply find_some in Fself as [I1 I2]. unfold sid_is in I2. apply Nat.eqb_eq in I2.
    apply (NoDup_map_In_inj sid C NDC); [exact I1|exact SelfC|congruence]. }
  subst self2. rewrite Hb in K4.
  destruct (lookup_var "DIV" (vars r)) as [e|] eqn:ED; [|discriminate].
  apply andb_true_iff in K4 as [K4 K5]. apply forallb2_Forall2 in K5.
  assert (RC : List.In r C) by (apply find_some in FC; tauto).
  assert (RZ : List.In r Z) by (apply filter_In in RC; tauto).
  assert (CR : cand (biz_ids I C) r = true) by (apply find_some in FC; tauto).
  assert (Rnp : sid r <> p).
  { pose proof (cand_not_payer _ _ _ Hp CR) as X. unfold sid_is in X. now apply Nat.eqb_neq in X. }
  assert (RG : existsb (Nat.eqb (sid r)) bizsG = false).
  { rewrite (HBZ r RZ). rewrite <- (biz_member I C r RC NDC). unfold cand in CR. apply andb_true_iff in CR as [X _].
    now apply negb_true_iff in X. }
  (* the payer's DIV = PROF holds *)
  assert (PAY : paid_by v p C = v pf).
  { rewrite (paid_by_single p C self NDC SelfC Sp).
    destruct (Forall2_In_l _ _ _ _ SQ SelfC) as (self' & Hs' & (Fss & Inst & _)).
    assert (INS : installed self').
    { apply Inst; [unfold sid_is; rewrite Sp; apply Nat.eqb_refl|]. left. now apply fresh_b_fresh. }
    assert (SZ' : List.In self' Z').
    { rewrite GS. clear -Hs' FCC. unfold C in *. revert C' FCC Hs'. induction Z as [|a l IH]; intros C' FCC Hs'; simpl in *.
      - inversion FCC; subst. contradiction.
      - destruct (in_country cc a).
        + inversion FCC as [|? c ? C'' Hac Hr]; subst. simpl in Hs'. destruct Hs' as [<-|Hs']; [now left|right; eapply IH; eassumption].
        + right. eapply IH; eassumption. }
    assert (HD : holds v bv self' "DIV").
    { eapply (kept_holds E _ Z' HS K3 HF self' "DIV" SZ'). unfold firm_sel. rewrite (frame_sid _ _ Fss), Sp, Nat.eqb_refl. now left. }
    pose proof (holds_struct v bv self' "DIV" _ INS HD) as X. rewrite (frame_vname _ _ _ Fss) in X. rewrite X.
    assert (Q : qualify self' "PROF" = pf).
    { unfold qualify, pf. rewrite (frame_fullcode _ _ Fss). reflexivity. }
    change (tsum_in v self' [(1%Z, ["PROF"])]) with (IZR 1 * (v (qualify self' "PROF") * 1) + 0). rewrite Q. lra. }
  (* F sums *)
  assert (ZFZ : zone_F v Z' = zone_F v Z - paid_by v p C + (if b then 0 else v (vname r "DIV"))).
  { unfold zone_F. rewrite GS, put_back_sum; [|symmetry; fold C; clear -FCC; induction FCC; simpl; congruence].
    fold C. fold (zone_F v C') (zone_F v C) (zone_F v Z). rewrite ZF. lra. }
  (* receivers *)
  set (delta := if b then tval_in v r (1%Z, [pf]) else tval_in v r (1%Z, [pf]) - v (vname r "DIV")).
  assert (DV : forall s s', frame s s' -> List.In s Z ->
     (if Nat.eqb (sid s) p then true
      else if Nat.eqb (sid s) (sid r)
           then oeqn_eqb (lookup_var "DIV" (vars s')) (Some (if b then append_def e (1%Z, [pf]) else mkEqn "" [(1%Z, [pf])])) &&
                of_has_div_eqb (f_has_div s') (Some true)
           else oeqn_eqb (lookup_var "DIV" (vars s)) (lookup_var "DIV" (vars s')) && of_has_div_eqb (f_has_div s) (f_has_div s')) = true ->
     dv bizsG s' = dv bizsG s + (if Nat.eqb (sid s) (sid r) then delta else 0)).
  { intros s s' Fss Hs Hc. unfold dv, recv. rewrite (frame_sid _ _ Fss), (frame_fullcode _ _ Fss).
    destruct (Nat.eqb_spec (sid s) p) as [E1|E1].
    - (* the payer is a business *)
      rewrite (HBZ s Hs), E1, CL. simpl. destruct (Nat.eqb_spec p (sid r)); [congruence|]. lra.
    - destruct (Nat.eqb_spec (sid s) (sid r)) as [E2|E2].
      + assert (s = r) by (apply (NoDup_map_In_inj sid Z ND); assumption). subst s.
        rewrite RG. simpl. apply andb_true_iff in Hc as [A B]. apply oeqn_eqb_eq in A. rewrite A, Hb, ED.
        destruct (f_has_div s') as [[]|]; simpl in B; try discriminate.
        unfold delta. rewrite (eqn_val_ext v bv r s' _ (frame_fullcode _ _ Fss)). destruct b.
        * rewrite (eqn_val_append_def r e _ HB). unfold vname. lra.
        * rewrite eqn_val_def. change (tsum_in v r [(1%Z, [pf])]) with (tval_in v r (1%Z, [pf]) + 0). unfold vname.
          change (fullcode r ++ "__DIV")%string with (fullcode r ++ "__" ++ "DIV")%string. lra.
      + apply andb_true_iff in Hc as [A B]. apply oeqn_eqb_eq in A. rewrite <- A.
        assert (E3 : f_has_div s' = f_has_div s).
        { destruct (f_has_div s) as [[]|], (f_has_div s') as [[]|]; simpl in B; try discriminate; reflexivity. }
        rewrite E3. destruct (negb _ && _); [|lra]. destruct (lookup_var "DIV" (vars s)); [|lra].
        rewrite (eqn_val_ext v bv s s' e0 (frame_fullcode _ _ Fss)). lra. }
  assert (SDV : TaxProofs.sumR (dv bizsG) Z' = TaxProofs.sumR (dv bizsG) Z + delta).
  { rewrite (sum_pairs (dv bizsG) (dv bizsG) (fun s => if Nat.eqb (sid s) (sid r) then delta else 0) Z Z').
    - now rewrite (sum_indicator delta r Z ND RZ).
    - eapply (Forall2_and_In _ _ _ _ _ FR K5). intros a c Ha Hac Hk. now apply DV. }
  unfold pot. rewrite ZFZ, SDV, PAY. unfold delta. rewrite (tval_full r _ pf (TaxProofs.has_sub_full _ _)).
  destruct b; lra.
Qed.

(* ------------------------------------------------------------------ *)
(** * One _GenerateEquations call *)

Lemma market_flows_inv (st : gstate) (r : result world) st' :
  (do Z' <- (do W <- r ;; Ok (home W)) ;; Ok (mkG Z' (g_flows st))) = Ok st' -> exists W, r = Ok W /\ home W = g_zone st'.
Proof. destruct r as [W|]; simpl; intros H; [injection H as <-; eauto|discriminate]. Qed.

Lemma gen_terms_quiet ik Z Z' : gen_terms ik Z = (fun _ _ => False) -> zstep (gen_terms ik Z) Z Z' -> zstep nothing Z Z'.
Proof. intros E H. rewrite E in H. exact H. Qed.

Lemma gen_step_pot (Rn : run) (I : ginfo) i k st st' bizsG :
  sat (r_final Rn) v vprev bv -> bv_zero bv -> stock_consistent Rn vprev bvp ->
  List.In ((i, k), st, st') (r_gen Rn) ->
  gen_step I st (i, k) = Ok st' -> k = class_of (i_classes I) i ->
  gen_ok (fs_zone (r_final Rn)) I ((i, k), st, st') = true ->
  Forall2 frame (g_zone st') (fs_zone (r_final Rn)) -> NoDup (map sid (g_zone st)) ->
  (forall s, List.In s (g_zone st) -> existsb (Nat.eqb (sid s)) bizsG = is_fmb (class_of (i_classes I) (sid s))) ->
  pot bizsG (g_zone st') = pot bizsG (g_zone st).
Proof.
  intros HS HB SC Hin GS CL HOK HF ND HBZ.
  pose proof (gen_step_zstep _ _ _ _ GS) as ZS. pose proof (zstep_frame _ _ _ ZS) as FR.
  assert (Q : gen_terms (i, k) (g_zone st) = (fun _ _ => False) -> div_quiet (g_zone st) (g_zone st') = true ->
              pot bizsG (g_zone st') = pot bizsG (g_zone st)).
  { intros E DQ. apply pot_quiet; [|exact DQ]. rewrite E in ZS. exact ZS. }
  unfold gen_ok in HOK.
  destruct k as [| |t|ai af good lab|ai af good lab|ai af good|mz wage margin lab out|mz wage lab ms|rate paid|
                 |issuer|issuer]; try (apply Q; [reflexivity|exact HOK]).
  4:{ destruct (find_sec i (g_zone st)); [|discriminate]. apply andb_true_iff in HOK as [_ HOK]. apply Q; [reflexivity|exact HOK]. }
  - (* FixedMarginBusiness *)
    eapply firm_step_pot; try eassumption. now rewrite <- CL.
  - (* TaxFlow *)
    apply andb_true_iff in HOK as [K1 K2]. unfold pot. rewrite (div_quiet_dv bizsG _ _ K2 FR). f_equal.
    unfold gen_step in GS. destruct (find_sec i (g_zone st)); [|discriminate]. apply same_flows_inv in GS.
    eapply tax_step_F; eassumption.
  - (* Market *)
    destruct (sup_of i (i_sup I)) as [res others] eqn:SO.
    apply andb_true_iff in HOK as [K1 K2]. unfold pot. rewrite (div_quiet_dv bizsG _ _ K2 FR). f_equal.
    unfold gen_step in GS. destruct (find_sec i (g_zone st)); [|discriminate]. rewrite SO in GS.
    apply market_flows_inv in GS as (W & MG & HW). rewrite <- HW in *.
    eapply market_step_F; eassumption.
  - (* DepositMarket *)
    destruct (find_sec i (g_zone st)) as [self|] eqn:Fs; [|discriminate].
    apply andb_true_iff in HOK as [K1 K2]. unfold pot. rewrite (div_quiet_dv bizsG _ _ K2 FR). f_equal.
    unfold gen_step in GS. rewrite Fs in GS. apply same_flows_inv in GS.
    eapply deposit_step_F; try eassumption. intros sf Hsf. eapply SC; eassumption.
Qed.
End Sem.

(* ------------------------------------------------------------------ *)
(** * The whole run *)

Lemma chain_In {A B} (f : A -> B -> result A) tr a a' x : chain f tr a a' -> List.In x tr ->
  f (snd (fst x)) (fst (fst x)) = Ok (snd x).
Proof.
  intros C. induction C as [a0|b a0 a1 tr a2 Hf _ IH]; simpl; [contradiction|].
  intros [<-|Hin]; [exact Hf|now apply IH].
Qed.

Section Pot.
Context {S B : Type} (f : S -> B -> result S) (pz : S -> zone) (P : zone -> R) (Zf : zone).
Hypothesis Hframe : forall st b st', f st b = Ok st' -> Forall2 frame (pz st) (pz st').

Lemma chain_pot : forall tr st st', chain f tr st st' ->
  (forall x, List.In x tr -> Forall2 frame (pz (snd x)) Zf -> NoDup (map sid (pz (snd (fst x)))) ->
             P (pz (snd x)) = P (pz (snd (fst x)))) ->
  Forall2 frame (pz st') Zf -> NoDup (map sid (pz st)) -> P (pz st') = P (pz st).
Proof.
  induction tr as [|[[b x] y] tr IH]; intros st st' C HX HF ND; inversion C; subst; [reflexivity|].
  match goal with Hf : f st b = Ok _, Hc : chain f tr _ st' |- _ => rename Hf into F1; rename Hc into C1 end.
  pose proof (chain_frames f pz Hframe _ _ _ C1) as FT.
  pose proof (Hframe _ _ _ F1) as F0.
  assert (ND1 : NoDup (map sid (pz y))) by (rewrite (map_frame sid _ _ frame_sid F0); exact ND).
  rewrite (IH _ _ C1 (fun x0 Hx => HX x0 (or_intror Hx)) HF ND1).
  apply (HX (b, st, y) (or_introl eq_refl)); [|exact ND]. simpl.
  eapply Forall2_trans_frame; eassumption.
Qed.
End Pot.

Lemma all_biz_member (I : ginfo) Zf i : List.In i (map sid Zf) ->
  existsb (Nat.eqb i) (all_biz I Zf) = is_fmb (class_of (i_classes I) i).
Proof.
  intros Hi. unfold all_biz. destruct (is_fmb (class_of (i_classes I) i)) eqn:E.
  - apply existsb_exists. exists i. split; [|apply Nat.eqb_refl]. apply in_map_iff in Hi as (s & <- & Hs).
    apply in_map. apply filter_In. now split.
  - destruct (existsb _ _) eqn:X; [|reflexivity]. apply existsb_exists in X as (j & Hj & Ej).
    apply Nat.eqb_eq in Ej. subst j. apply in_map_iff in Hj as (s2 & E2 & H2). apply filter_In in H2 as [H2 F2].
    rewrite E2 in F2. congruence.
Qed.

Lemma ledger_untouched_b_ok p : ledger_untouched_b p = true -> ledger_untouched p.
Proof.
  unfold ledger_untouched_b, ledger_untouched. rewrite forallb_forall. intros H o Ho. specialize (H _ Ho). simpl in H.
  destruct o; simpl in *; auto; apply andb_true_iff in H as [H1 H2]; apply negb_true_iff in H1, H2;
    apply String.eqb_neq in H1, H2; now split.
Qed.

Lemma zone0_sids p st : cinv p st -> NoDup (map sid (zone0 st)).
Proof.
  intros CI. apply NoDup_map_inj; [eapply zone0_nodup; exact CI|].
  intros x y Hx Hy E. apply zone0_In in Hx as (s & Hs & -> & _). apply zone0_In in Hy as (s' & Hs' & -> & _).
  f_equal. simpl in E. apply (NoDup_map_In_inj sid (c_secs st)); [|exact Hs|exact Hs'|exact E].
  rewrite (ci_sids _ _ CI). apply seq_NoDup.
Qed.

Definition ledger_sum (v : string -> R) (Z : zone) : R :=
  TaxProofs.sumR (fun s => if hasF s then v (fullcode s ++ "__" ++ "F")%string - v (fullcode s ++ "__" ++ "LAG_F")%string else 0) Z.

(** C01 for the model: under [no_conflict], in every period whose values satisfy the final system
    (with previous-period deposit stocks consistent), the changes of the financial assets of all
    sectors sum to zero. *)
Theorem main_stock_flow_consistent p Rn : build_run p = Ok Rn -> no_conflict p = true ->
  forall (v vprev : string -> R) (bv bvp : string -> string -> R),
    bv_zero bv -> sat (r_final Rn) v vprev bv -> stock_consistent Rn vprev bvp ->
    ledger_sum v (fs_zone (r_final Rn)) = 0.
Proof.
  intros HR NC v vprev bv bvp HB HS SC. unfold no_conflict in NC. rewrite HR in NC.
  apply andb_true_iff in NC as [LU CF]. apply ledger_untouched_b_ok in LU.
  pose proof (main_ledger_decomposition _ _ HR LU) as LD.
  destruct (build_run_inv _ _ HR) as (st & HC & HM).
  pose proof (construct_all_cinv _ _ HC) as CI.
  destruct (main_run_inv _ _ HM) as (gfin & Z1 & E0 & EI & C1 & M1 & C2 & M2 & C3 & M3 & _).
  unfold conflict_free in CF. repeat (apply andb_true_iff in CF as [CF ?]).
  rename H into FOK, H0 into XOK, H1 into FLOK. rename CF into GOK.
  rewrite forallb_forall in GOK, FLOK, XOK.
  set (Zf := fs_zone (r_final Rn)) in *. set (I := r_info Rn) in *. set (bizsG := all_biz I Zf).
  (* frames *)
  assert (FG : forall st0 b st', gen_step I st0 b = Ok st' -> Forall2 frame (g_zone st0) (g_zone st')).
  { intros st0 b st' Hs. apply (zstep_frame _ _ _ (gen_step_zstep _ _ _ _ Hs)). }
  assert (FFl : forall Z b Z', flow_step Z b = Ok Z' -> Forall2 frame Z Z').
  { intros Z b Z' Hs. apply (zstep_frame _ _ _ (flow_zstep _ _ _ Hs)). }
  pose proof (chain_frames exo_step (fun Z => Z) exo_step_frame _ _ _ C3) as F3.
  pose proof (chain_frames flow_step (fun Z => Z) FFl _ _ _ C2) as F2.
  pose proof (chain_frames (gen_step I) g_zone FG _ _ _ C1) as F1. cbn [g_zone] in F1.
  pose proof (zone0_sids _ _ CI) as ND0.
  assert (NDg : NoDup (map sid (g_zone gfin))) by (rewrite (map_frame sid _ _ frame_sid F1); exact ND0).
  assert (ND1 : NoDup (map sid Z1)) by (rewrite (map_frame sid _ _ frame_sid F2); exact NDg).
  assert (BZ : forall Z, Forall2 frame Z Zf -> forall s, List.In s Z ->
                existsb (Nat.eqb (sid s)) bizsG = is_fmb (class_of (i_classes I) (sid s))).
  { intros Z HF s Hs. apply all_biz_member. rewrite (map_frame sid _ _ frame_sid HF). now apply in_map. }
  (* the three phases preserve the potential *)
  assert (P3 : pot v bv bizsG Zf = pot v bv bizsG Z1).
  { apply (chain_pot exo_step (fun Z => Z) (pot v bv bizsG) Zf exo_step_frame _ _ _ C3); [|apply Forall2_refl_frame|exact ND1].
    intros [[[[s n] spec] Za] Zb] Hx HF _. cbn [fst snd]. pose proof (XOK _ Hx) as OK. simpl in OK.
    apply andb_true_iff in OK as [OK N2]. apply andb_true_iff in OK as [DQ N1].
    apply negb_true_iff in N1, N2. apply String.eqb_neq in N1, N2.
    apply pot_quiet; [|exact DQ]. eapply exo_zstep; [exact (chain_In _ _ _ _ _ C3 Hx)|exact N1|exact N2]. }
  assert (P2 : pot v bv bizsG Z1 = pot v bv bizsG (g_zone gfin)).
  { apply (chain_pot flow_step (fun Z => Z) (pot v bv bizsG) Z1 FFl _ _ _ C2); [|apply Forall2_refl_frame|exact NDg].
    intros [[fl Za] Zb] Hx HF _. cbn [fst snd]. pose proof (FLOK _ Hx) as DQ. simpl in DQ.
    pose proof (chain_In _ _ _ _ _ C2 Hx) as FS. cbn [fst snd] in FS.
    unfold pot. rewrite (flow_step_F v _ _ _ FS), (div_quiet_dv v bv bizsG _ _ DQ (FFl _ _ _ FS)). reflexivity. }
  assert (P1 : pot v bv bizsG (g_zone gfin) = pot v bv bizsG (zone0 st)).
  { apply (chain_pot (gen_step I) g_zone (pot v bv bizsG) Zf FG _ _ _ C1); [| |exact ND0].
    2:{ eapply Forall2_trans_frame; [exact F2|exact F3]. }
    intros [[[i k] sa] sb] Hx HF ND. cbn [fst snd] in *.
    pose proof (chain_In _ _ _ _ _ C1 Hx) as GS. cbn [fst snd] in GS.
    eapply (gen_step_pot v vprev bv bvp Rn I i k sa sb bizsG HS HB SC Hx GS); [|apply GOK; exact Hx|exact HF|exact ND|].
    - assert (Hm : List.In (i, k) (map (fun x => fst (fst x)) (r_gen Rn))) by (apply in_map_iff; exists (i, k, sa, sb); auto).
      rewrite M1 in Hm. apply in_map_iff in Hm as (s0 & E & _). injection E as <- <-. rewrite EI. reflexivity.
    - apply BZ. eapply Forall2_trans_frame; [apply (FG _ _ _ GS)|exact HF]. }
  rewrite E0 in LD.
  (* the two ends *)
  assert (START : pot v bv bizsG (zone0 st) = TaxProofs.sumR (fun s => if hasF s then v (fullcode s ++ "__" ++ "LAG_F")%string else 0) (zone0 st)).
  { pose proof (zone0_ledger_init _ _ CI LU) as LI. unfold pot, zone_F.
    assert (A : forall s, List.In s (zone0 st) -> F_sum v s = (if hasF s then v (fullcode s ++ "__" ++ "LAG_F")%string else 0) /\ dv v bv bizsG s = 0).
    { intros s Hs. rewrite Forall_forall in LI. specialize (LI s Hs). unfold ledger_init, F_of, INC_of in LI.
      assert (Q : qualify s "LAG_F" = (fullcode s ++ "__" ++ "LAG_F")%string) by reflexivity.
      unfold F_sum, dv, recv, f_has_div. destruct (hasF s); destruct LI as [L1 L2]; rewrite L1.
      - split.
        + change (tsum_in v s (terms (mkEqn "" [(1%Z, ["LAG_F"])]))) with (IZR 1 * (v (qualify s "LAG_F") * 1) + 0).
          rewrite Q. lra.
        + simpl. rewrite andb_false_r. reflexivity.
      - split; [reflexivity|]. rewrite andb_false_r. reflexivity. }
    rewrite (TaxProofs.sumR_ext _ _ _ (fun s Hs => proj1 (A s Hs))), (TaxProofs.sumR_ext (dv v bv bizsG) (fun _ => 0) _ (fun s Hs => proj2 (A s Hs))).
    clear. induction (zone0 st) as [|a l IH]; cbn [TaxProofs.sumR]; lra. }
  assert (FIN : pot v bv bizsG Zf = TaxProofs.sumR (fun s => if hasF s then v (fullcode s ++ "__" ++ "F")%string else 0) Zf).
  { unfold final_ok in FOK. rewrite forallb_forall in FOK. unfold pot, zone_F.
    assert (A : forall s sf, List.In sf Zf -> frame s sf ->
       (if hasF s then exists tss, F_of sf = Some (mkEqn "" tss) else F_of sf = None) ->
       F_sum v sf = (if hasF sf then v (fullcode sf ++ "__" ++ "F")%string else 0) /\ dv v bv bizsG sf = 0).
    { intros s sf Hsf Fr HFo. specialize (FOK sf Hsf). apply andb_true_iff in FOK as [K1 K2].
      rewrite (frame_hasF _ _ Fr) in *. split.
      - unfold F_sum. unfold F_of in HFo. destruct (hasF s).
        + destruct HFo as (tss & HFo). pose proof (sat_holds v vprev bv _ sf "F" HS Hsf K1) as HH.
          pose proof (holds_struct v bv sf "F" _ HFo HH) as X. unfold vname in X. rewrite HFo. cbn [terms]. lra.
        + now rewrite HFo.
      - unfold dv. fold bizsG in K2. destruct (recv bizsG sf); [|reflexivity].
        pose proof (sat_holds v vprev bv _ sf "DIV" HS Hsf K2) as HH. unfold holds in HH.
        destruct (lookup_var "DIV" (vars sf)); [|reflexivity]. rewrite HH. lra. }
    assert (B : forall sf, List.In sf Zf -> F_sum v sf = (if hasF sf then v (fullcode sf ++ "__" ++ "F")%string else 0) /\ dv v bv bizsG sf = 0).
    { intros sf Hsf. destruct (Forall2_In_r _ _ _ _ LD Hsf) as (s & Hs & (Fr & tss & _ & HH)).
      apply (A s sf Hsf Fr). destruct (hasF s); [destruct HH as (HH & _); eauto|tauto]. }
    rewrite (TaxProofs.sumR_ext _ _ _ (fun s Hs => proj1 (B s Hs))), (TaxProofs.sumR_ext (dv v bv bizsG) (fun _ => 0) _ (fun s Hs => proj2 (B s Hs))).
    clear. induction Zf as [|a l IH]; cbn [TaxProofs.sumR]; lra. }
  (* assembling *)
  assert (EQ : TaxProofs.sumR (fun s => if hasF s then v (fullcode s ++ "__" ++ "LAG_F")%string else 0) (zone0 st) =
               TaxProofs.sumR (fun s => if hasF s then v (fullcode s ++ "__" ++ "LAG_F")%string else 0) Zf).
  { pose proof (Forall2_trans_frame _ _ _ F1 (Forall2_trans_frame _ _ _ F2 F3)) as FA. fold Zf in FA. clear -FA.
    induction FA as [|a b l l' Hab _ IH]; cbn [TaxProofs.sumR]; [reflexivity|]. now rewrite IH, (frame_hasF _ _ Hab), (frame_fullcode _ _ Hab). }
  assert (TOT : pot v bv bizsG Zf = pot v bv bizsG (zone0 st)) by (rewrite P3, P2, P1; reflexivity).
  rewrite FIN, START, EQ in TOT. unfold ledger_sum. clear -TOT. revert TOT. generalize Zf. intros l.
  assert (G : forall l0, TaxProofs.sumR (fun s => if hasF s then v (fullcode s ++ "__" ++ "F")%string - v (fullcode s ++ "__" ++ "LAG_F")%string else 0) l0 =
            TaxProofs.sumR (fun s => if hasF s then v (fullcode s ++ "__" ++ "F")%string else 0) l0 -
            TaxProofs.sumR (fun s => if hasF s then v (fullcode s ++ "__" ++ "LAG_F")%string else 0) l0).
  { induction l0 as [|a l0 IH]; cbn [TaxProofs.sumR]; [lra|]. rewrite IH. destruct (hasF a); lra. }
  intros TOT. rewrite G. lra.
Qed.
