(** Stock-flow consistency per currency zone (C01) and the FX intermediary's valued position (C07)
    for the multi-currency pipeline model. *)
From Coq Require Import List String Bool ZArith Arith Lia Reals Lra.
From SFC.Base Require Import Res Str Sorting.
From SFC.Gen Require Import Fx Zone.
From SFC.GenMarket Require Import Market MarketProofs.
From SFC.GenAsset Require Import Common CommonProofs Money MoneyProofs Deposit DepositProofs Weighting WeightingProofs.
From SFC.GenTax Require Import Tax Dividends TaxProofs DividendProofs.
From SFC.GenMarket Require PropMarket.
From SFC.GenMain2 Require Import Program Classes Main Ledger MainProofs Names Conflict Balance
                                Program2 Main2 Ledger2 MainProofs2 Names2 Conflict2.
Import ListNotations.
Local Open Scope string_scope.
Local Open Scope list_scope.
Local Open Scope R_scope.

(* ------------------------------------------------------------------ *)
(** * Reflection *)

Lemma strs_eqb_eq : forall a b, strs_eqb a b = true -> a = b.
Proof.
  induction a as [|x a IH]; intros [|y b]; simpl; try discriminate; [reflexivity|].
  intros H. apply andb_true_iff in H as [H1 H2]. apply String.eqb_eq in H1. subst. f_equal. now apply IH.
Qed.

Lemma vars_eqb_eq : forall a b, vars_eqb a b = true -> a = b.
Proof.
  induction a as [|[n e] a IH]; intros [|[m f] b]; simpl; try discriminate; [reflexivity|].
  intros H. apply andb_true_iff in H as [H1 H3]. apply andb_true_iff in H1 as [H1 H2].
  apply String.eqb_eq in H1. apply eqn_eqb_eq in H2. subst. f_equal. now apply IH.
Qed.

Lemma sector_eqb_eq s t : sector_eqb s t = true -> s = t.
Proof.
  destruct s, t. unfold sector_eqb. simpl. intros H. repeat (apply andb_true_iff in H as [H ?]).
  apply Nat.eqb_eq in H. apply String.eqb_eq in H7, H6, H5. apply Bool.eqb_prop in H4, H3, H2.
  apply strs_eqb_eq in H1. apply vars_eqb_eq in H0. now subst.
Qed.

Lemma zone_eqb_eq : forall a b, zone_eqb a b = true -> a = b.
Proof.
  unfold zone_eqb. induction a as [|x a IH]; intros [|y b]; simpl; try discriminate; [reflexivity|].
  intros H. apply andb_true_iff in H as [H1 H2]. apply sector_eqb_eq in H1. subst. f_equal. now apply IH.
Qed.

Lemma ledger_eqb_eq : forall a b, ledger_eqb a b = true -> a = b.
Proof.
  induction a as [|[c ts] a IH]; intros [|[d us] b]; simpl; try discriminate; [reflexivity|].
  intros H. apply andb_true_iff in H as [H1 H3]. apply andb_true_iff in H1 as [H1 H2].
  apply String.eqb_eq in H1. apply terms_eqb_eq in H2. subst. f_equal. now apply IH.
Qed.

Lemma oledger_eqb_eq a b : oledger_eqb a b = true -> a = b.
Proof. destruct a, b; simpl; try discriminate; [intros H; f_equal; now apply ledger_eqb_eq|reflexivity]. Qed.

(* ------------------------------------------------------------------ *)
(** * Parts of the sector list *)

Lemma filter_frame (p : sector -> bool) Z Z' : (forall s s', frame s s' -> p s' = p s) ->
  Forall2 frame Z Z' -> Forall2 frame (filter p Z) (filter p Z').
Proof.
  intros Hp H. induction H as [|a b l l' Hab _ IH]; simpl; [constructor|].
  rewrite (Hp _ _ Hab). destruct (p a); [constructor; assumption|exact IH].
Qed.

Lemma filter_sub (q r : sector -> bool) l : (forall s, q s = true -> r s = true) -> filter q (filter r l) = filter q l.
Proof.
  intros H. induction l as [|a l IH]; simpl; [reflexivity|]. destruct (r a) eqn:R; simpl.
  - destruct (q a); [f_equal|]; exact IH.
  - destruct (q a) eqn:Q; [rewrite (H a Q) in R; discriminate|exact IH].
Qed.

Lemma find_filter (p : sector -> bool) Z i s : NoDup (map sid Z) ->
  (find_sec i (filter p Z) = Some s <-> find_sec i Z = Some s /\ p s = true).
Proof.
  intros ND. unfold find_sec. induction Z as [|a l IH]; simpl in *; [split; [discriminate|intros [H _]; discriminate]|].
  inversion ND as [|? ? Ha Hl]; subst. specialize (IH Hl).
  destruct (Nat.eqb (sid a) i) eqn:E.
  - destruct (p a) eqn:P; simpl.
    + rewrite E. split; [intros H; injection H as <-; auto|intros [H _]; exact H].
    + split.
      * intros H. exfalso. apply IH in H as [H _]. apply find_some in H as [H1 H2]. apply Nat.eqb_eq in E, H2.
        apply Ha. rewrite E, <- H2. now apply in_map.
      * intros [H P2]. injection H as <-. congruence.
  - destruct (p a); simpl; [rewrite E|]; exact IH.
Qed.

Lemma forallb2_filter {f : sector -> sector -> bool} (p : sector -> bool) Z Z' :
  (forall s s', frame s s' -> p s' = p s) -> Forall2 frame Z Z' ->
  forallb2 f Z Z' = true -> forallb2 f (filter p Z) (filter p Z') = true.
Proof.
  intros Hp H. induction H as [|a b l l' Hab _ IH]; simpl; [auto|].
  intros HF. apply andb_true_iff in HF as [H1 H2]. rewrite (Hp _ _ Hab). destruct (p a); simpl; [rewrite H1|]; auto.
Qed.

Lemma in_zone_stable cs c : forall s s', frame s s' -> in_zone cs c s' = in_zone cs c s.
Proof. intros s s'. apply in_zone_frame. Qed.

Lemma notb_stable (p : sector -> bool) : (forall s s', frame s s' -> p s' = p s) -> forall s s', frame s s' -> notb p s' = notb p s.
Proof. intros H s s' Fr. unfold notb. now rewrite (H _ _ Fr). Qed.

(* ------------------------------------------------------------------ *)
(** * The FX ledger *)

Lemma lookup_fx_step_other c L o : c <> NUM ->
  match o with Send s _ => c <> s | Receive _ t _ => c <> t end ->
  ledger_lookup c (fx_step L o) = ledger_lookup c L.
Proof.
  intros Hn Ho. destruct o as [s x|s t x]; simpl; rewrite !lookup_add_to.
  - destruct (String.eqb_spec NUM c); [congruence|]. destruct (String.eqb_spec s c); [congruence|reflexivity].
  - destruct (String.eqb_spec NUM c); [congruence|]. destruct (String.eqb_spec t c); [congruence|reflexivity].
Qed.

Lemma lookup_ops_other c : c <> NUM -> forall ops L,
  Forall (fun o => match o with Send s _ => c <> s | Receive _ t _ => c <> t end) ops ->
  ledger_lookup c (fold_left fx_step ops L) = ledger_lookup c L.
Proof.
  intros Hn. induction ops as [|o ops IH]; intros L H; simpl; [reflexivity|]. inversion H; subst.
  rewrite IH by assumption. now apply lookup_fx_step_other.
Qed.

(* ------------------------------------------------------------------ *)
Section Sem2.
Variables (v vprev : string -> R) (bv bvp : string -> string -> R) (J : ginfo2) (bizsG : list nat).

Definition inz (c : string) : sector -> bool := in_zone (j_countries J) c.

(** value of the term list of NET_<c> *)
Definition netv (Z : zone) (c : string) : R := tsum v (net_terms (ledger_of J Z) c).

(** the potential of zone [c]: F terms and dividend receivers of its sectors, plus the FX position *)
Definition pot2 (c : string) (Z : zone) : R := pot v bv bizsG (filter (inz c) Z) + netv Z c.

Lemma inz_stable c : forall s s', frame s s' -> inz c s' = inz c s.
Proof. apply in_zone_stable. Qed.

Lemma inz_disjoint c c' s : c <> c' -> inz c s = true -> inz c' s = false.
Proof. unfold inz, in_zone. intros N H. apply String.eqb_eq in H. rewrite H. now apply String.eqb_neq. Qed.

Lemma fx_ok_nil Z Z' : fx_ok J Z Z' [] = true -> ledger_of J Z' = ledger_of J Z.
Proof.
  unfold fx_ok. intros H. apply andb_true_iff in H as [H _]. apply andb_true_iff in H as [H _]. apply oledger_eqb_eq in H. rewrite H.
  unfold apply_ops. destruct (ledger_of J Z); reflexivity.
Qed.

Lemma netv_same Z Z' c : ledger_of J Z' = ledger_of J Z -> netv Z' c = netv Z c.
Proof. unfold netv. now intros ->. Qed.

Lemma part_ok_spec p Z Z' C' : part_ok p Z Z' C' = true ->
  filter p Z' = C' /\ filter (notb p) Z' = filter (notb p) Z.
Proof. unfold part_ok. intros H. apply andb_true_iff in H as [H1 H2]. split; now apply zone_eqb_eq. Qed.

Lemma other_zone_same p c Z Z' : (forall s, inz c s = true -> p s = false) ->
  filter (notb p) Z' = filter (notb p) Z -> filter (inz c) Z' = filter (inz c) Z.
Proof.
  intros D H. rewrite <- (filter_sub (inz c) (notb p) Z'), <- (filter_sub (inz c) (notb p) Z), H; [reflexivity| |];
    intros s Hs; unfold notb; now rewrite (D s Hs).
Qed.

Lemma class_to_old i k : class_of2 (j_classes J) i = COld k -> class_of (i_classes (to_old J)) i = k.
Proof.
  unfold class_of, class_of2, to_old. simpl. intros H.
  change CGov with (old_class (COld CGov)). rewrite map_nth, H. reflexivity.
Qed.

(** a step that acts inside one zone and is the single-currency step on that zone *)
Lemma local_step_pot E i k self Z Z' :
  sat E v vprev bv -> bv_zero bv ->
  find_sec i Z = Some self -> NoDup (map sid Z) -> Forall2 frame Z' (fs_zone E) ->
  k = class_of (i_classes (to_old J)) i ->
  local_ok J (fs_zone E) i k self Z Z' = true ->
  (forall issuer, k = CDepositMarket issuer -> forall sf, List.In sf (fs_zone E) ->
     (dep_issuer issuer sf = true -> holds vprev bvp sf (Common.sup_name (code self))) /\
     (sid sf = i -> holds vprev bvp sf (Common.dem_name (code self)))) ->
  (forall s, List.In s Z -> existsb (Nat.eqb (sid s)) bizsG = is_fmb (class_of (i_classes (to_old J)) (sid s))) ->
  forall c, pot2 c Z' = pot2 c Z.
Proof.
  intros HS HB Fs ND HF CL HOK SC HBZ c. unfold local_ok in HOK.
  set (p := in_zone (j_countries J) (cur_of_sec J self)) in *.
  destruct (gen_step (to_old J) (mkG (filter p Z) []) (i, k)) as [g|] eqn:GS; [|discriminate].
  apply andb_true_iff in HOK as [HOK FX]. apply andb_true_iff in HOK as [PO GO].
  apply part_ok_spec in PO as [P1 P2]. apply fx_ok_nil in FX.
  unfold pot2. rewrite (netv_same _ _ c FX). f_equal.
  destruct (String.eqb_spec c (cur_of_sec J self)) as [->|Nc].
  - fold p. change (inz (cur_of_sec J self)) with p. rewrite P1.
    set (Zf := fs_zone E) in *.
    set (Rn := mkRun (to_old J) [] [((i, k), mkG (filter p Z) [], g)] [] [] (mkFS (filter p Zf) [] [])).
    assert (Pself : p self = true) by (unfold p, in_zone, cur_of_sec; apply String.eqb_refl).
    assert (FP : find_sec i (filter p Z) = Some self) by (apply find_filter; auto).
    apply (gen_step_pot v vprev bv bvp Rn (to_old J) i k (mkG (filter p Z) []) g bizsG).
    + intros s n Hs Hn. cbn in Hs. apply filter_In in Hs as [Hs _]. now apply HS.
    + exact HB.
    + intros i0 issuer st st' self0 Hin Fs0 sf Hsf. cbn in Hin, Hsf. destruct Hin as [Hin|[]].
      inversion Hin as [[A1 A2 A3 A4]]. subst i0 st. cbn [g_zone] in Fs0. apply filter_In in Hsf as [Hsf _].
      assert (self0 = self) by (rewrite FP in Fs0; now injection Fs0). subst self0.
      now apply (SC issuer).
    + now left.
    + exact GS.
    + exact CL.
    + exact GO.
    + cbn. rewrite <- P1. apply filter_frame; [apply in_zone_stable|exact HF].
    + cbn. now apply NoDup_map_filter_sid.
    + intros s Hs. cbn in Hs. apply filter_In in Hs as [Hs _]. now apply HBZ.
  - f_equal. apply (other_zone_same p); [|exact P2]. intros s Hs. unfold p. eapply inz_disjoint; eassumption.
Qed.

(* ------------------------------------------------------------------ *)
(** * Sums over a zone *)

Lemma dv_filter_quiet c Z Z' : div_quiet Z Z' = true -> Forall2 frame Z Z' ->
  TaxProofs.sumR (dv v bv bizsG) (filter (inz c) Z') = TaxProofs.sumR (dv v bv bizsG) (filter (inz c) Z).
Proof.
  intros DQ FR. apply div_quiet_dv; [|apply filter_frame; [apply inz_stable|exact FR]].
  unfold div_quiet in *. apply forallb2_filter; [apply inz_stable|exact FR|exact DQ].
Qed.

Lemma zoneF_filter_pairs (q : sector -> bool) (d : sector -> R) Z Z' : (forall s s', frame s s' -> q s' = q s) ->
  Forall2 (fun s s' => frame s s' /\ F_sum v s' = F_sum v s + d s) Z Z' ->
  zone_F v (filter q Z') = zone_F v (filter q Z) + TaxProofs.sumR d (filter q Z).
Proof.
  intros Hq H. unfold zone_F. induction H as [|a b l l' [Hab E] _ IH]; simpl; [lra|].
  rewrite (Hq _ _ Hab). destruct (q a); simpl; [rewrite E, IH; lra|exact IH].
Qed.

Lemma zoneF_filter_quiet q Z Z' : (forall s s', frame s s' -> q s' = q s) -> zstep nothing Z Z' ->
  zone_F v (filter q Z') = zone_F v (filter q Z).
Proof.
  intros Hq H. rewrite (zoneF_filter_pairs q (fun _ => 0) Z Z' Hq).
  - assert (T : forall l, TaxProofs.sumR (fun _ : sector => 0) l = 0) by (induction l; simpl; lra). rewrite T. lra.
  - eapply Forall2_imp; [|exact H]. intros s s' (ts & L & F). split; [apply (ls_frame _ _ _ L)|].
    destruct ts as [|t ts]; [|inversion F as [|? ? []]]. rewrite (F_sum_lstep v _ _ _ L). simpl. lra.
Qed.

(* ------------------------------------------------------------------ *)
(** * A market with suppliers in one other zone *)

Lemma find_any_parts (p q : sector -> bool) Z i s : NoDup (map sid Z) ->
  find_sec i (filter (fun x => p x || q x) Z) = Some s ->
  find_any (mkWorld (filter p Z) (filter q Z) (ledger_of J Z) []) i = Some s.
Proof.
  intros ND H. apply (find_filter _ Z i s ND) in H as [H B]. unfold find_any. cbn [home abroad].
  destruct (p s) eqn:P.
  - assert (F : find_sec i (filter p Z) = Some s) by (apply find_filter; auto). now rewrite F.
  - destruct (find_sec i (filter p Z)) as [s2|] eqn:F.
    + apply (find_filter _ Z i s2 ND) in F as [F P2]. rewrite H in F. injection F as <-. congruence.
    + simpl in B. apply find_filter; auto.
Qed.

Lemma foreign_market_pot E m self acur res others Z Z' :
  sat E v vprev bv -> bv_zero bv ->
  find_sec m Z = Some self -> NoDup (map sid Z) -> Forall2 frame Z Z' -> Forall2 frame Z' (fs_zone E) ->
  foreign_market_ok J (fs_zone E) m self acur res others Z Z' = true ->
  forall c, c <> NUM -> pot2 c Z' = pot2 c Z.
Proof.
  intros HS HB Fs ND FR HF HOK c Hc. unfold foreign_market_ok in HOK.
  set (hcur := cur_of_sec J self) in *. set (inh := in_zone (j_countries J) hcur) in *.
  set (ina := in_zone (j_countries J) acur) in *.
  set (both := fun s => inh s || ina s) in *.
  set (both3 := fun s => inh s || ina s || in_zone (j_countries J) NUM s) in *.
  set (W := mkWorld (filter inh Z) (filter ina Z) (ledger_of J Z) []) in *.
  destruct (market_generate hcur acur W m res others) as [W'|] eqn:MG; [|discriminate].
  destruct (find_sec m (filter inh Z)) as [mk|] eqn:Fm; [|discriminate].
  destruct (the_residual (filter inh Z) mk res) as [r|] eqn:TR; [|discriminate].
  destruct (find_all (filter both Z) (map fst others)) as [osecs|] eqn:FA; [|discriminate].
  destruct (find_sec r (filter both Z)) as [rs|] eqn:Fr; [|discriminate].
  repeat (apply andb_true_iff in HOK as [HOK ?]).
  rename H into DQ, H0 into KP, H1 into KF, H2 into KC, H3 into KA, H4 into KS, H5 into KL, H6 into KD, H7 into KN,
         H8 into K1, H9 into Na, H10 into Nh, H11 into Nha, H12 into OPW, H13 into FXO, H14 into LED, H15 into OUT, H16 into ABR.
  rename HOK into HOME.
  apply zone_eqb_eq in HOME, ABR, OUT. apply oledger_eqb_eq in LED.
  apply negb_true_iff in Na, Nh, Nha. apply String.eqb_neq in Na, Nh, Nha.
  set (ids := (map fst others ++ [r])%list) in *.
  assert (EM : mk = self).
  { apply (find_filter inh Z m mk ND) in Fm as [Fm _]. rewrite Fs in Fm. now injection Fm. }
  subst mk.
  assert (FRH : Forall2 frame (home W') (filter inh (fs_zone E))).
  { rewrite <- HOME. apply filter_frame; [apply in_zone_stable|exact HF]. }
  pose proof (market_zstep _ _ _ _ _ _ _ self MG Fm) as ZS. cbn [home W] in ZS.
  destruct (find_sec_zstep _ _ _ _ _ ZS Fm) as (mk' & Fm' & Fmk).
  apply find_all_spec in FA.
  assert (ALL : Forall2 (fun i s => find_sec i (filter both Z) = Some s) ids (osecs ++ [rs])%list).
  { unfold ids. apply Forall2_app; [exact FA|]. constructor; [exact Fr|constructor]. }
  assert (FAny : forall i s, find_sec i (filter both Z) = Some s -> find_any W i = Some s).
  { intros i s Hs. apply (find_any_parts inh ina Z i s ND Hs). }
  assert (HomeIn : forall i s, List.In i ids -> find_sec i (filter inh Z) = Some s -> List.In s (osecs ++ [rs])%list /\ inh s = true).
  { intros i s Hi Hs. apply (find_filter inh Z i s ND) in Hs as [Hs P]. split; [|exact P].
    eapply Forall2_lookup_sec; [exact ALL|exact Hi|]. apply find_filter; [exact ND|]. split; [exact Hs|]. unfold both. now rewrite P. }
  assert (KH : forall s' n, List.In s' (home W') -> List.In n (market_sel self ids rs s') -> holds v bv s' n).
  { intros s' n. apply (kept_holds v vprev bv (mkFS (filter inh (fs_zone E)) [] []) _ (home W')).
    - intros s0 n0 Hs0 Hn0. cbn in Hs0. apply filter_In in Hs0 as [Hs0 _]. now apply HS.
    - exact KP.
    - exact FRH. }
  assert (MKsel : forall n, List.In n [sup_short self; dem_short self; alloc_name rs] -> holds v bv mk' n).
  { intros n Hn. apply KH; [eapply find_sec_In; exact Fm'|]. unfold market_sel.
    rewrite (find_sec_sid _ _ _ Fm'), (find_sec_sid _ _ _ Fm), Nat.eqb_refl. apply in_or_app. now left. }
  rewrite forallb_forall in K1, KA, KC, KF.
  assert (NM : Forall (fun i => i <> m) ids).
  { apply Forall_forall. intros i Hi. specialize (K1 i Hi). apply negb_true_iff in K1. now apply Nat.eqb_neq in K1. }
  destruct (PropMarket.Market_bookings_cancel_fx hcur acur v bv W W' m res others self mk' r osecs rs MG Fm TR NM Nha Nh Na) as [A1 A2].
  assert (A2' : zsum (Fsum v) (home W') + tsum v (net_terms (fxl W') hcur) =
                zsum (Fsum v) (home W) + tsum v (net_terms (fxl W) hcur)).
  { apply A2.
    - now apply nodupb_NoDup.
    - eapply Forall2_imp; [|exact FA]. intros i s Hs. now apply FAny.
    - now apply FAny.
    - constructor.
      + split; now apply no_dunder_ok.
      + now apply no_dunder_ok.
      + apply Forall_forall. intros s Hs. apply no_dunder_ok. now apply KA.
      + apply Forall_forall. intros s Hs. specialize (KC s Hs). apply negb_true_iff in KC. now apply String.eqb_neq in KC.
      + intros i s Hi Hs. cbn [home W] in Hs. destruct (HomeIn i s Hi Hs) as [Hin P].
        specialize (KF s Hin). fold inh in KF. rewrite P in KF. simpl in KF. apply andb_true_iff in KF as [A B].
        split; [now apply no_dunder_ok|]. unfold prior_eqn. now apply zero_eqn_val.
      + intros i s s' Hi Hs Hs'. cbn [home W] in Hs.
        destruct (find_sec_zstep _ _ _ _ _ ZS Hs) as (s2 & Hs2 & Fss). rewrite Hs' in Hs2. injection Hs2 as <-.
        assert (SN : supply_name self s' = supply_name self s).
        { unfold supply_name, share_parent. now rewrite (frame_country _ _ Fss). }
        rewrite <- SN. apply KH; [eapply find_sec_In; exact Hs'|]. unfold market_sel. apply in_or_app. right.
        assert (T : existsb (Nat.eqb (sid s')) ids = true).
        { apply existsb_exists. exists i. split; [exact Hi|]. rewrite (find_sec_sid _ _ _ Hs'). apply Nat.eqb_refl. }
        rewrite T. now left.
    - exact Fm'.
    - apply MKsel. now left.
    - apply MKsel. right. now left.
    - apply MKsel. right. right. now left. }
  cbn [home abroad fxl W] in A1, A2'.
  unfold pot2, pot, netv. rewrite (dv_filter_quiet c _ _ DQ FR), LED.
  destruct (String.eqb_spec c hcur) as [->|Nch]; [|destruct (String.eqb_spec c acur) as [->|Nca]].
  - change (inz hcur) with inh. rewrite HOME, <- !zsum_zone_F. lra.
  - change (inz acur) with ina. rewrite ABR, <- !zsum_zone_F. lra.
  - assert (SAME : filter (inz c) Z' = filter (inz c) Z).
    { apply (other_zone_same both3); [|exact OUT]. intros s Hs.
      pose proof (inz_disjoint c hcur s Nch Hs) as X1. pose proof (inz_disjoint c acur s Nca Hs) as X2.
      pose proof (inz_disjoint c NUM s Hc Hs) as X3. unfold inz in X1, X2, X3. unfold both3, inh, ina. now rewrite X1, X2, X3. }
    assert (NET : net_terms (fxl W') c = net_terms (ledger_of J Z) c).
    { unfold fx_ok in FXO. apply andb_true_iff in FXO as [FXO _]. apply andb_true_iff in FXO as [FXO _]. apply oledger_eqb_eq in FXO. rewrite <- LED, FXO.
      unfold apply_ops. destruct (ledger_of J Z) as [L|]; [|reflexivity]. simpl.
      apply lookup_ops_other; [exact Hc|]. rewrite forallb_forall in OPW. apply Forall_forall. intros o Ho. specialize (OPW o Ho).
      destruct o as [s0 x|s0 t0 x].
      + apply String.eqb_eq in OPW. congruence.
      + apply andb_true_iff in OPW as [_ O2]. apply String.eqb_eq in O2. congruence. }
    rewrite SAME, NET. reflexivity.
Qed.

(* ------------------------------------------------------------------ *)
(** * Bookings described term by term: gold purchases, cross-zone flows *)

Lemma F_ext_sum ts s s' : frame s s' -> F_ext_ok ts s s' = true -> F_sum v s' = F_sum v s + tsum_in v s ts.
Proof.
  intros Fr H. unfold F_ext_ok in H. unfold F_sum.
  destruct (lookup_var "F" (vars s)) as [e|], (lookup_var "F" (vars s')) as [e'|]; try discriminate.
  - apply eqn_eqb_eq in H. subst e'. simpl. rewrite (tsum_in_frame v s s' _ (frame_fullcode _ _ Fr)).
    apply (tsum_extend v s ts (terms e)).
  - destruct ts as [|t ts]; [simpl; lra|discriminate].
Qed.

Lemma indicator_filter (q : sector -> bool) (x : R) self Z : NoDup (map sid Z) -> List.In self Z ->
  TaxProofs.sumR (fun s => if Nat.eqb (sid s) (sid self) then x else 0) (filter q Z) = if q self then x else 0.
Proof.
  intros ND Hin. destruct (q self) eqn:Q.
  - apply sum_indicator; [now apply NoDup_map_filter_sid|apply filter_In; auto].
  - apply sum_indicator_zero. intros s Hs E. apply filter_In in Hs as [Hs Qs].
    assert (s = self) by (apply (NoDup_map_In_inj sid Z ND); assumption). subst. congruence.
Qed.

Lemma inz_self c self : inz c self = String.eqb (cur_of_sec J self) c.
Proof. reflexivity. Qed.

Lemma netv_ops Z Z' ops c : fx_ok J Z Z' ops = true ->
  netv Z' c = tsum v (net_terms (apply_ops (ledger_of J Z) ops) c).
Proof. unfold fx_ok, netv. intros H. apply andb_true_iff in H as [H _]. apply andb_true_iff in H as [H _]. apply oledger_eqb_eq in H. now rewrite H. Qed.

Lemma gold_pot i self Z Z' : find_sec i Z = Some self -> NoDup (map sid Z) -> Forall2 frame Z Z' ->
  gold_ok J i self Z Z' = true -> forall c, c <> NUM -> pot2 c Z' = pot2 c Z.
Proof.
  intros Fs ND FR HOK c Hc. unfold gold_ok in HOK.
  set (cur := cur_of_sec J self) in *. set (full := (fullcode self ++ "__" ++ "GOLDPURCHASES")%string) in *.
  repeat (apply andb_true_iff in HOK as [HOK ?]). rename H into FE, H0 into NDU, H1 into DQ, H2 into FX. rename HOK into LS.
  apply forallb2_Forall2 in FE.
  assert (SelfZ : List.In self Z) by (eapply find_sec_In; exact Fs).
  assert (Si : sid self = i) by (eapply find_sec_sid; exact Fs).
  assert (OPR : cur <> NUM).
  { unfold fx_ok in FX. apply andb_true_iff in FX as [FX _]. apply andb_true_iff in FX as [_ FX]. simpl in FX. rewrite andb_true_r in FX.
    apply negb_true_iff in FX. now apply String.eqb_neq in FX. }
  unfold pot2, pot. rewrite (dv_filter_quiet c _ _ DQ FR), (netv_ops _ _ _ c FX).
  rewrite (zoneF_filter_pairs (inz c) (fun s => if Nat.eqb (sid s) (sid self) then - v full else 0) Z Z' (inz_stable c)).
  - rewrite (indicator_filter (inz c) (- v full) self Z ND SelfZ), inz_self. fold cur.
    unfold netv, apply_ops. destruct (ledger_of J Z) as [L|]; [|discriminate LS]. simpl.
    rewrite !tsum_add_to. destruct (String.eqb_spec NUM c); [congruence|].
    destruct (String.eqb cur c); unfold tval; simpl; lra.
  - eapply (Forall2_and_In _ _ _ _ _ FR FE). intros a b Ha Fab Hk. split; [exact Fab|].
    rewrite (F_ext_sum _ a b Fab Hk). rewrite Si. destruct (Nat.eqb_spec (sid a) i) as [E|E]; [|simpl; lra].
    assert (a = self) by (apply (NoDup_map_In_inj sid Z ND); congruence). subst a.
    cbn [tsum_in]. unfold tval_in. cbn [fst snd fval_in]. unfold qualify.
    apply no_dunder_ok in NDU. rewrite NDU. unfold full. lra.
Qed.

Lemma sumR_plus (a b : sector -> R) l : TaxProofs.sumR (fun s => a s + b s) l = TaxProofs.sumR a l + TaxProofs.sumR b l.
Proof. induction l as [|x l IH]; simpl; [lra|]. rewrite IH. lra. Qed.

Lemma tval_full2 s x y : has_substring "__" x = true -> has_substring "__" y = true ->
  tval_in v s (1%Z, [x; y]) = v x * v y.
Proof. intros Hx Hy. unfold tval_in. simpl. unfold qualify. rewrite Hx, Hy. lra. Qed.

Lemma flow2_pot f Z Z' : NoDup (map sid Z) -> Forall2 frame Z Z' ->
  flow_ok2 J (f, Z, Z') = true -> forall c, c <> NUM -> pot2 c Z' = pot2 c Z.
Proof.
  intros ND FR HOK c Hc. destruct f as [[[[src tgt] var] a] b]. unfold flow_ok2 in HOK.
  apply andb_true_iff in HOK as [DQ HOK]. destruct tgt as [tg|]; [|discriminate].
  destruct (find_sec src Z) as [s0|] eqn:Fs; [|discriminate]. destruct (find_sec tg Z) as [t0|] eqn:Ft; [|discriminate].
  set (csrc := cur_of_sec J s0) in *. set (ctgt := cur_of_sec J t0) in *.
  set (full := (fullcode s0 ++ "__" ++ var)%string) in *.
  unfold pot2, pot. rewrite (dv_filter_quiet c _ _ DQ FR).
  destruct (String.eqb csrc ctgt) eqn:SAMEZ.
  - (* inside one zone *)
    set (p := in_zone (j_countries J) csrc) in *.
    destruct (flow_step (filter p Z) (src, Some tg, var, a, b)) as [C'|] eqn:FS; [|discriminate].
    apply andb_true_iff in HOK as [PO FX]. apply part_ok_spec in PO as [P1 P2]. apply fx_ok_nil in FX.
    rewrite (netv_same _ _ c FX). f_equal. f_equal.
    destruct (String.eqb_spec c csrc) as [->|Nc].
    + change (inz csrc) with p. rewrite P1. apply (flow_step_F v _ _ _ FS).
    + f_equal. apply (other_zone_same p); [|exact P2]. intros s Hs. unfold p. eapply inz_disjoint; eassumption.
  - (* across zones *)
    repeat (apply andb_true_iff in HOK as [HOK ?]). rename H into FE, H0 into FX. rename HOK into LS.
    apply forallb2_Forall2 in FE. apply String.eqb_neq in SAMEZ.
    assert (S0 : List.In s0 Z) by (eapply find_sec_In; exact Fs). assert (T0 : List.In t0 Z) by (eapply find_sec_In; exact Ft).
    assert (Ss : sid s0 = src) by (eapply find_sec_sid; exact Fs). assert (St : sid t0 = tg) by (eapply find_sec_sid; exact Ft).
    assert (HFu : has_substring "__" full = true) by apply TaxProofs.has_sub_full.
    assert (HCr : has_substring "__" (cross_name csrc ctgt) = true) by apply cross_name_qualified.
    assert (OPR : csrc <> NUM /\ ctgt <> NUM).
    { unfold fx_ok in FX. apply andb_true_iff in FX as [FX _]. apply andb_true_iff in FX as [_ FX]. simpl in FX. rewrite andb_true_r in FX.
      apply andb_true_iff in FX as [O1 O2]. apply andb_true_iff in O2 as [O2 _]. apply andb_true_iff in O2 as [O2 O3].
      apply negb_true_iff in O1, O3. apply String.eqb_neq in O1, O3. auto. }
    destruct OPR as [Ns Nt].
    rewrite (netv_ops _ _ _ c FX).
    rewrite (zoneF_filter_pairs (inz c)
               (fun s => (if Nat.eqb (sid s) (sid s0) then - v full else 0) +
                         (if Nat.eqb (sid s) (sid t0) then v full * v (cross_name csrc ctgt) else 0)) Z Z' (inz_stable c)).
    + rewrite sumR_plus, (indicator_filter (inz c) _ s0 Z ND S0), (indicator_filter (inz c) _ t0 Z ND T0), !inz_self.
      fold csrc ctgt. unfold netv, apply_ops. destruct (ledger_of J Z) as [L|]; [|discriminate LS]. cbn [option_map net_terms fold_left].
      change (fx_step (fx_step L (Send csrc full)) (Receive csrc ctgt full)) with (fx_pair csrc ctgt full L).
      destruct (String.eqb_spec csrc c) as [<-|N1].
      * destruct (String.eqb_spec ctgt csrc) as [E|_]; [congruence|].
        rewrite (fx_pair_home v csrc ctgt full L SAMEZ Ns). lra.
      * destruct (String.eqb_spec ctgt c) as [<-|N2].
        -- rewrite (fx_pair_abroad v csrc ctgt full L SAMEZ Nt). lra.
        -- unfold fx_pair. rewrite !lookup_fx_step_other; auto; lra.
    + eapply (Forall2_and_In _ _ _ _ _ FR FE). intros x y Hx Fxy Hk. split; [exact Fxy|].
      rewrite (F_ext_sum _ x y Fxy Hk), tsum_in_app, Ss, St.
      destruct (Nat.eqb (sid x) src), (Nat.eqb (sid x) tg); cbn [tsum_in];
        rewrite ?(tval_full v x _ full HFu), ?(tval_full2 x full _ HFu HCr); lra.
Qed.

Lemma exo2_pot x Z Z' : exo_step Z x = Ok Z' -> exo_ok2 J (x, Z, Z') = true -> forall c, pot2 c Z' = pot2 c Z.
Proof.
  intros ES HOK c. destruct x as [[s n] spec]. unfold exo_ok2 in HOK.
  repeat (apply andb_true_iff in HOK as [HOK ?]). rename H into FX, H0 into N2, H1 into N1. rename HOK into DQ.
  apply negb_true_iff in N1, N2. apply String.eqb_neq in N1, N2.
  pose proof (exo_zstep _ _ _ ES N1 N2) as ZS.
  unfold pot2, pot. rewrite (dv_filter_quiet c _ _ DQ (zstep_frame _ _ _ ZS)), (netv_same _ _ c (fx_ok_nil _ _ FX)).
  now rewrite (zoneF_filter_quiet (inz c) _ _ (inz_stable c) ZS).
Qed.

(* ------------------------------------------------------------------ *)
(** * One _GenerateEquations call *)

Lemma gen_step2_pot (Rn : run2) i k st st' :
  sat (q_final Rn) v vprev bv -> bv_zero bv -> stock_consistent2 Rn vprev bvp ->
  List.In ((i, k), st, st') (q_gen Rn) -> gen_step2 J st (i, k) = Ok st' -> k = class_of2 (j_classes J) i ->
  gen_ok2 J (fs_zone (q_final Rn)) ((i, k), st, st') = true ->
  Forall2 frame (h_zone st') (fs_zone (q_final Rn)) -> NoDup (map sid (h_zone st)) ->
  (forall s, List.In s (h_zone st) -> existsb (Nat.eqb (sid s)) bizsG = is_fmb (class_of (i_classes (to_old J)) (sid s))) ->
  forall c, c <> NUM -> pot2 c (h_zone st') = pot2 c (h_zone st).
Proof.
  intros HS HB SC Hin GS CL HOK HF ND HBZ c Hc.
  pose proof (zstep_frame _ _ _ (gen_step2_zstep _ _ _ _ GS)) as FR.
  unfold gen_ok2 in HOK. destruct (find_sec i (h_zone st)) as [self|] eqn:Fs; [|discriminate].
  assert (SAME : zone_eqb (h_zone st') (h_zone st) = true -> pot2 c (h_zone st') = pot2 c (h_zone st)).
  { intros E. apply zone_eqb_eq in E. now rewrite E. }
  assert (LOC : forall k0, k = COld k0 -> local_ok J (fs_zone (q_final Rn)) i k0 self (h_zone st) (h_zone st') = true ->
                pot2 c (h_zone st') = pot2 c (h_zone st)).
  { intros k0 Ek LO. assert (CL2 : class_of2 (j_classes J) i = COld k0) by congruence.
    apply (local_step_pot (q_final Rn) i k0 self _ _ HS HB Fs ND HF (eq_sym (class_to_old _ _ CL2)) LO); [|exact HBZ].
    intros issuer Ek0 sf Hsf. subst k0. rewrite Ek in Hin. eapply SC; eassumption. }
  destruct k as [k0|stock|t stock| | |]; try (now apply SAME).
  2,3: now apply (gold_pot i self _ _ Fs ND FR HOK).
  destruct k0 as [| |t|ai af good lab|ai af good lab|ai af good|mz wage margin lab out|mz wage lab ms|rate paid|
                  |issuer|issuer]; try (now apply SAME); try (now apply (LOC _ eq_refl)).
  destruct (sup_of i (j_sup J)) as [res others].
  destruct (supplier_currencies J (h_zone st) (cur_of_sec J self) _) as [|a [|b l]]; [now apply (LOC _ eq_refl)| |discriminate].
  now apply (foreign_market_pot (q_final Rn) i self a res others _ _ HS HB Fs ND FR HF HOK).
Qed.
End Sem2.
