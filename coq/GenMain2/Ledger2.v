(** [Ledger.zstep] for the steps of the multi-currency pipeline (Main2.v): group models applied to
    a part of the sector list, the market with foreign suppliers, the FX / XR bookkeeping, registered
    flows across zones, gold purchases. *)
From Coq Require Import List String Ascii Bool ZArith Arith Lia.
From SFC.Base Require Import Res Str.
From SFC.Gen Require Import Fx Zone.
From SFC.GenMarket Require Import Market MarketProofs.
From SFC.GenAsset Require Import Common CommonProofs Money MoneyProofs Deposit DepositProofs Weighting WeightingProofs.
From SFC.GenTax Require Import Tax Dividends TaxProofs DividendProofs.
From SFC.GenMain2 Require Import Program Classes Main Ledger MainProofs Program2 Main2.
Import ListNotations.
Local Open Scope string_scope.

Ltac bstep H x E := lazymatch type of H with
  | bind ?r _ = Ok _ => destruct r as [x|] eqn:E; [cbn [bind] in H|cbv beta iota delta [bind] in H; discriminate H] end.

(* ------------------------------------------------------------------ *)
(** * Parts of the sector list *)

Lemma put_back_p_rel (T : sector -> sector -> Prop) p : (forall s, T s s) ->
  forall Z C', Forall2 T (filter p Z) C' -> Forall2 T Z (put_back_p p C' Z).
Proof.
  intros Hr. induction Z as [|s r IH]; intros C' H; simpl in *; [constructor|].
  destruct (p s).
  - inversion H as [|? c ? C'' Hh Ht]; subst. constructor; [assumption|now apply IH].
  - constructor; [apply Hr|now apply IH].
Qed.

Lemma on_part_zstep A p f Z Z' : on_part p f Z = Ok Z' ->
  (forall C C', f C = Ok C' -> zstep A C C') -> zstep A Z Z'.
Proof.
  unfold on_part. intros H Hf. destruct (f (filter p Z)) as [C'|] eqn:E; [|discriminate]. simpl in H. injection H as <-.
  apply put_back_p_rel; [intros s; quiet_; apply lstep_refl|]. now apply Hf.
Qed.

(** elements outside the part are returned as they are *)
Lemma put_back_p_out p : forall Z C', Forall2 (fun s s' => p s = false -> s' = s) Z (put_back_p p C' Z).
Proof.
  induction Z as [|s r IH]; intros C'; simpl; [constructor|]. destruct (p s) eqn:E.
  - destruct C' as [|c C'']; constructor; try (intros X; congruence); apply IH.
  - constructor; [auto|apply IH].
Qed.

(* ------------------------------------------------------------------ *)
(** * Names that are not the ledger's *)

Lemma contains_app_mid a b : contains_char "_"%char (a ++ "_" ++ b) = true.
Proof. induction a as [|c a IH]; simpl; [reflexivity|]. destruct (Ascii.eqb c "_"%char); [reflexivity|exact IH]. Qed.

Lemma cross_code_ledger a b : (a ++ "_" ++ b)%string <> "F" /\ (a ++ "_" ++ b)%string <> "INC".
Proof.
  pose proof (contains_app_mid a b) as H. split; intros E; rewrite E in H; discriminate H.
Qed.

Lemma net_ledger c : "NET_" ++ c <> "F" /\ "NET_" ++ c <> "INC".
Proof. split; simpl; intros H; discriminate H. Qed.

(* ------------------------------------------------------------------ *)
(** * FX / XR bookkeeping changes no ledger *)

Lemma store_net_lstep fx ct : lstep fx (store_net fx ct) [].
Proof.
  unfold store_net. destruct (lookup_var _ (vars fx)); apply lstep_set_eqn; apply net_ledger.
Qed.

Lemma fold_store_lstep l : forall fx, lstep fx (fold_left store_net l fx) [].
Proof.
  induction l as [|ct l IH]; intros fx; simpl; [apply lstep_refl|].
  eapply lstep_nil_l; [apply store_net_lstep|apply IH].
Qed.

Lemma store_ledger_zstep J L Z Z' : store_ledger J L Z = Ok Z' -> zstep nothing Z Z'.
Proof.
  unfold store_ledger. destruct (j_ext J) as [e|]; [|intros H; injection H as <-; apply zstep_refl].
  destruct L as [l|]; [|intros H; injection H as <-; apply zstep_refl].
  intros H. eapply zstep_upd; [exact H|]. intros s s' E. injection E as <-. quiet_. apply fold_store_lstep.
Qed.

Lemma ensure_cross_zstep J a b Z Z' : ensure_cross J a b Z = Ok Z' -> zstep nothing Z Z'.
Proof.
  unfold ensure_cross. destruct (j_ext J) as [e|]; [|discriminate]. intros H.
  eapply zstep_upd; [exact H|]. intros s s' E. quiet_. cbv beta in E. destruct (has_var s (a ++ "_" ++ b)); [injection E as <-; apply lstep_refl|].
  eapply addv_lstep; [| |exact E]; apply cross_code_ledger.
Qed.

Lemma ensure_crosses_zstep J h codes : forall acurs Z Z', ensure_crosses J h codes acurs Z = Ok Z' -> zstep nothing Z Z'.
Proof.
  induction acurs as [|a r IH]; intros Z Z' H; simpl in H; [injection H as <-; apply zstep_refl|].
  destruct (if mem (cross_code h a) codes then ensure_cross J h a Z else Ok Z) as [Z1|] eqn:E; [|discriminate]. simpl in H.
  eapply zstep_trans; [intros s s' t _ []| |eapply IH; exact H].
  destruct (mem _ codes); [eapply ensure_cross_zstep; exact E|injection E as <-; apply zstep_refl].
Qed.

Lemma fx_add_zstep J cur t Z Z' : fx_add J cur t Z = Ok Z' -> zstep nothing Z Z'.
Proof.
  unfold fx_add. destruct (j_ext J) as [e|]; [|discriminate]. intros H.
  eapply zstep_upd; [exact H|]. intros s s' E. unfold opt_key in E.
  destruct (add_term_to_eq s _ t) as [x|] eqn:E2; [|discriminate]. injection E as <-. quiet_.
  eapply lstep_add_term_to_eq; [| |exact E2]; apply net_ledger.
Qed.

Lemma nothing_stable : frame_stable nothing.
Proof. intros s s' t _ []. Qed.

Lemma send_money_zstep J cur x Z Z' : send_money J cur x Z = Ok Z' -> zstep nothing Z Z'.
Proof.
  unfold send_money. intros H. bind_step H xr E0. bind_step H Z1 E1.
  eapply zstep_trans; [apply nothing_stable|eapply fx_add_zstep; exact E1|eapply fx_add_zstep; exact H].
Qed.

Lemma receive_money_zstep J a b x Z Z' t : receive_money J a b x Z = Ok (Z', t) -> zstep nothing Z Z'.
Proof.
  unfold receive_money. intros H. bind_step H Z1 E1. bind_step H cross E2. bind_step H Z2 E3. bind_step H xr E4. bind_step H Z3 E5.
  injection H as <- _.
  eapply zstep_trans; [apply nothing_stable|eapply ensure_cross_zstep; exact E1|].
  eapply zstep_trans; [apply nothing_stable|eapply fx_add_zstep; exact E3|eapply fx_add_zstep; exact E5].
Qed.

(* ------------------------------------------------------------------ *)
(** * The market with suppliers in other zones *)

(** what a market may book: its demanders' -DEM, its suppliers' +SUP, and for a supplier in
    another zone the allocation times the cross rate *)
Definition credit2 (t : term) : Prop := exists x c, t = (1%Z, [x; c]).
Definition market_terms2 (mk s : sector) (t : term) : Prop := market_terms mk s t \/ credit2 t.

Lemma market_terms2_stable mk : frame_stable (market_terms2 mk).
Proof. intros s s' t Hf [H|H]; [left; eapply market_terms_stable; eassumption|now right]. Qed.

Lemma supplier_foreign_lstep mk t s s' : supplier_foreign mk t s = Ok s' -> lstep s s' [t].
Proof.
  unfold supplier_foreign. destruct (supply_name_sup mk s) as [r Hr].
  assert (N1 : supply_name mk s <> "F") by (rewrite Hr; apply sup_not_F).
  assert (N2 : supply_name mk s <> "INC") by (rewrite Hr; apply sup_not_INC).
  destruct (add_term_to_eq _ _ _) as [s2|] eqn:E1; [|discriminate].
  unfold opt_key. destruct (add_cash_flow s2 _ None true) as [s3|] eqn:E2; [|discriminate].
  intros H. injection H as <-.
  eapply lstep_nil_l; [eapply lstep_nil_l; [apply (lstep_ensure_var s _ N1 N2)|eapply lstep_add_term_to_eq; [| |exact E1]; assumption]|].
  eapply lstep_acf_none. exact E2.
Qed.

Lemma supply_step_zstep_abroad h a mk W ie W' : supply_step h a mk W ie = Ok W' ->
  zstep (fun _ => credit2) (abroad W) (abroad W').
Proof.
  destruct ie as [i e]. unfold supply_step.
  destruct (resolve W i) as [[b sup]|] eqn:R; [|discriminate].
  destruct (upd (sid mk) _ (home W)) as [H1|] eqn:U1; [|discriminate].
  destruct b.
  - destruct (upd i (supplier_local mk (alloc_name sup)) H1) as [H2|]; [|discriminate].
    intros H. injection H as <-. apply zstep_refl.
  - destruct (fxl W) as [L|]; [|discriminate].
    destruct (upd i _ (abroad W)) as [A2|] eqn:U2; [|discriminate].
    intros H. injection H as <-. simpl.
    eapply zstep_upd; [exact U2|]. intros s s' E. eexists. split; [eapply supplier_foreign_lstep; exact E|].
    constructor; [|constructor]. unfold credit2, credited. eauto.
Qed.

Lemma credit2_stable : frame_stable (fun _ : sector => credit2).
Proof. intros s s' t _ H. exact H. Qed.

Lemma supply_fold_zstep_abroad h a mk : forall L W W', foldM (supply_step h a mk) L W = Ok W' ->
  zstep (fun _ => credit2) (abroad W) (abroad W').
Proof.
  induction L as [|x L IH]; intros W W' H; simpl in H.
  - injection H as <-. apply zstep_refl.
  - destruct (supply_step h a mk W x) as [W1|] eqn:E; [|discriminate].
    eapply zstep_trans; [apply credit2_stable|eapply supply_step_zstep_abroad; exact E|eapply IH; exact H].
Qed.

Theorem market_zstep_abroad h a W m residual others W' :
  market_generate h a W m residual others = Ok W' -> zstep (fun _ => credit2) (abroad W) (abroad W').
Proof.
  intros H. apply mg_unfold in H as (mk0 & r & H1 & mk1 & H0 & fcs & F0 & _ & GD & F1 & U & _ & FM).
  apply (supply_fold_zstep_abroad _ _ _ _ _ _ FM).
Qed.

Lemma supply_multi_zstep hcur cur_of mk : forall L W W', supply_multi hcur cur_of mk W L = Ok W' ->
  zstep (market_terms mk) (home W) (home W') /\ zstep (fun _ => credit2) (abroad W) (abroad W').
Proof.
  induction L as [|x L IH]; intros W W' H; simpl in H.
  - injection H as <-. split; apply zstep_refl.
  - destruct (supply_step hcur (cur_of (fst x)) mk W x) as [W1|] eqn:E; [|discriminate]. simpl in H.
    destruct (IH _ _ H) as [I1 I2]. split.
    + eapply zstep_trans; [apply market_terms_stable|eapply supply_step_zstep; exact E|exact I1].
    + eapply zstep_trans; [apply credit2_stable|eapply supply_step_zstep_abroad; exact E|exact I2].
Qed.

Theorem market_multi_zstep hcur cur_of W m residual others W' mk :
  market_generate_multi hcur cur_of W m residual others = Ok W' -> find_sec m (home W) = Some mk ->
  zstep (market_terms mk) (home W) (home W') /\ zstep (fun _ => credit2) (abroad W) (abroad W').
Proof.
  unfold market_generate_multi. intros H Fm. rewrite Fm in H.
  bind_step H r E0. bind_step H H1 GD.
  destruct (find_sec m H1) as [mk1|] eqn:F1; [|discriminate].
  bind_step H H0 U. bind_step H fcs E3.
  pose proof (generate_demand_zstep _ _ _ _ GD Fm) as Z1.
  destruct (find_sec_zstep _ _ _ _ _ Z1 Fm) as (mk1' & F1' & Fr). rewrite F1 in F1'. injection F1' as <-.
  pose proof (frame_static _ _ Fr) as St.
  destruct (supply_multi_zstep _ _ _ _ _ _ H) as [S1 S2]. cbn [home abroad with_home] in S1, S2.
  split; [|exact S2].
  eapply zstep_trans; [apply market_terms_stable|exact Z1|].
  eapply zstep_trans; [apply market_terms_stable| |].
  - eapply zstep_upd; [exact U|]. intros s s' E. unfold opt_key in E.
    destruct (set_rhs_terms s _ _) as [x|] eqn:E2; [|discriminate]. injection E as <-.
    apply set_rhs_terms_spec in E2. subst x. quiet_.
    apply lstep_set_eqn; unfold sup_short; [apply sup_not_F|apply sup_not_INC].
  - eapply zstep_weaken; [apply (market_terms_static _ _ St)|exact S1].
Qed.

(** a second part, disjoint from the first, is still what it was *)
Lemma filter_put_back_disjoint p q : (forall s s', frame s s' -> q s' = q s) -> (forall s, p s = true -> q s = false) ->
  forall Z C, Forall2 frame (filter p Z) C -> filter q (put_back_p p C Z) = filter q Z.
Proof.
  intros Hq D. induction Z as [|s r IH]; intros C H; simpl in *; [reflexivity|].
  destruct (p s) eqn:Ep.
  - inversion H as [|? c ? C'' Hh Ht]; subst. simpl. rewrite (Hq _ _ Hh), (D s Ep). now apply IH.
  - simpl. destruct (q s); [f_equal|]; now apply IH.
Qed.

Lemma in_zone_frame cs cur s s' : frame s s' -> in_zone cs cur s' = in_zone cs cur s.
Proof. intros H. unfold in_zone. now rewrite (frame_country _ _ H). Qed.

Lemma market_step_zstep J i self Z Z' : market_step J i self Z = Ok Z' -> find_sec i Z = Some self ->
  zstep (market_terms2 self) Z Z'.
Proof.
  unfold market_step. intros H Fs.
  set (hcur := cur_of_sec J self) in *. destruct (sup_of i (j_sup J)) as [res others].
  set (inh := in_zone (j_countries J) hcur) in *.
  assert (FH : find_sec i (filter inh Z) = Some self).
  { assert (T : inh self = true) by (unfold inh, in_zone, hcur, cur_of_sec; apply String.eqb_refl).
    clear -Fs T. unfold find_sec in *. induction Z as [|a l IH]; simpl in *; [discriminate|].
    destruct (Nat.eqb (sid a) i) eqn:E.
    - injection Fs as ->. rewrite T. simpl. now rewrite E.
    - destruct (inh a); simpl; [rewrite E|]; now apply IH. }
  assert (K : forall (ina : sector -> bool) W (Z1 : zone) acurs,
            (forall s s', frame s s' -> ina s' = ina s) -> (forall s, inh s = true -> ina s = false) ->
            zstep (market_terms self) (filter inh Z) (home W) -> zstep (fun _ => credit2) (filter ina Z) (abroad W) ->
            store_ledger J (fxl W) (put_back_p ina (abroad W) (put_back_p inh (home W) Z)) = Ok Z1 ->
            ensure_crosses J hcur (crosses W) acurs Z1 = Ok Z' -> zstep (market_terms2 self) Z Z').
  { intros ina W Z1 acurs Hq D ZH ZA SL EC.
    assert (S1 : zstep (market_terms2 self) Z (put_back_p inh (home W) Z)).
    { apply put_back_p_rel; [intros s; quiet_; apply lstep_refl|]. eapply zstep_weaken; [|exact ZH]. intros s t M. now left. }
    assert (S2 : zstep (market_terms2 self) (put_back_p inh (home W) Z) (put_back_p ina (abroad W) (put_back_p inh (home W) Z))).
    { apply put_back_p_rel; [intros s; quiet_; apply lstep_refl|].
      rewrite (filter_put_back_disjoint inh ina Hq D _ _ (zstep_frame _ _ _ ZH)).
      eapply zstep_weaken; [|exact ZA]. intros s t M. now right. }
    eapply zstep_trans; [apply market_terms2_stable|exact S1|].
    eapply zstep_trans; [apply market_terms2_stable|exact S2|].
    eapply zstep_trans; [apply market_terms2_stable|apply zstep_nothing; eapply store_ledger_zstep; exact SL|].
    apply zstep_nothing. eapply ensure_crosses_zstep; exact EC. }
  destruct (supplier_currencies J Z hcur _) as [|a [|b l]] eqn:SC.
  - bind_step H W MG.
    pose proof (market_zstep _ _ _ _ _ _ _ self MG FH) as ZH. cbn [home] in ZH.
    eapply zstep_trans; [apply market_terms2_stable| |apply zstep_nothing; eapply store_ledger_zstep; exact H].
    apply put_back_p_rel; [intros s; quiet_; apply lstep_refl|]. eapply zstep_weaken; [|exact ZH]. intros s t M. now left.
  - bind_step H W MG. bind_step H Z1 SL.
    assert (Na : a <> hcur).
    { assert (Hin : List.In a (supplier_currencies J Z hcur (map fst others ++ match res with Some r => [r] | None => [] end))) by (rewrite SC; now left).
      unfold supplier_currencies in Hin. apply nodup_In in Hin. apply in_flat_map in Hin as (j & _ & Hj).
      destruct (find_sec j Z) as [sj|]; [|contradiction]. destruct (String.eqb_spec (cur_of_sec J sj) hcur) as [|Ne]; [contradiction|].
      destruct Hj as [<-|[]]. exact Ne. }
    eapply (K (in_zone (j_countries J) a) W Z1 [a]); try eassumption.
    + intros s s'. apply in_zone_frame.
    + intros s Hs. unfold inh, in_zone in *. apply String.eqb_eq in Hs. rewrite Hs. apply String.eqb_neq. congruence.
    + apply (market_zstep _ _ _ _ _ _ _ self MG FH).
    + apply (market_zstep_abroad _ _ _ _ _ _ _ MG).
  - bind_step H W MG. bind_step H Z1 SL.
    destruct (market_multi_zstep _ _ _ _ _ _ _ self MG FH) as [M1 M2].
    eapply (K (fun s => negb (inh s)) W Z1 (a :: b :: l)); try eassumption.
    + intros s s' Fr. unfold inh. now rewrite (in_zone_frame _ _ _ _ Fr).
    + intros s Hs. now rewrite Hs.
Qed.

(* ------------------------------------------------------------------ *)
(** * Gold purchases *)

Definition gold_terms (i : nat) (s : sector) (t : term) : Prop := sid s = i /\ t = ((-1)%Z, ["GOLDPURCHASES"]).

Lemma gold_terms_stable i : frame_stable (gold_terms i).
Proof. intros s s' t Hf [H1 H2]. split; [now rewrite <- (frame_sid _ _ Hf)|exact H2]. Qed.

Lemma zstep_upd_quiet A i f Z Z' : upd i f Z = Ok Z' -> (forall s s', f s = Ok s' -> lstep s s' []) -> zstep A Z Z'.
Proof. intros H Hf. eapply zstep_upd; [exact H|]. intros s s' E. quiet_. now apply Hf. Qed.

Lemma gold_step_zstep J i self stock b st st' : gold_step J i self stock b st = Ok st' ->
  zstep (gold_terms i) (h_zone st) (h_zone st').
Proof.
  unfold gold_step. destruct (j_ext J) as [e|] eqn:EJ; [|discriminate].
  destruct (find_sec (e_fx e) (h_zone st)) as [fx|]; [|discriminate].
  destruct (has_var fx _); [|discriminate]. intros H. cbv zeta in H.
  bstep H Za E1. bstep H Zb Eb.
  destruct (find_sec (e_gold e) Zb) as [g|]; [|discriminate]. cbv zeta in H.
  bstep H xr E3. bstep H Zc E4. bstep H Zd E5. bstep H Ze E6. bstep H Zf E7.
  injection H as <-. cbn [h_zone].
  pose proof (gold_terms_stable i) as ST.
  eapply zstep_trans; [exact ST|eapply zstep_upd_quiet; [exact E1|]|].
  { intros s s' E. eapply addv_lstep; [| |exact E]; discriminate. }
  eapply zstep_trans; [exact ST|eapply zstep_upd_quiet; [exact Eb|]|].
  { intros s s' E. cbv beta in E. bstep E g1 G1.
    eapply lstep_nil_l.
    - destruct (has_var s "PRICE"); [injection G1 as <-; apply lstep_refl|eapply addv_lstep; [| |exact G1]; discriminate].
    - destruct (has_var g1 "NETOZ"); [injection E as <-; apply lstep_refl|eapply addv_lstep; [| |exact E]; discriminate]. }
  eapply zstep_trans; [exact ST|eapply zstep_upd_quiet; [exact E4|]|].
  { intros s s' E. eapply addvs_lstep; [|exact E]. reflexivity. }
  eapply zstep_trans; [exact ST|apply zstep_nothing; eapply send_money_zstep; exact E5|].
  eapply zstep_trans; [exact ST| |eapply zstep_upd_quiet; [exact E7|]].
  - eapply zstep_upd_sid; [exact E6|]. intros s s' Hs E. unfold opt_key in E.
    destruct (add_cash_flow s _ None false) as [x|] eqn:E8; [|discriminate]. injection E as <-.
    eexists. split; [eapply lstep_acf_none; exact E8|]. constructor; [now split|constructor].
  - intros s s' E. unfold opt_key in E. destruct (add_term_to_eq s "NETOZ" _) as [x|] eqn:E8; [|discriminate].
    injection E as <-. eapply lstep_add_term_to_eq; [| |exact E8]; discriminate.
Qed.

(* ------------------------------------------------------------------ *)
(** * Registered cash flows, possibly across zones *)

Definition flow_terms2 (f : flow) (Z : zone) (s : sector) (t : term) : Prop :=
  let '(src, tgt, var, _, _) := f in
  exists s0, find_sec src Z = Some s0 /\
    ((sid s = src /\ t = ((-1)%Z, [fullcode s0 ++ "__" ++ var])) \/
     (tgt = Some (sid s) /\ (t = (1%Z, [fullcode s0 ++ "__" ++ var]) \/ exists c, t = (1%Z, [fullcode s0 ++ "__" ++ var; c])))).

Lemma flow_terms2_stable f Z : frame_stable (flow_terms2 f Z).
Proof.
  intros s s' t Hf. destruct f as [[[[src tgt] var] a] b]. unfold flow_terms2. now rewrite (frame_sid _ _ Hf).
Qed.

Theorem flow2_zstep J Z f Z' : flow_step2 J Z f = Ok Z' -> zstep (flow_terms2 f Z) Z Z'.
Proof.
  destruct f as [[[[src tgt] var] a] b]. unfold flow_step2. destruct tgt as [tg|]; [|discriminate].
  destruct (find_sec src Z) as [s0|] eqn:Fs; [|discriminate].
  destruct (find_sec tg Z) as [t0|]; [|discriminate].
  destruct (_ && _); [discriminate|].
  destruct (has_var s0 var); [|discriminate]. intros H. bind_step H Z1 U1.
  pose proof (flow_terms2_stable (src, Some tg, var, a, b) Z) as ST.
  assert (S1 : zstep (flow_terms2 (src, Some tg, var, a, b) Z) Z Z1).
  { eapply zstep_upd_sid; [exact U1|]. intros s s' Hs E. unfold opt_key in E.
    destruct (add_cash_flow s _ None a) as [x|] eqn:E2; [|discriminate]. injection E as <-.
    eexists. split; [eapply lstep_acf_none; exact E2|]. constructor; [|constructor].
    unfold flow_terms2. exists s0. split; [exact Fs|]. left. now split. }
  assert (TG : forall t Zx Zy, (t = (1%Z, [fullcode s0 ++ "__" ++ var]) \/ exists c, t = (1%Z, [fullcode s0 ++ "__" ++ var; c])) ->
             upd tg (fun x => opt_key (add_cash_flow x t None b)) Zx = Ok Zy ->
             zstep (flow_terms2 (src, Some tg, var, a, b) Z) Zx Zy).
  { intros t Zx Zy Ht U. eapply zstep_upd_sid; [exact U|]. intros s s' Hs E. unfold opt_key in E.
    destruct (add_cash_flow s t None b) as [x|] eqn:E2; [|discriminate]. injection E as <-.
    eexists. split; [eapply lstep_acf_none; exact E2|]. constructor; [|constructor].
    unfold flow_terms2. exists s0. split; [exact Fs|]. right. split; [now rewrite Hs|exact Ht]. }
  eapply zstep_trans; [exact ST|exact S1|].
  destruct (negb _).
  - bind_step H Z2 E2. bind_step H zt E3. destruct zt as [Z3 t]. cbn [fst snd] in H.
    eapply zstep_trans; [exact ST|apply zstep_nothing; eapply send_money_zstep; exact E2|].
    eapply zstep_trans; [exact ST|apply zstep_nothing; eapply receive_money_zstep; exact E3|].
    apply (TG t _ _); [|exact H]. right.
    unfold receive_money in E3. bind_step E3 a1 X1. bind_step E3 a2 X2. bind_step E3 a3 X3. bind_step E3 a4 X4. bind_step E3 a5 X5.
    injection E3 as _ <-. eauto.
  - apply (TG _ _ _ (or_introl eq_refl) H).
Qed.

(* ------------------------------------------------------------------ *)
(** * One _GenerateEquations call *)

Definition gen_terms2 (ik : nat * cls2) (Z : zone) (s : sector) (t : term) : Prop :=
  match snd ik with
  | COld CMarket => exists mk, find_sec (fst ik) Z = Some mk /\ market_terms2 mk s t
  | COld (CTaxFlow _ _) => signed1 "T" t
  | COld (CBusiness _ _ _ _ _) => signed1 "DIV" t
  | COld (CDepositMarket _) => exists mk, find_sec (fst ik) Z = Some mk /\ signed1 (int_name (code mk)) t
  | CGoldGov _ | CGoldCB _ _ => gold_terms (fst ik) s t
  | _ => False
  end.

Lemma gen_terms2_stable ik Z : frame_stable (gen_terms2 ik Z).
Proof.
  intros s s' t Hf. unfold gen_terms2. destruct (snd ik) as [k| | | | |]; auto; try (eapply gold_terms_stable; exact Hf).
  destruct k; auto. intros (mk & F & M). exists mk. split; [exact F|]. eapply market_terms2_stable; eassumption.
Qed.

Lemma same2_inv (st : gstate2) (r : result zone) st' :
  (do Z' <- r ;; Ok (mkG2 Z' (h_flows st) (h_ic st))) = Ok st' -> r = Ok (h_zone st').
Proof. destruct r; simpl; intros H; [injection H as <-; reflexivity|discriminate]. Qed.

Theorem gen_step2_zstep J st ik st' : gen_step2 J st ik = Ok st' ->
  zstep (gen_terms2 ik (h_zone st)) (h_zone st) (h_zone st').
Proof.
  destruct ik as [i k]. unfold gen_step2.
  destruct (find_sec i (h_zone st)) as [self|] eqn:Fs; [|discriminate].
  assert (HH : forall ai af, (do Z' <- upd i (apply_resets [("AlphaIncome", ai); ("AlphaFin", af)]) (h_zone st) ;;
                             Ok (mkG2 Z' (h_flows st) (h_ic st))) = Ok st' -> zstep nothing (h_zone st) (h_zone st')).
  { intros ai af H. apply same2_inv in H. eapply zstep_upd; [exact H|].
    intros s s' E. quiet_. eapply lstep_apply_resets; [|exact E]. apply ledger_free_b. reflexivity. }
  destruct k as [k|stock|t stock| | |]; unfold gen_terms2; cbn [snd fst].
  2:{ apply gold_step_zstep. }
  2:{ intros H. apply gold_step_zstep in H. exact H. }
  2,3,4: intros H; injection H as <-; apply zstep_refl.
  destruct k as [| |t|ai af good lab|ai af good lab|ai af good|mz wage margin lab out|mz wage lab ms|rate paid|
                 |issuer|issuer].
  - intros H. injection H as <-. apply zstep_refl.
  - intros H. injection H as <-. apply zstep_refl.
  - intros H. injection H as <-. apply zstep_refl.
  - intros H. apply zstep_nothing. eapply HH; exact H.
  - intros H. apply zstep_nothing. eapply HH; exact H.
  - intros H. apply zstep_nothing. eapply HH; exact H.
  - destruct (find _ _) as [mk|]; [|discriminate].
    destruct (has_var mk _); [|discriminate].
    intros H. apply same2_inv in H. eapply on_part_zstep; [exact H|].
    intros C C' FG. eapply firm_zstep; [|exact FG]. apply ledger_free_b. cbn [snd]. unfold wage_resets. destruct mz; reflexivity.
  - destruct (upd i _ (h_zone st)) as [Z1|] eqn:U; [|discriminate]. cbn [bind].
    destruct (existsb _ _); [discriminate|]. intros H. injection H as <-. cbn [h_zone].
    apply zstep_nothing. eapply zstep_upd; [exact U|]. intros s s' E. quiet_.
    eapply lstep_apply_resets; [|exact E]. apply ledger_free_b. reflexivity.
  - intros H. apply same2_inv in H. eapply on_part_zstep; [exact H|]. intros C C' E. eapply tax_zstep. exact E.
  - intros H. apply same2_inv in H. eapply zstep_weaken; [|eapply market_step_zstep; [exact H|exact Fs]].
    intros s t M. exists self. now split.
  - intros H. apply same2_inv in H. apply zstep_nothing. eapply on_part_zstep; [exact H|]. intros C C' E. eapply money_zstep. exact E.
  - intros H. apply same2_inv in H. eapply on_part_zstep; [exact H|]. intros C C' E.
    eapply zstep_weaken; [|eapply deposit_zstep; exact E]. intros s t M. exists self. now split.
Qed.
