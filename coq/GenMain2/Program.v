(** The program language of the whole-pipeline model: what harness/gen_common.py calls a *program*
    (ordered steps of kind country / sector / op), restricted to ONE currency zone and no
    ExternalSector — exactly the shapes [ProgGen.single()] and [ProgGen.federated()] generate, and
    every other program that can be written with these steps.

    Sectors are referred to by their creation index (0, 1, 2, ... over the [StSector] steps of the
    whole program, the model's stand-in for [EconomicObject.ID]); countries by their creation index
    over the [StCountry] steps.  Numeric parameters enter as the texts the implementation formats
    them to ('%0.4f' % alpha, '%0.3f' % margin, repr(list)): formatting is C09's subject.  Texts of
    user operations that embed a name requested before main() ({sector:VAR} in the JSON) are given
    with the FINAL full name already substituted (alias fixing is C05's subject). *)
From Coq Require Import List String Bool ZArith Arith.
From SFC.Base Require Import Res Str.
Import ListNotations.
Local Open Scope string_scope.

Inductive cls :=
| CGov                                                        (* ConsolidatedGovernment *)
| CTreasury
| CCentralBank (treasury : option nat)                        (* treasury=<sector> or None *)
| CHousehold (ai af good lab : string)                        (* '%0.4f' texts of the alphas, good / labour names *)
| CHouseholdExp (ai af good lab : string)                     (* HouseholdWithExpectations *)
| CCapitalists (ai af good : string)
| CBusiness (margin_zero : bool) (wage margin lab out : string)
      (* FixedMarginBusiness: ProfitMargin == 0, '%0.3f' % (1 - margin), '%0.3f' % margin *)
| CBusinessMulti (margin_zero : bool) (wage lab : string) (markets : list nat)
      (* FixedMarginBusinessMultiOutput with market_list (existing Market objects) *)
| CTaxFlow (rate paid_to : string)                            (* '%0.4f' % taxrate, taxes_paid_to *)
| CMarket
| CMoneyMarket (issuer : string)
| CDepositMarket (issuer : string).

Inductive uop :=
| OAddVariable (s : nat) (name text : string)                 (* sector.AddVariable(name, desc, text) *)
| OSetExogenous (s : nat) (name spec : string)                (* sector.SetExogenous: spec = str or repr(list/tuple) *)
| ORegisterCashFlow (src tgt : nat) (var : string) (inc_src inc_tgt : bool)
| OAddSupplier (market supplier : nat) (text : option string) (* market.AddSupplier(supplier[, text]) *)
| OAssetWeighting (s : nat) (ws : list (string * string)) (residual : string)
| OAddInitialCondition (s : nat) (name value : string)        (* value = str(float(x)) *)
| OSetTreasury (cb tre : nat).                                (* cb.Treasury = tre  (setattr) *)

Inductive step :=
| StCountry (code : string)                                   (* Country / Region sharing the one currency *)
| StSector (country : nat) (code : string) (c : cls)
| StOp (o : uop).

Definition program := list step.

(** static reading of a program (used by the theorem statements) *)
Fixpoint country_codes (p : program) : list string :=
  match p with
  | [] => []
  | StCountry c :: r => c :: country_codes r
  | _ :: r => country_codes r
  end.

(** declared sectors: (country index, code, class) in creation order *)
Fixpoint sector_decls (p : program) : list (nat * string * cls) :=
  match p with
  | [] => []
  | StSector ci c k :: r => (ci, c, k) :: sector_decls r
  | _ :: r => sector_decls r
  end.

Definition multi_country (p : program) : bool := Nat.ltb 1 (List.length (country_codes p)).
