(** Boolean comparison evaluated by the generated whole-program correspondence cases of
    harness/gen_main.py.  The implementation's outcome is either the exception class or what its
    own EquationParser reads off FinalEquations: the endogenous rows (name, right-hand side), the
    lagged rows (name, source), the exogenous rows (name, text) — each list in emission order — and
    the initial conditions (sorted by name).  Texts are compared with blanks removed. *)
From Coq Require Import List String Ascii Bool ZArith Arith.
From SFC.Base Require Import Res Str.
From SFC.Gen Require Import Fx Zone.
From SFC.GenMain2 Require Import Program Classes Main.
Import ListNotations.
Local Open Scope string_scope.

Definition nospace (s : string) : string := remove_char " "%char s.

Fixpoint pairs_eqb (a b : list (string * string)) : bool :=
  match a, b with
  | [], [] => true
  | (x, y) :: a', (x', y') :: b' => String.eqb x x' && String.eqb y y' && pairs_eqb a' b'
  | _, _ => false
  end.

Definition endo_rows (E : final_system) : list (string * string) :=
  flat_map (fun r => match r_kind r with KDef t => [(r_lhs r, nospace t)] | _ => [] end) (fs_rows E).
Definition lag_rows (E : final_system) : list (string * string) :=
  flat_map (fun r => match r_kind r with KLag t => [(r_lhs r, nospace t)] | _ => [] end) (fs_rows E).
Definition exo_rows (E : final_system) : list (string * string) :=
  flat_map (fun r => match r_kind r with KExo t => [(r_lhs r, nospace t)] | _ => [] end) (fs_rows E).

(** the parser keeps initial conditions in a dict: the last row for a name wins *)
Fixpoint last_binding (k : string) (l : list (string * string)) : option string :=
  match l with
  | [] => None
  | (x, v) :: r => match last_binding k r with Some w => Some w | None => if String.eqb x k then Some v else None end
  end.

Definition ic_eqb (model expected : list (string * string)) : bool :=
  forallb (fun kv => match last_binding (fst kv) model with Some v => String.eqb (nospace v) (snd kv) | None => false end) expected &&
  forallb (fun kv => mem (fst kv) (map fst expected)) model.

Inductive expected :=
| ExpErr (e : err)
| ExpOk (endo lag exo ic : list (string * string)).

Definition main_case (p : program) (x : expected) : bool :=
  match build p, x with
  | Err e, ExpErr e' => err_eqb e e'
  | Ok E, ExpOk endo lag exo ic =>
      pairs_eqb (endo_rows E) endo && pairs_eqb (lag_rows E) lag && pairs_eqb (exo_rows E) exo &&
      ic_eqb (fs_ic E) ic
  | _, _ => false
  end.

(** for debugging: the model's outcome in the harness's format *)
Definition show (p : program) :=
  match build p with
  | Err e => Err e
  | Ok E => Ok (endo_rows E, lag_rows E, exo_rows E, fs_ic E)
  end.
