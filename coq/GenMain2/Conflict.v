(** The decidable side condition [no_conflict] of the program-level C01 / C04 theorems, computed
    over the run of the pipeline model, and the semantics of a final system.

    A booking group (market, tax flow, dividends, deposit market) installs definitions and relies
    on them; [no_conflict] says, step by step,
      - the freshness conditions of the group held when it ran (a payer's T, a supplier's supply
        variable, an interest variable, the receiver's DIV were not already defined otherwise;
        suppliers registered once and in the zone; ...), and
      - every definition the group installed is still in place in the final system and is emitted
        as an endogenous equation (no later step or user operation overwrote it or made it
        exogenous),
    plus: no user operation names F or INC, and the dividend receiver's DIV definition is only ever
    touched by the paying firms.  Everything is a boolean over [Main.run]. *)
From Coq Require Import List String Bool ZArith Arith Reals.
From SFC.Base Require Import Res Str.
From SFC.Gen Require Import Fx Zone.
From SFC.GenMarket Require Import Market.
From SFC.GenTax Require Import Tax Dividends.
From SFC.GenAsset Require Import Common Money Deposit Weighting.
From SFC.GenMain2 Require Import Program Classes Main.
Import ListNotations.
Local Open Scope string_scope.

(* ------------------------------------------------------------------ *)
(** * Semantics of a final system *)

Definition row_kind (s : sector) (n : string) : kind := r_kind (var_row s n).

Definition is_kdef (s : sector) (n : string) : bool :=
  match row_kind s n with KDef _ => true | _ => false end.

(** [v] = values of the current period, [vprev] = of the previous one, [bv] = values of opaque
    expressions (per owning sector's full code and local text).  An endogenous row says
    variable = value of its equation ([Zone.holds]); a lagged row says variable = previous value of
    its source; an exogenous row says nothing. *)
Definition sat (E : final_system) (v vprev : string -> R) (bv : string -> string -> R) : Prop :=
  forall s n, List.In s (fs_zone E) -> has_var s n = true ->
    match row_kind s n with
    | KDef _ => holds v bv s n
    | KLag src => v (fullcode s ++ "__" ++ n) = vprev src
    | KExo _ => True
    end.

(** the opaque-expression valuation reads the literal texts "0." and "0.0" as zero *)
Definition bv_zero (bv : string -> string -> R) : Prop := forall fc, bv fc "0." = 0%R /\ bv fc "0.0" = 0%R.

(* ------------------------------------------------------------------ *)
(** * Boolean helpers *)

Definition term_eqb (a b : term) : bool := Z.eqb (fst a) (fst b) && factors_eqb (snd a) (snd b).

Fixpoint terms_eqb (a b : list term) : bool :=
  match a, b with
  | [], [] => true
  | x :: a', y :: b' => term_eqb x y && terms_eqb a' b'
  | _, _ => false
  end.

Definition eqn_eqb (a b : eqn) : bool := String.eqb (blob a) (blob b) && terms_eqb (terms a) (terms b).

Definition oeqn_eqb (a b : option eqn) : bool :=
  match a, b with Some x, Some y => eqn_eqb x y | None, None => true | _, _ => false end.

Fixpoint forallb2 {A B} (f : A -> B -> bool) (la : list A) (lb : list B) : bool :=
  match la, lb with
  | [], [] => true
  | a :: la', b :: lb' => f a b && forallb2 f la' lb'
  | _, _ => false
  end.

Fixpoint nodupb (l : list nat) : bool :=
  match l with [] => true | x :: r => negb (existsb (Nat.eqb x) r) && nodupb r end.

Definition fresh_b (s : sector) (n : string) : bool :=
  match lookup_var n (vars s) with None => true | Some e => renders_empty e end.

(** an equation worth zero whatever the valuation (given [bv_zero]) *)
Definition zero_eqn (e : eqn) : bool :=
  (String.eqb (blob e) "" || String.eqb (blob e) "0." || String.eqb (blob e) "0.0") &&
  forallb (fun t => Z.eqb (fst t) 0) (terms e).

(** the equation of [n] in the state after a step is the one in the final system, and it is
    emitted as an endogenous equation *)
Definition kept1 (s' sf : sector) (n : string) : bool :=
  oeqn_eqb (lookup_var n (vars s')) (lookup_var n (vars sf)) && is_kdef sf n.

Definition kept (sel : sector -> list string) (Z' Zf : zone) : bool :=
  forallb2 (fun s' sf => forallb (kept1 s' sf) (sel s')) Z' Zf.

(** same, without the endogenous requirement (used for the previous period) *)
Definition same1 (s' sf : sector) (n : string) : bool :=
  oeqn_eqb (lookup_var n (vars s')) (lookup_var n (vars sf)).
Definition same_eqs (sel : sector -> list string) (Z' Zf : zone) : bool :=
  forallb2 (fun s' sf => forallb (same1 s' sf) (sel s')) Z' Zf.

(* ------------------------------------------------------------------ *)
(** * Dividend receivers *)

Definition all_biz (I : ginfo) (Z : zone) : list nat :=
  map sid (filter (fun s => is_fmb (class_of (i_classes I) (sid s))) Z).

(** a sector that is not a FixedMarginBusiness and whose F holds a DIV term: it receives dividends *)
Definition recv (bizs : list nat) (s : sector) : bool :=
  negb (existsb (Nat.eqb (sid s)) bizs) &&
  match f_has_div s with Some true => true | _ => false end.

Definition of_has_div_eqb (a b : option bool) : bool :=
  match a, b with Some x, Some y => Bool.eqb x y | None, None => true | _, _ => false end.

(** a step that leaves every DIV definition and every "F holds a DIV term" alone *)
Definition div_quiet (Z Z' : zone) : bool :=
  forallb2 (fun s s' => oeqn_eqb (lookup_var "DIV" (vars s)) (lookup_var "DIV" (vars s')) &&
                        of_has_div_eqb (f_has_div s) (f_has_div s')) Z Z'.

(* ------------------------------------------------------------------ *)
(** * One check per kind of step *)

Definition tax_sel (me : nat) (paid_to : string) (s : sector) : list string :=
  if sid_is me s || taxable s || code_is paid_to s then ["T"] else [].

Definition tax_ok (Zf : zone) (me : nat) (paid_to : string) (Z Z' : zone) : bool :=
  forallb (fun s => if is_payer me s then fresh_b s "T" else true) Z &&
  forallb (fun s => if code_is paid_to s then negb (taxable s) && negb (Nat.eqb (sid s) me) else true) Z &&
  kept (tax_sel me paid_to) Z' Zf.

Fixpoint find_all (Z : zone) (ids : list nat) : option (list sector) :=
  match ids with
  | [] => Some []
  | i :: r => match find_sec i Z, find_all Z r with Some s, Some l => Some (s :: l) | _, _ => None end
  end.

Definition no_dunder (n : string) : bool := negb (has_substring "__" n).

Definition market_sel (mk : sector) (ids : list nat) (rs : sector) (s : sector) : list string :=
  (if Nat.eqb (sid s) (sid mk) then [sup_short mk; dem_short mk; alloc_name rs] else []) ++
  (if existsb (Nat.eqb (sid s)) ids then [supply_name mk s] else []).

Definition market_ok (Zf : zone) (m : nat) (res : option nat) (others : list (nat * string)) (Z Z' : zone) : bool :=
  match find_sec m Z with
  | None => false
  | Some mk =>
      match the_residual Z mk res with
      | Err _ => false
      | Ok r =>
          let ids := (map fst others ++ [r])%list in
          match find_all Z (map fst others), find_sec r Z with
          | Some osecs, Some rs =>
              forallb (fun i => negb (Nat.eqb i m)) ids && nodupb ids &&
              no_dunder (dem_short mk) && no_dunder (dem_long mk) && no_dunder (sup_short mk) &&
              forallb (fun s => no_dunder (alloc_name s)) osecs &&
              forallb (fun s => negb (String.eqb (fullcode s) (code mk))) (osecs ++ [rs])%list &&
              forallb (fun s => no_dunder (supply_name mk s) &&
                                zero_eqn (match lookup_var (supply_name mk s) (vars s) with Some e => e | None => mkEqn "" [] end))
                      (osecs ++ [rs])%list &&
              kept (market_sel mk ids rs) Z' Zf
          | _, _ => false
          end
      end
  end.

Definition kind_is_lag (k : kind) (src : string) : bool :=
  match k with KLag t => String.eqb t src | _ => false end.

(** the lag variable [l] (a full name) is emitted as a lagged row with source [src] *)
Definition lag_ok (Zf : zone) (lsrc : string * string) : bool :=
  existsb (fun sf => existsb (fun n => String.eqb (fullcode sf ++ "__" ++ n) (fst lsrc) &&
                                       kind_is_lag (row_kind sf n) (snd lsrc)) (keys sf)) Zf.

Definition dep_sel (c issuer : string) (s : sector) : list string :=
  if dep_issuer issuer s || dep_holder c issuer s then [int_name c] else [].

(** the two previous-period equations the interest group needs: issuer's SUP, market's DEM *)
Definition dep_prev_sel (c issuer : string) (mk : nat) (s : sector) : list string :=
  (if dep_issuer issuer s then [Common.sup_name c] else []) ++ (if Nat.eqb (sid s) mk then [Common.dem_name c] else []).

(** C04: every sector's demand for / supply of the asset is still what it was when the market ran *)
Definition asset_sel (c : string) (s : sector) : list string := [Common.dem_name c; Common.sup_name c].

Definition deposit_ok (Zf : zone) (mk : nat) (c issuer : string) (Z Z' : zone) : bool :=
  kept (asset_sel c) Z' Zf &&
  no_dunder (int_name c) &&
  forallb (fun s => if dep_issuer issuer s || dep_holder c issuer s then int_fresh c s else true) Z &&
  forallb (lag_ok Zf) (deposit_lags c issuer Z) &&
  kept (dep_sel c issuer) Z' Zf &&
  same_eqs (dep_prev_sel c issuer mk) Z' Zf.

(** FixedMarginBusiness: the firm's DIV = PROF is kept; when the country has a dividend receiver
    [r] (the first non-business sector owning DIV): its DIV was undefined before the first payer,
    and after the call its definition is the old one plus this firm's profits; nobody else's DIV
    definition or DIV booking changed *)
Definition firm_sel (p : nat) (s : sector) : list string := if Nat.eqb (sid s) p then ["DIV"] else [].

Definition cand_b (bizs : list nat) (s : sector) : bool :=
  negb (existsb (Nat.eqb (sid s)) bizs) && has_var s "DIV".

Definition firm_ok (Zf : zone) (I : ginfo) (p : nat) (Z Z' : zone) : bool :=
  match find_sec p Z with
  | None => false
  | Some self =>
      let cc := country self in
      let C := filter (in_country cc) Z in
      let bizs := biz_ids I C in
      match find (cand_b bizs) C with
      | None => div_quiet Z Z'
      | Some r =>
          let pf := fullcode self ++ "__" ++ "PROF" in
          no_dunder "DIV" && fresh_b self "DIV" &&
          kept (firm_sel p) Z' Zf &&
          match f_has_div r, lookup_var "DIV" (vars r) with
          | Some b, Some e =>
              (b || renders_empty e) &&
              forallb2 (fun s s' =>
                 if Nat.eqb (sid s) p then true
                 else if Nat.eqb (sid s) (sid r) then
                   oeqn_eqb (lookup_var "DIV" (vars s'))
                            (Some (if b then append_def e (1%Z, [pf]) else mkEqn "" [(1%Z, [pf])])) &&
                   of_has_div_eqb (f_has_div s') (Some true)
                 else oeqn_eqb (lookup_var "DIV" (vars s)) (lookup_var "DIV" (vars s')) &&
                      of_has_div_eqb (f_has_div s) (f_has_div s')) Z Z'
          | _, _ => false
          end
      end
  end.

Definition gen_ok (Zf : zone) (I : ginfo) (x : (nat * cls) * gstate * gstate) : bool :=
  let '((i, k), st, st') := x in
  let Z := g_zone st in
  let Z' := g_zone st' in
  match k with
  | CTaxFlow _ paid_to => tax_ok Zf i paid_to Z Z' && div_quiet Z Z'
  | CMarket => let '(res, others) := sup_of i (i_sup I) in market_ok Zf i res others Z Z' && div_quiet Z Z'
  | CDepositMarket issuer =>
      match find_sec i Z with
      | Some self => deposit_ok Zf i (code self) issuer Z Z' && div_quiet Z Z'
      | None => false
      end
  | CBusiness _ _ _ _ _ => firm_ok Zf I i Z Z'
  | CMoneyMarket _ =>
      match find_sec i Z with
      | Some self => kept (asset_sel (code self)) Z' Zf && div_quiet Z Z'
      | None => false
      end
  | _ => div_quiet Z Z'
  end.

Definition flow_ok (x : flow * zone * zone) : bool :=
  let '(f, Z, Z') := x in
  div_quiet Z Z'.

Definition exo_ok (x : (nat * string * string) * zone * zone) : bool :=
  let '((s, n, spec), Z, Z') := x in
  div_quiet Z Z' && negb (String.eqb n "F") && negb (String.eqb n "INC").

Definition op_name_ok_b (o : uop) : bool :=
  match o with
  | OAddVariable _ n _ | OSetExogenous _ n _ => negb (String.eqb n "F") && negb (String.eqb n "INC")
  | _ => true
  end.

Definition ledger_untouched_b (p : program) : bool :=
  forallb (fun x => match x with StOp o => op_name_ok_b o | _ => true end) p.

(** the final system: F of every sector with a ledger and DIV of every receiver are endogenous rows;
    local ledger names are plain *)
Definition final_ok (I : ginfo) (Zf : zone) : bool :=
  forallb (fun s => (if hasF s then is_kdef s "F" else true) &&
                    (if recv (all_biz I Zf) s then is_kdef s "DIV" else true)) Zf.

Definition conflict_free (Rn : run) : bool :=
  let Zf := fs_zone (r_final Rn) in
  forallb (gen_ok Zf (r_info Rn)) (r_gen Rn) &&
  forallb flow_ok (r_flows Rn) &&
  forallb exo_ok (r_exo Rn) &&
  final_ok (r_info Rn) Zf.

Definition no_conflict (p : program) : bool :=
  ledger_untouched_b p &&
  match build_run p with Ok Rn => conflict_free Rn | Err _ => false end.

(** previous-period consistency of the deposit stocks: for every deposit market, the previous
    period satisfied the issuer's supply equation and the market's total-demand equation *)
Definition stock_consistent (Rn : run) (vprev : string -> R) (bvp : string -> string -> R) : Prop :=
  forall i issuer st st' self, List.In ((i, CDepositMarket issuer), st, st') (r_gen Rn) ->
    find_sec i (g_zone st) = Some self ->
    forall sf, List.In sf (fs_zone (r_final Rn)) ->
      (dep_issuer issuer sf = true -> holds vprev bvp sf (Common.sup_name (code self))) /\
      (sid sf = i -> holds vprev bvp sf (Common.dem_name (code self))).
