(** Theorem 1 (canonical names, defined once) and theorem 2 (ledger decomposition) at program level. *)
From Coq Require Import List String Ascii Bool ZArith Arith Lia.
From SFC.Base Require Import Res Str Sorting.
From SFC.Gen Require Import Fx Zone.
From SFC.GenMarket Require Import Market MarketProofs.
From SFC.GenTax Require Import Tax TaxProofs DividendProofs.
From SFC.GenAsset Require Import WeightingProofs.
From SFC.GenMain2 Require Import Program Classes Main Ledger MainProofs.
Import ListNotations.
Local Open Scope string_scope.
Local Open Scope list_scope.

(* ------------------------------------------------------------------ *)
(** * Frames through the whole run (no hypothesis) *)

Lemma chain_frames {S B} (f : S -> B -> result S) (pz : S -> zone) :
  (forall st b st', f st b = Ok st' -> Forall2 frame (pz st) (pz st')) ->
  forall tr st st', chain f tr st st' -> Forall2 frame (pz st) (pz st').
Proof.
  intros Hf. induction tr as [|x tr IH]; intros st st' C; inversion C; subst.
  - apply Forall2_refl_frame.
  - eapply Forall2_trans_frame; [eapply Hf; eassumption|eapply IH; eassumption].
Qed.

Lemma exo_step_frame Z x Z' : exo_step Z x = Ok Z' -> Forall2 frame Z Z'.
Proof.
  destruct x as [[s n] spec]. unfold exo_step. destruct (find_sec s Z); [|discriminate].
  intros U. eapply upd_frame; [exact U|]. intros y y' E. unfold opt_key in E.
  destruct (set_rhs y n _) as [z|] eqn:E2; [|discriminate]. injection E as <-.
  apply set_rhs_install in E2. subst. reflexivity.
Qed.

Theorem main_run_frame st R : main_run st = Ok R -> Forall2 frame (zone0 st) (fs_zone (r_final R)).
Proof.
  intros H. destruct (main_run_inv _ _ H) as (gfin & Z1 & E0 & EI & C1 & M1 & C2 & M2 & C3 & M3 & _).
  eapply Forall2_trans_frame; [|eapply Forall2_trans_frame].
  - apply (chain_frames (gen_step (r_info R)) g_zone (fun a b c Hs => zstep_frame _ _ _ (gen_step_zstep _ _ _ _ Hs)) _ _ _ C1).
  - apply (chain_frames flow_step (fun Z => Z) (fun a b c Hs => zstep_frame _ _ _ (flow_zstep _ _ _ Hs)) _ _ _ C2).
  - apply (chain_frames exo_step (fun Z => Z) exo_step_frame _ _ _ C3).
Qed.

Lemma build_run_inv p R : build_run p = Ok R -> exists st, construct_all p = Ok st /\ main_run st = Ok R.
Proof. unfold build_run. destruct (construct_all p) as [st|]; [|discriminate]. simpl. eauto. Qed.

Lemma build_inv p E : build p = Ok E -> exists R, build_run p = Ok R /\ E = r_final R.
Proof. unfold build. destruct (build_run p) as [R|]; [|discriminate]. simpl. intros H. injection H as <-. eauto. Qed.

(* ------------------------------------------------------------------ *)
(** * Who is in the zone *)

Lemma zone0_In st s0 : List.In s0 (zone0 st) ->
  exists s, List.In s (c_secs st) /\ s0 = set_fullcode (is_multi st) s /\ List.In (country s) (c_countries st).
Proof.
  unfold zone0, zone_order. intros H. apply in_flat_map in H as (cc & Hc & H).
  apply filter_In in H as [H Hcc]. apply in_map_iff in H as (s & <- & Hs).
  exists s. split; [exact Hs|]. split; [reflexivity|].
  unfold in_country in Hcc. simpl in Hcc. apply String.eqb_eq in Hcc. now rewrite Hcc.
Qed.

Lemma decl_of (P : nat * string * cls -> string -> Prop) : forall decls secs,
  map code secs = map (fun d : nat * string * cls => snd (fst d)) decls ->
  Forall2 P decls (map country secs) ->
  forall s, List.In s secs -> exists d, List.In d decls /\ snd (fst d) = code s /\ P d (country s).
Proof.
  induction decls as [|d decls IH]; intros [|a secs] Hc Hp s Hs; simpl in *; try discriminate; try contradiction.
  inversion Hp as [|? ? ? ? Hd Hr]; subst. injection Hc as Hc1 Hc2.
  destruct Hs as [<-|Hs].
  - exists d. auto.
  - destruct (IH _ Hc2 Hr s Hs) as (d' & D1 & D2 & D3). exists d'. auto.
Qed.

Lemma lookup_In n vs : List.In n (map fst vs) -> exists e, lookup_var n vs = Some e.
Proof.
  induction vs as [|[k e] r IH]; simpl; [contradiction|].
  destruct (String.eqb_spec n k); [eauto|]. intros [H|H]; [congruence|auto].
Qed.

Lemma keys_In s n : List.In n (keys s) <-> has_var s n = true.
Proof.
  unfold keys, has_var. rewrite nodup_In. split.
  - intros H. apply lookup_In in H as (e & ->). reflexivity.
  - destruct (lookup_var n (vars s)) as [e|] eqn:E; [|discriminate]. intros _.
    clear -E. induction (vars s) as [|[k e'] r IH]; simpl in *; [discriminate|].
    destruct (String.eqb_spec n k); [now left|right; auto].
Qed.

Lemma rows_In Z r : List.In r (zone_rows Z) ->
  exists s n, List.In s Z /\ has_var s n = true /\ r = var_row s n.
Proof.
  unfold zone_rows, sector_rows. intros H. apply in_flat_map in H as (s & Hs & H).
  apply in_map_iff in H as (n & <- & Hn). apply (proj1 (sort_In _ _)) in Hn. apply (proj1 (keys_In _ _)) in Hn. eauto.
Qed.

(* ------------------------------------------------------------------ *)
(** * Theorem 1a: canonical names *)

Theorem main_canonical_names p E : build p = Ok E ->
  forall r, List.In r (fs_rows E) ->
  exists ci c k cc s n,
    List.In (ci, c, k) (sector_decls p) /\ nth_error (country_codes p) ci = Some cc /\
    List.In s (fs_zone E) /\ code s = c /\ country s = cc /\ has_var s n = true /\
    fullcode s = (if multi_country p then (cc ++ "_" ++ c)%string else c) /\
    r_lhs r = (fullcode s ++ "__" ++ n)%string.
Proof.
  intros HB r Hr. apply build_inv in HB as (R & HR & ->). apply build_run_inv in HR as (st & HC & HM).
  pose proof (construct_all_cinv _ _ HC) as CI. pose proof (main_run_frame _ _ HM) as FR.
  destruct (main_run_inv _ _ HM) as (_ & _ & _ & _ & _ & _ & _ & _ & _ & _ & ROWS & _).
  rewrite ROWS in Hr. apply rows_In in Hr as (sf & n & Hsf & Hn & ->).
  destruct (Forall2_In_r _ _ _ _ FR Hsf) as (s0 & Hs0 & F0).
  apply zone0_In in Hs0 as (s & Hs & -> & _).
  destruct (decl_of _ _ _ (ci_codes _ _ CI) (ci_ctry _ _ CI) s Hs) as ([[ci c] k] & D1 & D2 & D3). simpl in D2, D3.
  exists ci, c, k, (country s), sf, n.
  assert (FC : fullcode sf = full_code (is_multi st) (country s) (code s)) by (rewrite (frame_fullcode _ _ F0); reflexivity).
  assert (MC : multi_country p = is_multi st) by (unfold multi_country, is_multi; now rewrite (ci_countries _ _ CI)).
  split; [exact D1|]. split; [now rewrite <- (ci_countries _ _ CI)|]. split; [exact Hsf|].
  split; [rewrite (frame_code _ _ F0); simpl; now rewrite D2|].
  split; [rewrite (frame_country _ _ F0); reflexivity|]. split; [exact Hn|].
  split; [|reflexivity]. rewrite FC, MC, D2. reflexivity.
Qed.

(* ------------------------------------------------------------------ *)
(** * Theorem 1b: defined once *)

Lemma dunder_prefix a : has_substring "__" (String "_" (String "_" a)) = true.
Proof. apply (has_sub_prefix "__" ("__" ++ a)%string). apply prefix_app. Qed.

Lemma no_dunder_tail c r : has_substring "__" (String c r) = false -> has_substring "__" r = false.
Proof. cbn [has_substring]. destruct (String.prefix "__" (String c r)); [discriminate|auto]. Qed.

Definition no_lead (b : string) : Prop := match b with String "_"%char _ => False | _ => True end.

(** fc ++ "__" ++ n determines fc and n when fc has no "__" and n does not start with "_" *)
Lemma full_name_inj : forall a a' b b',
  has_substring "__" a = false -> has_substring "__" a' = false -> no_lead b -> no_lead b' ->
  (a ++ "__" ++ b = a' ++ "__" ++ b')%string -> a = a' /\ b = b'.
Proof.
  induction a as [|c a IH]; intros [|c' a'] b b' Ha Ha' Hb Hb' E; simpl in E.
  - injection E as E. auto.
  - exfalso. injection E as E1 E2. subst c'. destruct a' as [|d a'']; simpl in E2.
    + injection E2 as E2. subst b. exact Hb.
    + injection E2 as E2 _. subst d. rewrite dunder_prefix in Ha'. discriminate Ha'.
  - exfalso. injection E as E1 E2. subst c. destruct a as [|d a'']; simpl in E2.
    + injection E2 as E2. subst b'. exact Hb'.
    + injection E2 as E2 _. subst d. rewrite dunder_prefix in Ha. discriminate Ha.
  - injection E as E1 E2. subst c'. apply no_dunder_tail in Ha, Ha'.
    destruct (IH _ _ _ Ha Ha' Hb Hb' E2) as [-> ->]. auto.
Qed.

(** cc ++ "_" ++ c determines cc and c when cc has no "_" *)
Lemma full_code_inj : forall a a' b b',
  contains_char "_"%char a = false -> contains_char "_"%char a' = false ->
  (a ++ "_" ++ b = a' ++ "_" ++ b')%string -> a = a' /\ b = b'.
Proof.
  induction a as [|c a IH]; intros [|c' a'] b b' Ha Ha' E; simpl in *.
  - injection E as E. auto.
  - injection E as E1 _. subst c'. simpl in Ha'. discriminate.
  - injection E as E1 _. subst c. simpl in Ha. discriminate.
  - injection E as E1 E2. subst c'. destruct (Ascii.eqb c "_"%char); [discriminate|].
    destruct (IH _ _ _ Ha Ha' E2) as [-> ->]. auto.
Qed.

Lemma NoDup_flat_map {X Y K} (f : X -> list Y) (key : X -> K) l :
  NoDup (map key l) -> (forall x, List.In x l -> NoDup (f x)) ->
  (forall x y z, List.In x l -> List.In y l -> List.In z (f x) -> List.In z (f y) -> key x = key y) ->
  NoDup (flat_map f l).
Proof.
  induction l as [|a l IH]; simpl; intros Hk Hf Hd; [constructor|].
  inversion Hk as [|? ? Hn Hk']; subst.
  assert (D : forall z, List.In z (f a) -> ~ List.In z (flat_map f l)).
  { intros z Hz Hin. apply in_flat_map in Hin as (y & Hy & Hzy). apply Hn.
    rewrite (Hd a y z); auto. now apply in_map. }
  assert (N : NoDup (flat_map f l)).
  { apply IH; [exact Hk'|intros x Hx; apply Hf; now right|intros x y z Hx Hy; apply Hd; now right]. }
  pose proof (Hf a (or_introl eq_refl)) as Na. clear -D N Na.
  induction (f a) as [|z r IHr]; simpl; [exact N|]. inversion Na; subst. constructor.
  - intros Hin. apply in_app_or in Hin as [Hin|Hin]; [contradiction|]. apply (D z); [now left|exact Hin].
  - apply IHr; [intros z' Hz'; apply D; now right|assumption].
Qed.

Lemma NoDup_map_inj {X Y} (g : X -> Y) l : NoDup l -> (forall x y, List.In x l -> List.In y l -> g x = g y -> x = y) -> NoDup (map g l).
Proof.
  induction l as [|a l IH]; simpl; intros Hn Hi; [constructor|]. inversion Hn; subst. constructor.
  - intros Hin. apply in_map_iff in Hin as (y & E & Hy). assert (y = a) by (apply Hi; auto). now subst.
  - apply IH; [assumption|]. intros x y Hx Hy. apply Hi; auto.
Qed.

(** decidable conditions on the names of the final system *)
Definition lead_ok (n : string) : bool := match n with String "_"%char _ => false | _ => true end.
Definition names_wf (E : final_system) : bool :=
  forallb (fun s => negb (has_substring "__" (fullcode s)) && forallb lead_ok (keys s)) (fs_zone E).
Definition countries_wf (p : program) : bool :=
  negb (multi_country p) || forallb (fun cc => negb (contains_char "_"%char cc)) (country_codes p).

Lemma lead_ok_no_lead n : lead_ok n = true -> no_lead n.
Proof. destruct n as [|c n]; simpl; [auto|]. destruct c as [[] [] [] [] [] [] [] []]; simpl; auto; discriminate. Qed.


Lemma NoDup_map_In_inj {X Y} (g : X -> Y) l : NoDup (map g l) ->
  forall x y, List.In x l -> List.In y l -> g x = g y -> x = y.
Proof.
  induction l as [|a l IH]; simpl; intros Hn x y Hx Hy E; [contradiction|]. inversion Hn as [|? ? Ha Hl]; subst.
  destruct Hx as [<-|Hx], Hy as [<-|Hy]; auto.
  - exfalso. apply Ha. rewrite E. now apply in_map.
  - exfalso. apply Ha. rewrite <- E. now apply in_map.
Qed.

Lemma lhs_rows Z : map r_lhs (zone_rows Z) =
  flat_map (fun s => map (fun n => (fullcode s ++ "__" ++ n)%string) (sort (keys s))) Z.
Proof.
  unfold zone_rows. induction Z as [|s Z IH]; simpl; [reflexivity|].
  rewrite map_app, IH. f_equal. unfold sector_rows. rewrite map_map. reflexivity.
Qed.

Lemma zone0_nodup p st : cinv p st -> NoDup (zone0 st).
Proof.
  intros CI. unfold zone0, zone_order.
  assert (N : NoDup (map (set_fullcode (is_multi st)) (c_secs st))).
  { apply (NoDup_map_inv pair_of). rewrite map_map. exact (ci_pairs _ _ CI). }
  apply (NoDup_flat_map _ (fun cc : string => cc)).
  - rewrite map_id. exact (ci_cnodup _ _ CI).
  - intros cc _. now apply NoDup_filter.
  - intros x y z _ _ Hx Hy. apply filter_In in Hx as [_ Hx]. apply filter_In in Hy as [_ Hy].
    unfold in_country in *. apply String.eqb_eq in Hx, Hy. congruence.
Qed.

Lemma fullcodes_nodup p st : cinv p st -> countries_wf p = true -> NoDup (map fullcode (zone0 st)).
Proof.
  intros CI CW. apply NoDup_map_inj; [eapply zone0_nodup; exact CI|].
  intros x y Hx Hy E. apply zone0_In in Hx as (s & Hs & -> & Cs). apply zone0_In in Hy as (s' & Hs' & -> & Cs').
  f_equal. apply (NoDup_map_In_inj pair_of _ (ci_pairs _ _ CI)); [exact Hs|exact Hs'|].
  simpl in E. unfold full_code in E. unfold pair_of.
  assert (MC : multi_country p = is_multi st) by (unfold multi_country, is_multi; now rewrite (ci_countries _ _ CI)).
  destruct (is_multi st) eqn:M.
  - unfold countries_wf in CW. rewrite MC in CW. simpl in CW. rewrite forallb_forall in CW.
    rewrite <- (ci_countries _ _ CI) in CW.
    pose proof (CW _ Cs) as W1. pose proof (CW _ Cs') as W2. apply negb_true_iff in W1, W2.
    destruct (full_code_inj _ _ _ _ W1 W2 E) as [-> ->]. reflexivity.
  - f_equal; [|exact E]. unfold is_multi in M. apply Nat.ltb_ge in M.
    destruct (c_countries st) as [|c1 [|c2 l]]; simpl in *; try lia; try contradiction.
    destruct Cs as [<-|[]], Cs' as [<-|[]]. reflexivity.
Qed.

(** Theorem 1b: no variable is defined twice.  Distinct country codes and distinct sector codes per
    country are enforced by the constructors (a successful build has them); what has to be assumed
    is that the printed names are unambiguous: country codes free of "_" when there are several
    countries, full codes free of "__", no local name starting with "_". *)
Theorem main_defined_once p E : build p = Ok E -> countries_wf p = true -> names_wf E = true ->
  NoDup (map r_lhs (fs_rows E)).
Proof.
  intros HB CW NW. apply build_inv in HB as (R & HR & ->). apply build_run_inv in HR as (st & HC & HM).
  pose proof (construct_all_cinv _ _ HC) as CI. pose proof (main_run_frame _ _ HM) as FR.
  destruct (main_run_inv _ _ HM) as (_ & _ & _ & _ & _ & _ & _ & _ & _ & _ & ROWS & _).
  rewrite ROWS, lhs_rows. unfold names_wf in NW. rewrite forallb_forall in NW.
  apply (NoDup_flat_map _ fullcode).
  - rewrite (map_frame fullcode _ _ frame_fullcode FR). eapply fullcodes_nodup; eassumption.
  - intros s _. apply NoDup_map_inj; [apply sort_NoDup, NoDup_nodup|].
    intros x y _ _ E. apply append_inj_l in E. now apply append_inj_l in E.
  - intros x y z Hx Hy Hzx Hzy. apply in_map_iff in Hzx as (n & <- & Hn). apply in_map_iff in Hzy as (n' & E & Hn').
    apply (proj1 (sort_In _ _)) in Hn, Hn'.
    pose proof (NW _ Hx) as Wx. pose proof (NW _ Hy) as Wy. apply andb_true_iff in Wx as [X1 X2], Wy as [Y1 Y2].
    apply negb_true_iff in X1, Y1. rewrite forallb_forall in X2, Y2.
    symmetry in E. destruct (full_name_inj _ _ _ _ X1 Y1 (lead_ok_no_lead _ (X2 _ Hn)) (lead_ok_no_lead _ (Y2 _ Hn')) E) as [E1 _].
    exact E1.
Qed.

(** what the constructors enforce *)
Theorem main_codes_distinct p E : build p = Ok E ->
  NoDup (country_codes p) /\ NoDup (map (fun s => (country s, code s)) (fs_zone E)).
Proof.
  intros HB. apply build_inv in HB as (R & HR & ->). apply build_run_inv in HR as (st & HC & HM).
  pose proof (construct_all_cinv _ _ HC) as CI. pose proof (main_run_frame _ _ HM) as FR.
  split; [rewrite <- (ci_countries _ _ CI); exact (ci_cnodup _ _ CI)|].
  change (fun s => (country s, code s)) with pair_of.
  rewrite (map_frame pair_of _ _ (fun s s' H => f_equal2 pair (frame_country _ _ H) (frame_code _ _ H)) FR).
  apply NoDup_map_inj; [eapply zone0_nodup; exact CI|].
  intros x y Hx Hy E0. apply zone0_In in Hx as (s & Hs & -> & _). apply zone0_In in Hy as (s' & Hs' & -> & _).
  f_equal. apply (NoDup_map_In_inj pair_of _ (ci_pairs _ _ CI)); assumption.
Qed.

(* ------------------------------------------------------------------ *)
(** * Theorem 2: ledger decomposition *)

Lemma zone0_ledger_init p st : cinv p st -> ledger_untouched p -> Forall ledger_init (zone0 st).
Proof.
  intros CI LU. destruct (ci_ledger _ _ CI LU) as [A _]. rewrite Forall_forall in *. intros s0 H0.
  apply zone0_In in H0 as (s & Hs & -> & _). exact (A _ Hs).
Qed.

(** For every sector [s] (as it is when main() starts) and its final state [sf]: the steps of the
    run — one entry per _GenerateEquations call, per registered cash flow, per exogenous variable, in
    execution order — each booked a list of terms [ts] on it, all of the kind that step books
    ([ev_terms]); the final F equation is LAG_F followed by exactly those terms, accumulated with
    Equation.AddTerm in that order; INC holds some of the same terms; nothing else changed F or INC,
    and no attribute other than the equations changed. *)
Theorem main_ledger_decomposition p R : build_run p = Ok R -> ledger_untouched p ->
  Forall2 (fun s sf =>
    frame s sf /\
    exists tss, Forall2 (fun e ts => Forall (ev_terms e s) ts) (run_events R) tss /\
      (if hasF s
       then F_of sf = Some (mkEqn "" (extend (List.concat tss) [(1%Z, ["LAG_F"])])) /\
            exists ti, incl ti (List.concat tss) /\ INC_of sf = Some (mkEqn "" (extend ti []))
       else F_of sf = None /\ INC_of sf = None /\ List.concat tss = []))
    (r_zone0 R) (fs_zone (r_final R)).
Proof.
  intros HR LU. apply build_run_inv in HR as (st & HC & HM).
  pose proof (construct_all_cinv _ _ HC) as CI. destruct (ci_ledger _ _ CI LU) as [_ HX].
  pose proof (main_run_ledger _ _ HM HX) as RL. pose proof (zone0_ledger_init _ _ CI LU) as LI.
  destruct (main_run_inv _ _ HM) as (_ & _ & E0 & _). rewrite E0 in *. clear E0.
  revert LI. induction RL as [|s sf Z Zf (tss & FF & L) _ IH]; intros LI; [constructor|].
  inversion LI as [|? ? Hs Hl]; subst. constructor; [|now apply IH].
  split; [apply (ls_frame _ _ _ L)|]. exists tss. split; [exact FF|].
  destruct L as [Lf LF (ti & Hi & LI')]. unfold ledger_init in Hs. destruct (hasF s).
  - destruct Hs as [HF HI]. rewrite HF in LF. rewrite HI in LI'. simpl in LF, LI'. split; [exact LF|]. eauto.
  - destruct Hs as [HF HI]. rewrite HF in LF. rewrite HI in LI'. simpl in LF, LI'. destruct LF as [-> ->]. destruct LI' as [-> _]. auto.
Qed.
