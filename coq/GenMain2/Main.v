(** Gallina model of the whole generator pipeline for single-currency programs:

      construction   the steps of a [Program.program] in order (Country / sector constructors of
                     Classes.v / user operations before main())
      Model.main()   _GenerateFullSectorCodes; _GenerateEquations (countries in creation order,
                     sectors in declaration order, dispatch on the class: the booking-group models
                     of coq/GenMarket, GenTax, GenAsset plus the small class-specific parts);
                     _FixAliases (nothing to do: names are given in final form, see Program.v);
                     _GenerateRegisteredCashFlows (same-zone branch); _ProcessExogenous;
                     _CreateFinalEquations (sector rows in country / declaration / sorted-name
                     order with every local name replaced by the full name, then the
                     initial-condition rows), classified the way _FinalEquationFormatting and
                     EquationParser.ParseString classify them (exogenous / lagged / endogenous).

    Errors the Python raises are [Err] values of the same class.  [Err OtherError] stands for
    AttributeError (a central bank without treasury, AddSupplier on a non-market) and for a step that
    refers to an object that does not exist (never built by the harness). *)
From Coq Require Import List String Ascii Bool ZArith Arith DecimalString.
From SFC.Base Require Import Res Str Sorting.
From SFC.Gen Require Import Fx Zone.
From SFC.GenMarket Require Import Market.
From SFC.GenTax Require Import Tax Dividends.
From SFC.GenAsset Require Import Common Money Deposit Weighting.
From SFC.GenMain2 Require Import Program Classes.
Import ListNotations.
Local Open Scope string_scope.

(* ------------------------------------------------------------------ *)
(** * Construction state *)

Definition flow := (nat * option nat * string * bool * bool)%type.     (* source, target, variable, is_income x2 *)
Definition supinfo := (option nat * list (nat * string))%type.         (* ResidualSupply, OtherSuppliers *)

Record cstate := mkC {
  c_countries : list string;               (* Model.CountryList (codes) *)
  c_secs : list sector;                    (* every sector, creation order; sid = position *)
  c_classes : list cls;                    (* class of sector i (CentralBank.Treasury kept up to date) *)
  c_sup : list (nat * supinfo);            (* per market: what AddSupplier recorded *)
  c_flows : list flow;                     (* Model.RegisteredCashFlows *)
  c_exo : list (nat * string * string);    (* Model.Exogenous: sector, variable, text *)
  c_ic : list (nat * string * string)      (* Model.InitialConditions *)
}.

Definition c_init : cstate := mkC [] [] [] [] [] [] [].

Definition class_of (cl : list cls) (i : nat) : cls := nth i cl CGov.

Fixpoint sup_of (m : nat) (L : list (nat * supinfo)) : supinfo :=
  match L with
  | [] => (None, [])
  | (k, x) :: r => if Nat.eqb k m then x else sup_of m r
  end.

Fixpoint sup_set (m : nat) (x : supinfo) (L : list (nat * supinfo)) : list (nat * supinfo) :=
  match L with
  | [] => [(m, x)]
  | (k, y) :: r => if Nat.eqb k m then (k, x) :: r else (k, y) :: sup_set m x r
  end.

Fixpoint set_nth {A} (i : nat) (x : A) (l : list A) : list A :=
  match l, i with
  | [], _ => []
  | _ :: r, 0 => x :: r
  | a :: r, S j => a :: set_nth j x r
  end.

(** mutate an existing object (Err OtherError: no such object) *)
Definition on_sector (i : nat) (f : sector -> result sector) (SL : list sector) : result (list sector) :=
  match find_sec i SL with
  | None => Err OtherError
  | Some _ => upd i f SL
  end.

Definition in_country (cc : string) (s : sector) : bool := String.eqb (country s) cc.

Fixpoint resolve_markets (SL : list sector) (ids : list nat) : result (list (string * string)) :=
  match ids with
  | [] => Ok []
  | j :: r =>
      match find_sec j SL with
      | None => Err OtherError
      | Some m => do l <- resolve_markets SL r ;; Ok ((code m, country m) :: l)
      end
  end.

Definition market_refs (k : cls) : list nat :=
  match k with CBusinessMulti _ _ _ ms => ms | _ => [] end.

Definition has_add_supplier (k : cls) : bool :=
  match k with CMarket | CMoneyMarket _ | CDepositMarket _ => true | _ => false end.

Definition run_op (st : cstate) (o : uop) : result cstate :=
  match o with
  | OAddVariable s n t =>
      do SL <- on_sector s (fun x => addv x n t) (c_secs st) ;;
      Ok (mkC (c_countries st) SL (c_classes st) (c_sup st) (c_flows st) (c_exo st) (c_ic st))
  | OSetExogenous s n spec =>
      match find_sec s (c_secs st) with
      | None => Err OtherError
      | Some _ => Ok (mkC (c_countries st) (c_secs st) (c_classes st) (c_sup st) (c_flows st)
                          (c_exo st ++ [(s, n, spec)])%list (c_ic st))
      end
  | ORegisterCashFlow src tgt var a b =>
      match find_sec src (c_secs st), find_sec tgt (c_secs st) with
      | Some _, Some _ => Ok (mkC (c_countries st) (c_secs st) (c_classes st) (c_sup st)
                                  (c_flows st ++ [(src, Some tgt, var, a, b)])%list (c_exo st) (c_ic st))
      | _, _ => Err OtherError
      end
  | OAddSupplier m sup text =>
      match find_sec m (c_secs st), find_sec sup (c_secs st) with
      | Some _, Some _ =>
          if has_add_supplier (class_of (c_classes st) m) then
            let '(res, others) := sup_of m (c_sup st) in
            let x := match text with
                     | None => (Some sup, others)
                     | Some t => if String.eqb t "" then (Some sup, others)
                                 else (res, (others ++ [(sup, squeeze t)])%list)
                     end in
            Ok (mkC (c_countries st) (c_secs st) (c_classes st) (sup_set m x (c_sup st)) (c_flows st) (c_exo st) (c_ic st))
          else Err OtherError
      | _, _ => Err OtherError
      end
  | OAssetWeighting s ws res =>
      do SL <- on_sector s (fun x => asset_weighting x ws res false) (c_secs st) ;;
      Ok (mkC (c_countries st) SL (c_classes st) (c_sup st) (c_flows st) (c_exo st) (c_ic st))
  | OAddInitialCondition s n value =>
      match find_sec s (c_secs st) with
      | None => Err OtherError
      | Some _ => Ok (mkC (c_countries st) (c_secs st) (c_classes st) (c_sup st) (c_flows st) (c_exo st)
                          (c_ic st ++ [(s, n, value)])%list)
      end
  | OSetTreasury cb tre =>
      match find_sec cb (c_secs st), find_sec tre (c_secs st) with
      | Some _, Some _ =>
          let k := match class_of (c_classes st) cb with CCentralBank _ => CCentralBank (Some tre) | k => k end in
          Ok (mkC (c_countries st) (c_secs st) (set_nth cb k (c_classes st)) (c_sup st) (c_flows st) (c_exo st) (c_ic st))
      | _, _ => Err OtherError
      end
  end.

Definition run_step (st : cstate) (x : step) : result cstate :=
  match x with
  | StCountry c =>
      (* Model._AddCountry *)
      if mem c (c_countries st) then Err LogicError
      else Ok (mkC (c_countries st ++ [c])%list (c_secs st) (c_classes st) (c_sup st) (c_flows st) (c_exo st) (c_ic st))
  | StSector ci c k =>
      match nth_error (c_countries st) ci with
      | None => Err OtherError
      | Some cc =>
          (* Country._AddSector *)
          if existsb (fun s => in_country cc s && String.eqb (code s) c) (c_secs st) then Err LogicError
          else
            do mrefs <- resolve_markets (c_secs st) (market_refs k) ;;
            do s <- construct (List.length (c_secs st)) cc c k mrefs ;;
            Ok (mkC (c_countries st) (c_secs st ++ [s])%list (c_classes st ++ [k])%list (c_sup st) (c_flows st) (c_exo st) (c_ic st))
      end
  | StOp o => run_op st o
  end.

Definition construct_all (p : program) : result cstate := foldM run_step p c_init.

(* ------------------------------------------------------------------ *)
(** * Model.main() *)

(** Model._GenerateFullSectorCodes *)
Definition full_code (multi : bool) (cc c : string) : string := if multi then cc ++ "_" ++ c else c.

Definition set_fullcode (multi : bool) (s : sector) : sector :=
  mkSector (sid s) (code s) (country s) (full_code multi (country s) (code s))
           (hasF s) (taxable s) (is_market s) (excl s) (vars s).

(** Model.GetSectors(): countries in creation order, each with its sectors in declaration order *)
Definition zone_order (cs : list string) (SL : list sector) : zone :=
  flat_map (fun cc => filter (in_country cc) SL) cs.

(** fold with a record of every step: (input, state before, state after) *)
Fixpoint run_trace {A B} (f : A -> B -> result A) (l : list B) (a : A) : result (list (B * A * A) * A) :=
  match l with
  | [] => Ok ([], a)
  | b :: r =>
      do a1 <- f a b ;;
      do x <- run_trace f r a1 ;;
      Ok ((b, a, a1) :: fst x, snd x)
  end.

(** write the new states of a country's sectors back into the zone *)
Fixpoint put_back (cc : string) (C : list sector) (Z : zone) : zone :=
  match Z with
  | [] => []
  | s :: r =>
      if in_country cc s then
        match C with
        | c :: C' => c :: put_back cc C' r
        | [] => s :: put_back cc [] r
        end
      else s :: put_back cc C r
  end.

Record gstate := mkG { g_zone : zone; g_flows : list flow }.

(** static information the generation step reads: classes and supplier registrations *)
Record ginfo := mkI { i_classes : list cls; i_sup : list (nat * supinfo) }.

Definition HCUR : string := "LOC".      (* the one currency; never equal to ACUR or Fx.NUM *)
Definition ACUR : string := "ABROAD".

Definition biz_ids (I : ginfo) (C : list sector) : list nat :=
  map sid (filter (fun s => is_fmb (class_of (i_classes I) (sid s))) C).

(** the wage-bill texts of FixedMarginBusiness._GenerateEquations:  '%0.3f * %s' squeezed *)
Definition wage_resets (mz : bool) (wage margin lab msg : string) : list (string * string) :=
  if mz then [("DEM_" ++ lab, msg)]
  else [("DEM_" ++ lab, wage ++ "*" ++ msg); ("PROF", margin ++ "*" ++ msg)].

(** sector._GenerateEquations() of the sector with ID [fst ik] and class [snd ik] *)
Definition gen_step (I : ginfo) (st : gstate) (ik : nat * cls) : result gstate :=
  let '(i, k) := ik in
  let Z := g_zone st in
  match find_sec i Z with
  | None => Err OtherError
  | Some self =>
      let same_flows (r : result zone) := do Z' <- r ;; Ok (mkG Z' (g_flows st)) in
      match k with
      | CGov | CTreasury => Ok st
      | CCentralBank t =>
          (* Model.RegisterCashFlow(self, self.Treasury, 'INTDEP') *)
          Ok (mkG Z (g_flows st ++ [(i, t, "INTDEP", true, true)])%list)
      | CHousehold ai af _ _ | CHouseholdExp ai af _ _ | CCapitalists ai af _ =>
          same_flows (upd i (apply_resets [("AlphaIncome", ai); ("AlphaFin", af)]) Z)
      | CBusiness mz wage margin lab out =>
          let cc := country self in
          let C := filter (in_country cc) Z in
          match find (fun s => String.eqb (code s) out) C with
          | None => Err Warning_
          | Some mk =>
              if has_var mk ("SUP_" ++ out) then
                let msg := fullcode mk ++ "__" ++ "SUP_" ++ out in
                same_flows (do C' <- firm_generate (biz_ids I C) (i, wage_resets mz wage margin lab msg) C ;;
                            Ok (put_back cc C' Z))
              else Err Warning_
          end
      | CBusinessMulti mz wage lab _ =>
          do Z1 <- upd i (apply_resets [("DEM_" ++ lab, if mz then "SUP" else wage ++ "*SUP")]) Z ;;
          if existsb (fun s => has_var s "DIV") (filter (in_country (country self)) Z1)
          then Err NotImplemented else Ok (mkG Z1 (g_flows st))
      | CTaxFlow rate paid_to => same_flows (tax_generate i rate paid_to Z)
      | CMarket =>
          let '(res, others) := sup_of i (i_sup I) in
          same_flows (do W <- market_generate HCUR ACUR (mkWorld Z [] None []) i res others ;; Ok (home W))
      | CMoneyMarket issuer => same_flows (money_generate_checked (code self) issuer i Z)
      | CDepositMarket issuer => same_flows (deposit_generate_checked (code self) issuer i Z)
      end
  end.

(** one entry of Model._GenerateRegisteredCashFlows (both sectors in the one currency zone) *)
Definition flow_step (Z : zone) (f : flow) : result zone :=
  let '(src, tgt, var, inc_s, inc_t) := f in
  match tgt with
  | None => Err OtherError                          (* None.CurrencyZone: AttributeError *)
  | Some tg =>
      match find_sec src Z, find_sec tg Z with
      | Some s, Some _ =>
          if has_var s var then
            let full := fullcode s ++ "__" ++ var in
            do Z1 <- upd src (fun x => opt_key (add_cash_flow x ((-1)%Z, [full]) None inc_s)) Z ;;
            upd tg (fun x => opt_key (add_cash_flow x (1%Z, [full]) None inc_t)) Z1
          else Err KeyError
      | _, _ => Err OtherError
      end
  end.

(** one entry of Model._ProcessExogenous *)
Definition exo_step (Z : zone) (x : nat * string * string) : result zone :=
  let '(s, n, spec) := x in
  match find_sec s Z with
  | None => Err OtherError
  | Some _ => upd s (fun y => opt_key (set_rhs y n (squeeze ("EXOGENOUS " ++ spec)))) Z
  end.

(* ------------------------------------------------------------------ *)
(** * _CreateFinalEquations: text of a row *)

Definition zstr (z : Z) : string := NilZero.string_of_int (Z.to_int z).

(** Term.__str__ (integer-valued Constant; a term without factors is a numeric constant) *)
Definition render_term (t : term) : string :=
  let c := fst t in
  if Z.eqb c 0 then ""
  else match snd t with
       | [] => (if Z.ltb 0 c then "+" else "") ++ zstr c ++ ".0"
       | fs =>
           let x := String.concat "*" fs in
           if Z.eqb c 1 then "+" ++ x
           else if Z.eqb c (-1) then "-" ++ x
           else if Z.ltb 0 c then "+" ++ zstr c ++ ".0*" ++ x
           else zstr c ++ ".0*" ++ x
       end.

(** Equation.GetRightHandSide *)
Definition render (e : eqn) : string :=
  let out := blob e ++ String.concat "" (map render_term (terms e)) in
  let out := match out with String "+"%char r => r | _ => out end in
  if String.eqb out "" then "0.0" else out.

(** utils.replace_token_from_lookup on one line of expression text: NAME tokens found in the
    lookup are replaced, NAME and NUMBER tokens are followed by a blank (tokenize.untokenize in
    compatibility mode), everything else is copied.  A NUMBER starts with a digit (or '.' digit)
    and runs over letters, digits, '_' and '.'; string literals and comments are outside the model. *)
Definition is_digit (c : ascii) : bool := let n := nat_of_ascii c in Nat.leb 48 n && Nat.leb n 57.
Definition is_alpha (c : ascii) : bool :=
  let n := nat_of_ascii c in (Nat.leb 65 n && Nat.leb n 90) || (Nat.leb 97 n && Nat.leb n 122) || Nat.eqb n 95.
Definition is_id_char (c : ascii) : bool := is_alpha c || is_digit c.

Inductive tok := TNone | TName (acc : string) | TNum (acc : string).

Definition flush (lk : string -> option string) (t : tok) : string :=
  match t with
  | TNone => ""
  | TName a => (match lk a with Some f => f | None => a end) ++ " "
  | TNum a => a ++ " "
  end.

Definition snoc (s : string) (c : ascii) : string := s ++ String c "".

Fixpoint qscan (lk : string -> option string) (cur : tok) (s : string) : string :=
  match s with
  | EmptyString => flush lk cur
  | String c r =>
      let fresh :=
        if is_alpha c then qscan lk (TName (String c "")) r
        else if is_digit c then qscan lk (TNum (String c "")) r
        else if Ascii.eqb c "."%char && match r with String d _ => is_digit d | EmptyString => false end
             then qscan lk (TNum (String c "")) r
        else if Ascii.eqb c " "%char then qscan lk TNone r
        else String c (qscan lk TNone r) in
      match cur with
      | TNone => fresh
      | TName a => if is_id_char c then qscan lk (TName (snoc a c)) r else flush lk cur ++ fresh
      | TNum a => if is_id_char c || Ascii.eqb c "."%char then qscan lk (TNum (snoc a c)) r else flush lk cur ++ fresh
      end
  end.

Definition qualify_text (lk : string -> option string) (s : string) : string := qscan lk TNone s.

(** lookup[varname] = self.GetVariableName(varname) for every variable of the sector *)
Definition lookup_of (s : sector) (n : string) : option string :=
  if has_var s n then Some (fullcode s ++ "__" ++ n) else None.

Definition final_text (s : sector) (e : eqn) : string := qualify_text (lookup_of s) (render e).

(** how Model._FinalEquationFormatting and EquationParser.ParseString read the row *)
Inductive kind := KDef (rhs : string) | KLag (src : string) | KExo (spec : string).

Definition classify (t : string) : kind :=
  if has_substring "EXOGENOUS" t then KExo (replace "EXOGENOUS" "" t)
  else
    let t1 := replace "(t-1)" "(k-1)" t in
    let t2 := replace " (k -1 )" "(k-1)" t1 in
    match find_sub "(k-1)" t2 with
    | Some pos => KLag (take pos t2)
    | None => KDef t2
    end.

Record row := mkRow { r_lhs : string; r_kind : kind }.

Definition var_row (s : sector) (n : string) : row :=
  mkRow (fullcode s ++ "__" ++ n)
        (match lookup_var n (vars s) with
         | Some e => classify (final_text s e)
         | None => KDef ""
         end).

(** Sector._CreateFinalEquations: sorted local names.  [vars] stands for a dict: its keys are
    unique in every state the pipeline reaches, and are read as a set here. *)
Definition keys (s : sector) : list string := nodup string_dec (map fst (vars s)).
Definition sector_rows (s : sector) : list row := map (var_row s) (sort (keys s)).

Definition zone_rows (Z : zone) : list row := flat_map sector_rows Z.

(** Model._GenerateInitialConditions: (full name, value); KeyError for an unknown variable *)
Fixpoint ic_rows (Z : zone) (l : list (nat * string * string)) : result (list (string * string)) :=
  match l with
  | [] => Ok []
  | (s, n, value) :: r =>
      match find_sec s Z with
      | None => Err OtherError
      | Some x =>
          if has_var x n then do rest <- ic_rows Z r ;; Ok ((fullcode x ++ "__" ++ n, value) :: rest)
          else Err KeyError
      end
  end.

(** the emitted system: the final state of every sector (what the theorems are about), the rows
    in emission order (what the correspondence compares) and the initial conditions *)
Record final_system := mkFS {
  fs_zone : zone;
  fs_rows : list row;
  fs_ic : list (string * string)
}.

(** everything the run went through (ghost information for the theorems; the Python has none) *)
Record run := mkRun {
  r_info : ginfo;
  r_zone0 : zone;                                         (* after _GenerateFullSectorCodes *)
  r_gen : list ((nat * cls) * gstate * gstate);           (* _GenerateEquations, sector by sector *)
  r_flows : list (flow * zone * zone);                    (* _GenerateRegisteredCashFlows *)
  r_exo : list ((nat * string * string) * zone * zone);   (* _ProcessExogenous *)
  r_final : final_system
}.

Definition main_run (st : cstate) : result run :=
  let multi := Nat.ltb 1 (List.length (c_countries st)) in
  let Z0 := zone_order (c_countries st) (map (set_fullcode multi) (c_secs st)) in
  let I := mkI (c_classes st) (c_sup st) in
  do g <- run_trace (gen_step I) (map (fun s => (sid s, class_of (c_classes st) (sid s))) Z0) (mkG Z0 (c_flows st)) ;;
  do f <- run_trace flow_step (g_flows (snd g)) (g_zone (snd g)) ;;
  do x <- run_trace exo_step (c_exo st) (snd f) ;;
  let Zf := snd x in
  do ics <- ic_rows Zf (c_ic st) ;;
  let rows := zone_rows Zf in
  match rows, ics with
  | [], [] => Err Warning_                     (* 'There are no equations in the system.' *)
  | _, _ => Ok (mkRun I Z0 (fst g) (fst f) (fst x) (mkFS Zf rows ics))
  end.

Definition build_run (p : program) : result run := do st <- construct_all p ;; main_run st.

Definition build (p : program) : result final_system := do r <- build_run p ;; Ok (r_final r).
