(** What a pipeline step may do to a sector: every attribute other than the equations stays
    ([TaxProofs.frame]); the F equation is only ever extended by Equation.AddTerm with the terms the
    step books ([ts], in order); INC is extended by some of the same terms; nothing else writes F or
    INC.  Proved for the sector primitives, then for every booking group and for the small
    class-specific parts of the pipeline. *)
From Coq Require Import List String Bool ZArith Arith Lia.
From SFC.Base Require Import Res Str.
From SFC.Gen Require Import Fx Zone.
From SFC.GenMarket Require Import Market MarketProofs.
From SFC.GenAsset Require Import Common CommonProofs Money MoneyProofs Deposit DepositProofs Weighting WeightingProofs.
From SFC.GenTax Require Import Tax Dividends TaxProofs DividendProofs.
From SFC.GenMain2 Require Import Program Classes Main.
Import ListNotations.
Local Open Scope string_scope.

(* ------------------------------------------------------------------ *)
(** * Extending an equation *)

Definition extend (ts l : list term) : list term := fold_left (fun acc t => add_term t acc) ts l.

Lemma extend_app a b l : extend (a ++ b)%list l = extend b (extend a l).
Proof. unfold extend. apply fold_left_app. Qed.

Definition ext_eq (o o' : option eqn) (ts : list term) : Prop :=
  match o with
  | Some e => o' = Some (mkEqn (blob e) (extend ts (terms e)))
  | None => o' = None /\ ts = []
  end.

Lemma ext_eq_refl o : ext_eq o o [].
Proof. destruct o as [[b l]|]; simpl; auto. Qed.

Lemma ext_eq_same o o' : o' = o -> ext_eq o o' [].
Proof. intros ->. apply ext_eq_refl. Qed.

Lemma ext_eq_trans o o1 o2 a b : ext_eq o o1 a -> ext_eq o1 o2 b -> ext_eq o o2 (a ++ b)%list.
Proof.
  destruct o as [e|]; simpl.
  - intros ->. simpl. intros ->. now rewrite extend_app.
  - intros [-> ->]. simpl. intros [-> ->]. auto.
Qed.

Lemma ext_eq_one o e t : o = Some e -> ext_eq o (Some (mkEqn (blob e) (add_term t (terms e)))) [t].
Proof. intros ->. reflexivity. Qed.

Definition F_of (s : sector) : option eqn := lookup_var "F" (vars s).
Definition INC_of (s : sector) : option eqn := lookup_var "INC" (vars s).

Record lstep (s s' : sector) (ts : list term) : Prop := mkLstep {
  ls_frame : frame s s';
  ls_F : ext_eq (F_of s) (F_of s') ts;
  ls_INC : exists ti, incl ti ts /\ ext_eq (INC_of s) (INC_of s') ti
}.

Lemma lstep_refl s : lstep s s [].
Proof.
  constructor; [apply frame_refl|apply ext_eq_refl|].
  exists []. split; [apply incl_refl|apply ext_eq_refl].
Qed.

Lemma lstep_trans s s1 s2 a b : lstep s s1 a -> lstep s1 s2 b -> lstep s s2 (a ++ b)%list.
Proof.
  intros [F1 E1 (i1 & I1 & J1)] [F2 E2 (i2 & I2 & J2)]. constructor.
  - eapply frame_trans; eassumption.
  - eapply ext_eq_trans; eassumption.
  - exists (i1 ++ i2)%list. split; [|eapply ext_eq_trans; eassumption].
    apply incl_app; [now apply incl_appl|now apply incl_appr].
Qed.

Lemma lstep_same s s' : frame s s' -> F_of s' = F_of s -> INC_of s' = INC_of s -> lstep s s' [].
Proof.
  intros Hf H1 H2. constructor; [exact Hf|now apply ext_eq_same|].
  exists []. split; [apply incl_refl|now apply ext_eq_same].
Qed.

Lemma lstep_nil_r s s1 s2 a : lstep s s1 a -> lstep s1 s2 [] -> lstep s s2 a.
Proof. intros H1 H2. rewrite <- (app_nil_r a). eapply lstep_trans; eassumption. Qed.

Lemma lstep_nil_l s s1 s2 a : lstep s s1 [] -> lstep s1 s2 a -> lstep s s2 a.
Proof. intros H1 H2. change a with ([] ++ a)%list. eapply lstep_trans; eassumption. Qed.

(** dict assignment of a variable other than F and INC *)
Lemma lstep_set_var s n e : n <> "F" -> n <> "INC" -> lstep s (with_vars s (set_var n e (vars s))) [].
Proof.
  intros H1 H2. apply lstep_same; [reflexivity| |]; unfold F_of, INC_of; simpl; now apply lookup_set_other.
Qed.

Lemma lstep_install s n e : n <> "F" -> n <> "INC" -> lstep s (install s n e) [].
Proof. apply lstep_set_var. Qed.

Lemma lstep_add_variable s n b : n <> "F" -> n <> "INC" -> lstep s (add_variable s n b) [].
Proof. apply lstep_set_var. Qed.

Lemma lstep_def_variable s n l : n <> "F" -> n <> "INC" -> lstep s (def_variable s n l) [].
Proof. apply lstep_set_var. Qed.

Lemma lstep_set_eqn s n e : n <> "F" -> n <> "INC" -> lstep s (set_eqn s n e) [].
Proof. apply lstep_set_var. Qed.

Lemma lstep_set_rhs s n b s' : n <> "F" -> n <> "INC" -> set_rhs s n b = Some s' -> lstep s s' [].
Proof. intros H1 H2 H. apply set_rhs_install in H. subst. now apply lstep_install. Qed.

Lemma lstep_add_term_to_eq s n t s' : n <> "F" -> n <> "INC" -> add_term_to_eq s n t = Some s' -> lstep s s' [].
Proof.
  intros H1 H2 H. apply TaxProofs.add_term_to_eq_spec in H as (e & _ & ->). now apply lstep_install.
Qed.

(** AddCashFlow without a defining expression *)
Lemma lstep_acf_none s t b s' : add_cash_flow s t None b = Some s' -> lstep s s' [t].
Proof.
  intros H. constructor.
  - eapply acf_none_frame; exact H.
  - destruct (acf_none_F _ _ _ _ H) as (eF & H1 & H2). unfold F_of. rewrite H1, H2. reflexivity.
  - pose proof (acf_none_INC _ _ _ _ H) as HI. unfold INC_of. destruct (is_inc s t b).
    + destruct HI as (eI & H1 & H2). exists [t]. split; [apply incl_refl|]. rewrite H1, H2. reflexivity.
    + exists []. split; [intros x []|]. now apply ext_eq_same.
Qed.

(** AddCashFlow with a structured definition of the flow variable *)
Lemma lstep_acfs s c x def b s' : x <> "F" -> x <> "INC" ->
  add_cash_flow_struct s (c, [x]) def b = Some s' -> lstep s s' [(c, [x])].
Proof.
  intros H1 H2 H. destruct (acfs_inv _ _ _ _ _ _ H) as (s2 & Ha & ->).
  apply lstep_acf_none in Ha.
  destruct (lookup_var x (vars s2)) as [e|]; [destruct (renders_empty e)|]; try exact Ha;
    (eapply lstep_nil_r; [exact Ha|now apply lstep_install]).
Qed.

Lemma lstep_acf s c x d b s' : x <> "F" -> x <> "INC" ->
  add_cash_flow s (c, [x]) (Some d) b = Some s' -> lstep s s' [(c, [x])].
Proof. intros H1 H2 H. rewrite acf_struct_blob in H. eapply lstep_acfs; eassumption. Qed.

(** the variant of the asset-market models *)
Lemma lstep_acf_def s c x d b s' : x <> "F" -> x <> "INC" ->
  add_cash_flow_def s (c, [x]) d b = Some s' -> lstep s s' [(c, [x])].
Proof.
  intros H1 H2. unfold add_cash_flow_def.
  destruct (add_cash_flow s (c, [x]) None b) as [s2|] eqn:E; [|discriminate]. simpl.
  intros H. injection H as <-. apply lstep_acf_none in E. eapply lstep_nil_r; [exact E|].
  unfold install_def. simpl.
  destruct (lookup_var x (vars s2)) as [e|]; [destruct (renders_empty e)|];
    try apply lstep_refl; now apply lstep_def_variable.
Qed.

(* ------------------------------------------------------------------ *)
(** * Zones *)

(** [A s t]: the term [t] is one the step may book on sector [s] *)
Definition zstep (A : sector -> term -> Prop) (Z Z' : zone) : Prop :=
  Forall2 (fun s s' => exists ts, lstep s s' ts /\ Forall (A s) ts) Z Z'.

Definition nothing (s : sector) (t : term) : Prop := False.
Definition signed1 (x : string) (t : term) : Prop := t = (1%Z, [x]) \/ t = ((-1)%Z, [x]).

Lemma zstep_refl A Z : zstep A Z Z.
Proof. induction Z; constructor; [exists []; split; [apply lstep_refl|constructor]|assumption]. Qed.

Lemma zstep_weaken (A B : sector -> term -> Prop) Z Z' :
  (forall s t, A s t -> B s t) -> zstep A Z Z' -> zstep B Z Z'.
Proof.
  intros H HF. eapply Forall2_impl; [|exact HF]. intros s s' (ts & L & F). exists ts. split; [exact L|].
  eapply Forall_impl; [|exact F]. apply H.
Qed.

Definition frame_stable (A : sector -> term -> Prop) : Prop := forall s s' t, frame s s' -> A s' t -> A s t.

Lemma zstep_trans A Z Z1 Z2 : frame_stable A -> zstep A Z Z1 -> zstep A Z1 Z2 -> zstep A Z Z2.
Proof.
  intros HA H1. revert Z2. induction H1 as [|s s1 Z Z1 (ta & La & Fa) _ IH]; intros Z2 H2; inversion H2 as [|? s2 ? Z2' Hh Ht]; subst.
  - constructor.
  - destruct Hh as (tb & Lb & Fb). constructor; [|now apply IH].
    exists (ta ++ tb)%list. split; [eapply lstep_trans; eassumption|].
    apply Forall_app. split; [exact Fa|]. eapply Forall_impl; [|exact Fb]. intros t. apply HA. apply (ls_frame _ _ _ La).
Qed.

Lemma zstep_app A Z1 Z1' Z2 Z2' : zstep A Z1 Z1' -> zstep A Z2 Z2' -> zstep A (Z1 ++ Z2)%list (Z1' ++ Z2')%list.
Proof. apply Forall2_app. Qed.

Lemma zstep_frame A Z Z' : zstep A Z Z' -> Forall2 frame Z Z'.
Proof. intros H. eapply Forall2_impl; [|exact H]. intros s s' (ts & L & _). apply (ls_frame _ _ _ L). Qed.

Lemma zstep_upd A i f Z Z' : upd i f Z = Ok Z' ->
  (forall s s', f s = Ok s' -> exists ts, lstep s s' ts /\ Forall (A s) ts) -> zstep A Z Z'.
Proof.
  intros H Hf. revert Z' H. induction Z as [|a r IH]; intros Z' H; simpl in H; [discriminate|].
  destruct (Nat.eqb (sid a) i).
  - destruct (f a) as [a'|] eqn:Fa; [|discriminate]. injection H as <-.
    constructor; [now apply Hf|apply zstep_refl].
  - destruct (upd i f r) as [r'|]; [|discriminate]. injection H as <-.
    constructor; [exists []; split; [apply lstep_refl|constructor]|now apply IH].
Qed.

Lemma zstep_update_where A p f Z Z' : update_where p f Z = Ok Z' ->
  (forall s s', f s = Ok s' -> exists ts, lstep s s' ts /\ Forall (A s) ts) -> zstep A Z Z'.
Proof.
  intros H Hf. apply update_where_spec in H. eapply Forall2_impl; [|exact H].
  intros s s'. simpl. destruct (p s); [apply Hf|].
  intros E. injection E as <-. exists []. split; [apply lstep_refl|constructor].
Qed.

Lemma quiet s s' (A : sector -> term -> Prop) : lstep s s' [] -> exists ts, lstep s s' ts /\ Forall (A s) ts.
Proof. intros H. exists []. split; [exact H|constructor]. Qed.
Ltac quiet_ := exists []; split; [|constructor].

(* ------------------------------------------------------------------ *)
(** * Resets (SetEquationRightHandSide of a list of variables) *)

Definition ledger_free (names : list string) : Prop := forall k, List.In k names -> k <> "F" /\ k <> "INC".

Lemma lstep_apply_resets rs : ledger_free (map fst rs) -> forall s s', apply_resets rs s = Ok s' -> lstep s s' [].
Proof.
  induction rs as [|[k txt] rs IH]; intros Hl s s' H; simpl in H.
  - injection H as <-. apply lstep_refl.
  - destruct (set_rhs s k txt) as [s1|] eqn:E; [|discriminate].
    destruct (Hl k (or_introl eq_refl)) as [K1 K2].
    eapply lstep_nil_l; [eapply lstep_set_rhs; eassumption|].
    apply IH; [|exact H]. intros k' Hk'. apply Hl. now right.
Qed.

(* ------------------------------------------------------------------ *)
(** * TaxFlow *)

Lemma tax_sector_steps me rt pt rm ts tf s s3 : sector_steps me rt pt rm ts tf s s3 ->
  exists l, lstep s s3 l /\ Forall (signed1 "T") l.
Proof.
  intros (s1 & s2 & H1 & H2 & H3).
  assert (L1 : exists l, lstep s s1 l /\ Forall (signed1 "T") l).
  { destruct (is_payer me s).
    - apply pay_tax_inv in H1 as (_ & H1). exists [((-1)%Z, ["T"])]. split.
      + eapply lstep_acfs; [| |exact H1]; discriminate.
      + constructor; [now right|constructor].
    - injection H1 as <-. quiet_; apply lstep_refl. }
  assert (L2 : lstep s1 s2 []).
  { destruct (sid_is me s1).
    - apply self_update_inv in H2. subst s2.
      eapply lstep_nil_l; apply lstep_install; discriminate.
    - injection H2 as <-. apply lstep_refl. }
  assert (L3 : exists l, lstep s2 s3 l /\ Forall (signed1 "T") l).
  { destruct (code_is pt s2).
    - apply receive_tax_inv in H3. exists [(1%Z, ["T"])]. split.
      + eapply lstep_nil_l; [apply (lstep_install s2 "T"); discriminate|].
        eapply lstep_acfs; [| |exact H3]; discriminate.
      + constructor; [now left|constructor].
    - injection H3 as <-. quiet_; apply lstep_refl. }
  destruct L1 as (l1 & A1 & B1). destruct L3 as (l3 & A3 & B3).
  exists (l1 ++ l3)%list. split; [|apply Forall_app; now split].
  eapply lstep_trans; [eapply lstep_nil_r; eassumption|exact A3].
Qed.

Lemma tax_zstep me rt pt Z Z' : tax_generate me rt pt Z = Ok Z' -> zstep (fun _ => signed1 "T") Z Z'.
Proof.
  intros H. apply tax_generate_spec in H as (self & _ & HF & _).
  eapply Forall2_impl; [|exact HF]. intros s s' Hs. eapply tax_sector_steps; exact Hs.
Qed.

(* ------------------------------------------------------------------ *)
(** * Dividends *)

Lemma pay_div_lstep p s s1 : (if sid_is p s then pay_div s else Ok s) = Ok s1 ->
  exists l, lstep s s1 l /\ Forall (signed1 "DIV") l.
Proof.
  destruct (sid_is p s); intros H.
  - apply pay_div_inv in H. exists [((-1)%Z, ["DIV"])]. split.
    + eapply lstep_acfs; [| |exact H]; discriminate.
    + constructor; [now right|constructor].
  - injection H as <-. quiet_; apply lstep_refl.
Qed.

Lemma receive_div_lstep rb pf r r' : receive_div rb pf r = Ok r' ->
  exists l, lstep r r' l /\ Forall (signed1 "DIV") l.
Proof.
  intros H. apply receive_div_inv in H as (b & _ & H). destruct (b && negb rb).
  - destruct H as (e & _ & ->). quiet_. apply lstep_install; discriminate.
  - exists [(1%Z, ["DIV"])]. split.
    + eapply lstep_acfs; [| |exact H]; discriminate.
    + constructor; [now left|constructor].
Qed.

Lemma div_pass_zstep cnd rb p pf : forall C found C',
  div_pass cnd rb p pf found C = Ok C' -> zstep (fun _ => signed1 "DIV") C C'.
Proof.
  induction C as [|s r IH]; intros found C' H; simpl in H.
  - injection H as <-. constructor.
  - destruct (if sid_is p s then pay_div s else Ok s) as [s1|] eqn:H1; [|discriminate]. simpl in H.
    destruct (if negb found && cnd s then receive_div rb pf s1 else Ok s1) as [s2|] eqn:H2; [|discriminate]. simpl in H.
    destruct (div_pass cnd rb p pf (found || cnd s) r) as [r'|] eqn:Hr; [|discriminate]. simpl in H.
    injection H as <-. constructor; [|eapply IH; exact Hr].
    apply pay_div_lstep in H1 as (l1 & A1 & B1).
    assert (L2 : exists l, lstep s1 s2 l /\ Forall (signed1 "DIV") l).
    { destruct (negb found && cnd s); [eapply receive_div_lstep; exact H2|].
      injection H2 as <-. quiet_; apply lstep_refl. }
    destruct L2 as (l2 & A2 & B2). exists (l1 ++ l2)%list. split; [eapply lstep_trans; eassumption|].
    apply Forall_app. now split.
Qed.

Lemma firm_zstep bizs pr C C' : ledger_free (map fst (snd pr)) ->
  firm_generate bizs pr C = Ok C' -> zstep (fun _ => signed1 "DIV") C C'.
Proof.
  intros Hl H. unfold firm_generate in H.
  destruct (update_where (sid_is (fst pr)) (apply_resets (snd pr)) C) as [C1|] eqn:U; [|discriminate]. simpl in H.
  assert (Z1 : zstep (fun _ => signed1 "DIV") C C1).
  { eapply zstep_update_where; [exact U|]. intros s s' E. quiet_. eapply lstep_apply_resets; eassumption. }
  eapply zstep_trans; [intros s s' t _ Ht; exact Ht|exact Z1|].
  unfold div_step in H. destruct (existsb _ C1); [|injection H as <-; apply zstep_refl].
  destruct (find (sid_is (fst pr)) C1) as [self|]; [|discriminate].
  destruct (has_var self "PROF"); [|discriminate].
  eapply div_pass_zstep; exact H.
Qed.

(** writing a country's new states back into the zone *)
Lemma put_back_rel (R : sector -> sector -> Prop) cc : (forall s, R s s) ->
  forall Z C', Forall2 R (filter (in_country cc) Z) C' -> Forall2 R Z (put_back cc C' Z).
Proof.
  intros Hr. induction Z as [|s r IH]; intros C' H; simpl in *; [constructor|].
  destruct (in_country cc s).
  - inversion H as [|? c ? C'' Hh Ht]; subst. constructor; [assumption|now apply IH].
  - constructor; [apply Hr|now apply IH].
Qed.

(* ------------------------------------------------------------------ *)
(** * Goods / labour market *)

Definition market_terms (mk s : sector) (t : term) : Prop :=
  t = ((-1)%Z, [Market.dem_name mk s]) \/ t = (1%Z, [supply_name mk s]).

Lemma frame_static s s' : frame s s' -> static s' = static s.
Proof. intros H. rewrite H. reflexivity. Qed.

Lemma market_terms_static mk1 mk : static mk1 = static mk -> forall s t, market_terms mk1 s t -> market_terms mk s t.
Proof.
  intros H s t. destruct (names_static _ _ H) as (_ & _ & _ & H1 & H2 & _). unfold market_terms.
  now rewrite H1, H2.
Qed.

Lemma market_terms_stable mk : frame_stable (market_terms mk).
Proof.
  intros s s' t Hf. unfold market_terms, Market.dem_name, supply_name, share_parent.
  rewrite Hf. simpl. auto.
Qed.

Lemma dem_step_lstep mk s s' t : dem_step mk s = Ok (s', t) ->
  exists l, lstep s s' l /\ Forall (market_terms mk s) l.
Proof.
  unfold dem_step. destruct (Nat.eqb (sid s) (sid mk)).
  - intros H. injection H as <- _. quiet_; apply lstep_refl.
  - destruct (has_var s (Market.dem_name mk s)).
    + destruct (add_cash_flow s _ (Some "") true) as [s1|] eqn:E; [|discriminate].
      intros H. injection H as <- _. destruct (dem_name_dem mk s) as [r Hr].
      exists [((-1)%Z, [Market.dem_name mk s])]. split.
      * eapply lstep_acf; [| |exact E]; rewrite Hr; [apply dem_not_F|apply dem_not_INC].
      * constructor; [now left|constructor].
    + intros H. injection H as <- _. quiet_; apply lstep_refl.
Qed.

Lemma dem_loop_zstep mk : forall Z Z' ts, dem_loop mk Z = Ok (Z', ts) -> zstep (market_terms mk) Z Z'.
Proof.
  induction Z as [|s r IH]; intros Z' ts H; simpl in H.
  - injection H as <- _. constructor.
  - destruct (dem_step mk s) as [[s' t1]|] eqn:E1; [|discriminate].
    destruct (dem_loop mk r) as [[r' t2]|] eqn:E2; [|discriminate].
    injection H as <- _. constructor; [eapply dem_step_lstep; exact E1|apply (IH _ _ eq_refl)].
Qed.

Lemma generate_demand_zstep Z m Z' mk : generate_demand Z m = Ok Z' -> find_sec m Z = Some mk ->
  zstep (market_terms mk) Z Z'.
Proof.
  unfold generate_demand. intros H Fm. rewrite Fm in H.
  destruct (upd m _ Z) as [Za|] eqn:U1; [|discriminate].
  destruct (dem_loop mk Za) as [[Zb fulls]|] eqn:DL; [|discriminate].
  assert (N1 : dem_short mk <> "F") by apply dem_not_F.
  assert (N2 : dem_short mk <> "INC") by apply dem_not_INC.
  eapply zstep_trans; [apply market_terms_stable| |].
  - eapply zstep_upd; [exact U1|]. intros s s' E. injection E as <-. quiet_. now apply lstep_add_variable.
  - eapply zstep_trans; [apply market_terms_stable|eapply dem_loop_zstep; exact DL|].
    eapply zstep_upd; [exact H|]. intros s s' E. unfold opt_key in E.
    destruct (set_rhs_terms s (dem_short mk) _) as [x|] eqn:E2; [|discriminate]. injection E as <-.
    apply set_rhs_terms_spec in E2. subst x. quiet_. now apply lstep_set_eqn.
Qed.

Lemma lstep_ensure_var s n : n <> "F" -> n <> "INC" -> lstep s (ensure_var s n) [].
Proof. intros H1 H2. unfold ensure_var. destruct (has_var s n); [apply lstep_refl|now apply lstep_add_variable]. Qed.

Lemma supplier_local_lstep mk ln s s' : supplier_local mk ln s = Ok s' -> lstep s s' [(1%Z, [supply_name mk s])].
Proof.
  unfold supplier_local. destruct (supply_name_sup mk s) as [r Hr].
  assert (N1 : supply_name mk s <> "F") by (rewrite Hr; apply sup_not_F).
  assert (N2 : supply_name mk s <> "INC") by (rewrite Hr; apply sup_not_INC).
  destruct (add_term_to_eq _ _ _) as [s2|] eqn:E1; [|discriminate].
  unfold opt_key. destruct (add_cash_flow s2 _ None true) as [s3|] eqn:E2; [|discriminate].
  intros H. injection H as <-.
  eapply lstep_nil_l; [eapply lstep_nil_l; [apply (lstep_ensure_var s _ N1 N2)|eapply lstep_add_term_to_eq; [| |exact E1]; assumption]|].
  eapply lstep_acf_none. exact E2.
Qed.

Lemma supply_step_zstep h a mk W ie W' : supply_step h a mk W ie = Ok W' ->
  zstep (market_terms mk) (home W) (home W').
Proof.
  destruct ie as [i e]. unfold supply_step.
  destruct (resolve W i) as [[b sup]|] eqn:R; [|discriminate].
  destruct (upd (sid mk) _ (home W)) as [H1|] eqn:U1; [|discriminate].
  assert (Z1 : zstep (market_terms mk) (home W) H1).
  { eapply zstep_upd; [exact U1|]. intros s s' E. injection E as <-. quiet_.
    apply lstep_set_eqn; unfold alloc_name; [apply sup_not_F|apply sup_not_INC]. }
  destruct b.
  - destruct (upd i (supplier_local mk (alloc_name sup)) H1) as [H2|] eqn:U2; [|discriminate].
    intros H. injection H as <-. simpl.
    eapply zstep_trans; [apply market_terms_stable|exact Z1|].
    eapply zstep_upd; [exact U2|]. intros s s' E. exists [(1%Z, [supply_name mk s])]. split.
    + eapply supplier_local_lstep; exact E.
    + constructor; [now right|constructor].
  - destruct (fxl W) as [L|]; [|discriminate].
    destruct (upd i _ (abroad W)) as [A2|]; [|discriminate].
    intros H. injection H as <-. exact Z1.
Qed.

Lemma supply_fold_zstep h a mk : forall L W W', foldM (supply_step h a mk) L W = Ok W' ->
  zstep (market_terms mk) (home W) (home W').
Proof.
  induction L as [|x L IH]; intros W W' H; simpl in H.
  - injection H as <-. apply zstep_refl.
  - destruct (supply_step h a mk W x) as [W1|] eqn:E; [|discriminate].
    eapply zstep_trans; [apply market_terms_stable|eapply supply_step_zstep; exact E|eapply IH; exact H].
Qed.

Lemma find_sec_zstep A Z Z' j s : zstep A Z Z' -> find_sec j Z = Some s ->
  exists s', find_sec j Z' = Some s' /\ frame s s'.
Proof.
  intros H. induction H as [|a a' r r' (ts & L & _) _ IH]; unfold find_sec in *; simpl; [discriminate|].
  rewrite (frame_sid _ _ (ls_frame _ _ _ L)). destruct (Nat.eqb (sid a) j).
  - intros E. injection E as <-. exists a'. split; [reflexivity|apply (ls_frame _ _ _ L)].
  - exact IH.
Qed.

Theorem market_zstep h a W m residual others W' mk :
  market_generate h a W m residual others = Ok W' -> find_sec m (home W) = Some mk ->
  zstep (market_terms mk) (home W) (home W').
Proof.
  intros H Fm. apply mg_unfold in H as (mk0 & r & H1 & mk1 & H0 & fcs & F0 & _ & GD & F1 & U & _ & FM).
  rewrite Fm in F0. injection F0 as <-.
  pose proof (generate_demand_zstep _ _ _ _ GD Fm) as Z1.
  destruct (find_sec_zstep _ _ _ _ _ Z1 Fm) as (mk1' & F1' & Fr). rewrite F1 in F1'. injection F1' as <-.
  pose proof (frame_static _ _ Fr) as St.
  eapply zstep_trans; [apply market_terms_stable|exact Z1|].
  eapply zstep_trans; [apply market_terms_stable| |].
  - eapply zstep_upd; [exact U|]. intros s s' E. unfold opt_key in E.
    destruct (set_rhs_terms s _ _) as [x|] eqn:E2; [|discriminate]. injection E as <-.
    apply set_rhs_terms_spec in E2. subst x. quiet_.
    apply lstep_set_eqn; unfold sup_short; [apply sup_not_F|apply sup_not_INC].
  - eapply zstep_weaken; [apply (market_terms_static _ _ St)|].
    apply (supply_fold_zstep _ _ _ _ _ _ FM).
Qed.

(* ------------------------------------------------------------------ *)
(** * Money and deposit markets, asset weighting *)

Lemma same_attrs_frame s s' : same_attrs s s' -> frame s s'.
Proof.
  destruct s, s'. unfold same_attrs, frame, with_vars. simpl.
  intros (-> & -> & -> & -> & -> & -> & -> & ->). reflexivity.
Qed.

Lemma sup_name_ledger c : Common.sup_name c <> "F" /\ Common.sup_name c <> "INC".
Proof. unfold Common.sup_name. split; [apply sup_not_F|apply sup_not_INC]. Qed.
Lemma dem_name_ledger c : Common.dem_name c <> "F" /\ Common.dem_name c <> "INC".
Proof. unfold Common.dem_name. split; [apply dem_not_F|apply dem_not_INC]. Qed.
Lemma int_name_ledger c : int_name c <> "F" /\ int_name c <> "INC".
Proof. unfold int_name. split; simpl; intros H; discriminate H. Qed.
Lemma lag_name_ledger x : "LAG_" ++ x <> "F" /\ "LAG_" ++ x <> "INC".
Proof. split; simpl; intros H; discriminate H. Qed.
Lemma wgt_name_ledger c : wgt_name c <> "F" /\ wgt_name c <> "INC".
Proof. unfold wgt_name. split; simpl; intros H; discriminate H. Qed.

Lemma money_out_lstep c issuer mfull s : lstep s (money_out c issuer mfull s) [].
Proof.
  unfold money_out. destruct (negb (hasF s)); [apply lstep_refl|].
  destruct (String.eqb (code s) issuer); [apply lstep_def_variable; apply sup_name_ledger|].
  destruct (has_var s (Common.dem_name c)); [apply lstep_refl|apply lstep_def_variable; apply dem_name_ledger].
Qed.

Lemma map_zstep (f : sector -> sector) l : (forall s, lstep s (f s) []) -> zstep nothing l (map f l).
Proof. intros H. induction l as [|s l IH]; simpl; constructor; [quiet_; apply H|exact IH]. Qed.

Theorem money_zstep c issuer mk z z' : money_generate_checked c issuer mk z = Ok z' -> zstep nothing z z'.
Proof.
  intros H. apply money_generate_checked_ok in H as [H _].
  apply money_generate_spec in H as (pre & m & post & m' & R). destruct R.
  subst z z'. apply zstep_app; [apply map_zstep, money_out_lstep|].
  constructor; [|apply map_zstep, money_out_lstep].
  quiet_. apply lstep_same; [now apply same_attrs_frame| |]; unfold F_of, INC_of; apply mr_other;
    first [apply not_eq_sym, dem_name_ledger|apply not_eq_sym, sup_name_ledger].
Qed.

Lemma deposit_out_lstep c issuer mfull s s' : deposit_out c issuer mfull s = Some s' ->
  exists l, lstep s s' l /\ Forall (signed1 (int_name c)) l.
Proof.
  unfold deposit_out. destruct (is_market s); [intros H; injection H as <-; quiet_; apply lstep_refl|].
  destruct (int_name_ledger c) as [I1 I2].
  destruct (String.eqb (code s) issuer).
  - intros H. exists [((-1)%Z, [int_name c])]. split; [|constructor; [now right|constructor]].
    eapply lstep_nil_l; [|eapply lstep_acf_def; [exact I1|exact I2|exact H]].
    eapply lstep_nil_l; [apply lstep_def_variable; apply sup_name_ledger|].
    apply lstep_add_variable; apply lag_name_ledger.
  - destruct (has_var s (Common.dem_name c)).
    + intros H. exists [(1%Z, [int_name c])]. split; [|constructor; [now left|constructor]].
      eapply lstep_nil_l; [|eapply lstep_acf_def; [exact I1|exact I2|exact H]].
      apply lstep_add_variable; apply lag_name_ledger.
    + intros H; injection H as <-; quiet_; apply lstep_refl.
Qed.

Theorem deposit_zstep c issuer mk z z' : deposit_generate_checked c issuer mk z = Ok z' ->
  zstep (fun _ => signed1 (int_name c)) z z'.
Proof.
  intros H. apply deposit_generate_checked_ok in H as [H _].
  apply deposit_generate_spec in H as (pre & m & post & m' & pre' & post' & R). destruct R.
  subst z z'.
  assert (P : forall l l', Forall2 (fun s s' => deposit_out c issuer (fullcode m) s = Some s') l l' ->
              zstep (fun _ => signed1 (int_name c)) l l').
  { intros l l' HF. eapply Forall2_impl; [|exact HF]. intros s s' E. eapply deposit_out_lstep; exact E. }
  apply zstep_app; [now apply P|]. constructor; [|now apply P].
  quiet_. apply lstep_same; [now apply same_attrs_frame| |]; unfold F_of, INC_of; apply dr_other;
    first [apply not_eq_sym, dem_name_ledger|apply not_eq_sym, sup_name_ledger].
Qed.

Lemma weighting_loop_lstep : forall d s resid s' resid',
  weighting_loop s d resid = Ok (s', resid') -> lstep s s' [].
Proof.
  induction d as [|[c w] d IH]; intros s resid s' resid' H; cbn [weighting_loop] in H.
  - injection H as <- _. apply lstep_refl.
  - destruct (has_substring "__" (wgt_name c)); [discriminate|].
    destruct (has_substring "__" (Common.dem_name c)); [discriminate|].
    eapply lstep_nil_l; [|eapply IH; exact H].
    eapply lstep_nil_l; [apply lstep_add_variable; apply wgt_name_ledger|apply lstep_def_variable; apply dem_name_ledger].
Qed.

Lemma asset_weighting_lstep s ws res s' : asset_weighting s ws res false = Ok s' -> lstep s s' [].
Proof.
  unfold asset_weighting.
  destruct (weighting_loop s (dict_of_pairs ws) [(1%Z, [])]) as [[s1 resid]|] eqn:E; [|discriminate]. cbn [bind].
  destruct (has_substring "__" (wgt_name res)); [discriminate|].
  destruct (has_substring "__" (Common.dem_name res)); [discriminate|].
  intros H. injection H as <-.
  eapply lstep_nil_l; [eapply weighting_loop_lstep; exact E|].
  eapply lstep_nil_l; [apply lstep_def_variable; apply wgt_name_ledger|apply lstep_def_variable; apply dem_name_ledger].
Qed.

(* ------------------------------------------------------------------ *)
(** * Registered cash flows and exogenous variables *)

Lemma zstep_upd_sid A i f Z Z' : upd i f Z = Ok Z' ->
  (forall s s', sid s = i -> f s = Ok s' -> exists ts, lstep s s' ts /\ Forall (A s) ts) -> zstep A Z Z'.
Proof.
  intros H Hf. revert Z' H. induction Z as [|a r IH]; intros Z' H; simpl in H; [discriminate|].
  destruct (Nat.eqb_spec (sid a) i) as [E|E].
  - destruct (f a) as [a'|] eqn:Fa; [|discriminate]. injection H as <-.
    constructor; [now apply Hf|apply zstep_refl].
  - destruct (upd i f r) as [r'|]; [|discriminate]. injection H as <-.
    constructor; [quiet_; apply lstep_refl|now apply IH].
Qed.

Definition flow_full (f : flow) (Z : zone) : option string :=
  let '(src, _, var, _, _) := f in
  match find_sec src Z with Some s => Some (fullcode s ++ "__" ++ var) | None => None end.

(** the source is debited, the target credited, the amount variable's full name *)
Definition flow_terms (f : flow) (Z : zone) (s : sector) (t : term) : Prop :=
  let '(src, tgt, _, _, _) := f in
  exists full, flow_full f Z = Some full /\
    ((sid s = src /\ t = ((-1)%Z, [full])) \/ (tgt = Some (sid s) /\ t = (1%Z, [full]))).

Lemma flow_terms_stable f Z : frame_stable (flow_terms f Z).
Proof.
  intros s s' t Hf. destruct f as [[[[src tgt] var] a] b]. unfold flow_terms.
  now rewrite (frame_sid _ _ Hf).
Qed.

Theorem flow_zstep Z f Z' : flow_step Z f = Ok Z' -> zstep (flow_terms f Z) Z Z'.
Proof.
  destruct f as [[[[src tgt] var] a] b]. unfold flow_step. destruct tgt as [tg|]; [|discriminate].
  destruct (find_sec src Z) as [s0|] eqn:Fs; [|discriminate].
  destruct (find_sec tg Z) as [t0|]; [|discriminate].
  destruct (has_var s0 var); [|discriminate].
  destruct (upd src _ Z) as [Z1|] eqn:U1; [|discriminate]. simpl. intros U2.
  assert (FF : flow_full (src, Some tg, var, a, b) Z = Some (fullcode s0 ++ "__" ++ var)).
  { unfold flow_full. now rewrite Fs. }
  eapply zstep_trans; [apply flow_terms_stable| |].
  - eapply zstep_upd_sid; [exact U1|]. intros s s' Hs E. unfold opt_key in E.
    destruct (add_cash_flow s _ None a) as [x|] eqn:E2; [|discriminate]. injection E as <-.
    eexists. split; [eapply lstep_acf_none; exact E2|]. constructor; [|constructor].
    unfold flow_terms. eexists. split; [exact FF|]. left. now split.
  - eapply zstep_upd_sid; [exact U2|]. intros s s' Hs E. unfold opt_key in E.
    destruct (add_cash_flow s _ None b) as [x|] eqn:E2; [|discriminate]. injection E as <-.
    eexists. split; [eapply lstep_acf_none; exact E2|]. constructor; [|constructor].
    unfold flow_terms. eexists. split; [exact FF|]. right. split; [now rewrite Hs|reflexivity].
Qed.

Theorem exo_zstep Z x Z' : exo_step Z x = Ok Z' -> snd (fst x) <> "F" -> snd (fst x) <> "INC" -> zstep nothing Z Z'.
Proof.
  destruct x as [[s n] spec]. simpl. unfold exo_step. destruct (find_sec s Z); [|discriminate].
  intros U N1 N2. eapply zstep_upd; [exact U|]. intros y y' E. unfold opt_key in E.
  destruct (set_rhs y n _) as [z|] eqn:E2; [|discriminate]. injection E as <-.
  quiet_. eapply lstep_set_rhs; eassumption.
Qed.
