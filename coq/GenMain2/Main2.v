(** Gallina model of the whole generator pipeline for MULTI-CURRENCY programs (Program2.v):
    Main.v extended with currency zones, the ExternalSector (EXT country with XR / FX / GOLD,
    RegisterCurrency for existing and later zones, lazily created cross rates), cross-zone
    registered cash flows (_SendMoney / _ReceiveMoney), cross-zone suppliers (GenMarket's foreign
    branch, with the FX sector's NET_<currency> equations as its ledger), the gold-standard
    government / central bank and InternationalGold.SetGoldPurchases.

    The booking-group models are applied to the list CurrencyZone.GetSectors() of the sector's own
    zone (tax flow, money / deposit market, market) or to its country (dividends) and the result is
    written back into Model.GetSectors(). *)
From Coq Require Import List String Ascii Bool ZArith Arith.
From SFC.Base Require Import Res Str Sorting.
From SFC.Gen Require Import Fx Zone.
From SFC.GenMarket Require Import Market.
From SFC.GenTax Require Import Tax Dividends.
From SFC.GenAsset Require Import Common Money Deposit Weighting.
From SFC.GenMain2 Require Import Program Classes Main Program2.
Import ListNotations.
Local Open Scope string_scope.

(* ------------------------------------------------------------------ *)
(** * Construction state *)

Record ext_ids := mkExt { e_xr : nat; e_fx : nat; e_gold : nat }.

Record kstate := mkK {
  k_countries : list (string * string);    (* Model.CountryList: (code, currency) *)
  k_default : string;                      (* Model.DefaultCurrency *)
  k_ext : option ext_ids;                  (* Model.ExternalSector: IDs of its three sectors *)
  k_secs : list sector;
  k_classes : list cls2;
  k_sup : list (nat * supinfo);
  k_flows : list flow;
  k_exo : list (nat * string * string);
  k_ic : list (nat * string * string)
}.

Definition k_init : kstate := mkK [] "LOCAL" None [] [] [] [] [] [].

Definition class_of2 (cl : list cls2) (i : nat) : cls2 := nth i cl (COld CGov).

Definition upd_k (st : kstate) (SL : list sector) : kstate :=
  mkK (k_countries st) (k_default st) (k_ext st) SL (k_classes st) (k_sup st) (k_flows st) (k_exo st) (k_ic st).

(** Model.CurrencyZoneList: currencies in order of first appearance *)
Definition zones_of (cs : list (string * string)) : list string := nodup string_dec (map snd cs).

Fixpoint currency_of (cs : list (string * string)) (cc : string) : string :=
  match cs with
  | [] => ""
  | (c, cur) :: r => if String.eqb c cc then cur else currency_of r cc
  end.

Definition in_zone (cs : list (string * string)) (cur : string) (s : sector) : bool :=
  String.eqb (currency_of cs (country s)) cur.

(** ExternalSector.RegisterCurrency *)
Definition register_currency (e : ext_ids) (cur : string) (SL : list sector) : result (list sector) :=
  do S1 <- on_sector (e_xr e) (fun s => addv s cur "1.0") SL ;;
  on_sector (e_fx e) (fun s => addvs s [("NET_" ++ cur, ""); ("F_" ++ cur, "LAG_F_" ++ cur ++ " + NET_" ++ cur);
                                         ("LAG_F_" ++ cur, "F_" ++ cur ++ "(k-1)")]) S1.

Fixpoint register_all (e : ext_ids) (curs : list string) (SL : list sector) : result (list sector) :=
  match curs with
  | [] => Ok SL
  | c :: r => do S1 <- register_currency e c SL ;; register_all e r S1
  end.

(** Model._AddCountry: duplicate code, DefaultCurrency, a new zone registers itself with the
    external sector when there is one *)
Definition add_country (st : kstate) (code cur : string) : result kstate :=
  if mem code (map fst (k_countries st)) then Err LogicError
  else
    let new_zone := negb (mem cur (map snd (k_countries st))) in
    do SL <- (match k_ext st with
              | Some e => if new_zone then register_currency e cur (k_secs st) else Ok (k_secs st)
              | None => Ok (k_secs st)
              end) ;;
    Ok (mkK (k_countries st ++ [(code, cur)])%list cur (k_ext st) SL (k_classes st) (k_sup st) (k_flows st) (k_exo st) (k_ic st)).

Definition old_class (k : cls2) : cls :=
  match k with
  | COld c => c
  | CGoldGov _ => CGov
  | CGoldCB t _ => CCentralBank t
  | CXR | CFX | CGOLD => CTaxFlow "" ""          (* a sector without F and without variables: see [construct2] *)
  end.

(** the object a constructor leaves behind *)
Definition construct2 (i : nat) (cc c : string) (k : cls2) (mrefs : list (string * string)) : result sector :=
  match k with
  | CXR | CFX | CGOLD => Ok (base_sector i c cc false false false [])
  | _ => construct i cc c (old_class k) mrefs
  end.

Definition market_refs2 (k : cls2) : list nat := match k with COld c => market_refs c | _ => [] end.

Definition has_add_supplier2 (k : cls2) : bool := match k with COld c => has_add_supplier c | _ => false end.

Definition add_sector (st : kstate) (ci : nat) (c : string) (k : cls2) : result kstate :=
  match nth_error (k_countries st) ci with
  | None => Err OtherError
  | Some (cc, _) =>
      if existsb (fun s => in_country cc s && String.eqb (code s) c) (k_secs st) then Err LogicError
      else
        do mrefs <- resolve_markets (k_secs st) (market_refs2 k) ;;
        do s <- construct2 (List.length (k_secs st)) cc c k mrefs ;;
        Ok (mkK (k_countries st) (k_default st) (k_ext st) (k_secs st ++ [s])%list (k_classes st ++ [k])%list
                (k_sup st) (k_flows st) (k_exo st) (k_ic st))
  end.

Definition with_flows (st : kstate) (fl : list flow) : kstate :=
  mkK (k_countries st) (k_default st) (k_ext st) (k_secs st) (k_classes st) (k_sup st) fl (k_exo st) (k_ic st).

Definition run_op2 (st : kstate) (o : uop2) : result kstate :=
  match o with
  | UOld (OAddVariable s n t) => do SL <- on_sector s (fun x => addv x n t) (k_secs st) ;; Ok (upd_k st SL)
  | UOld (OSetExogenous s n spec) =>
      match find_sec s (k_secs st) with
      | None => Err OtherError
      | Some _ => Ok (mkK (k_countries st) (k_default st) (k_ext st) (k_secs st) (k_classes st) (k_sup st) (k_flows st)
                          (k_exo st ++ [(s, n, spec)])%list (k_ic st))
      end
  | UOld (ORegisterCashFlow src tgt var a b) =>
      match find_sec src (k_secs st), find_sec tgt (k_secs st) with
      | Some _, Some _ => Ok (with_flows st (k_flows st ++ [(src, Some tgt, var, a, b)])%list)
      | _, _ => Err OtherError
      end
  | UOld (OAddSupplier m sup text) =>
      match find_sec m (k_secs st), find_sec sup (k_secs st) with
      | Some _, Some _ =>
          if has_add_supplier2 (class_of2 (k_classes st) m) then
            let '(res, others) := sup_of m (k_sup st) in
            let x := match text with
                     | None => (Some sup, others)
                     | Some t => if String.eqb t "" then (Some sup, others)
                                 else (res, (others ++ [(sup, squeeze t)])%list)
                     end in
            Ok (mkK (k_countries st) (k_default st) (k_ext st) (k_secs st) (k_classes st) (sup_set m x (k_sup st))
                    (k_flows st) (k_exo st) (k_ic st))
          else Err OtherError
      | _, _ => Err OtherError
      end
  | UOld (OAssetWeighting s ws res) =>
      do SL <- on_sector s (fun x => asset_weighting x ws res false) (k_secs st) ;; Ok (upd_k st SL)
  | UOld (OAddInitialCondition s n value) =>
      match find_sec s (k_secs st) with
      | None => Err OtherError
      | Some _ => Ok (mkK (k_countries st) (k_default st) (k_ext st) (k_secs st) (k_classes st) (k_sup st) (k_flows st)
                          (k_exo st) (k_ic st ++ [(s, n, value)])%list)
      end
  | UOld (OSetTreasury cb tre) =>
      match find_sec cb (k_secs st), find_sec tre (k_secs st) with
      | Some _, Some _ =>
          let k := match class_of2 (k_classes st) cb with
                   | COld (CCentralBank _) => COld (CCentralBank (Some tre))
                   | CGoldCB _ stock => CGoldCB (Some tre) stock
                   | k => k
                   end in
          Ok (mkK (k_countries st) (k_default st) (k_ext st) (k_secs st) (set_nth cb k (k_classes st)) (k_sup st)
                  (k_flows st) (k_exo st) (k_ic st))
      | _, _ => Err OtherError
      end
  | UAddMarket s m =>
      match find_sec m (k_secs st) with
      | None => Err OtherError
      | Some mk => do SL <- on_sector s (fun x => add_market x (code mk, country mk)) (k_secs st) ;; Ok (upd_k st SL)
      end
  end.

Definition run_step2 (st : kstate) (x : step2) : result kstate :=
  match x with
  | S2Country c cur region =>
      add_country st c (match cur with Some x => x | None => if region then k_default st else c end)
  | S2External =>
      (* Country.__init__(EXT, NUMERAIRE) with Model.ExternalSector still None, then the three sectors,
         then RegisterCurrency for every zone that exists (its own included) *)
      match k_ext st with
      | Some _ => Err LogicError               (* a second EXT country *)
      | None =>
          do st1 <- add_country st "EXT" "NUMERAIRE" ;;
          let ci := List.length (k_countries st) in
          let n := List.length (k_secs st1) in
          do st2 <- add_sector st1 ci "XR" CXR ;;
          do st3 <- add_sector st2 ci "FX" CFX ;;
          do st4 <- add_sector st3 ci "GOLD" CGOLD ;;
          let e := mkExt n (S n) (S (S n)) in
          do SL <- register_all e (zones_of (k_countries st4)) (k_secs st4) ;;
          Ok (mkK (k_countries st4) (k_default st4) (Some e) SL (k_classes st4) (k_sup st4) (k_flows st4) (k_exo st4) (k_ic st4))
      end
  | S2Sector ci c k => add_sector st ci c k
  | S2Op o => run_op2 st o
  end.

Definition construct_all2 (p : program2) : result kstate := foldM run_step2 p k_init.

(* ------------------------------------------------------------------ *)
(** * Model.main() *)

Record ginfo2 := mkI2 {
  j_classes : list cls2;
  j_sup : list (nat * supinfo);
  j_countries : list (string * string);
  j_ext : option ext_ids
}.

Record gstate2 := mkG2 { h_zone : zone; h_flows : list flow; h_ic : list (nat * string * string) }.

(** write the new states of the selected sectors back, in order *)
Fixpoint put_back_p (p : sector -> bool) (C : list sector) (Z : zone) : zone :=
  match Z with
  | [] => []
  | s :: r =>
      if p s then
        match C with
        | c :: C' => c :: put_back_p p C' r
        | [] => s :: put_back_p p [] r
        end
      else s :: put_back_p p C r
  end.

(** apply a group model to a sub-list of the zone *)
Definition on_part (p : sector -> bool) (f : zone -> result zone) (Z : zone) : result zone :=
  do C' <- f (filter p Z) ;; Ok (put_back_p p C' Z).

Definition cur_of_sec (J : ginfo2) (s : sector) : string := currency_of (j_countries J) (country s).

(** the FX sector's NET_<currency> term lists as the ledger of Fx.v, and back *)
Definition net_of (fx : sector) (c : string) : list term :=
  match lookup_var ("NET_" ++ c) (vars fx) with Some e => terms e | None => [] end.

Definition ledger_of (J : ginfo2) (Z : zone) : option ledger :=
  match j_ext J with
  | None => None
  | Some e =>
      match find_sec (e_fx e) Z with
      | None => None
      | Some fx => Some (map (fun c => (c, net_of fx c)) (zones_of (j_countries J)))
      end
  end.

Definition store_net (fx : sector) (ct : string * list term) : sector :=
  let n := "NET_" ++ fst ct in
  match lookup_var n (vars fx) with
  | Some e => set_eqn fx n (mkEqn (blob e) (snd ct))
  | None => set_eqn fx n (mkEqn "" (snd ct))
  end.

Definition store_ledger (J : ginfo2) (L : option ledger) (Z : zone) : result zone :=
  match j_ext J, L with
  | Some e, Some l => upd (e_fx e) (fun fx => Ok (fold_left store_net l fx)) Z
  | _, _ => Ok Z
  end.

(** ExchangeRates.GetCrossRate(local, foreign): the variable local_foreign = local/foreign, created on first use *)
Definition ensure_cross (J : ginfo2) (a b : string) (Z : zone) : result zone :=
  match j_ext J with
  | None => Err LogicError
  | Some e => upd (e_xr e) (fun xr => if has_var xr (a ++ "_" ++ b) then Ok xr else addv xr (a ++ "_" ++ b) (a ++ "/" ++ b)) Z
  end.

Definition xr_full (J : ginfo2) (Z : zone) (n : string) : result string :=
  match j_ext J with
  | None => Err LogicError
  | Some e => match find_sec (e_xr e) Z with
              | Some xr => if has_var xr n then Ok (fullcode xr ++ "__" ++ n) else Err KeyError
              | None => Err OtherError
              end
  end.

Definition fx_add (J : ginfo2) (cur : string) (t : term) (Z : zone) : result zone :=
  match j_ext J with
  | None => Err LogicError
  | Some e => upd (e_fx e) (fun fx => opt_key (add_term_to_eq fx ("NET_" ++ cur) t)) Z
  end.

(** ForexTransations._SendMoney(source in currency [cur], full variable name [x]) *)
Definition send_money (J : ginfo2) (cur x : string) (Z : zone) : result zone :=
  do xr <- xr_full J Z cur ;;
  do Z1 <- fx_add J cur (1%Z, [x]) Z ;;
  fx_add J NUM ((-1)%Z, [x; xr]) Z1.

(** ForexTransations._ReceiveMoney: the zone afterwards and the term credited to the receiver *)
Definition receive_money (J : ginfo2) (csrc ctgt x : string) (Z : zone) : result (zone * term) :=
  do Z1 <- ensure_cross J csrc ctgt Z ;;
  do cross <- xr_full J Z1 (csrc ++ "_" ++ ctgt) ;;
  do Z2 <- fx_add J ctgt ((-1)%Z, [x; cross]) Z1 ;;
  do xr <- xr_full J Z2 csrc ;;
  do Z3 <- fx_add J NUM (1%Z, [x; xr]) Z2 ;;
  Ok (Z3, (1%Z, [x; cross])).

(** Market._GenerateEquations with suppliers in several other zones: the supplier loop of
    Market.generate_supply with the receiving currency chosen per supplier ([abroad] = every sector
    outside the market's zone) *)
Fixpoint supply_multi (hcur : string) (cur_of : nat -> string) (mk : sector) (W : world) (l : list (nat * eqn)) : result world :=
  match l with
  | [] => Ok W
  | ie :: r => do W1 <- supply_step hcur (cur_of (fst ie)) mk W ie ;; supply_multi hcur cur_of mk W1 r
  end.

Definition market_generate_multi (hcur : string) (cur_of : nat -> string) (W : world) (m : nat)
           (residual : option nat) (others : list (nat * string)) : result world :=
  match find_sec m (home W) with
  | None => Err KeyError
  | Some mk =>
      do r <- the_residual (home W) mk residual ;;
      do H1 <- generate_demand (home W) m ;;
      match find_sec m H1 with
      | None => Err KeyError
      | Some mk1 =>
          do H0 <- upd m (fun s => opt_key (set_rhs_terms s (sup_short mk1) [(1%Z, [dem_short mk1])])) H1 ;;
          let W0 := with_home W H0 in
          do fcs <- resolve_fullcodes W0 (map fst others) ;;
          supply_multi hcur cur_of mk1 W0
            (map (fun o => (fst o, mkEqn (snd o) [])) others ++ [(r, mkEqn "" (residual_terms mk1 fcs))])%list
      end
  end.

Definition supplier_currencies (J : ginfo2) (Z : zone) (hcur : string) (ids : list nat) : list string :=
  nodup string_dec
    (flat_map (fun i => match find_sec i Z with
                        | Some s => if String.eqb (cur_of_sec J s) hcur then [] else [cur_of_sec J s]
                        | None => []
                        end) ids).

Definition sec_currency (J : ginfo2) (Z : zone) (i : nat) : string :=
  match find_sec i Z with Some s => cur_of_sec J s | None => "" end.

Fixpoint ensure_crosses (J : ginfo2) (hcur : string) (codes : list string) (acurs : list string) (Z : zone) : result zone :=
  match acurs with
  | [] => Ok Z
  | a :: r => do Z1 <- (if mem (cross_code hcur a) codes then ensure_cross J hcur a Z else Ok Z) ;;
              ensure_crosses J hcur codes r Z1
  end.

Definition market_step (J : ginfo2) (i : nat) (self : sector) (Z : zone) : result zone :=
  let hcur := cur_of_sec J self in
  let '(res, others) := sup_of i (j_sup J) in
  let ids := (map fst others ++ match res with Some r => [r] | None => [] end)%list in
  let acurs := supplier_currencies J Z hcur ids in
  let inh := in_zone (j_countries J) hcur in
  match acurs with
  | [] =>
      do W <- market_generate hcur ACUR (mkWorld (filter inh Z) [] (ledger_of J Z) []) i res others ;;
      store_ledger J (fxl W) (put_back_p inh (home W) Z)
  | [acur] =>
      let ina := in_zone (j_countries J) acur in
      do W <- market_generate hcur acur (mkWorld (filter inh Z) (filter ina Z) (ledger_of J Z) []) i res others ;;
      do Z1 <- store_ledger J (fxl W) (put_back_p ina (abroad W) (put_back_p inh (home W) Z)) ;;
      ensure_crosses J hcur (crosses W) acurs Z1
  | _ =>
      let rest := fun s => negb (inh s) in
      do W <- market_generate_multi hcur (sec_currency J Z) (mkWorld (filter inh Z) (filter rest Z) (ledger_of J Z) []) i res others ;;
      do Z1 <- store_ledger J (fxl W) (put_back_p rest (abroad W) (put_back_p inh (home W) Z)) ;;
      ensure_crosses J hcur (crosses W) acurs Z1
  end.

(** GoldStandard*._GenerateEquations after the base class part, and InternationalGold.SetGoldPurchases *)
Definition gold_step (J : ginfo2) (i : nat) (self : sector) (stock : string) (with_ic : bool) (st : gstate2) : result gstate2 :=
  match j_ext J with
  | None => Err LogicError
  | Some e =>
      let Z := h_zone st in
      let cur := cur_of_sec J self in
      match find_sec (e_fx e) Z with
      | None => Err OtherError
      | Some fx =>
          if has_var fx ("NET_" ++ cur) then
            let balance := fullcode fx ++ "__" ++ "NET_" ++ cur in
            do Z1 <- upd i (fun s => addv s "GOLDPURCHASES" ("GOLDPURCHASES - " ++ balance)) Z ;;
            (* GOLD.GetVariableName('PRICE'): SetUpVariables *)
            do Z2 <- upd (e_gold e) (fun g =>
                       do g1 <- (if has_var g "PRICE" then Ok g else addv g "PRICE" "1.0") ;;
                       if has_var g1 "NETOZ" then Ok g1 else addv g1 "NETOZ" "") Z1 ;;
            match find_sec (e_gold e) Z2 with
            | None => Err OtherError
            | Some g =>
                let price := fullcode g ++ "__" ++ "PRICE" in
                do xr <- xr_full J Z2 cur ;;
                do Z3 <- upd i (fun s => addvs s [("GOLDPRICE", price ++ " / " ++ xr);
                                                   ("GOLD", "(LAG_GOLD_OZ * GOLDPRICE) + GOLDPURCHASES");
                                                   ("LAG_GOLD_OZ", "GOLD_OZ(k-1)");
                                                   ("GOLD_OZ", "GOLD / GOLDPRICE")]) Z2 ;;
                let full := fullcode self ++ "__" ++ "GOLDPURCHASES" in
                do Z4 <- send_money J cur full Z3 ;;
                do Z5 <- upd i (fun s => opt_key (add_cash_flow s ((-1)%Z, ["GOLDPURCHASES"]) None false)) Z4 ;;
                do Z6 <- upd (e_gold e) (fun g => opt_key (add_term_to_eq g "NETOZ" (1%Z, [xr; full]))) Z5 ;;
                Ok (mkG2 Z6 (h_flows st)
                         (h_ic st ++ (if with_ic then [(i, "GOLDPURCHASES", "0.0")] else []) ++
                          [(i, "GOLD_OZ", stock); (i, "LAG_GOLD_OZ", stock)])%list)
            end
          else Err KeyError
      end
  end.

Definition biz_ids2 (J : ginfo2) (C : list sector) : list nat :=
  map sid (filter (fun s => match class_of2 (j_classes J) (sid s) with COld k => is_fmb k | _ => false end) C).

Definition gen_step2 (J : ginfo2) (st : gstate2) (ik : nat * cls2) : result gstate2 :=
  let '(i, k) := ik in
  let Z := h_zone st in
  match find_sec i Z with
  | None => Err OtherError
  | Some self =>
      let same (r : result zone) := do Z' <- r ;; Ok (mkG2 Z' (h_flows st) (h_ic st)) in
      let inz := in_zone (j_countries J) (cur_of_sec J self) in
      let reg t := mkG2 Z (h_flows st ++ [(i, t, "INTDEP", true, true)])%list (h_ic st) in
      match k with
      | CXR | CFX | CGOLD | COld CGov | COld CTreasury => Ok st
      | COld (CCentralBank t) => Ok (reg t)
      | CGoldGov stock => gold_step J i self stock true st
      | CGoldCB t stock => gold_step J i self stock false (reg t)
      | COld (CHousehold ai af _ _) | COld (CHouseholdExp ai af _ _) | COld (CCapitalists ai af _) =>
          same (upd i (apply_resets [("AlphaIncome", ai); ("AlphaFin", af)]) Z)
      | COld (CBusiness mz wage margin lab out) =>
          let cc := country self in
          let C := filter (in_country cc) Z in
          match find (fun s => String.eqb (code s) out) C with
          | None => Err Warning_
          | Some mk =>
              if has_var mk ("SUP_" ++ out) then
                let msg := fullcode mk ++ "__" ++ "SUP_" ++ out in
                same (on_part (in_country cc) (firm_generate (biz_ids2 J C) (i, wage_resets mz wage margin lab msg)) Z)
              else Err Warning_
          end
      | COld (CBusinessMulti mz wage lab _) =>
          do Z1 <- upd i (apply_resets [("DEM_" ++ lab, if mz then "SUP" else wage ++ "*SUP")]) Z ;;
          if existsb (fun s => has_var s "DIV") (filter (in_country (country self)) Z1)
          then Err NotImplemented else Ok (mkG2 Z1 (h_flows st) (h_ic st))
      | COld (CTaxFlow rate paid_to) => same (on_part inz (tax_generate i rate paid_to) Z)
      | COld CMarket => same (market_step J i self Z)
      | COld (CMoneyMarket issuer) => same (on_part inz (money_generate_checked (code self) issuer i) Z)
      | COld (CDepositMarket issuer) => same (on_part inz (deposit_generate_checked (code self) issuer i) Z)
      end
  end.

(** one entry of Model._GenerateRegisteredCashFlows *)
Definition flow_step2 (J : ginfo2) (Z : zone) (f : flow) : result zone :=
  let '(src, tgt, var, inc_s, inc_t) := f in
  match tgt with
  | None => Err OtherError
  | Some tg =>
      match find_sec src Z, find_sec tg Z with
      | Some s, Some t =>
          let csrc := cur_of_sec J s in
          let ctgt := cur_of_sec J t in
          let cross := negb (String.eqb csrc ctgt) in
          if cross && (match j_ext J with None => true | Some _ => false end) then Err LogicError
          else if has_var s var then
            let full := fullcode s ++ "__" ++ var in
            do Z1 <- upd src (fun x => opt_key (add_cash_flow x ((-1)%Z, [full]) None inc_s)) Z ;;
            if cross then
              do Z2 <- send_money J csrc full Z1 ;;
              do zt <- receive_money J csrc ctgt full Z2 ;;
              upd tg (fun x => opt_key (add_cash_flow x (snd zt) None inc_t)) (fst zt)
            else upd tg (fun x => opt_key (add_cash_flow x (1%Z, [full]) None inc_t)) Z1
          else Err KeyError
      | _, _ => Err OtherError
      end
  end.

Record run2 := mkRun2 {
  q_info : ginfo2;
  q_zone0 : zone;
  q_gen : list ((nat * cls2) * gstate2 * gstate2);
  q_flows : list (flow * zone * zone);
  q_exo : list ((nat * string * string) * zone * zone);
  q_final : final_system
}.

Definition main_run2 (st : kstate) : result run2 :=
  let multi := Nat.ltb 1 (List.length (k_countries st)) in
  let Z0 := zone_order (map fst (k_countries st)) (map (set_fullcode multi) (k_secs st)) in
  let J := mkI2 (k_classes st) (k_sup st) (k_countries st) (k_ext st) in
  do g <- run_trace (gen_step2 J) (map (fun s => (sid s, class_of2 (k_classes st) (sid s))) Z0) (mkG2 Z0 (k_flows st) (k_ic st)) ;;
  do f <- run_trace (flow_step2 J) (h_flows (snd g)) (h_zone (snd g)) ;;
  do x <- run_trace exo_step (k_exo st) (snd f) ;;
  let Zf := snd x in
  do ics <- ic_rows Zf (h_ic (snd g)) ;;
  let rows := zone_rows Zf in
  match rows, ics with
  | [], [] => Err Warning_
  | _, _ => Ok (mkRun2 J Z0 (fst g) (fst f) (fst x) (mkFS Zf rows ics))
  end.

Definition build_run2 (p : program2) : result run2 := do st <- construct_all2 p ;; main_run2 st.
Definition build2 (p : program2) : result final_system := do r <- build_run2 p ;; Ok (q_final r).
