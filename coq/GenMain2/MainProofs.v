(** Program-level facts about the pipeline model Main.v: every step of a run relates the zone
    before and after by [Ledger.zstep]; the run as a chain of such steps; invariants of the
    construction phase. *)
From Coq Require Import List String Bool ZArith Arith Lia.
From SFC.Base Require Import Res Str Sorting.
From SFC.Gen Require Import Fx Zone.
From SFC.GenMarket Require Import Market MarketProofs.
From SFC.GenAsset Require Import Common CommonProofs Money MoneyProofs Deposit DepositProofs Weighting WeightingProofs.
From SFC.GenTax Require Import Tax Dividends TaxProofs DividendProofs.
From SFC.GenMain2 Require Import Program Classes Main Ledger.
Import ListNotations.
Local Open Scope string_scope.

(* ------------------------------------------------------------------ *)
(** * Names that are not the ledger's *)

Definition lfree_b (n : string) : bool := negb (String.eqb n "F") && negb (String.eqb n "INC").

Lemma lfree_b_ok n : lfree_b n = true -> n <> "F" /\ n <> "INC".
Proof.
  unfold lfree_b. intros H. apply andb_true_iff in H as [H1 H2].
  apply negb_true_iff in H1, H2. apply String.eqb_neq in H1, H2. now split.
Qed.

Lemma ledger_free_b names : forallb lfree_b names = true -> ledger_free names.
Proof. intros H k Hk. apply lfree_b_ok. rewrite forallb_forall in H. now apply H. Qed.

(* ------------------------------------------------------------------ *)
(** * One _GenerateEquations call *)

(** the terms the call of sector [fst ik] (class [snd ik]) may book on sector [s]; [Z] = the zone
    before the call *)
Definition gen_terms (ik : nat * cls) (Z : zone) (s : sector) (t : term) : Prop :=
  match snd ik with
  | CMarket => exists mk, find_sec (fst ik) Z = Some mk /\ market_terms mk s t
  | CTaxFlow _ _ => signed1 "T" t
  | CBusiness _ _ _ _ _ => signed1 "DIV" t
  | CDepositMarket _ => exists mk, find_sec (fst ik) Z = Some mk /\ signed1 (int_name (code mk)) t
  | _ => False
  end.

Lemma gen_terms_stable ik Z : frame_stable (gen_terms ik Z).
Proof.
  intros s s' t Hf. unfold gen_terms. destruct (snd ik); auto.
  intros (mk & F & M). exists mk. split; [exact F|]. eapply market_terms_stable; eassumption.
Qed.

Lemma zstep_nothing A Z Z' : zstep nothing Z Z' -> zstep A Z Z'.
Proof. apply zstep_weaken. intros s t []. Qed.

Lemma same_flows_inv (st : gstate) (r : result zone) st' :
  (do Z' <- r ;; Ok (mkG Z' (g_flows st))) = Ok st' -> r = Ok (g_zone st').
Proof. destruct r; simpl; intros H; [injection H as <-; reflexivity|discriminate]. Qed.

Theorem gen_step_zstep I st ik st' : gen_step I st ik = Ok st' ->
  zstep (gen_terms ik (g_zone st)) (g_zone st) (g_zone st').
Proof.
  destruct ik as [i k]. unfold gen_step.
  destruct (find_sec i (g_zone st)) as [self|] eqn:Fs; [|discriminate].
  assert (HH : forall ai af, (do Z' <- upd i (apply_resets [("AlphaIncome", ai); ("AlphaFin", af)]) (g_zone st) ;;
                             Ok (mkG Z' (g_flows st))) = Ok st' -> zstep nothing (g_zone st) (g_zone st')).
  { intros ai af H. apply same_flows_inv in H. eapply zstep_upd; [exact H|].
    intros s s' E. quiet_. eapply lstep_apply_resets; [|exact E]. apply ledger_free_b. reflexivity. }
  destruct k as [| |t|ai af good lab|ai af good lab|ai af good|mz wage margin lab out|mz wage lab ms|rate paid|
                 |issuer|issuer]; unfold gen_terms; cbn [snd fst].
  - intros H. injection H as <-. apply zstep_refl.
  - intros H. injection H as <-. apply zstep_refl.
  - intros H. injection H as <-. apply zstep_refl.
  - intros H. apply zstep_nothing. eapply HH; exact H.
  - intros H. apply zstep_nothing. eapply HH; exact H.
  - intros H. apply zstep_nothing. eapply HH; exact H.
  - destruct (find _ _) as [mk|]; [|discriminate].
    destruct (has_var mk _); [|discriminate].
    intros H. apply same_flows_inv in H.
    destruct (firm_generate _ _ _) as [C'|] eqn:FG; [|discriminate]. simpl in H. injection H as H.
    rewrite <- H. apply put_back_rel; [intros s; quiet_; apply lstep_refl|].
    eapply firm_zstep; [|exact FG]. apply ledger_free_b. cbn [snd]. unfold wage_resets. destruct mz; reflexivity.
  - destruct (upd i _ (g_zone st)) as [Z1|] eqn:U; [|discriminate]. cbn [bind].
    destruct (existsb _ _); [discriminate|]. intros H. injection H as <-. cbn [g_zone].
    apply zstep_nothing. eapply zstep_upd; [exact U|]. intros s s' E. quiet_.
    eapply lstep_apply_resets; [|exact E]. apply ledger_free_b. reflexivity.
  - intros H. apply same_flows_inv in H. eapply tax_zstep. exact H.
  - destruct (sup_of i (i_sup I)) as [res others]. intros H. apply same_flows_inv in H.
    destruct (market_generate _ _ _ _ _ _) as [W|] eqn:MG; [|discriminate]. simpl in H. injection H as H.
    rewrite <- H. pose proof (market_zstep _ _ _ _ _ _ _ self MG Fs) as Zs. cbn [home] in Zs.
    eapply zstep_weaken; [|exact Zs]. intros s t M. exists self. now split.
  - intros H. apply same_flows_inv in H. apply zstep_nothing. eapply money_zstep. exact H.
  - intros H. apply same_flows_inv in H. eapply zstep_weaken; [|eapply deposit_zstep; exact H].
    intros s t M. exists self. now split.
Qed.

(* ------------------------------------------------------------------ *)
(** * Traces *)

Lemma Forall2_imp {X Y} (P Q : X -> Y -> Prop) l1 l2 :
  (forall a b, P a b -> Q a b) -> Forall2 P l1 l2 -> Forall2 Q l1 l2.
Proof. intros H HF. induction HF; constructor; auto. Qed.

Inductive chain {A B} (f : A -> B -> result A) : list (B * A * A) -> A -> A -> Prop :=
| chain_nil a : chain f [] a a
| chain_cons b a a1 tr a' : f a b = Ok a1 -> chain f tr a1 a' -> chain f ((b, a, a1) :: tr) a a'.

Lemma run_trace_chain {A B} (f : A -> B -> result A) : forall l a tr a',
  run_trace f l a = Ok (tr, a') -> chain f tr a a' /\ map (fun x => fst (fst x)) tr = l.
Proof.
  induction l as [|b l IH]; intros a tr a' H; simpl in H.
  - injection H as <- <-. split; [constructor|reflexivity].
  - destruct (f a b) as [a1|] eqn:E; [|discriminate]. simpl in H.
    destruct (run_trace f l a1) as [[tr1 a2]|] eqn:R; [|discriminate]. simpl in H.
    injection H as <- <-. destruct (IH _ _ _ R) as [C M]. split; [now constructor|]. simpl. now rewrite M.
Qed.

(** a chain of steps, each a [zstep] with its own set of allowed terms: sector by sector, the
    terms added are the concatenation of what the steps added *)
Section Chain.
Context {S B : Type} (f : S -> B -> result S) (pz : S -> zone) (A : B -> S -> sector -> term -> Prop) (Pb : B -> Prop).
Hypothesis Hstep : forall st b st', Pb b -> f st b = Ok st' -> zstep (A b st) (pz st) (pz st').
Hypothesis Hstable : forall b st, frame_stable (A b st).

Definition chain_rel (tr : list (B * S * S)) (s s' : sector) : Prop :=
  exists tss, Forall2 (fun x ts => Forall (A (fst (fst x)) (snd (fst x)) s) ts) tr tss /\ lstep s s' (List.concat tss).

Lemma chain_zstep : forall tr st st', chain f tr st st' -> Forall (fun x => Pb (fst (fst x))) tr ->
  Forall2 (chain_rel tr) (pz st) (pz st').
Proof.
  induction tr as [|[[b x] y] tr IH]; intros st st' C HP; inversion C; subst.
  - clear. induction (pz st') as [|s l IHl]; constructor; [|exact IHl].
    exists []. split; [constructor|apply lstep_refl].
  - inversion HP as [|? ? Hb HP']; subst. simpl in Hb.
    match goal with Hf : f st b = Ok _, Hc : chain f tr _ st' |- _ =>
      pose proof (Hstep _ _ _ Hb Hf) as Z1; pose proof (IH _ _ Hc HP') as Z2 end.
    clear C IH HP. revert Z2. generalize (pz st'). induction Z1 as [|s s1 l l1 (ta & La & Fa) _ IHl]; intros l2 Z2;
      inversion Z2 as [|? s2 ? l2' (tss & FF & Lb) Ht]; subst; constructor; [|now apply IHl].
    exists (ta :: tss). split; [|simpl; eapply lstep_trans; eassumption].
    constructor; [exact Fa|]. eapply Forall2_imp; [|exact FF]. intros [[b' x'] y'] ts. simpl.
    apply Forall_impl. intros t. apply Hstable. apply (ls_frame _ _ _ La).
Qed.
End Chain.

(* ------------------------------------------------------------------ *)
(** * Constructors *)

Lemma addv_lstep s n t s' : n <> "F" -> n <> "INC" -> addv s n t = Ok s' -> lstep s s' [].
Proof.
  intros H1 H2. unfold addv. destruct (has_substring "__" n); [discriminate|].
  intros H. injection H as <-. now apply lstep_add_variable.
Qed.

Lemma addv_frame s n t s' : addv s n t = Ok s' -> frame s s'.
Proof.
  unfold addv. destruct (has_substring "__" n); [discriminate|]. intros H. injection H as <-. reflexivity.
Qed.

Lemma addvs_lstep : forall l s s', forallb lfree_b (map fst l) = true -> addvs s l = Ok s' -> lstep s s' [].
Proof.
  induction l as [|[n t] l IH]; intros s s' Hl H; simpl in H.
  - injection H as <-. apply lstep_refl.
  - simpl in Hl. apply andb_true_iff in Hl as [Hn Hl]. apply lfree_b_ok in Hn as [N1 N2].
    destruct (addv s n t) as [s1|] eqn:E; [|discriminate]. simpl in H.
    eapply lstep_nil_l; [eapply addv_lstep; eassumption|now apply IH].
Qed.

Lemma add_markets_lstep : forall l s s', add_markets s l = Ok s' -> lstep s s' [].
Proof.
  induction l as [|m l IH]; intros s s' H; simpl in H.
  - injection H as <-. apply lstep_refl.
  - unfold add_market in H at 1.
    set (t := if String.eqb (snd m) (country s) then "SUP_" ++ fst m else "SUP_" ++ snd m ++ "_" ++ fst m) in H.
    assert (N : t <> "F" /\ t <> "INC").
    { unfold t. destruct (String.eqb (snd m) (country s)); split; first [apply sup_not_F|apply sup_not_INC]. }
    destruct (addv s t "") as [s1|] eqn:E1; [|discriminate]. cbn [bind] in H.
    destruct (add_term_to_eq s1 "SUP" (1%Z, [t])) as [s2|] eqn:E2; [|discriminate]. cbn [bind] in H.
    eapply lstep_nil_l; [eapply addv_lstep; [apply N|apply N|exact E1]|].
    eapply lstep_nil_l; [eapply lstep_add_term_to_eq; [| |exact E2]; discriminate|now apply IH].
Qed.

Ltac bind_step H x E := match type of H with
  | bind ?r _ = Ok _ => destruct r as [x|] eqn:E; [cbn [bind] in H|discriminate H] end.

Lemma base_household_lstep i c cc ai af good s :
  base_household i c cc ai af good = Ok s -> lstep (base_sector i c cc true true false ["DEM_" ++ good]) s [].
Proof. unfold base_household. apply addvs_lstep. reflexivity. Qed.

Lemma base_market_lstep i c cc s : base_market i c cc = Ok s -> lstep (base_sector i c cc false false true []) s [].
Proof. unfold base_market. apply addvs_lstep. reflexivity. Qed.

(** the new object is its class's bare sector plus variables other than F and INC *)
Definition bare (i : nat) (c cc : string) (k : cls) : sector :=
  match k with
  | CHousehold _ _ good _ | CHouseholdExp _ _ good _ | CCapitalists _ _ good =>
      base_sector i c cc true true false ["DEM_" ++ good]
  | CTaxFlow _ _ => base_sector i c cc false false false []
  | CMarket | CMoneyMarket _ | CDepositMarket _ => base_sector i c cc false false true []
  | _ => base_sector i c cc true false false []
  end.

Theorem construct_lstep i cc c k mrefs s : construct i cc c k mrefs = Ok s -> lstep (bare i c cc k) s [].
Proof.
  destruct k; unfold construct, bare; intros H.
  - eapply addvs_lstep; [|exact H]; reflexivity.
  - eapply addvs_lstep; [|exact H]; reflexivity.
  - eapply addvs_lstep; [|exact H]; reflexivity.
  - bind_step H s1 E. eapply lstep_nil_l; [eapply base_household_lstep; exact E|].
    eapply addv_lstep; [| |exact H]; [apply sup_not_F|apply sup_not_INC].
  - bind_step H s1 E. bind_step H s2 E2.
    destruct (set_rhs s2 _ _) as [s3|] eqn:E3; [|discriminate].
    eapply lstep_nil_l; [eapply base_household_lstep; exact E|].
    eapply lstep_nil_l; [eapply addv_lstep; [| |exact E2]; [apply sup_not_F|apply sup_not_INC]|].
    eapply lstep_nil_l; [eapply lstep_set_rhs; [| |exact E3]; [apply dem_not_F|apply dem_not_INC]|].
    eapply addvs_lstep; [|exact H]; reflexivity.
  - bind_step H s1 E. eapply lstep_nil_l; [eapply base_household_lstep; exact E|].
    eapply addv_lstep; [| |exact H]; discriminate.
  - eapply addvs_lstep; [|exact H]; reflexivity.
  - bind_step H s1 E. bind_step H s2 E2.
    eapply lstep_nil_l; [eapply addv_lstep; [| |exact E]; discriminate|].
    eapply lstep_nil_l; [eapply add_markets_lstep; exact E2|].
    eapply addvs_lstep; [|exact H]; reflexivity.
  - eapply addvs_lstep; [|exact H]; reflexivity.
  - now apply base_market_lstep.
  - now apply base_market_lstep.
  - bind_step H s1 E. eapply lstep_nil_l; [eapply base_market_lstep; exact E|].
    eapply addvs_lstep; [|exact H]; reflexivity.
Qed.

(** the ledger of a sector as its constructor leaves it *)
Definition ledger_init (s : sector) : Prop :=
  if hasF s then F_of s = Some (mkEqn "" [(1%Z, ["LAG_F"])]) /\ INC_of s = Some (mkEqn "" [])
  else F_of s = None /\ INC_of s = None.

Lemma frame_hasF s s' : frame s s' -> hasF s' = hasF s.
Proof. intros H; rewrite H; reflexivity. Qed.
Lemma frame_country s s' : frame s s' -> country s' = country s.
Proof. intros H; rewrite H; reflexivity. Qed.
Lemma frame_is_market s s' : frame s s' -> is_market s' = is_market s.
Proof. intros H; rewrite H; reflexivity. Qed.

Lemma ext_eq_nil o o' : ext_eq o o' [] -> o' = o.
Proof. destruct o as [[b l]|]; simpl; [auto|now intros [-> _]]. Qed.

Lemma lstep_nil_F s s' : lstep s s' [] -> F_of s' = F_of s /\ INC_of s' = INC_of s.
Proof.
  intros [Hf HF (ti & Hi & HI)]. split; [now apply ext_eq_nil|].
  destruct ti as [|x ti]; [now apply ext_eq_nil|]. exfalso. apply (Hi x). now left.
Qed.

Lemma ledger_init_lstep s s' : lstep s s' [] -> ledger_init s -> ledger_init s'.
Proof.
  intros L. destruct (lstep_nil_F _ _ L) as [E1 E2]. unfold ledger_init.
  rewrite (frame_hasF _ _ (ls_frame _ _ _ L)), E1, E2. auto.
Qed.

Lemma bare_facts i c cc k : sid (bare i c cc k) = i /\ code (bare i c cc k) = c /\ country (bare i c cc k) = cc /\
  fullcode (bare i c cc k) = "" /\ ledger_init (bare i c cc k).
Proof. destruct k; unfold bare, ledger_init; simpl; repeat split. Qed.

Lemma construct_facts i cc c k mrefs s : construct i cc c k mrefs = Ok s ->
  sid s = i /\ code s = c /\ country s = cc /\ fullcode s = "" /\ ledger_init s.
Proof.
  intros H. apply construct_lstep in H. destruct (bare_facts i c cc k) as (B1 & B2 & B3 & B4 & B5).
  pose proof (ls_frame _ _ _ H) as Hf.
  rewrite (frame_sid _ _ Hf), (frame_code _ _ Hf), (frame_country _ _ Hf), (frame_fullcode _ _ Hf).
  repeat split; try assumption. eapply ledger_init_lstep; eassumption.
Qed.

(* ------------------------------------------------------------------ *)
(** * The construction phase *)
Local Open Scope list_scope.

Definition op_name_ok (o : uop) : Prop :=
  match o with
  | OAddVariable _ n _ | OSetExogenous _ n _ => n <> "F" /\ n <> "INC"
  | _ => True
  end.

(** no user operation names the ledger variables F and INC *)
Definition ledger_untouched (p : program) : Prop := forall o, List.In (StOp o) p -> op_name_ok o.

Lemma country_codes_app p q : country_codes (p ++ q) = (country_codes p ++ country_codes q)%list.
Proof. induction p as [|[c|ci c k|o] p IH]; simpl; [reflexivity|now rewrite IH|exact IH|exact IH]. Qed.

Lemma sector_decls_app p q : sector_decls (p ++ q) = (sector_decls p ++ sector_decls q)%list.
Proof. induction p as [|[c|ci c k|o] p IH]; simpl; [reflexivity|exact IH|now rewrite IH|exact IH]. Qed.

Lemma map_frame {X} (g : sector -> X) SL SL' : (forall s s', frame s s' -> g s' = g s) ->
  Forall2 frame SL SL' -> map g SL' = map g SL.
Proof. intros Hg H. induction H as [|a b l l' Hab _ IH]; simpl; [reflexivity|]. now rewrite (Hg _ _ Hab), IH. Qed.

Lemma upd_frame i f SL SL' : upd i f SL = Ok SL' -> (forall s s', f s = Ok s' -> frame s s') -> Forall2 frame SL SL'.
Proof.
  intros H Hf. revert SL' H. induction SL as [|a r IH]; intros SL' H; simpl in H; [discriminate|].
  destruct (Nat.eqb (sid a) i).
  - destruct (f a) as [a'|] eqn:Fa; [|discriminate]. injection H as <-. constructor; [now apply Hf|].
    apply Forall2_refl_frame.
  - destruct (upd i f r) as [r'|]; [|discriminate]. injection H as <-. constructor; [apply frame_refl|now apply IH].
Qed.

Definition pair_of (s : sector) : string * string := (country s, code s).

Record cinv (p : program) (st : cstate) : Prop := mkCinv {
  ci_countries : c_countries st = country_codes p;
  ci_cnodup : NoDup (c_countries st);
  ci_codes : map code (c_secs st) = map (fun d => snd (fst d)) (sector_decls p);
  ci_ctry : Forall2 (fun d cc => nth_error (c_countries st) (fst (fst d)) = Some cc)
                    (sector_decls p) (map country (c_secs st));
  ci_sids : map sid (c_secs st) = seq 0 (List.length (c_secs st));
  ci_pairs : NoDup (map pair_of (c_secs st));
  ci_fc : map fullcode (c_secs st) = map (fun _ => "") (c_secs st);
  ci_ledger : ledger_untouched p ->
              Forall ledger_init (c_secs st) /\
              Forall (fun x : nat * string * string => snd (fst x) <> "F" /\ snd (fst x) <> "INC") (c_exo st)
}.

(** operations that leave everything but the equations of existing sectors alone *)
Lemma cinv_same_statics p x st st' :
  cinv p st -> country_codes (p ++ [x]) = country_codes p -> sector_decls (p ++ [x]) = sector_decls p ->
  c_countries st' = c_countries st -> Forall2 frame (c_secs st) (c_secs st') ->
  (ledger_untouched (p ++ [x]) -> Forall ledger_init (c_secs st) ->
     Forall (fun y : nat * string * string => snd (fst y) <> "F" /\ snd (fst y) <> "INC") (c_exo st) ->
     Forall ledger_init (c_secs st') /\
     Forall (fun y : nat * string * string => snd (fst y) <> "F" /\ snd (fst y) <> "INC") (c_exo st')) ->
  cinv (p ++ [x]) st'.
Proof.
  intros [I1 I2 I3 I4 I5 I6 I7 I8] Hc Hd Hcs Hf HL.
  assert (Len : List.length (c_secs st') = List.length (c_secs st)).
  { clear -Hf. induction Hf; simpl; congruence. }
  constructor.
  - now rewrite Hcs, Hc.
  - now rewrite Hcs.
  - rewrite Hd, <- I3. apply map_frame; [apply frame_code|exact Hf].
  - rewrite Hd, Hcs, (map_frame country _ _ frame_country Hf). exact I4.
  - rewrite Len, <- I5. apply map_frame; [apply frame_sid|exact Hf].
  - rewrite (map_frame pair_of _ _ (fun s s' H => f_equal2 pair (frame_country _ _ H) (frame_code _ _ H)) Hf). exact I6.
  - rewrite (map_frame fullcode _ _ frame_fullcode Hf), I7. clear -Len.
    revert Len. generalize (c_secs st). induction (c_secs st') as [|a l IH]; intros [|b l2]; simpl; try discriminate; [reflexivity|].
    intros H. f_equal. apply IH. congruence.
  - intros LU. assert (LU0 : ledger_untouched p).
    { intros o Ho. apply LU. apply in_or_app. now left. }
    destruct (I8 LU0) as [A B]. now apply HL.
Qed.

Lemma on_sector_frame i f SL SL' : on_sector i f SL = Ok SL' -> (forall s s', f s = Ok s' -> frame s s') -> Forall2 frame SL SL'.
Proof. unfold on_sector. destruct (find_sec i SL); [|discriminate]. apply upd_frame. Qed.

Lemma on_sector_zstep i f SL SL' : on_sector i f SL = Ok SL' -> (forall s s', f s = Ok s' -> lstep s s' []) -> zstep nothing SL SL'.
Proof.
  unfold on_sector. destruct (find_sec i SL); [|discriminate]. intros H Hf.
  eapply zstep_upd; [exact H|]. intros x x' E. quiet_. now apply Hf.
Qed.

Lemma zstep_nothing_init SL SL' : zstep nothing SL SL' -> Forall ledger_init SL -> Forall ledger_init SL'.
Proof.
  intros H. induction H as [|a b l l' (ts & L & F) _ IH]; intros HI; [constructor|].
  inversion HI as [|? ? Ha Hl]; subst. constructor; [|now apply IH].
  destruct ts as [|t ts]; [eapply ledger_init_lstep; eassumption|]. inversion F as [|? ? []].
Qed.

Lemma country_codes_op p o : country_codes (p ++ [StOp o]) = country_codes p.
Proof. rewrite country_codes_app. simpl. apply app_nil_r. Qed.
Lemma sector_decls_op p o : sector_decls (p ++ [StOp o]) = sector_decls p.
Proof. rewrite sector_decls_app. simpl. apply app_nil_r. Qed.

Lemma untouched_last p x : ledger_untouched (p ++ [StOp x]) -> op_name_ok x.
Proof. intros H. apply H. apply in_or_app. right. now left. Qed.

Lemma run_op_cinv p st o st' : cinv p st -> run_op st o = Ok st' -> cinv (p ++ [StOp o]) st'.
Proof.
  intros CI H.
  assert (K : forall st'', c_countries st'' = c_countries st -> c_secs st'' = c_secs st -> c_exo st'' = c_exo st ->
              cinv (p ++ [StOp o]) st'').
  { intros st'' E1 E2 E3. eapply cinv_same_statics; [exact CI|apply country_codes_op|apply sector_decls_op|exact E1| |].
    - rewrite E2. apply Forall2_refl_frame.
    - intros _ A B. rewrite E2, E3. now split. }
  destruct o as [s n t|s n spec|src tgt var a b|m sup text|s ws res|s n value|cb tre]; simpl in H.
  - destruct (on_sector s _ (c_secs st)) as [SL|] eqn:E; [|discriminate]. cbn [bind] in H. injection H as <-.
    eapply cinv_same_statics; [exact CI|apply country_codes_op|apply sector_decls_op|reflexivity| |]; cbn [c_secs c_exo].
    + eapply on_sector_frame; [exact E|]. intros x x' Hx. eapply addv_frame; exact Hx.
    + intros LU A B. split; [|exact B]. apply untouched_last in LU. simpl in LU.
      eapply zstep_nothing_init; [|exact A]. eapply on_sector_zstep; [exact E|].
      intros x x' Hx. eapply addv_lstep; [apply LU|apply LU|exact Hx].
  - destruct (find_sec s (c_secs st)); [|discriminate]. injection H as <-.
    eapply cinv_same_statics; [exact CI|apply country_codes_op|apply sector_decls_op|reflexivity|apply Forall2_refl_frame|].
    cbn [c_secs c_exo]. intros LU A B. split; [exact A|]. apply untouched_last in LU. simpl in LU.
    apply Forall_app. split; [exact B|]. constructor; [exact LU|constructor].
  - destruct (find_sec src (c_secs st)); [|discriminate]. destruct (find_sec tgt (c_secs st)); [|discriminate].
    injection H as <-. now apply K.
  - destruct (find_sec m (c_secs st)); [|discriminate]. destruct (find_sec sup (c_secs st)); [|discriminate].
    destruct (has_add_supplier _); [|discriminate]. destruct (sup_of m (c_sup st)) as [res others].
    injection H as <-. now apply K.
  - destruct (on_sector s _ (c_secs st)) as [SL|] eqn:E; [|discriminate]. cbn [bind] in H. injection H as <-.
    eapply cinv_same_statics; [exact CI|apply country_codes_op|apply sector_decls_op|reflexivity| |]; cbn [c_secs c_exo].
    + eapply on_sector_frame; [exact E|]. intros x x' Hx. apply asset_weighting_lstep in Hx. apply (ls_frame _ _ _ Hx).
    + intros LU A B. split; [|exact B]. eapply zstep_nothing_init; [|exact A]. eapply on_sector_zstep; [exact E|].
      intros x x' Hx. eapply asset_weighting_lstep; exact Hx.
  - destruct (find_sec s (c_secs st)); [|discriminate]. injection H as <-. now apply K.
  - destruct (find_sec cb (c_secs st)); [|discriminate]. destruct (find_sec tre (c_secs st)); [|discriminate].
    injection H as <-. now apply K.
Qed.

Lemma run_step_cinv p st x st' : cinv p st -> run_step st x = Ok st' -> cinv (p ++ [x]) st'.
Proof.
  intros CI H. destruct x as [c|ci c k|o]; [| |eapply run_op_cinv; eassumption]; simpl in H.
  - destruct (mem c (c_countries st)) eqn:M; [discriminate|]. injection H as <-.
    destruct CI as [I1 I2 I3 I4 I5 I6 I7 I8].
    assert (D : sector_decls (p ++ [StCountry c]) = sector_decls p) by (rewrite sector_decls_app; apply app_nil_r).
    constructor; cbn [c_countries c_secs c_exo].
    + rewrite country_codes_app, I1. reflexivity.
    + apply NoDup_snoc; [exact I2|]. intros Hin. apply mem_In in Hin. congruence.
    + now rewrite D.
    + rewrite D. eapply Forall2_imp; [|exact I4]. intros d cc Hn. simpl in Hn.
      rewrite nth_error_app1; [exact Hn|]. apply nth_error_Some. congruence.
    + exact I5.
    + exact I6.
    + exact I7.
    + intros LU. apply I8. intros o Ho. apply LU. apply in_or_app. now left.
  - destruct (nth_error (c_countries st) ci) as [cc|] eqn:N; [|discriminate].
    destruct (existsb _ (c_secs st)) eqn:EX; [discriminate|].
    bind_step H mrefs E1. bind_step H s E2. injection H as <-.
    destruct (construct_facts _ _ _ _ _ _ E2) as (F1 & F2 & F3 & F4 & F5).
    destruct CI as [I1 I2 I3 I4 I5 I6 I7 I8].
    assert (D : sector_decls (p ++ [StSector ci c k]) = sector_decls p ++ [(ci, c, k)]) by (now rewrite sector_decls_app).
    assert (C : country_codes (p ++ [StSector ci c k]) = country_codes p) by (rewrite country_codes_app; apply app_nil_r).
    constructor; cbn [c_countries c_secs c_exo].
    + now rewrite C.
    + exact I2.
    + rewrite D, !map_app, I3. simpl. now rewrite F2.
    + rewrite D, map_app. apply Forall2_app; [exact I4|]. simpl. constructor; [|constructor]. simpl. now rewrite F3.
    + rewrite map_app, app_length, I5. simpl. rewrite F1, Nat.add_1_r, seq_S. reflexivity.
    + rewrite map_app. simpl. apply NoDup_snoc; [exact I6|]. intros Hin. apply in_map_iff in Hin as (s0 & P & Hin).
      assert (T : existsb (fun s1 => in_country cc s1 && String.eqb (code s1) c) (c_secs st) = true).
      { apply existsb_exists. exists s0. split; [exact Hin|]. unfold pair_of in P. rewrite F3, F2 in P.
        injection P as P1 P2. unfold in_country. rewrite P1, P2, !String.eqb_refl. reflexivity. }
      congruence.
    + rewrite !map_app, I7. simpl. now rewrite F4.
    + intros LU. assert (LU0 : ledger_untouched p).
      { intros o Ho. apply LU. apply in_or_app. now left. }
      destruct (I8 LU0) as [A B]. split; [|exact B]. apply Forall_app. split; [exact A|]. constructor; [exact F5|constructor].
Qed.

Lemma cinv_init : cinv [] c_init.
Proof.
  constructor; simpl; [reflexivity|constructor|reflexivity|constructor|reflexivity|constructor|reflexivity|intros _; split; constructor].
Qed.

Theorem construct_all_cinv p st : construct_all p = Ok st -> cinv p st.
Proof.
  unfold construct_all. revert st. induction p as [|x p IH] using rev_ind; intros st H.
  - simpl in H. injection H as <-. apply cinv_init.
  - apply foldM_app in H as (st1 & H1 & H2). simpl in H2.
    destruct (run_step st1 x) as [st2|] eqn:E; [|discriminate]. injection H2 as <-.
    eapply run_step_cinv; [apply IH; exact H1|exact E].
Qed.

(* ------------------------------------------------------------------ *)
(** * Model.main() as a chain of steps *)

Inductive event :=
| EGen (ik : nat * cls) (Z : zone)                 (* sector._GenerateEquations(), zone before the call *)
| EFlow (f : flow) (Z : zone)                      (* one registered cash flow *)
| EExo (x : nat * string * string) (Z : zone).     (* one exogenous variable *)

Definition ev_terms (e : event) : sector -> term -> Prop :=
  match e with
  | EGen ik Z => gen_terms ik Z
  | EFlow f Z => flow_terms f Z
  | EExo _ _ => nothing
  end.

Definition run_events (R : run) : list event :=
  map (fun x => EGen (fst (fst x)) (g_zone (snd (fst x)))) (r_gen R) ++
  map (fun x => EFlow (fst (fst x)) (snd (fst x))) (r_flows R) ++
  map (fun x => EExo (fst (fst x)) (snd (fst x))) (r_exo R).

Definition is_multi (st : cstate) : bool := Nat.ltb 1 (List.length (c_countries st)).

Definition zone0 (st : cstate) : zone :=
  zone_order (c_countries st) (map (set_fullcode (is_multi st)) (c_secs st)).

Lemma main_run_inv st R : main_run st = Ok R ->
  exists gfin Z1,
    r_zone0 R = zone0 st /\ r_info R = mkI (c_classes st) (c_sup st) /\
    chain (gen_step (r_info R)) (r_gen R) (mkG (zone0 st) (c_flows st)) gfin /\
    map (fun x => fst (fst x)) (r_gen R) = map (fun s => (sid s, class_of (c_classes st) (sid s))) (zone0 st) /\
    chain flow_step (r_flows R) (g_zone gfin) Z1 /\
    map (fun x => fst (fst x)) (r_flows R) = g_flows gfin /\
    chain exo_step (r_exo R) Z1 (fs_zone (r_final R)) /\
    map (fun x => fst (fst x)) (r_exo R) = c_exo st /\
    fs_rows (r_final R) = zone_rows (fs_zone (r_final R)) /\
    ic_rows (fs_zone (r_final R)) (c_ic st) = Ok (fs_ic (r_final R)).
Proof.
  unfold main_run. fold (is_multi st). fold (zone0 st). intros H.
  bind_step H g E1. bind_step H f E2. bind_step H x E3. bind_step H ics E4.
  destruct g as [trg gfin], f as [trf Z1], x as [trx Zf]. cbn [fst snd] in *.
  apply run_trace_chain in E1 as [C1 M1]. apply run_trace_chain in E2 as [C2 M2]. apply run_trace_chain in E3 as [C3 M3].
  assert (HR : R = mkRun (mkI (c_classes st) (c_sup st)) (zone0 st) trg trf trx (mkFS Zf (zone_rows Zf) ics)).
  { destruct (zone_rows Zf); [destruct ics; [discriminate|]|]; now injection H as <-. }
  subst R. cbn. exists gfin, Z1. repeat split; assumption.
Qed.

Lemma Forall2_map_l {X Y Z} (g : X -> Y) (P : Y -> Z -> Prop) l l' :
  Forall2 (fun x z => P (g x) z) l l' -> Forall2 P (map g l) l'.
Proof. intros H. induction H; simpl; constructor; auto. Qed.

Lemma Forall2_trans_rel {X} (P Q R : X -> X -> Prop) l1 l2 l3 :
  (forall a b c, P a b -> Q b c -> R a c) -> Forall2 P l1 l2 -> Forall2 Q l2 l3 -> Forall2 R l1 l3.
Proof.
  intros H H1. revert l3. induction H1 as [|a b l1 l2 Hab _ IH]; intros l3 H2; inversion H2; subst; constructor; eauto.
Qed.

(** sector by sector: what the whole of main() did to the ledger *)
Definition run_rel (R : run) (s sf : sector) : Prop :=
  exists tss, Forall2 (fun e ts => Forall (ev_terms e s) ts) (run_events R) tss /\ lstep s sf (List.concat tss).

Lemma ev_terms_stable e : frame_stable (ev_terms e).
Proof.
  destruct e; simpl; [apply gen_terms_stable|apply flow_terms_stable|intros s s' t _ []].
Qed.

Lemma concat_app3 {X} (a b c : list (list X)) : List.concat (a ++ b ++ c) = List.concat a ++ List.concat b ++ List.concat c.
Proof. now rewrite !concat_app. Qed.

Theorem main_run_ledger st R : main_run st = Ok R ->
  Forall (fun x : nat * string * string => snd (fst x) <> "F" /\ snd (fst x) <> "INC") (c_exo st) ->
  Forall2 (run_rel R) (r_zone0 R) (fs_zone (r_final R)).
Proof.
  intros H HX. destruct (main_run_inv _ _ H) as (gfin & Z1 & E0 & EI & C1 & M1 & C2 & M2 & C3 & M3 & _).
  rewrite E0.
  pose proof (chain_zstep (gen_step (r_info R)) g_zone (fun b st0 => gen_terms b (g_zone st0)) (fun _ => True)
                (fun st0 b st' _ Hs => gen_step_zstep _ _ _ _ Hs) (fun b st0 => gen_terms_stable b (g_zone st0))
                _ _ _ C1 (proj2 (Forall_forall _ _) (fun _ _ => I))) as G1.
  pose proof (chain_zstep flow_step (fun Z => Z) (fun b Z => flow_terms b Z) (fun _ => True)
                (fun Z b Z' _ Hs => flow_zstep _ _ _ Hs) (fun b Z => flow_terms_stable b Z)
                _ _ _ C2 (proj2 (Forall_forall _ _) (fun _ _ => I))) as G2.
  assert (PX : Forall (fun x : (nat * string * string) * zone * zone => snd (fst (fst (fst x))) <> "F" /\ snd (fst (fst (fst x))) <> "INC") (r_exo R)).
  { rewrite <- M3 in HX. rewrite Forall_map in HX. exact HX. }
  pose proof (chain_zstep exo_step (fun Z => Z) (fun _ _ => nothing) (fun b => snd (fst b) <> "F" /\ snd (fst b) <> "INC")
                (fun Z b Z' Hb Hs => exo_zstep _ _ _ Hs (proj1 Hb) (proj2 Hb)) (fun b Z s s' t _ (Hn : nothing s' t) => Hn)
                _ _ _ C3 PX) as G3.
  cbn [g_zone] in G1.
  set (ev23 := map (fun x : flow * zone * zone => EFlow (fst (fst x)) (snd (fst x))) (r_flows R) ++
               map (fun x : (nat * string * string) * zone * zone => EExo (fst (fst x)) (snd (fst x))) (r_exo R)).
  assert (G23 : Forall2 (fun b c => exists tss, Forall2 (fun e ts => Forall (ev_terms e b) ts) ev23 tss /\
                                      lstep b c (List.concat tss)) (g_zone gfin) (fs_zone (r_final R))).
  { eapply Forall2_trans_rel; [|exact G2|exact G3].
    intros a b c (t2 & F2 & L2) (t3 & F3 & L3). exists (t2 ++ t3). split; [|rewrite concat_app; eapply lstep_trans; eassumption].
    apply Forall2_app; [apply Forall2_map_l; exact F2|]. apply Forall2_map_l.
    eapply Forall2_imp; [|exact F3]. intros e ts. apply Forall_impl. intros t []. }
  eapply Forall2_trans_rel; [|exact G1|exact G23].
  intros a b c (t1 & F1 & L1) (t23 & F23 & L23). exists (t1 ++ t23). split; [|rewrite concat_app; eapply lstep_trans; eassumption].
  unfold run_events. apply Forall2_app; [apply Forall2_map_l; exact F1|].
  eapply Forall2_imp; [|exact F23]. intros e ts. apply Forall_impl. intros t. apply ev_terms_stable. apply (ls_frame _ _ _ L1).
Qed.
