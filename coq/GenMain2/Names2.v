(** Theorems 1 and 2 for the multi-currency pipeline model ([Main2.build2]). *)
From Coq Require Import List String Ascii Bool ZArith Arith Lia.
From SFC.Base Require Import Res Str Sorting.
From SFC.Gen Require Import Fx Zone.
From SFC.GenMarket Require Import Market MarketProofs.
From SFC.GenTax Require Import Tax TaxProofs DividendProofs.
From SFC.GenAsset Require Import WeightingProofs.
From SFC.GenMain2 Require Import Program Classes Main Ledger MainProofs Names Program2 Main2 Ledger2 MainProofs2.
Import ListNotations.
Local Open Scope string_scope.
Local Open Scope list_scope.

Theorem main_run2_frame st Rn : main_run2 st = Ok Rn -> Forall2 frame (zone02 st) (fs_zone (q_final Rn)).
Proof.
  intros H. destruct (main_run2_inv _ _ H) as (gfin & Z1 & E0 & EI & C1 & M1 & C2 & C3 & M3 & _).
  eapply Forall2_trans_frame; [|eapply Forall2_trans_frame].
  - apply (chain_frames (gen_step2 (q_info Rn)) h_zone (fun a b c Hs => zstep_frame _ _ _ (gen_step2_zstep _ _ _ _ Hs)) _ _ _ C1).
  - apply (chain_frames (flow_step2 (q_info Rn)) (fun Z => Z) (fun a b c Hs => zstep_frame _ _ _ (flow2_zstep _ _ _ _ Hs)) _ _ _ C2).
  - apply (chain_frames exo_step (fun Z => Z) exo_step_frame _ _ _ C3).
Qed.

Lemma build_run2_inv p Rn : build_run2 p = Ok Rn -> exists st, construct_all2 p = Ok st /\ main_run2 st = Ok Rn.
Proof. unfold build_run2. destruct (construct_all2 p) as [st|]; [|discriminate]. simpl. eauto. Qed.

Lemma build2_inv p E : build2 p = Ok E -> exists Rn, build_run2 p = Ok Rn /\ E = q_final Rn.
Proof. unfold build2. destruct (build_run2 p) as [Rn|]; [|discriminate]. simpl. intros H. injection H as <-. eauto. Qed.

Lemma zone02_In st s0 : List.In s0 (zone02 st) ->
  exists s, List.In s (k_secs st) /\ s0 = set_fullcode (is_multi2 st) s /\ List.In (country s) (map fst (k_countries st)).
Proof.
  unfold zone02, zone_order. intros H. apply in_flat_map in H as (cc & Hc & H).
  apply filter_In in H as [H Hcc]. apply in_map_iff in H as (s & <- & Hs).
  exists s. split; [exact Hs|]. split; [reflexivity|].
  unfold in_country in Hcc. simpl in Hcc. apply String.eqb_eq in Hcc. now rewrite Hcc.
Qed.

Lemma decl_of2 (P : nat * string * cls2 -> string -> Prop) : forall decls secs,
  map code secs = map (fun d : nat * string * cls2 => snd (fst d)) decls ->
  Forall2 P decls (map country secs) ->
  forall s, List.In s secs -> exists d, List.In d decls /\ snd (fst d) = code s /\ P d (country s).
Proof.
  induction decls as [|d decls IH]; intros [|a secs] Hc Hp s Hs; simpl in *; try discriminate; try contradiction.
  inversion Hp as [|? ? ? ? Hd Hr]; subst. injection Hc as Hc1 Hc2.
  destruct Hs as [<-|Hs].
  - exists d. auto.
  - destruct (IH _ Hc2 Hr s Hs) as (d' & D1 & D2 & D3). exists d'. auto.
Qed.

(** Theorem 1a for the extended language *)
Theorem main2_canonical_names p E : build2 p = Ok E ->
  forall r, List.In r (fs_rows E) ->
  exists ci c k cc s n,
    List.In (ci, c, k) (sector_decls2 p) /\ nth_error (country_codes2 p) ci = Some cc /\
    List.In s (fs_zone E) /\ code s = c /\ country s = cc /\ has_var s n = true /\
    fullcode s = (if multi_country2 p then (cc ++ "_" ++ c)%string else c) /\
    r_lhs r = (fullcode s ++ "__" ++ n)%string.
Proof.
  intros HB r Hr. apply build2_inv in HB as (Rn & HR & ->). apply build_run2_inv in HR as (st & HC & HM).
  pose proof (construct_all2_cinv _ _ HC) as CI. pose proof (main_run2_frame _ _ HM) as FR.
  destruct (main_run2_inv _ _ HM) as (_ & _ & _ & _ & _ & _ & _ & _ & _ & ROWS).
  rewrite ROWS in Hr. apply rows_In in Hr as (sf & n & Hsf & Hn & ->).
  destruct (Forall2_In_r _ _ _ _ FR Hsf) as (s0 & Hs0 & F0).
  apply zone02_In in Hs0 as (s & Hs & -> & _).
  destruct (decl_of2 _ _ _ (d_codes _ _ _ _ CI) (d_ctry _ _ _ _ CI) s Hs) as ([[ci c] k] & D1 & D2 & D3). simpl in D2, D3.
  exists ci, c, k, (country s), sf, n.
  assert (FC : fullcode sf = full_code (is_multi2 st) (country s) (code s)) by (rewrite (frame_fullcode _ _ F0); reflexivity).
  assert (MC : multi_country2 p = is_multi2 st).
  { unfold multi_country2, is_multi2. rewrite <- (map_length fst (k_countries st)), (d_countries _ _ _ _ CI).
    unfold country_codes2. now rewrite map_length. }
  split; [exact D1|]. split; [now rewrite <- (d_countries _ _ _ _ CI)|]. split; [exact Hsf|].
  split; [rewrite (frame_code _ _ F0); simpl; now rewrite D2|].
  split; [rewrite (frame_country _ _ F0); reflexivity|]. split; [exact Hn|].
  split; [|reflexivity]. rewrite FC, MC, D2. reflexivity.
Qed.

Lemma zone02_nodup p st : cinv2 p st -> NoDup (zone02 st).
Proof.
  intros CI. unfold zone02, zone_order.
  assert (N : NoDup (map (set_fullcode (is_multi2 st)) (k_secs st))).
  { apply (NoDup_map_inv pair_of). rewrite map_map. exact (d_pairs _ _ _ _ CI). }
  apply (NoDup_flat_map _ (fun cc : string => cc)).
  - rewrite map_id. exact (d_cnodup _ _ _ _ CI).
  - intros cc _. now apply NoDup_filter.
  - intros x y z _ _ Hx Hy. apply filter_In in Hx as [_ Hx]. apply filter_In in Hy as [_ Hy].
    unfold in_country in *. apply String.eqb_eq in Hx, Hy. congruence.
Qed.

Definition countries_wf2 (p : program2) : bool :=
  negb (multi_country2 p) || forallb (fun cc => negb (contains_char "_"%char cc)) (country_codes2 p).

Lemma fullcodes2_nodup p st : cinv2 p st -> countries_wf2 p = true -> NoDup (map fullcode (zone02 st)).
Proof.
  intros CI CW. apply NoDup_map_inj; [eapply zone02_nodup; exact CI|].
  intros x y Hx Hy E. apply zone02_In in Hx as (s & Hs & -> & Cs). apply zone02_In in Hy as (s' & Hs' & -> & Cs').
  f_equal. apply (NoDup_map_In_inj pair_of _ (d_pairs _ _ _ _ CI)); [exact Hs|exact Hs'|].
  simpl in E. unfold full_code in E. unfold pair_of.
  assert (MC : multi_country2 p = is_multi2 st).
  { unfold multi_country2, is_multi2. rewrite <- (map_length fst (k_countries st)), (d_countries _ _ _ _ CI).
    unfold country_codes2. now rewrite map_length. }
  destruct (is_multi2 st) eqn:M.
  - unfold countries_wf2 in CW. rewrite MC in CW. simpl in CW. rewrite forallb_forall in CW.
    rewrite <- (d_countries _ _ _ _ CI) in CW.
    pose proof (CW _ Cs) as W1. pose proof (CW _ Cs') as W2. apply negb_true_iff in W1, W2.
    destruct (full_code_inj _ _ _ _ W1 W2 E) as [-> ->]. reflexivity.
  - f_equal; [|exact E]. unfold is_multi2 in M. apply Nat.ltb_ge in M. rewrite <- (map_length fst) in M.
    destruct (map fst (k_countries st)) as [|c1 [|c2 l]]; simpl in *; try lia; try contradiction.
    destruct Cs as [<-|[]], Cs' as [<-|[]]. reflexivity.
Qed.

(** Theorem 1b for the extended language *)
Theorem main2_defined_once p E : build2 p = Ok E -> countries_wf2 p = true -> names_wf E = true ->
  NoDup (map r_lhs (fs_rows E)).
Proof.
  intros HB CW NW. apply build2_inv in HB as (Rn & HR & ->). apply build_run2_inv in HR as (st & HC & HM).
  pose proof (construct_all2_cinv _ _ HC) as CI. pose proof (main_run2_frame _ _ HM) as FR.
  destruct (main_run2_inv _ _ HM) as (_ & _ & _ & _ & _ & _ & _ & _ & _ & ROWS).
  rewrite ROWS, lhs_rows. unfold names_wf in NW. rewrite forallb_forall in NW.
  apply (NoDup_flat_map _ fullcode).
  - rewrite (map_frame fullcode _ _ frame_fullcode FR). eapply fullcodes2_nodup; eassumption.
  - intros s _. apply NoDup_map_inj; [apply sort_NoDup, NoDup_nodup|].
    intros x y _ _ E. apply append_inj_l in E. now apply append_inj_l in E.
  - intros x y z Hx Hy Hzx Hzy. apply in_map_iff in Hzx as (n & <- & Hn). apply in_map_iff in Hzy as (n' & E & Hn').
    apply (proj1 (sort_In _ _)) in Hn, Hn'.
    pose proof (NW _ Hx) as Wx. pose proof (NW _ Hy) as Wy. apply andb_true_iff in Wx as [X1 X2], Wy as [Y1 Y2].
    apply negb_true_iff in X1, Y1. rewrite forallb_forall in X2, Y2.
    symmetry in E. destruct (full_name_inj _ _ _ _ X1 Y1 (lead_ok_no_lead _ (X2 _ Hn)) (lead_ok_no_lead _ (Y2 _ Hn')) E) as [E1 _].
    exact E1.
Qed.

Theorem main2_codes_distinct p E : build2 p = Ok E ->
  NoDup (country_codes2 p) /\ NoDup (map (fun s => (country s, code s)) (fs_zone E)).
Proof.
  intros HB. apply build2_inv in HB as (Rn & HR & ->). apply build_run2_inv in HR as (st & HC & HM).
  pose proof (construct_all2_cinv _ _ HC) as CI. pose proof (main_run2_frame _ _ HM) as FR.
  split; [rewrite <- (d_countries _ _ _ _ CI); exact (d_cnodup _ _ _ _ CI)|].
  change (fun s => (country s, code s)) with pair_of.
  rewrite (map_frame pair_of _ _ (fun s s' H => f_equal2 pair (frame_country _ _ H) (frame_code _ _ H)) FR).
  apply NoDup_map_inj; [eapply zone02_nodup; exact CI|].
  intros x y Hx Hy E0. apply zone02_In in Hx as (s & Hs & -> & _). apply zone02_In in Hy as (s' & Hs' & -> & _).
  f_equal. apply (NoDup_map_In_inj pair_of _ (d_pairs _ _ _ _ CI)); assumption.
Qed.

Lemma zone02_ledger_init p st : cinv2 p st -> ledger_untouched2 p -> Forall ledger_init (zone02 st).
Proof.
  intros CI LU. destruct (d_ledger _ _ _ _ CI LU) as [A _]. rewrite Forall_forall in *. intros s0 H0.
  apply zone02_In in H0 as (s & Hs & -> & _). exact (A _ Hs).
Qed.

(** Theorem 2 for the extended language: as Main_ledger_decomposition, with the terms a market books
    on a supplier in another zone (allocation times cross rate), the terms of a cross-zone flow and the
    gold purchases among the allowed kinds ([ev_terms2]). *)
Theorem main2_ledger_decomposition p Rn : build_run2 p = Ok Rn -> ledger_untouched2 p ->
  Forall2 (fun s sf =>
    frame s sf /\
    exists tss, Forall2 (fun e ts => Forall (ev_terms2 e s) ts) (run_events2 Rn) tss /\
      (if hasF s
       then F_of sf = Some (mkEqn "" (extend (List.concat tss) [(1%Z, ["LAG_F"])])) /\
            exists ti, incl ti (List.concat tss) /\ INC_of sf = Some (mkEqn "" (extend ti []))
       else F_of sf = None /\ INC_of sf = None /\ List.concat tss = []))
    (q_zone0 Rn) (fs_zone (q_final Rn)).
Proof.
  intros HR LU. apply build_run2_inv in HR as (st & HC & HM).
  pose proof (construct_all2_cinv _ _ HC) as CI. destruct (d_ledger _ _ _ _ CI LU) as (_ & HX & _).
  pose proof (main_run2_ledger _ _ HM HX) as RL. pose proof (zone02_ledger_init _ _ CI LU) as LI.
  destruct (main_run2_inv _ _ HM) as (_ & _ & E0 & _). rewrite E0 in *. clear E0.
  revert LI. induction RL as [|s sf Z Zf (tss & FF & L) _ IH]; intros LI; [constructor|].
  inversion LI as [|? ? Hs Hl]; subst. constructor; [|now apply IH].
  split; [apply (ls_frame _ _ _ L)|]. exists tss. split; [exact FF|].
  destruct L as [Lf LF (ti & Hi & LI')]. unfold ledger_init in Hs. destruct (hasF s).
  - destruct Hs as [HF HI]. rewrite HF in LF. rewrite HI in LI'. simpl in LF, LI'. split; [exact LF|]. eauto.
  - destruct Hs as [HF HI]. rewrite HF in LF. rewrite HI in LI'. simpl in LF, LI'. destruct LF as [-> ->]. destruct LI' as [-> _]. auto.
Qed.
