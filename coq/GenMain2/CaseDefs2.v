(** Boolean comparison for the multi-currency whole-program correspondence (harness/gen_main2.py):
    as CaseDefs.main_case, for [Main2.build2]. *)
From Coq Require Import List String Ascii Bool ZArith Arith.
From SFC.Base Require Import Res Str.
From SFC.Gen Require Import Fx Zone.
From SFC.GenMain2 Require Import Program Classes Main CaseDefs Program2 Main2.
Import ListNotations.
Local Open Scope string_scope.

Definition main2_case (p : program2) (x : expected) : bool :=
  match build2 p, x with
  | Err e, ExpErr e' => err_eqb e e'
  | Ok E, ExpOk endo lag exo ic =>
      pairs_eqb (endo_rows E) endo && pairs_eqb (lag_rows E) lag && pairs_eqb (exo_rows E) exo &&
      ic_eqb (fs_ic E) ic
  | _, _ => false
  end.

Definition show2 (p : program2) :=
  match build2 p with
  | Err e => Err e
  | Ok E => Ok (endo_rows E, lag_rows E, exo_rows E, fs_ic E)
  end.
