(** Concrete multi-currency programs: an open economy (two currency zones, ExternalSector between
    the countries, a cross-zone gift, an import from the other zone), a gold-standard variant, and a
    miniature in which a user AddVariable overwrites NET_<currency> ([no_conflict2] fails, C07 fails). *)
From Coq Require Import List String Bool ZArith Arith Lia Reals Lra.
From SFC.Base Require Import Res Str Sorting.
From SFC.Gen Require Import Fx Flows Zone.
From SFC.GenTax Require Import Tax TaxProofs.
From SFC.GenMain2 Require Import Program Classes Main Conflict Balance Witness Program2 Main2 Conflict2 Zones.
Import ListNotations.
Local Open Scope string_scope.

Definition economy (ci : nat) (gov : cls2) : list step2 :=
  [ S2Sector ci "GOV" gov;
    S2Sector ci "HH" (COld (CHousehold "0.6000" "0.4000" "GOOD" "LAB"));
    S2Sector ci "BUS" (COld (CBusiness true "1.000" "0.000" "LAB" "GOOD"));
    S2Sector ci "TF" (COld (CTaxFlow "0.2000" "GOV"));
    S2Sector ci "LAB" (COld CMarket);
    S2Sector ci "GOOD" (COld CMarket) ].

Definition open_ops : list step2 :=
  [ S2Op (UOld (OSetExogenous 0 "DEM_GOOD" "[20.0]*40"));
    S2Op (UOld (OSetExogenous 9 "DEM_GOOD" "[25.0]*40"));
    S2Op (UOld (OSetExogenous 6 "CA" "[1.2]*3 + [0.9]*40"));
    S2Op (UOld (OAddVariable 1 "REMIT" "1.5"));
    S2Op (UOld (ORegisterCashFlow 1 10 "REMIT" true false));
    S2Op (UOld (OAddSupplier 5 11 (Some "0.1*DEM_GOOD"))) ].

(** CA, then the ExternalSector, then US; CA_HH sends a gift to US_HH; US_BUS supplies part of CA's goods *)
Definition p_OPEN : program2 :=
  ([S2Country "CA" None false] ++ economy 0 (COld CGov) ++ [S2External; S2Country "US" None false] ++
   economy 2 (COld CGov) ++ open_ops)%list.

(** the same with a gold-standard government in CA *)
Definition p_GOLD : program2 :=
  ([S2Country "CA" None false] ++ economy 0 (CGoldGov "10.0") ++ [S2External; S2Country "US" None false] ++
   economy 2 (COld CGov) ++ open_ops)%list.

Lemma OPEN_no_conflict : is_ok (build2 p_OPEN) = true /\ no_conflict2 p_OPEN = true.
Proof. vm_compute. split; reflexivity. Qed.
Lemma GOLD_no_conflict : is_ok (build2 p_GOLD) = true /\ no_conflict2 p_GOLD = true.
Proof. vm_compute. split; reflexivity. Qed.

(** single-currency programs are programs of the extended language *)
Lemma SIM_embedded : is_ok (build2 (map embed_step p_SIM)) = true /\ no_conflict2 (map embed_step p_SIM) = true.
Proof. vm_compute. split; reflexivity. Qed.

(* ------------------------------------------------------------------ *)
(** * An overwritten NET equation *)

Definition p_bad2 : program2 :=
  [ S2Country "CA" None false; S2External; S2Op (UOld (OAddVariable 1 "NET_CA" "5.")) ].

Definition R_bad2 : run2 :=
  match build_run2 p_bad2 with Ok r => r | Err _ => mkRun2 (mkI2 [] [] [] None) [] [] [] [] (mkFS [] [] []) end.

Local Open Scope R_scope.
Definition v_bad2 (x : string) : R :=
  if String.eqb x "EXT_FX__NET_CA" then 5 else if String.eqb x "EXT_XR__CA" then 1
  else if String.eqb x "EXT_XR__NUMERAIRE" then 1 else if String.eqb x "EXT_XR__NUMERAIRE_CA" then 1 else 0.
Definition bv_bad2 (fc b : string) : R := if String.eqb b "5." then 5 else if String.eqb b "1.0" then 1 else 0.

Theorem overwritten_net_refuted :
  build_run2 p_bad2 = Ok R_bad2 /\ no_conflict2 p_bad2 = false /\
  sat (q_final R_bad2) v_bad2 (fun _ => 0) bv_bad2 /\
  rates_ok2 ["CA"; "NUMERAIRE"] v_bad2 /\
  TaxProofs.sumR (fun c => v_bad2 (net_key c) * rate v_bad2 c) (zones_of (j_countries (q_info R_bad2))) = 5.
Proof.
  split; [vm_compute; reflexivity|]. split; [vm_compute; reflexivity|]. split; [|split].
  - apply sat_intro. set (L := compiled (q_final R_bad2)). vm_compute in L. subst L.
    repeat constructor; unfold sem1, eqn_val, v_bad2, bv_bad2; simpl; unfold tval_in; simpl; lra.
  - intros a b Ha Hb Nb Nab. simpl in Ha, Hb. destruct Hb as [<-|[<-|[]]]; [|exfalso; now apply Nb].
    destruct Ha as [<-|[<-|[]]]; [exfalso; now apply Nab|]. unfold v_bad2; simpl; split; lra.
  - set (Z := zones_of (j_countries (q_info R_bad2))). vm_compute in Z. subst Z.
    unfold v_bad2, rate. simpl. lra.
Qed.
