#!/bin/bash
# Build one Coq family directory (and, first, the families listed in its DEPS file).
# Usage: coq/build.sh <Family> [make-args...]
# Each family is its own coq_makefile project: -Q . SFC.<Family> plus -Q ../<Dep> SFC.<Dep>.
# Full .vo builds only (no -vos/-vok).  Serialised per family with flock.
set -u
here="$(cd "$(dirname "$0")" && pwd)"
fam="$1"; shift
dir="$here/$fam"
[ -d "$dir" ] || { echo "no such family: $fam" >&2; exit 2; }
deps=""
[ -f "$dir/DEPS" ] && deps="$(grep -v '^#' "$dir/DEPS" | tr '\n' ' ')"
for d in $deps; do
  "$here/build.sh" "$d" >/dev/null 2>"$dir/.dep_$d.log" || { echo "dependency $d failed to build:" >&2; cat "$dir/.dep_$d.log" >&2; exit 1; }
done
(
  flock 9
  cd "$dir"
  {
    echo "-Q . SFC.$fam"
    for d in $deps; do echo "-Q ../$d SFC.$d"; done
    # transitive deps
    for d in $deps; do
      if [ -f "../$d/DEPS" ]; then for e in $(grep -v '^#' "../$d/DEPS"); do echo "-Q ../$e SFC.$e"; done; fi
    done | sort -u
    echo "-arg -w -arg -all"
    find . -name '*.v' ! -path './Cases/*' ! -name '.*' | sed 's|^\./||' | LC_ALL=C sort
  } > _CoqProject.new
  if ! cmp -s _CoqProject.new _CoqProject 2>/dev/null; then mv _CoqProject.new _CoqProject; coq_makefile -f _CoqProject -o Makefile.coq >/dev/null; else rm -f _CoqProject.new; fi
  [ -f Makefile.coq ] || coq_makefile -f _CoqProject -o Makefile.coq >/dev/null
  timeout "${COQ_BUILD_TIMEOUT:-1500}" make -f Makefile.coq -j"${COQ_JOBS:-8}" "$@"
) 9>"$dir/.build.lock"
