(** Model of how a goods / labour [Market] (sfc_models/sector.py, class Market) generates its
    equations, step by step on the shared state of coq/Gen/Zone.v.

    A currency zone is the list [CurrencyZone.GetSectors()] (countries of the zone in creation
    order, each with its sectors in creation order); the market is one of these sectors,
    identified by its [sid].  Full codes are already assigned (Model._GenerateFullSectorCodes has
    run).  A supplier in another currency lives in a second zone ([abroad]); the foreign-exchange
    intermediary's NET_<currency> equations are an [Fx.ledger] (keys = currencies), booked with
    [Fx.fx_step] exactly as external.py books them; [None] = the model has no ExternalSector.

    What is a *blob* in the Python (an unparsed right-hand side) and what is a *term list*:
      - the user's allocation text of a non-residual supplier stays an opaque blob;
      - three right-hand sides the market writes as text are kept here in parsed form, an
        equation with empty blob and a term list, so that they have a meaning ([Zone.eqn_val]):
          DEM_<code>               '+'-joined full names of the demand variables  -> terms (1,[full_i])
          SUP_<code>               the text 'DEM_<code>'                           -> terms (1,["DEM_<code>"])
          SUP_<residual fullcode>  'SUP_<code>-SUP_<other1>-...' (Equation.RHS())   -> terms
        The harness parses these three blob texts back into (coefficient, name) lists before
        comparing: the correspondence is exact on the set and the multiplicity of the summands,
        not on the spelling of the text.

    Errors are values.  [Err KeyError] also stands for "the sector object does not exist", which
    no Python call can produce (suppliers are objects); the harness never builds such inputs. *)
From Coq Require Import List String Bool ZArith Arith.
From SFC.Base Require Import Res Str.
From SFC.Gen Require Import Fx Zone.
Import ListNotations.
Local Open Scope string_scope.

(* ------------------------------------------------------------------ *)
(** * Zones as object stores *)

Definition find_sec (i : nat) (Z : zone) : option sector :=
  find (fun s => Nat.eqb (sid s) i) Z.

(** mutate the object with ID [i] (the first one, IDs are unique in the Python) *)
Fixpoint upd (i : nat) (f : sector -> result sector) (Z : zone) : result zone :=
  match Z with
  | [] => Err KeyError
  | s :: r =>
      if Nat.eqb (sid s) i then
        match f s with Ok s' => Ok (s' :: r) | Err e => Err e end
      else
        match upd i f r with Ok r' => Ok (s :: r') | Err e => Err e end
  end.

Definition opt_key {A} (o : option A) : result A :=
  match o with Some a => Ok a | None => Err KeyError end.

(** install an equation object under a name (EquationBlock.AddEquation) *)
Definition set_eqn (s : sector) (n : string) (e : eqn) : sector :=
  with_vars s (set_var n e (vars s)).

(** SetEquationRightHandSide with a right-hand side kept in parsed form *)
Definition set_rhs_terms (s : sector) (n : string) (ts : list term) : option sector :=
  match lookup_var n (vars s) with
  | Some _ => Some (set_eqn s n (mkEqn "" ts))
  | None => None
  end.

Fixpoint foldM {A B} (f : A -> B -> result A) (l : list B) (a : A) : result A :=
  match l with
  | [] => Ok a
  | b :: r => match f a b with Ok a' => foldM f r a' | Err e => Err e end
  end.

(* ------------------------------------------------------------------ *)
(** * Names *)

Definition dem_short (mk : sector) : string := "DEM_" ++ code mk.
Definition dem_long (mk : sector) : string := "DEM_" ++ fullcode mk.
Definition sup_short (mk : sector) : string := "SUP_" ++ code mk.

(** ShareParent: same Country object *)
Definition share_parent (mk s : sector) : bool := String.eqb (country s) (country mk).

(** the variable a sector must own to count as a demander (_GenerateTermsLowLevel) *)
Definition dem_name (mk s : sector) : string :=
  if share_parent mk s then dem_short mk else dem_long mk.

(** Market.GetSupplierTerm: 'SUP_<code>' in the market's country, else
    'SUP_' + GetSectorCodeWithCountry(market) = 'SUP_<country>_<code>' *)
Definition supply_name (mk s : sector) : string :=
  if share_parent mk s then sup_short mk else "SUP_" ++ country mk ++ "_" ++ code mk.

(** the market's variable holding the amount allocated to a supplier *)
Definition alloc_name (s : sector) : string := "SUP_" ++ fullcode s.

(** Sector.GetVariableName *)
Definition full_name (s : sector) (n : string) : string := fullcode s ++ "__" ++ n.

(* ------------------------------------------------------------------ *)
(** * 1. Market._SearchSupplier *)

Definition is_candidate (mk s : sector) : bool :=
  share_parent mk s && negb (Nat.eqb (sid s) (sid mk)) && has_var s (sup_short mk).

Definition search_supplier (Z : zone) (mk : sector) : result sector :=
  match filter (is_candidate mk) Z with
  | [s] => Ok s
  | _ => Err LogicError          (* none, or more than one *)
  end.

(* ------------------------------------------------------------------ *)
(** * 2. Market._GenerateTermsLowLevel('DEM', ...) *)

(** one iteration of the loop over CurrencyZone.GetSectors(): the sector afterwards and the
    full names appended to term_list *)
Definition dem_step (mk s : sector) : result (sector * list string) :=
  if Nat.eqb (sid s) (sid mk) then Ok (s, [])
  else
    let n := dem_name mk s in
    if has_var s n then
      (* s.AddCashFlow('-' + var_name, '', long_desc): eqn='' is not None *)
      match add_cash_flow s ((-1)%Z, [n]) (Some "") true with
      | Some s' => Ok (s', [full_name s n])
      | None => Err KeyError                      (* the sector has no F (or INC) equation *)
      end
    else Ok (s, []).

Fixpoint dem_loop (mk : sector) (Z : zone) : result (zone * list string) :=
  match Z with
  | [] => Ok ([], [])
  | s :: r =>
      match dem_step mk s with
      | Err e => Err e
      | Ok (s', t1) =>
          match dem_loop mk r with
          | Err e => Err e
          | Ok (r', t2) => Ok (s' :: r', (t1 ++ t2)%list)
          end
      end
  end.

Definition generate_demand (Z : zone) (m : nat) : result zone :=
  match find_sec m Z with
  | None => Err KeyError
  | Some mk =>
      (* self.AddVariable(short_name, ..., '') *)
      match upd m (fun s => Ok (add_variable s (dem_short mk) "")) Z with
      | Err e => Err e
      | Ok Za =>
          match dem_loop mk Za with
          | Err e => Err e
          | Ok (Zb, fulls) =>
              (* self.SetEquationRightHandSide(short_name, create_equation_from_terms(term_list)) *)
              upd m (fun s => opt_key (set_rhs_terms s (dem_short mk)
                                         (map (fun f => (1%Z, [f])) fulls))) Zb
          end
      end
  end.

(* ------------------------------------------------------------------ *)
(** * 3. Market._GenerateMultiSupply *)

Record world := mkWorld {
  home : zone;                    (* the market's currency zone *)
  abroad : zone;                  (* a second currency zone (possibly empty) *)
  fxl : option ledger;            (* EXT_FX NET_<currency> term lists; None = no ExternalSector *)
  crosses : list string           (* cross-rate variables created in EXT_XR, creation order *)
}.

Definition with_home (W : world) (H : zone) : world := mkWorld H (abroad W) (fxl W) (crosses W).

(** the term list of NET_<currency> *)
Fixpoint ledger_lookup (c : string) (L : ledger) : list term :=
  match L with [] => [] | (d, ts) :: r => if String.eqb c d then ts else ledger_lookup c r end.

Definition net_terms (o : option ledger) (c : string) : list term :=
  match o with Some L => ledger_lookup c L | None => [] end.

(** the sector object with ID [i], wherever it lives *)
Definition find_any (W : world) (i : nat) : option sector :=
  match find_sec i (home W) with Some s => Some s | None => find_sec i (abroad W) end.

(** the supplier object: in the market's zone or abroad *)
Definition resolve (W : world) (i : nat) : result (bool * sector) :=
  match find_sec i (home W) with
  | Some s => Ok (true, s)
  | None => match find_sec i (abroad W) with
            | Some s => Ok (false, s)
            | None => Err KeyError
            end
  end.

(** "if supply_name not in supplier.EquationBlock: supplier.AddVariable(supply_name, ..., '')" *)
Definition ensure_var (s : sector) (n : string) : sector :=
  if has_var s n then s else add_variable s n "".

(** what happens to a supplier in the market's own currency zone *)
Definition supplier_local (mk : sector) (localn : string) (s : sector) : result sector :=
  let sn := supply_name mk s in
  let s1 := ensure_var s sn in
  match add_term_to_eq s1 sn (1%Z, [full_name mk localn]) with
  | None => Err KeyError
  | Some s2 => opt_key (add_cash_flow s2 (1%Z, [sn]) None true)
  end.

(** ... and to a supplier in another currency zone, credited [term] by _ReceiveMoney *)
Definition supplier_foreign (mk : sector) (t : term) (s : sector) : result sector :=
  let sn := supply_name mk s in
  let s1 := ensure_var s sn in
  match add_term_to_eq s1 sn t with
  | None => Err KeyError
  | Some s2 => opt_key (add_cash_flow s2 t None true)
  end.

Definition cross_code (a b : string) : string := a ++ "_" ++ b.
Definition add_cross (c : string) (l : list string) : list string :=
  if mem c l then l else (l ++ [c])%list.

(** one iteration of "for supplier, eqn in sector_list"; [mk] is only read for its immutable
    attributes (ID, codes, country) *)
Definition supply_step (hcur acur : string) (mk : sector) (W : world) (se : nat * eqn) : result world :=
  let (i, e) := se in
  match resolve W i with
  | Err er => Err er
  | Ok (is_local, sup) =>
      let localn := alloc_name sup in
      (* self.AddVariable(local_name, ..., eqn) *)
      match upd (sid mk) (fun s => Ok (set_eqn s localn e)) (home W) with
      | Err er => Err er
      | Ok H1 =>
          if is_local then
            match upd i (supplier_local mk localn) H1 with
            | Err er => Err er
            | Ok H2 => Ok (mkWorld H2 (abroad W) (fxl W) (crosses W))
            end
          else
            (* the supply variable is created before the ExternalSector test *)
            match fxl W with
            | None => Err LogicError
            | Some L =>
                let x := full_name mk localn in
                let L' := fx_step (fx_step L (Send hcur x)) (Receive hcur acur x) in
                match upd i (supplier_foreign mk (credited hcur acur x)) (abroad W) with
                | Err er => Err er
                | Ok A2 => Ok (mkWorld H1 A2 (Some L') (add_cross (cross_code hcur acur) (crosses W)))
                end
            end
      end
  end.

(** residual equation: Equation(lhs, desc, 'SUP_<code>') then AddTerm('-SUP_<fullcode>') per other supplier *)
Definition residual_terms (mk : sector) (other_fullcodes : list string) : list term :=
  fold_left (fun acc fc => add_term ((-1)%Z, ["SUP_" ++ fc]) acc) other_fullcodes [(1%Z, [sup_short mk])].

Fixpoint resolve_fullcodes (W : world) (ids : list nat) : result (list string) :=
  match ids with
  | [] => Ok []
  | i :: r =>
      match resolve W i with
      | Err e => Err e
      | Ok (_, s) => match resolve_fullcodes W r with Err e => Err e | Ok l => Ok (fullcode s :: l) end
      end
  end.

Definition generate_supply (hcur acur : string) (W : world) (m : nat) (residual : nat)
           (others : list (nat * string)) : result world :=
  match find_sec m (home W) with
  | None => Err KeyError
  | Some mk =>
      (* self.SetEquationRightHandSide(sup_name, rhs=dem_name) *)
      match upd m (fun s => opt_key (set_rhs_terms s (sup_short mk) [(1%Z, [dem_short mk])])) (home W) with
      | Err e => Err e
      | Ok H0 =>
          let W0 := with_home W H0 in
          match resolve_fullcodes W0 (map fst others) with
          | Err e => Err e
          | Ok fcs =>
              let res := mkEqn "" (residual_terms mk fcs) in
              foldM (supply_step hcur acur mk)
                    (map (fun o => (fst o, mkEqn (snd o) [])) others ++ [(residual, res)])%list W0
          end
      end
  end.

(* ------------------------------------------------------------------ *)
(** * 4. Market._GenerateEquations *)

(** "if self.ResidualSupply is None: supplier = self._SearchSupplier()" *)
Definition the_residual (Z : zone) (mk : sector) (residual : option nat) : result nat :=
  match residual with
  | Some r => Ok r
  | None => match search_supplier Z mk with Ok s => Ok (sid s) | Err e => Err e end
  end.

Definition market_generate (hcur acur : string) (W : world) (m : nat) (residual : option nat)
           (others : list (nat * string)) : result world :=
  match find_sec m (home W) with
  | None => Err KeyError
  | Some mk =>
      match the_residual (home W) mk residual with
      | Err e => Err e
      | Ok r =>
          match generate_demand (home W) m with
          | Err e => Err e
          | Ok H1 => generate_supply hcur acur (with_home W H1) m r others
          end
      end
  end.

(* ------------------------------------------------------------------ *)
(** * A market that skips the demanders of other countries (refuted miniature, see PropMarket.v) *)

Definition dem_step_own_country (mk s : sector) : result (sector * list string) :=
  if share_parent mk s then dem_step mk s else Ok (s, []).

Fixpoint dem_loop_own_country (mk : sector) (Z : zone) : result (zone * list string) :=
  match Z with
  | [] => Ok ([], [])
  | s :: r =>
      match dem_step_own_country mk s with
      | Err e => Err e
      | Ok (s', t1) =>
          match dem_loop_own_country mk r with
          | Err e => Err e
          | Ok (r', t2) => Ok (s' :: r', (t1 ++ t2)%list)
          end
      end
  end.

Definition generate_demand_own_country (Z : zone) (m : nat) : result zone :=
  match find_sec m Z with
  | None => Err KeyError
  | Some mk =>
      match upd m (fun s => Ok (add_variable s (dem_short mk) "")) Z with
      | Err e => Err e
      | Ok Za =>
          match dem_loop_own_country mk Za with
          | Err e => Err e
          | Ok (Zb, fulls) =>
              upd m (fun s => opt_key (set_rhs_terms s (dem_short mk)
                                         (map (fun f => (1%Z, [f])) fulls))) Zb
          end
      end
  end.
