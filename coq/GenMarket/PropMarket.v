(** Goods / labour markets (part of C04 "markets clear and supply is fully allocated among suppliers"
    and of C01 "stock-flow consistency": the market group's bookings cancel).

    The statements are about the Gallina model Market.v of sfc_models.sector.Market
    (_SearchSupplier, _GenerateTermsLowLevel, _GenerateMultiSupply, _GenerateEquations), tied to the
    Python on every run by harness/gen_market.py.  They hold for ALL zones (any list of sectors with
    any variables and equations), markets, supplier lists, valuations [v] of the full variable names
    and valuations [bv] of the opaque right-hand sides.

    Reading guide.  [W] is the world before the call, [W'] after; [home W] is the market's currency
    zone in CurrencyZone.GetSectors() order, [abroad W] a second zone, [fxl W] the FX intermediary's
    NET_<currency> term lists.  [m] is the market's ID, [mk] the market object before the call,
    [r] the residual supplier's ID ([the_residual]: the one given to AddSupplier, or the one found by
    _SearchSupplier), [others] the (ID, allocation text) pairs of AddSupplier.
    [Zone.holds v bv s n]: the equation of variable [n] of sector [s] is satisfied by [v].
    [full_name s n] = GetVariableName = fullcode ++ "__" ++ n. *)
From Coq Require Import List String Bool ZArith Arith Reals Lra.
From SFC.Base Require Import Res Str.
From SFC.Gen Require Import Fx Zone.
From SFC.GenMarket Require Import Market MarketProofs CaseDefs.
Import ListNotations.
Local Open Scope string_scope.
Local Open Scope R_scope.

(* ------------------------------------------------------------------ *)
(** * C04 *)

(** Every sector of the zone that declares a demand is aggregated, once, and nobody else: after
    _GenerateTermsLowLevel the summands of the market's DEM_<code> equation are, in zone order, the
    full names of the demand variables of exactly the sectors other than the market that own
    DEM_<code> (same country) resp. DEM_<market full code> (another country of the zone). *)
Theorem Market_demand_members : forall (Z Z' : zone) (m : nat) (mk : sector),
  generate_demand Z m = Ok Z' -> find_sec m Z = Some mk ->
  exists mk', find_sec m Z' = Some mk' /\
    lookup_var (dem_short mk) (vars mk') = Some (mkEqn "" (dem_terms mk Z)) /\
    dem_terms mk Z = map (fun s => (1%Z, [full_name s (dem_name mk s)])) (filter (demander mk) Z) /\
    (forall t, List.In t (dem_terms mk Z) <->
               exists s, List.In s Z /\ sid s <> sid mk /\ has_var s (dem_name mk s) = true /\
                         t = (1%Z, [full_name s (dem_name mk s)])) /\
    (NoDup (map (dem_full mk) Z) -> NoDup (dem_terms mk Z)).
Proof.
  intros Z Z' m mk H Fm. apply generate_demand_spec in H as (mk0 & mk' & F0 & F1 & _ & L & _).
  rewrite Fm in F0. injection F0 as <-. exists mk'. split; [exact F1|]. split; [exact L|]. split.
  - unfold dem_terms, demanders, dem_full. now rewrite map_map.
  - split; [apply dem_terms_In|apply dem_terms_NoDup].
Qed.
Print Assumptions Market_demand_members.

(** ... and that equation is what the market has when the whole of _GenerateEquations is done. *)
Theorem Market_demand_members_final :
  forall (h a : string) (W W' : world) (m : nat) (residual : option nat) (others : list (nat * string))
         (mk : sector) (r : nat),
  market_generate h a W m residual others = Ok W' -> find_sec m (home W) = Some mk ->
  the_residual (home W) mk residual = Ok r -> Forall (fun i => i <> m) (map fst others ++ [r]) ->
  exists mk', find_sec m (home W') = Some mk' /\
    lookup_var (dem_short mk) (vars mk') = Some (mkEqn "" (dem_terms mk (home W))).
Proof.
  intros h a W W' m residual others mk r H1 H2 H3 H4.
  destruct (mg_demand_members h a _ _ _ _ _ _ _ (mkGenerated h a _ _ _ _ _ _ _ H1 H2 H3 H4)) as (mk' & F & _ & L).
  eauto.
Qed.
Print Assumptions Market_demand_members_final.

(** The market clears: if [v] satisfies the market's SUP_<code> and DEM_<code> equations, total supply
    = total demand = the sum of the demand variables of the demanders. *)
Theorem Market_clears :
  forall (h a : string) (v : string -> R) (bv : string -> string -> R)
         (W W' : world) (m : nat) (residual : option nat) (others : list (nat * string))
         (mk mk' : sector) (r : nat),
  market_generate h a W m residual others = Ok W' -> find_sec m (home W) = Some mk ->
  the_residual (home W) mk residual = Ok r -> Forall (fun i => i <> m) (map fst others ++ [r]) ->
  (* no supplier's full code is the market's short code (SUP_<full code> would be SUP_<code>) *)
  (forall i s, List.In i (map fst others ++ [r]) -> find_any W i = Some s -> fullcode s <> code mk) ->
  has_substring "__" (dem_short mk) = false ->
  find_sec m (home W') = Some mk' ->
  holds v bv mk' (sup_short mk) -> holds v bv mk' (dem_short mk) ->
  v (full_name mk (sup_short mk)) = v (full_name mk (dem_short mk)) /\
  v (full_name mk (dem_short mk)) = zsum (fun d => v (full_name d (dem_name mk d))) (demanders mk (home W)).
Proof.
  intros h a v bv W W' m residual others mk mk' r H1 H2 H3 H4 HF HD Fm' HS HDm.
  refine (mg_clears h a v bv _ _ _ _ _ _ _ (mkGenerated h a _ _ _ _ _ _ _ H1 H2 H3 H4) _ HD mk' Fm' HS HDm).
  intros i b s Hi Rs. apply (HF i s Hi). apply find_any_resolve. eauto.
Qed.
Print Assumptions Market_clears.

(** Supply is fully allocated: if [v] satisfies the residual supplier's equation in the market, the
    amounts SUP_<supplier full code> of all suppliers (one summand per AddSupplier call) add up to
    SUP_<code>. *)
Theorem Market_allocated :
  forall (h a : string) (v : string -> R) (bv : string -> string -> R)
         (W W' : world) (m : nat) (residual : option nat) (others : list (nat * string))
         (mk mk' : sector) (r : nat) (osecs : list sector) (rs : sector),
  market_generate h a W m residual others = Ok W' -> find_sec m (home W) = Some mk ->
  the_residual (home W) mk residual = Ok r -> Forall (fun i => i <> m) (map fst others ++ [r]) ->
  suppliers_of W (map fst others) osecs -> find_any W r = Some rs ->
  has_substring "__" (sup_short mk) = false ->
  Forall (fun s => has_substring "__" (alloc_name s) = false) osecs ->
  find_sec m (home W') = Some mk' -> holds v bv mk' (alloc_name rs) ->
  zsum (fun s => v (full_name mk (alloc_name s))) (osecs ++ [rs])%list = v (full_name mk (sup_short mk)).
Proof.
  intros h a v bv W W' m residual others mk mk' r osecs rs H1 H2 H3 H4.
  intros HO HR HS HA Fm' Hh.
  exact (mg_allocated h a v bv _ _ _ _ _ _ _ (mkGenerated h a _ _ _ _ _ _ _ H1 H2 H3 H4) osecs rs HO HR HS HA mk' Fm' Hh).
Qed.
Print Assumptions Market_allocated.

(** A supplier of the market's zone, registered once: if [v] satisfies its supply variable's equation
    after the call, that variable equals what its equation was worth before (0 when the variable did
    not exist or was empty) plus the market's allocation. *)
Theorem Market_supplier_amount :
  forall (h a : string) (v : string -> R) (bv : string -> string -> R)
         (W W' : world) (m : nat) (residual : option nat) (others : list (nat * string))
         (mk : sector) (r i : nat) (s s' : sector),
  market_generate h a W m residual others = Ok W' -> find_sec m (home W) = Some mk ->
  the_residual (home W) mk residual = Ok r -> Forall (fun i => i <> m) (map fst others ++ [r]) ->
  NoDup (map fst others ++ [r]) -> List.In i (map fst others ++ [r]) ->
  find_sec i (home W) = Some s -> has_substring "__" (supply_name mk s) = false ->
  find_sec i (home W') = Some s' -> holds v bv s' (supply_name mk s) ->
  v (full_name s (supply_name mk s)) =
    eqn_val v bv s (prior_eqn s (supply_name mk s)) + v (full_name mk (alloc_name s)) /\
  (prior_eqn s (supply_name mk s) = mkEqn "" [] ->
   v (full_name s (supply_name mk s)) = v (full_name mk (alloc_name s))).
Proof.
  intros h a v bv W W' m residual others mk r i s s' H1 H2 H3 H4 ND Hi Fs HL Fs' Hh.
  pose proof (mg_supplier_amount_local h a v bv _ _ _ _ _ _ _ (mkGenerated h a _ _ _ _ _ _ _ H1 H2 H3 H4)
                ND i s Hi Fs HL s' Fs' Hh) as E.
  split; [exact E|]. intros P. rewrite P in E. unfold eqn_val in E. simpl in E. lra.
Qed.
Print Assumptions Market_supplier_amount.

(** A supplier in another currency zone is credited the allocation times the cross-rate variable. *)
Theorem Market_supplier_amount_foreign :
  forall (h a : string) (v : string -> R) (bv : string -> string -> R)
         (W W' : world) (m : nat) (residual : option nat) (others : list (nat * string))
         (mk : sector) (r i : nat) (s s' : sector),
  market_generate h a W m residual others = Ok W' -> find_sec m (home W) = Some mk ->
  the_residual (home W) mk residual = Ok r -> Forall (fun i => i <> m) (map fst others ++ [r]) ->
  NoDup (map fst others ++ [r]) -> List.In i (map fst others ++ [r]) ->
  find_sec i (home W) = None -> find_sec i (abroad W) = Some s ->
  find_sec i (abroad W') = Some s' -> holds v bv s' (supply_name mk s) ->
  v (full_name s (supply_name mk s)) =
    eqn_val v bv s (prior_eqn s (supply_name mk s)) + v (full_name mk (alloc_name s)) * v (cross_name h a).
Proof.
  intros h a v bv W W' m residual others mk r i s s' H1 H2 H3 H4 ND Hi Fh Fs Fs' Hh.
  exact (mg_supplier_amount_foreign h a v bv _ _ _ _ _ _ _ (mkGenerated h a _ _ _ _ _ _ _ H1 H2 H3 H4)
           ND i s Hi Fh Fs s' Fs' Hh).
Qed.
Print Assumptions Market_supplier_amount_foreign.

(** _SearchSupplier: the sector found is the only one of the market's country, other than the
    market, that owns SUP_<code>; none or several is a LogicError. *)
Theorem Market_search_supplier : forall (Z : zone) (mk : sector),
  (forall s, search_supplier Z mk = Ok s ->
     List.In s Z /\ sid s <> sid mk /\ country s = country mk /\ has_var s (sup_short mk) = true /\
     forall s', List.In s' Z -> is_candidate mk s' = true -> s' = s) /\
  (forall e, search_supplier Z mk = Err e -> e = LogicError /\ List.length (filter (is_candidate mk) Z) <> 1%nat).
Proof.
  intros Z mk. split; [intros s; apply search_supplier_spec|].
  unfold search_supplier. intros e. destruct (filter (is_candidate mk) Z) as [|x [|y l]]; simpl; intros H;
    try discriminate; injection H as <-; split; auto; discriminate.
Qed.
Print Assumptions Market_search_supplier.

(* ------------------------------------------------------------------ *)
(** * C01: the market group's bookings cancel *)

(** All suppliers in the market's own zone.  For every [v] that satisfies the market's three
    equations and the supply-variable equations the call installed in the suppliers (fresh before, or
    worth 0), the terms the call added to the F equations of the zone's sectors sum to zero, sector by
    sector: sum_demanders (- DEM_d) + sum_suppliers (+ SUP_s) = 0. *)
Theorem Market_bookings_cancel :
  forall (h a : string) (v : string -> R) (bv : string -> string -> R)
         (W W' : world) (m : nat) (residual : option nat) (others : list (nat * string))
         (mk mk' : sector) (r : nat) (osecs : list sector) (rs : sector),
  market_generate h a W m residual others = Ok W' -> find_sec m (home W) = Some mk ->
  the_residual (home W) mk residual = Ok r -> Forall (fun i => i <> m) (map fst others ++ [r]) ->
  NoDup (map fst others ++ [r]) -> h <> a -> h <> NUM ->
  (forall i, List.In i (map fst others ++ [r]) -> find_sec i (home W) <> None) ->
  suppliers_of W (map fst others) osecs -> find_any W r = Some rs ->
  participants_ok v bv W W' mk (map fst others ++ [r]) osecs rs ->
  find_sec m (home W') = Some mk' ->
  holds v bv mk' (sup_short mk) -> holds v bv mk' (dem_short mk) -> holds v bv mk' (alloc_name rs) ->
  dsum (Fsum v) (home W) (home W') = 0 /\
  map static (home W') = map static (home W) /\ fxl W' = fxl W /\ abroad W' = abroad W.
Proof.
  intros h a v bv W W' m residual others mk mk' r osecs rs H1 H2 H3 H4 ND Hha Hh HL HO HR PO Fm' HS HD HA.
  pose proof (mkGenerated h a _ _ _ _ _ _ _ H1 H2 H3 H4) as G.
  destruct (mg_static h a _ _ _ _ _ _ _ G) as [S1 _].
  destruct (mg_local h a _ _ _ _ _ _ _ G HL) as (L1 & L2 & _).
  pose proof (mg_bookings_local h a v bv _ _ _ _ _ _ _ G ND Hha Hh HL osecs rs HO HR PO mk' Fm' HS HD HA) as B.
  split; [|auto]. rewrite (dsum_zsum _ _ _ (static_length _ _ S1)). lra.
Qed.
Print Assumptions Market_bookings_cancel.

(** With suppliers in another currency zone: in the market's zone the added F terms plus the FX
    intermediary's new NET_<market currency> entries cancel (under the same hypotheses on the local
    suppliers), and in the suppliers' zone the credited amounts cancel against NET_<their currency>
    whatever [v] is. *)
Theorem Market_bookings_cancel_fx :
  forall (h a : string) (v : string -> R) (bv : string -> string -> R)
         (W W' : world) (m : nat) (residual : option nat) (others : list (nat * string))
         (mk mk' : sector) (r : nat) (osecs : list sector) (rs : sector),
  market_generate h a W m residual others = Ok W' -> find_sec m (home W) = Some mk ->
  the_residual (home W) mk residual = Ok r -> Forall (fun i => i <> m) (map fst others ++ [r]) ->
  h <> a -> h <> NUM -> a <> NUM ->
  (* the suppliers' zone, for every valuation *)
  (zsum (Fsum v) (abroad W') + tsum v (net_terms (fxl W') a) =
   zsum (Fsum v) (abroad W) + tsum v (net_terms (fxl W) a)) /\
  (* the market's zone *)
  (NoDup (map fst others ++ [r]) ->
   suppliers_of W (map fst others) osecs -> find_any W r = Some rs ->
   participants_ok v bv W W' mk (map fst others ++ [r]) osecs rs ->
   find_sec m (home W') = Some mk' ->
   holds v bv mk' (sup_short mk) -> holds v bv mk' (dem_short mk) -> holds v bv mk' (alloc_name rs) ->
   zsum (Fsum v) (home W') + tsum v (net_terms (fxl W') h) =
   zsum (Fsum v) (home W) + tsum v (net_terms (fxl W) h)).
Proof.
  intros h a v bv W W' m residual others mk mk' r osecs rs H1 H2 H3 H4 Hha Hh Ha.
  pose proof (mkGenerated h a _ _ _ _ _ _ _ H1 H2 H3 H4) as G. split.
  - exact (mg_abalance h a v _ _ _ _ _ _ _ G Hha Ha).
  - intros ND HO HR PO Fm' HS HD HA.
    exact (mg_bookings h a v bv _ _ _ _ _ _ _ G ND Hha Hh osecs rs HO HR PO mk' Fm' HS HD HA).
Qed.
Print Assumptions Market_bookings_cancel_fx.

(** Without any hypothesis on [v]: what the call adds to the zone's F equations and to
    NET_<market currency> is - sum of the demanders' demand variables + what each supplier is credited
    (its own supply variable for a supplier of the zone, the allocation sent abroad otherwise). *)
Theorem Market_bookings_syntactic :
  forall (h a : string) (v : string -> R)
         (W W' : world) (m : nat) (residual : option nat) (others : list (nat * string)) (mk : sector) (r : nat),
  market_generate h a W m residual others = Ok W' -> find_sec m (home W) = Some mk ->
  the_residual (home W) mk residual = Ok r -> Forall (fun i => i <> m) (map fst others ++ [r]) ->
  h <> a -> h <> NUM ->
  zsum (Fsum v) (home W') + tsum v (net_terms (fxl W') h) =
  zsum (Fsum v) (home W) + tsum v (net_terms (fxl W) h)
  - zsum (dem_val v mk) (demanders mk (home W)) + nsum (contrib mk v W) (map fst others ++ [r]).
Proof.
  intros h a v W W' m residual others mk r H1 H2 H3 H4 Hha Hh.
  exact (mg_balance h a v _ _ _ _ _ _ _ (mkGenerated h a _ _ _ _ _ _ _ H1 H2 H3 H4) Hha Hh).
Qed.
Print Assumptions Market_bookings_syntactic.

(** Frame: a sector of the zone other than the market keeps its identity; only its F, INC, demand
    and supply variables can change; a sector that is neither a demander nor a supplier is returned
    unchanged.  A variable of the market that is not a supplier's allocation variable, SUP_<code> or
    DEM_<code> keeps its equation. *)
Theorem Market_frame :
  forall (h a : string) (W W' : world) (m : nat) (residual : option nat) (others : list (nat * string))
         (mk : sector) (r : nat),
  market_generate h a W m residual others = Ok W' -> find_sec m (home W) = Some mk ->
  the_residual (home W) mk residual = Ok r -> Forall (fun i => i <> m) (map fst others ++ [r]) ->
  NoDup (map fst others ++ [r]) ->
  (forall j s, j <> m -> find_sec j (home W) = Some s ->
     exists s', find_sec j (home W') = Some s' /\ static s' = static s /\
       (forall k, k <> "F"%string -> k <> "INC"%string -> k <> dem_name mk s -> k <> supply_name mk s ->
                  lookup_var k (vars s') = lookup_var k (vars s)) /\
       (~ List.In j (map fst others ++ [r]) -> demander mk s = false -> s' = s)) /\
  (forall k, (forall i s, List.In i (map fst others ++ [r]) -> find_any W i = Some s -> alloc_name s <> k) ->
     k <> sup_short mk -> k <> dem_short mk ->
     exists mk', find_sec m (home W') = Some mk' /\ lookup_var k (vars mk') = lookup_var k (vars mk)).
Proof.
  intros h a W W' m residual others mk r H1 H2 H3 H4 ND.
  pose proof (mkGenerated h a _ _ _ _ _ _ _ H1 H2 H3 H4) as G. split.
  - intros j s Hj Fs. exact (mg_vars_frame h a _ _ _ _ _ _ _ G ND j s Hj Fs).
  - intros k HK K1 K2. destruct (mg_market_var h a _ _ _ _ _ _ _ G k) as (mk' & F1 & _ & F3).
    + intros i b s Hi Rs. apply (HK i s Hi). apply find_any_resolve. eauto.
    + exists mk'. split; [exact F1|].
      destruct (String.eqb_spec k (sup_short mk)); [contradiction|].
      destruct (String.eqb_spec k (dem_short mk)); [contradiction|]. exact F3.
Qed.
Print Assumptions Market_frame.

(* ------------------------------------------------------------------ *)
(** * Non-vacuity: a concrete zone *)

Local Open Scope string_scope.

Definition fF : string * eqn := ("F", mkEqn "" [(1%Z, ["LAG_F"])]).
Definition fINC : string * eqn := ("INC", mkEqn "" []).
Definition fLAG : string * eqn := ("LAG_F", mkEqn "F(k-1)" []).
Definition plain (i : nat) (c cc : string) (vs : list (string * eqn)) : sector :=
  mkSector i c cc (cc ++ "_" ++ c) true false false [] ([fF; fINC; fLAG] ++ vs).

(** two countries CA, ON sharing CAD; households in both declare a demand (the ON one under the
    market's full code); a business in each supplies; the market GOOD lives in CA. *)
Definition exW : world :=
  mkWorld
    [ plain 0 "HH" "CA" [("DEM_GOOD", mkEqn "alpha*YD" [])];
      plain 1 "BUS" "CA" [];
      mkSector 2 "GOOD" "CA" "CA_GOOD" false false true [] [("SUP_GOOD", mkEqn "" []); ("DEM_GOOD", mkEqn "" [])];
      plain 3 "HH" "ON" [("DEM_CA_GOOD", mkEqn "5." []); ("DEM_GOOD", mkEqn "7" [])];
      plain 4 "BUS" "ON" [] ]
    [] None [].

Definition exOthers : list (nat * string) := [(4%nat, "0.3*DEM_GOOD")].

Definition exW' : world :=
  mkWorld
    [ mkSector 0 "HH" "CA" "CA_HH" true false false []
        [("F", mkEqn "" [(1%Z, ["LAG_F"]); ((-1)%Z, ["DEM_GOOD"])]); ("INC", mkEqn "" [((-1)%Z, ["DEM_GOOD"])]); fLAG;
         ("DEM_GOOD", mkEqn "alpha*YD" [])];
      mkSector 1 "BUS" "CA" "CA_BUS" true false false []
        [("F", mkEqn "" [(1%Z, ["LAG_F"]); (1%Z, ["SUP_GOOD"])]); ("INC", mkEqn "" [(1%Z, ["SUP_GOOD"])]); fLAG;
         ("SUP_GOOD", mkEqn "" [(1%Z, ["CA_GOOD__SUP_CA_BUS"])])];
      mkSector 2 "GOOD" "CA" "CA_GOOD" false false true []
        [("SUP_GOOD", mkEqn "" [(1%Z, ["DEM_GOOD"])]);
         ("DEM_GOOD", mkEqn "" [(1%Z, ["CA_HH__DEM_GOOD"]); (1%Z, ["ON_HH__DEM_CA_GOOD"])]);
         ("SUP_ON_BUS", mkEqn "0.3*DEM_GOOD" []);
         ("SUP_CA_BUS", mkEqn "" [(1%Z, ["SUP_GOOD"]); ((-1)%Z, ["SUP_ON_BUS"])])];
      mkSector 3 "HH" "ON" "ON_HH" true false false []
        [("F", mkEqn "" [(1%Z, ["LAG_F"]); ((-1)%Z, ["DEM_CA_GOOD"])]); ("INC", mkEqn "" [((-1)%Z, ["DEM_CA_GOOD"])]); fLAG;
         ("DEM_CA_GOOD", mkEqn "5." []); ("DEM_GOOD", mkEqn "7" [])];
      mkSector 4 "BUS" "ON" "ON_BUS" true false false []
        [("F", mkEqn "" [(1%Z, ["LAG_F"]); (1%Z, ["SUP_CA_GOOD"])]); ("INC", mkEqn "" [(1%Z, ["SUP_CA_GOOD"])]); fLAG;
         ("SUP_CA_GOOD", mkEqn "" [(1%Z, ["CA_GOOD__SUP_ON_BUS"])])] ]
    [] None [].

Example Market_example_run : market_generate "CAD" "USD" exW 2 (Some 1%nat) exOthers = Ok exW'.
Proof. vm_compute. reflexivity. Qed.
Print Assumptions Market_example_run.

(** the same market finds its single supplier by itself when AddSupplier was never called and one
    sector of its country owns SUP_GOOD; two such sectors are a LogicError *)
Example Market_example_search :
  the_residual [ plain 0 "HH" "CA" []; plain 1 "BUS" "CA" [("SUP_GOOD", mkEqn "" [])];
                 mkSector 2 "GOOD" "CA" "CA_GOOD" false false true [] [];
                 plain 3 "BUS" "ON" [("SUP_GOOD", mkEqn "" [])] ]
               (mkSector 2 "GOOD" "CA" "CA_GOOD" false false true [] []) None = Ok 1%nat /\
  market_generate "CAD" "USD"
    (mkWorld [ plain 0 "HH" "CA" [("SUP_GOOD", mkEqn "" [])]; plain 1 "BUS" "CA" [("SUP_GOOD", mkEqn "" [])];
               mkSector 2 "GOOD" "CA" "CA_GOOD" false false true [] [("SUP_GOOD", mkEqn "" []); ("DEM_GOOD", mkEqn "" [])] ]
             [] None []) 2 None [] = Err LogicError.
Proof. vm_compute. split; reflexivity. Qed.
Print Assumptions Market_example_search.

(** a valuation that satisfies every equation the call installed (demands 6 and 4, 30% to ON_BUS) *)
Definition exV (x : string) : R :=
  if String.eqb x "CA_HH__DEM_GOOD" then 6 else if String.eqb x "ON_HH__DEM_CA_GOOD" then 4
  else if String.eqb x "CA_GOOD__DEM_GOOD" then 10 else if String.eqb x "CA_GOOD__SUP_GOOD" then 10
  else if String.eqb x "CA_GOOD__SUP_ON_BUS" then 3 else if String.eqb x "CA_GOOD__SUP_CA_BUS" then 7
  else if String.eqb x "CA_BUS__SUP_GOOD" then 7 else if String.eqb x "ON_BUS__SUP_CA_GOOD" then 3 else 0.
Definition exBV (fc b : string) : R := if String.eqb b "0.3*DEM_GOOD" then 3 else 0.

Definition exMk : sector :=
  mkSector 2 "GOOD" "CA" "CA_GOOD" false false true [] [("SUP_GOOD", mkEqn "" []); ("DEM_GOOD", mkEqn "" [])].
Definition exRs : sector := plain 1 "BUS" "CA" [].
Definition exOs : sector := plain 4 "BUS" "ON" [].

(** the hypotheses of Market_bookings_cancel are satisfiable on this zone (and its conclusion is then
    the arithmetic fact -6 - 4 + 7 + 3 = 0) *)
Example Market_example_hypotheses :
  exists mk',
    find_sec 2 (home exW) = Some exMk /\ the_residual (home exW) exMk (Some 1%nat) = Ok 1%nat /\
    NoDup (map fst exOthers ++ [1%nat]) /\ Forall (fun i => i <> 2%nat) (map fst exOthers ++ [1%nat]) /\
    suppliers_of exW (map fst exOthers) [exOs] /\ find_any exW 1 = Some exRs /\
    participants_ok exV exBV exW exW' exMk (map fst exOthers ++ [1%nat]) [exOs] exRs /\
    find_sec 2 (home exW') = Some mk' /\
    holds exV exBV mk' (sup_short exMk) /\ holds exV exBV mk' (dem_short exMk) /\ holds exV exBV mk' (alloc_name exRs) /\
    dsum (Fsum exV) (home exW) (home exW') = 0.
Proof.
  eexists. split; [reflexivity|]. split; [reflexivity|].
  split; [repeat constructor; simpl; intuition discriminate|].
  split; [repeat constructor; discriminate|].
  split; [repeat constructor|]. split; [reflexivity|]. split.
  - constructor.
    + split; reflexivity.
    + reflexivity.
    + repeat constructor.
    + repeat constructor; discriminate.
    + intros i s Hi Fs. simpl in Hi. destruct Hi as [<-|[<-|[]]]; vm_compute in Fs; injection Fs as <-;
        (split; [reflexivity|]); unfold eqn_val; simpl; lra.
    + intros i s s' Hi Fs Fs'. simpl in Hi.
      destruct Hi as [<-|[<-|[]]]; vm_compute in Fs; injection Fs as <-; vm_compute in Fs'; injection Fs' as <-;
        unfold holds, eqn_val; simpl; unfold tval_in; simpl; unfold exV, exBV; simpl; lra.
  - split; [reflexivity|].
    repeat split; unfold holds, eqn_val, Fsum; simpl; unfold tval_in; simpl; unfold exV, exBV; simpl; lra.
Qed.
Print Assumptions Market_example_hypotheses.

(* ------------------------------------------------------------------ *)
(** * Refuted miniatures *)

(** A market that only looks at its own country for demanders (the loop of _GenerateTermsLowLevel
    restricted to ShareParent sectors) does not aggregate every declared demand: ON_HH is skipped. *)
Theorem Market_demand_members_own_country_refuted :
  ~ (forall (Z Z' : zone) (m : nat) (mk mk' : sector),
       generate_demand_own_country Z m = Ok Z' -> find_sec m Z = Some mk -> find_sec m Z' = Some mk' ->
       lookup_var (dem_short mk) (vars mk') = Some (mkEqn "" (dem_terms mk Z))).
Proof.
  intros H.
  destruct (generate_demand_own_country (home exW) 2) as [Z'|] eqn:E; [|vm_compute in E; discriminate].
  destruct (find_sec 2 Z') as [mk'|] eqn:F; [|vm_compute in E; injection E as <-; vm_compute in F; discriminate].
  specialize (H (home exW) Z' 2%nat exMk mk' E eq_refl F).
  vm_compute in E. injection E as <-. vm_compute in F. injection F as <-. vm_compute in H. discriminate.
Qed.
Print Assumptions Market_demand_members_own_country_refuted.

(** Recorded quirk (outside the theorems' hypotheses, NoDup of the supplier list): a sector passed to
    AddSupplier twice is credited four times its (last) allocation, since both its supply variable
    and its F equation receive the term twice. *)
Example Market_supplier_registered_twice :
  match market_generate "CAD" "USD" exW 2 (Some 1%nat) [(4%nat, "0.3*DEM_GOOD"); (4%nat, "0.2*DEM_GOOD")] with
  | Ok W' =>
      match find_sec 4 (home W'), find_sec 2 (home W') with
      | Some s, Some mk' =>
          lookup_var "SUP_CA_GOOD" (vars s) = Some (mkEqn "" [(2%Z, ["CA_GOOD__SUP_ON_BUS"])]) /\
          lookup_var "F" (vars s) = Some (mkEqn "" [(1%Z, ["LAG_F"]); (2%Z, ["SUP_CA_GOOD"])]) /\
          lookup_var "SUP_ON_BUS" (vars mk') = Some (mkEqn "0.2*DEM_GOOD" []) /\
          lookup_var "SUP_CA_BUS" (vars mk') = Some (mkEqn "" [(1%Z, ["SUP_GOOD"]); ((-2)%Z, ["SUP_ON_BUS"])])
      | _, _ => False
      end
  | Err _ => False
  end.
Proof. vm_compute. repeat split; reflexivity. Qed.
Print Assumptions Market_supplier_registered_twice.
