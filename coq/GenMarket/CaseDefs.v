(** Comparison helpers evaluated by the generated correspondence cases of harness/gen_market.py.
    The implementation's state after [market._GenerateEquations()] is recorded per sector as the list
    of (variable, (blob text, [(coefficient, term text)])); the three right-hand sides the market
    writes as text (see Market.v) are parsed back into term lists by the harness. *)
From Coq Require Import List String Bool ZArith Arith.
From SFC.Base Require Import Res Str.
From SFC.Gen Require Import Fx Zone.
From SFC.GenMarket Require Import Market.
Import ListNotations.
Local Open Scope string_scope.

Fixpoint zs_eqb (a b : list (Z * string)) : bool :=
  match a, b with
  | [], [] => true
  | (c, s) :: a', (d, t) :: b' => Z.eqb c d && String.eqb s t && zs_eqb a' b'
  | _, _ => false
  end.

Definition term_text (t : term) : Z * string := (fst t, String.concat "*" (snd t)).

Definition exp_eqn := (string * list (Z * string))%type.
Definition exp_sector := (nat * list (string * exp_eqn))%type.

Definition eqn_matches (e : eqn) (x : exp_eqn) : bool :=
  String.eqb (blob e) (fst x) && zs_eqb (map term_text (terms e)) (snd x).

Definition sector_matches (Z : zone) (x : exp_sector) : bool :=
  match find_sec (fst x) Z with
  | None => false
  | Some s =>
      Nat.eqb (List.length (vars s)) (List.length (snd x)) &&
      forallb (fun ve => match lookup_var (fst ve) (vars s) with
                         | Some e => eqn_matches e (snd ve)
                         | None => false
                         end) (snd x)
  end.

Definition zone_matches (Z : zone) (xs : list exp_sector) : bool :=
  Nat.eqb (List.length Z) (List.length xs) && forallb (sector_matches Z) xs.

Inductive expected :=
| ExpErr (e : err)
| ExpOk (h a : list exp_sector) (fx : list (string * list (Z * string))) (cr : list string).

Definition same_set (a b : list string) : bool :=
  Nat.eqb (List.length a) (List.length b) && forallb (fun x => mem x b) a.

Definition market_case (hcur acur : string) (W : world) (m : nat) (residual : option nat)
           (others : list (nat * string)) (x : expected) : bool :=
  match market_generate hcur acur W m residual others, x with
  | Err e, ExpErr e' => err_eqb e e'
  | Ok W', ExpOk h a fx cr =>
      zone_matches (home W') h && zone_matches (abroad W') a &&
      forallb (fun ce => zs_eqb (map term_text (net_terms (fxl W') (fst ce))) (snd ce)) fx &&
      same_set (crosses W') cr
  | _, _ => false
  end.

(** for debugging / replays: the model's outcome in the harness's format *)
Definition show_sector (s : sector) :=
  (sid s, map (fun ve => (fst ve, (blob (snd ve), map term_text (terms (snd ve))))) (vars s)).
Definition show_world (r : result world) :=
  match r with
  | Err e => Err e
  | Ok W => Ok (map show_sector (home W), map show_sector (abroad W),
                match fxl W with Some L => map (fun ce => (fst ce, map term_text (snd ce))) L | None => [] end,
                crosses W)
  end.
