(** Lemmas about the market model (Market.v).  The statements the checks rely on are collected in
    PropMarket.v. *)
From Coq Require Import List String Bool ZArith Arith Reals Lra Lia.
From SFC.Base Require Import Res Str.
From SFC.Gen Require Import Fx Zone.
From SFC.GenMarket Require Import Market.
Import ListNotations.
Local Open Scope string_scope.

(* ------------------------------------------------------------------ *)
(** * A. Names *)

Lemma prefix_app p s : String.prefix p (p ++ s) = true.
Proof.
  induction p as [|a p IH]; simpl; [destruct s; reflexivity|].
  destruct (Ascii.ascii_dec a a) as [_|N]; [exact IH|contradiction].
Qed.

Lemma has_sub_prefix p s : String.prefix p s = true -> has_substring p s = true.
Proof.
  intros H. destruct s as [|c s].
  - destruct p; [reflexivity|discriminate H].
  - cbn [has_substring]. rewrite H. reflexivity.
Qed.

Lemma has_sub_mid a p b : has_substring p (a ++ p ++ b) = true.
Proof.
  induction a as [|c a IH].
  - simpl. apply has_sub_prefix, prefix_app.
  - change ((String c a) ++ p ++ b) with (String c (a ++ p ++ b)).
    cbn [has_substring]. destruct (String.prefix p (String c (a ++ p ++ b))); [reflexivity|exact IH].
Qed.

Lemma full_name_qualified s n : has_substring "__" (full_name s n) = true.
Proof. unfold full_name. apply has_sub_mid. Qed.

Lemma qualify_full s s0 n : qualify s (full_name s0 n) = full_name s0 n.
Proof. unfold qualify. now rewrite full_name_qualified. Qed.

Lemma qualify_local s n : has_substring "__" n = false -> qualify s n = full_name s n.
Proof. intros H. unfold qualify, full_name. now rewrite H. Qed.

Lemma cross_name_qualified a b : has_substring "__" (cross_name a b) = true.
Proof. unfold cross_name. apply (has_sub_mid "EXT_XR" "__" (a ++ "_" ++ b)). Qed.

Lemma qualify_cross s a b : qualify s (cross_name a b) = cross_name a b.
Proof. unfold qualify. now rewrite cross_name_qualified. Qed.

Lemma sup_not_F x : "SUP_" ++ x <> "F".
Proof. simpl. discriminate. Qed.
Lemma sup_not_INC x : "SUP_" ++ x <> "INC".
Proof. simpl. discriminate. Qed.
Lemma sup_not_dem x y : "SUP_" ++ x <> "DEM_" ++ y.
Proof. simpl. discriminate. Qed.
Lemma dem_not_F x : "DEM_" ++ x <> "F".
Proof. simpl. discriminate. Qed.
Lemma dem_not_INC x : "DEM_" ++ x <> "INC".
Proof. simpl. discriminate. Qed.

Lemma supply_name_sup mk s : exists r, supply_name mk s = "SUP_" ++ r.
Proof. unfold supply_name, sup_short. destruct (share_parent mk s); eauto. Qed.

Lemma dem_name_dem mk s : exists r, dem_name mk s = "DEM_" ++ r.
Proof. unfold dem_name, dem_short, dem_long. destruct (share_parent mk s); eauto. Qed.

Lemma append_inj_l p a b : p ++ a = p ++ b -> a = b.
Proof. induction p as [|c p IH]; simpl; intros H; [exact H|]. injection H as H. auto. Qed.

(* ------------------------------------------------------------------ *)
(** * B. Sector operations *)

(** the immutable attributes of a sector object *)
Definition static (s : sector) := (sid s, code s, country s, fullcode s).

Lemma static_with_vars s vs : static (with_vars s vs) = static s.
Proof. reflexivity. Qed.

Lemma static_sid s s' : static s' = static s -> sid s' = sid s.
Proof. unfold static. congruence. Qed.
Lemma static_fullcode s s' : static s' = static s -> fullcode s' = fullcode s.
Proof. unfold static. congruence. Qed.
Lemma static_country s s' : static s' = static s -> country s' = country s.
Proof. unfold static. congruence. Qed.
Lemma static_code s s' : static s' = static s -> code s' = code s.
Proof. unfold static. congruence. Qed.

Lemma static_add_variable s n b : static (add_variable s n b) = static s.
Proof. reflexivity. Qed.
Lemma static_set_eqn s n e : static (set_eqn s n e) = static s.
Proof. reflexivity. Qed.

Lemma lookup_add_variable_same s n b : lookup_var n (vars (add_variable s n b)) = Some (mkEqn b []).
Proof. unfold add_variable. simpl. apply lookup_set_same. Qed.
Lemma lookup_add_variable_other s n b k : n <> k -> lookup_var k (vars (add_variable s n b)) = lookup_var k (vars s).
Proof. intros H. unfold add_variable. simpl. now apply lookup_set_other. Qed.
Lemma lookup_set_eqn_same s n e : lookup_var n (vars (set_eqn s n e)) = Some e.
Proof. unfold set_eqn. simpl. apply lookup_set_same. Qed.
Lemma lookup_set_eqn_other s n e k : n <> k -> lookup_var k (vars (set_eqn s n e)) = lookup_var k (vars s).
Proof. intros H. unfold set_eqn. simpl. now apply lookup_set_other. Qed.

Lemma set_rhs_spec s n b s' : set_rhs s n b = Some s' ->
  static s' = static s /\ lookup_var n (vars s') = Some (mkEqn b []) /\
  forall k, n <> k -> lookup_var k (vars s') = lookup_var k (vars s).
Proof.
  unfold set_rhs. destruct (lookup_var n (vars s)); [|discriminate]. intros H. injection H as <-.
  simpl. split; [reflexivity|]. split; [apply lookup_set_same|]. intros k Hk. now apply lookup_set_other.
Qed.

Lemma set_rhs_terms_spec s n ts s' : set_rhs_terms s n ts = Some s' -> s' = set_eqn s n (mkEqn "" ts).
Proof. unfold set_rhs_terms. destruct (lookup_var n (vars s)); [|discriminate]. congruence. Qed.

Lemma add_term_to_eq_spec s n t s' : add_term_to_eq s n t = Some s' ->
  static s' = static s /\
  (exists e, lookup_var n (vars s) = Some e /\
             lookup_var n (vars s') = Some (mkEqn (blob e) (add_term t (terms e)))) /\
  forall k, n <> k -> lookup_var k (vars s') = lookup_var k (vars s).
Proof.
  unfold add_term_to_eq. destruct (lookup_var n (vars s)) as [e|] eqn:E; [|discriminate].
  intros H. injection H as <-. simpl. split; [reflexivity|]. split.
  - exists e. split; [reflexivity|apply lookup_set_same].
  - intros k Hk. now apply lookup_set_other.
Qed.

(** AddCashFlow: the F equation gets the term; apart from F, INC and (when a defining expression
    is given) the flow variable itself, nothing changes *)
Lemma add_cash_flow_spec s t def inc s' : add_cash_flow s t def inc = Some s' ->
  static s' = static s /\
  ((def = None \/ String.concat "*" (snd t) <> "F") ->
     exists e, lookup_var "F" (vars s) = Some e /\
               lookup_var "F" (vars s') = Some (mkEqn (blob e) (add_term t (terms e)))) /\
  (forall k, k <> "F" -> k <> "INC" -> (def = None \/ k <> String.concat "*" (snd t)) ->
     lookup_var k (vars s') = lookup_var k (vars s)).
Proof.
  unfold add_cash_flow.
  destruct (add_term_to_eq s "F" t) as [s1|] eqn:E1; [|discriminate].
  apply add_term_to_eq_spec in E1 as (St1 & (eF & HF0 & HF1) & O1).
  set (name := String.concat "*" (snd t)).
  set (income := inc && negb (mem name (excl s))).
  assert (Hs2 : forall s2, (if income then add_term_to_eq s1 "INC" t else Some s1) = Some s2 ->
            static s2 = static s /\ lookup_var "F" (vars s2) = Some (mkEqn (blob eF) (add_term t (terms eF))) /\
            forall k, k <> "F" -> k <> "INC" -> lookup_var k (vars s2) = lookup_var k (vars s)).
  { intros s2. destruct income.
    - intros E2. apply add_term_to_eq_spec in E2 as (St2 & _ & O2). split; [congruence|]. split.
      + rewrite O2 by discriminate. exact HF1.
      + intros k K1 K2. rewrite O2 by congruence. apply O1. congruence.
    - intros E2. injection E2 as <-. split; [exact St1|]. split; [exact HF1|].
      intros k K1 K2. apply O1. congruence. }
  destruct (if income then add_term_to_eq s1 "INC" t else Some s1) as [s2|]; [|discriminate].
  destruct (Hs2 s2 eq_refl) as (St2 & F2 & O2). clear Hs2.
  destruct def as [d|].
  - destruct (lookup_var name (vars s2)) as [e|] eqn:El.
    + destruct (renders_empty e).
      * intros H. apply set_rhs_spec in H as (St3 & _ & O3). split; [congruence|]. split.
        -- intros [C|C]; [discriminate|]. exists eF. split; [exact HF0|]. rewrite O3 by exact C. exact F2.
        -- intros k K1 K2 [C|C]; [discriminate|]. rewrite O3 by congruence. now apply O2.
      * intros H. injection H as <-. split; [exact St2|]. split.
        -- intros _. exists eF. split; [exact HF0|exact F2].
        -- intros k K1 K2 _. now apply O2.
    + intros H. injection H as <-. split; [exact St2|]. split.
      * intros [C|C]; [discriminate|]. exists eF. split; [exact HF0|].
        rewrite lookup_add_variable_other by exact C. exact F2.
      * intros k K1 K2 [C|C]; [discriminate|]. rewrite lookup_add_variable_other by congruence. now apply O2.
  - intros H. injection H as <-. split; [exact St2|]. split.
    + intros _. exists eF. split; [exact HF0|exact F2].
    + intros k K1 K2 _. now apply O2.
Qed.

Lemma static_ensure_var s n : static (ensure_var s n) = static s.
Proof. unfold ensure_var. destruct (has_var s n); reflexivity. Qed.

Lemma lookup_ensure_var_other s n k : n <> k -> lookup_var k (vars (ensure_var s n)) = lookup_var k (vars s).
Proof. intros H. unfold ensure_var. destruct (has_var s n); [reflexivity|now apply lookup_add_variable_other]. Qed.

(** the equation under [n] after "create it with an empty right-hand side if it does not exist" *)
Definition prior_eqn (s : sector) (n : string) : eqn :=
  match lookup_var n (vars s) with Some e => e | None => mkEqn "" [] end.

Lemma lookup_ensure_var_same s n : lookup_var n (vars (ensure_var s n)) = Some (prior_eqn s n).
Proof.
  unfold ensure_var, has_var, prior_eqn. destruct (lookup_var n (vars s)) eqn:E; [exact E|].
  apply lookup_add_variable_same.
Qed.

(* ------------------------------------------------------------------ *)
(** * C. Zones *)

Local Open Scope R_scope.

Fixpoint zsum (mu : sector -> R) (Z : zone) : R :=
  match Z with [] => 0 | s :: r => mu s + zsum mu r end.

(** value of the term list of the F equation (0 for a sector without F) *)
Definition Fsum (v : string -> R) (s : sector) : R :=
  match lookup_var "F" (vars s) with Some e => tsum_in v s (terms e) | None => 0 end.

Lemma tsum_in_static v s s' l : fullcode s' = fullcode s -> tsum_in v s' l = tsum_in v s l.
Proof.
  intros H. induction l as [|[c f] r IH]; simpl; [reflexivity|]. rewrite IH. f_equal.
  unfold tval_in. simpl. f_equal. clear IH. induction f as [|x f IHf]; simpl; [reflexivity|].
  rewrite IHf. unfold qualify. now rewrite H.
Qed.

Lemma find_sec_sid i Z s : find_sec i Z = Some s -> sid s = i.
Proof. unfold find_sec. intros H. apply find_some in H as [_ H]. now apply Nat.eqb_eq in H. Qed.

Lemma find_sec_In i Z s : find_sec i Z = Some s -> List.In s Z.
Proof. unfold find_sec. intros H. now apply find_some in H as [H _]. Qed.

Lemma upd_spec i f Z Z' :
  upd i f Z = Ok Z' -> (forall s s', f s = Ok s' -> sid s' = sid s) ->
  exists s s', find_sec i Z = Some s /\ f s = Ok s' /\ find_sec i Z' = Some s' /\
    (forall j, j <> i -> find_sec j Z' = find_sec j Z) /\
    (forall mu, zsum mu Z' = zsum mu Z - mu s + mu s') /\
    (forall P : sector -> bool, P s = false -> P s' = false -> filter P Z' = filter P Z) /\
    List.length Z' = List.length Z.
Proof.
  intros H Hf. revert Z' H. induction Z as [|a r IH]; intros Z' H; simpl in H; [discriminate|].
  destruct (Nat.eqb (sid a) i) eqn:E.
  - destruct (f a) as [a'|] eqn:Fa; [|discriminate]. injection H as <-.
    exists a, a'. unfold find_sec. simpl. rewrite E. rewrite (Hf _ _ Fa), E.
    split; [reflexivity|]. split; [exact Fa|]. split; [reflexivity|]. split; [|split; [|split]].
    + intros j Hj. apply Nat.eqb_eq in E. rewrite E.
      destruct (Nat.eqb_spec i j); [congruence|reflexivity].
    + intros mu. simpl. lra.
    + intros P HP HP'. simpl. rewrite HP, HP'. reflexivity.
    + reflexivity.
  - destruct (upd i f r) as [r'|] eqn:U; [|discriminate]. injection H as <-.
    destruct (IH r' eq_refl) as (s & s' & F1 & F2 & F3 & F4 & F5 & F6 & F7).
    exists s, s'. unfold find_sec in *. simpl. rewrite E.
    split; [exact F1|]. split; [exact F2|]. split; [exact F3|]. split; [|split; [|split]].
    + intros j Hj. destruct (Nat.eqb (sid a) j); [reflexivity|]. now apply F4.
    + intros mu. rewrite F5. lra.
    + intros P HP HP'. rewrite (F6 P HP HP'). reflexivity.
    + now rewrite F7.
Qed.

Lemma upd_static i f Z Z' :
  upd i f Z = Ok Z' -> (forall s s', f s = Ok s' -> static s' = static s) -> map static Z' = map static Z.
Proof.
  intros H Hf. revert Z' H. induction Z as [|a r IH]; intros Z' H; simpl in H; [discriminate|].
  destruct (Nat.eqb (sid a) i).
  - destruct (f a) as [a'|] eqn:Fa; [|discriminate]. injection H as <-. simpl. now rewrite (Hf _ _ Fa).
  - destruct (upd i f r) as [r'|]; [|discriminate]. injection H as <-. simpl. now rewrite (IH r' eq_refl).
Qed.

(** objects found under the same ID in two zones with the same immutable attributes *)
Lemma find_sec_static j Z Z' : map static Z' = map static Z ->
  match find_sec j Z, find_sec j Z' with
  | Some s, Some s' => static s' = static s
  | None, None => True
  | _, _ => False
  end.
Proof.
  revert Z'. induction Z as [|a r IH]; intros [|a' r'] H; simpl in H; try discriminate; [exact I|].
  assert (Ha : static a' = static a) by congruence. assert (Hr : map static r' = map static r) by congruence.
  unfold find_sec. simpl. rewrite (static_sid _ _ Ha).
  destruct (Nat.eqb (sid a) j); [exact Ha|]. now apply IH.
Qed.

Lemma foldM_app {A B} (f : A -> B -> result A) l1 l2 a a' :
  foldM f (l1 ++ l2) a = Ok a' <-> exists a1, foldM f l1 a = Ok a1 /\ foldM f l2 a1 = Ok a'.
Proof.
  revert a. induction l1 as [|b l1 IH]; intros a; simpl.
  - split; [intros H; eauto|intros (a1 & H1 & H2); congruence].
  - destruct (f a b) as [a0|e]; [apply IH|]. split; [discriminate|intros (a1 & H1 & _); discriminate].
Qed.

(* ------------------------------------------------------------------ *)
(** * D. Demand aggregation *)

(** a sector of the zone that declares a demand for the market's good: not the market itself, and
    it owns DEM_<code> (same country) resp. DEM_<market full code> (another country of the zone) *)
Definition demander (mk s : sector) : bool :=
  negb (Nat.eqb (sid s) (sid mk)) && has_var s (dem_name mk s).
Definition demanders (mk : sector) (Z : zone) : list sector := filter (demander mk) Z.
Definition dem_full (mk s : sector) : string := full_name s (dem_name mk s).
(** value of a demander's demand variable *)
Definition dem_val (v : string -> R) (mk s : sector) : R := v (qualify s (dem_name mk s)).

Lemma Fsum_ext v s s' : fullcode s' = fullcode s -> lookup_var "F" (vars s') = lookup_var "F" (vars s) ->
  Fsum v s' = Fsum v s.
Proof. intros H1 H2. unfold Fsum. rewrite H2. destruct (lookup_var "F" (vars s)); [now apply tsum_in_static|reflexivity]. Qed.

Lemma Fsum_add v s s' e t : fullcode s' = fullcode s -> lookup_var "F" (vars s) = Some e ->
  lookup_var "F" (vars s') = Some (mkEqn (blob e) (add_term t (terms e))) ->
  Fsum v s' = Fsum v s + tval_in v s t.
Proof.
  intros H1 H2 H3. unfold Fsum. rewrite H2, H3. simpl. rewrite (tsum_in_static v s s' _ H1).
  rewrite add_term_sum_in. lra.
Qed.

Lemma dem_step_spec mk s s' ts : dem_step mk s = Ok (s', ts) ->
  static s' = static s /\
  ts = (if demander mk s then [dem_full mk s] else []) /\
  (forall v, Fsum v s' = Fsum v s - (if demander mk s then dem_val v mk s else 0)) /\
  (forall k, k <> "F" -> k <> "INC" -> k <> dem_name mk s -> lookup_var k (vars s') = lookup_var k (vars s)).
Proof.
  unfold dem_step, demander. destruct (Nat.eqb (sid s) (sid mk)); simpl.
  - intros H. injection H as <- <-. repeat split; auto. intros v. lra.
  - destruct (has_var s (dem_name mk s)) eqn:Hv.
    + destruct (add_cash_flow s ((-1)%Z, [dem_name mk s]) (Some "") true) as [s1|] eqn:E; [|discriminate].
      intros H. injection H as <- <-.
      apply add_cash_flow_spec in E as (St & HF & HO). simpl in HF, HO.
      destruct (dem_name_dem mk s) as [r Hr].
      destruct HF as (e & F0 & F1). { right. rewrite Hr. apply dem_not_F. }
      split; [exact St|]. split; [reflexivity|]. split.
      * intros v. rewrite (Fsum_add v s s1 e _ (static_fullcode _ _ St) F0 F1).
        unfold tval_in, dem_val. simpl. lra.
      * intros k K1 K2 K3. apply HO; auto.
    + intros H. injection H as <- <-. repeat split; auto. intros v. lra.
Qed.

Lemma dem_loop_spec mk Z Z' ts : dem_loop mk Z = Ok (Z', ts) ->
  Forall2 (fun s s' => exists t, dem_step mk s = Ok (s', t)) Z Z' /\
  ts = map (dem_full mk) (demanders mk Z) /\
  forall v, zsum (Fsum v) Z' = zsum (Fsum v) Z - zsum (dem_val v mk) (demanders mk Z).
Proof.
  revert Z' ts. induction Z as [|s r IH]; intros Z' ts H; simpl in H.
  - injection H as <- <-. split; [constructor|]. split; [reflexivity|]. intros v. simpl. lra.
  - destruct (dem_step mk s) as [[s' t1]|] eqn:E1; [|discriminate].
    destruct (dem_loop mk r) as [[r' t2]|] eqn:E2; [|discriminate].
    injection H as <- <-. destruct (IH _ _ eq_refl) as (I1 & I2 & I3).
    pose proof (dem_step_spec _ _ _ _ E1) as (St & Ht & HF & _).
    split; [constructor; [eauto|exact I1]|]. unfold demanders in *. simpl. split.
    + rewrite Ht, I2. destruct (demander mk s); reflexivity.
    + intros v. simpl. rewrite HF, I3. destruct (demander mk s); simpl; lra.
Qed.

Lemma Forall2_find (R : sector -> sector -> Prop) Z Z' j :
  Forall2 R Z Z' -> (forall s s', R s s' -> sid s' = sid s) ->
  match find_sec j Z, find_sec j Z' with
  | Some s, Some s' => R s s'
  | None, None => True
  | _, _ => False
  end.
Proof.
  intros H HR. induction H as [|a a' r r' Ha Hr IH]; [exact I|].
  unfold find_sec in *. simpl. rewrite (HR _ _ Ha). destruct (Nat.eqb (sid a) j); [exact Ha|exact IH].
Qed.

Lemma Forall2_static (R : sector -> sector -> Prop) Z Z' :
  Forall2 R Z Z' -> (forall s s', R s s' -> static s' = static s) -> map static Z' = map static Z.
Proof. intros H HR. induction H as [|a a' r r' Ha Hr IH]; [reflexivity|]. simpl. now rewrite (HR _ _ Ha), IH. Qed.

Lemma dem_step_self mk s s' t : sid s = sid mk -> dem_step mk s = Ok (s', t) -> s' = s /\ t = [].
Proof. intros H. unfold dem_step. rewrite H, Nat.eqb_refl. intros E. injection E as <- <-. auto. Qed.

Lemma demander_self mk s : sid s = sid mk -> demander mk s = false.
Proof. intros H. unfold demander. now rewrite H, Nat.eqb_refl. Qed.

(** the terms of the market's total-demand equation *)
Definition dem_terms (mk : sector) (Z : zone) : list term :=
  map (fun f => (1%Z, [f])) (map (dem_full mk) (demanders mk Z)).

Lemma generate_demand_spec Z m Z' : generate_demand Z m = Ok Z' ->
  exists mk mk',
    find_sec m Z = Some mk /\ find_sec m Z' = Some mk' /\ static mk' = static mk /\
    lookup_var (dem_short mk) (vars mk') = Some (mkEqn "" (dem_terms mk Z)) /\
    (forall k, k <> dem_short mk -> lookup_var k (vars mk') = lookup_var k (vars mk)) /\
    (forall j, j <> m -> match find_sec j Z, find_sec j Z' with
                         | Some s, Some s' => exists t, dem_step mk s = Ok (s', t)
                         | None, None => True
                         | _, _ => False
                         end) /\
    (forall v, zsum (Fsum v) Z' = zsum (Fsum v) Z - zsum (dem_val v mk) (demanders mk Z)) /\
    map static Z' = map static Z.
Proof.
  unfold generate_demand. destruct (find_sec m Z) as [mk|] eqn:Fm; [|discriminate].
  pose proof (find_sec_sid _ _ _ Fm) as Hsid.
  destruct (upd m (fun s => Ok (add_variable s (dem_short mk) "")) Z) as [Za|] eqn:U1; [|discriminate].
  destruct (dem_loop mk Za) as [[Zb fulls]|] eqn:DL; [|discriminate].
  intros U2.
  assert (P1 : forall s s', (fun s => Ok (add_variable s (dem_short mk) "")) s = Ok s' -> static s' = static s).
  { intros s s' E. injection E as <-. reflexivity. }
  pose proof (upd_static _ _ _ _ U1 P1) as StA.
  apply upd_spec in U1 as (s0 & s1 & A1 & A2 & A3 & A4 & A5 & A6 & _); [|intros s s' E; apply static_sid, P1, E].
  rewrite Fm in A1. injection A1 as <-. injection A2 as <-.
  apply dem_loop_spec in DL as (D1 & D2 & D3).
  assert (RS : forall s s', (exists t, dem_step mk s = Ok (s', t)) -> static s' = static s).
  { intros s s' [t E]. now apply dem_step_spec in E as (St & _). }
  pose proof (Forall2_static _ _ _ D1 RS) as StB.
  pose proof (Forall2_find _ _ _ m D1 (fun s s' H => static_sid _ _ (RS s s' H))) as Fb. rewrite A3 in Fb.
  destruct (find_sec m Zb) as [mb|] eqn:Fmb; [|contradiction]. destruct Fb as [t Et].
  apply dem_step_self in Et as [-> _]; [|reflexivity].
  assert (P2 : forall s s', (fun s => opt_key (set_rhs_terms s (dem_short mk) (map (fun f => (1%Z, [f])) fulls))) s = Ok s' ->
               static s' = static s).
  { intros s s' E. destruct (set_rhs_terms s (dem_short mk) _) as [x|] eqn:Ex; [|discriminate]. injection E as <-.
    apply set_rhs_terms_spec in Ex. subst x. reflexivity. }
  pose proof (upd_static _ _ _ _ U2 P2) as StC.
  apply upd_spec in U2 as (s2 & s3 & B1 & B2 & B3 & B4 & B5 & _ & _); [|intros s s' E; apply static_sid, P2, E].
  rewrite Fmb in B1. injection B1 as <-.
  destruct (set_rhs_terms (add_variable mk (dem_short mk) "") (dem_short mk) _) as [x|] eqn:Ex; [|discriminate].
  injection B2 as <-. apply set_rhs_terms_spec in Ex. subst x.
  assert (Dem : demanders mk Za = demanders mk Z).
  { unfold demanders. apply A6; apply demander_self; reflexivity. }
  exists mk, (set_eqn (add_variable mk (dem_short mk) "") (dem_short mk) (mkEqn "" (map (fun f => (1%Z, [f])) fulls))).
  split; [reflexivity|]. split; [exact B3|]. split; [reflexivity|]. split; [|split; [|split; [|split]]].
  - rewrite lookup_set_eqn_same. unfold dem_terms. now rewrite D2, Dem.
  - intros k Hk. rewrite lookup_set_eqn_other by congruence. apply lookup_add_variable_other. congruence.
  - intros j Hj. rewrite (B4 j Hj).
    pose proof (Forall2_find _ _ _ j D1 (fun s s' H => static_sid _ _ (RS s s' H))) as Fj.
    rewrite (A4 j Hj) in Fj. exact Fj.
  - intros v. rewrite B5, D3, A5, Dem.
    assert (E1 : Fsum v (add_variable mk (dem_short mk) "") = Fsum v mk).
    { apply Fsum_ext; [reflexivity|]. apply lookup_add_variable_other. apply dem_not_F. }
    assert (E2 : Fsum v (set_eqn (add_variable mk (dem_short mk) "") (dem_short mk) (mkEqn "" (map (fun f => (1%Z, [f])) fulls))) = Fsum v mk).
    { rewrite <- E1. apply Fsum_ext; [reflexivity|]. apply lookup_set_eqn_other. apply dem_not_F. }
    rewrite E1, E2. lra.
  - congruence.
Qed.

(* ------------------------------------------------------------------ *)
(** * E. Supply: one supplier *)

Lemma lookup_add_to c t L c' :
  ledger_lookup c' (add_to c t L) = if String.eqb c c' then add_term t (ledger_lookup c' L) else ledger_lookup c' L.
Proof.
  induction L as [|[d ts] r IH]; simpl.
  - rewrite (String.eqb_sym c' c). destruct (String.eqb c c'); reflexivity.
  - destruct (String.eqb_spec c d) as [->|Hcd]; simpl.
    + rewrite (String.eqb_sym c' d). destruct (String.eqb d c'); reflexivity.
    + destruct (String.eqb_spec c' d) as [->|Hcd'].
      * destruct (String.eqb_spec c d); [contradiction|reflexivity].
      * exact IH.
Qed.

Lemma tsum_add_to v c t L c' :
  tsum v (ledger_lookup c' (add_to c t L)) = (if String.eqb c c' then tval v t else 0) + tsum v (ledger_lookup c' L).
Proof. rewrite lookup_add_to. destruct (String.eqb c c'); [apply add_term_sum|lra]. Qed.

(** a paired send/receive of [x] from currency [h] to currency [a] *)
Definition fx_pair (h a x : string) (L : ledger) : ledger :=
  fx_step (fx_step L (Send h x)) (Receive h a x).

Lemma fx_pair_home v h a x L : h <> a -> h <> NUM ->
  tsum v (ledger_lookup h (fx_pair h a x L)) = tsum v (ledger_lookup h L) + v x.
Proof.
  intros Hha Hh. unfold fx_pair, fx_step. rewrite !tsum_add_to.
  destruct (String.eqb_spec NUM h); [congruence|]. destruct (String.eqb_spec a h); [congruence|].
  rewrite String.eqb_refl. unfold tval. simpl. lra.
Qed.

Lemma fx_pair_abroad v h a x L : h <> a -> a <> NUM ->
  tsum v (ledger_lookup a (fx_pair h a x L)) = tsum v (ledger_lookup a L) - v x * v (cross_name h a).
Proof.
  intros Hha Ha. unfold fx_pair, fx_step. rewrite !tsum_add_to.
  destruct (String.eqb_spec NUM a); [congruence|]. destruct (String.eqb_spec h a); [congruence|].
  rewrite String.eqb_refl. unfold tval. simpl. lra.
Qed.

Lemma supplier_local_spec mk ln s s' : supplier_local mk ln s = Ok s' ->
  static s' = static s /\
  lookup_var (supply_name mk s) (vars s') =
    Some (mkEqn (blob (prior_eqn s (supply_name mk s)))
                (add_term (1%Z, [full_name mk ln]) (terms (prior_eqn s (supply_name mk s))))) /\
  (forall k, k <> "F" -> k <> "INC" -> k <> supply_name mk s -> lookup_var k (vars s') = lookup_var k (vars s)) /\
  (forall v, Fsum v s' = Fsum v s + v (qualify s (supply_name mk s))).
Proof.
  unfold supplier_local. set (sn := supply_name mk s).
  destruct (supply_name_sup mk s) as [r Hr]. fold sn in Hr.
  destruct (add_term_to_eq (ensure_var s sn) sn (1%Z, [full_name mk ln])) as [s2|] eqn:E1; [|discriminate].
  destruct (add_cash_flow s2 (1%Z, [sn]) None true) as [s3|] eqn:E2; [|discriminate].
  intros H. injection H as <-.
  apply add_term_to_eq_spec in E1 as (St1 & (e & L0 & L1) & O1).
  rewrite lookup_ensure_var_same in L0. injection L0 as <-.
  rewrite static_ensure_var in St1.
  apply add_cash_flow_spec in E2 as (St2 & HF & HO).
  destruct HF as (eF & F0 & F1); [now left|].
  assert (SF : sn <> "F") by (rewrite Hr; apply sup_not_F).
  assert (SI : sn <> "INC") by (rewrite Hr; apply sup_not_INC).
  split; [congruence|]. split; [|split].
  - rewrite HO; auto.
  - intros k K1 K2 K3. rewrite HO by auto. rewrite O1 by congruence. apply lookup_ensure_var_other. congruence.
  - intros v. rewrite (Fsum_add v s2 s3 eF _ (static_fullcode _ _ St2) F0 F1).
    assert (FC : fullcode s2 = fullcode s) by exact (static_fullcode _ _ St1).
    assert (E : Fsum v s2 = Fsum v s).
    { apply Fsum_ext; [exact FC|]. rewrite O1 by congruence. apply lookup_ensure_var_other. congruence. }
    assert (Q : qualify s2 sn = qualify s sn) by (unfold qualify; now rewrite FC).
    rewrite E. unfold tval_in. simpl. rewrite Q. lra.
Qed.

Lemma supplier_foreign_spec mk t s s' : supplier_foreign mk t s = Ok s' ->
  static s' = static s /\
  lookup_var (supply_name mk s) (vars s') =
    Some (mkEqn (blob (prior_eqn s (supply_name mk s))) (add_term t (terms (prior_eqn s (supply_name mk s))))) /\
  (forall k, k <> "F" -> k <> "INC" -> k <> supply_name mk s -> lookup_var k (vars s') = lookup_var k (vars s)) /\
  (forall v, Fsum v s' = Fsum v s + tval_in v s t).
Proof.
  unfold supplier_foreign. set (sn := supply_name mk s).
  destruct (supply_name_sup mk s) as [r Hr]. fold sn in Hr.
  destruct (add_term_to_eq (ensure_var s sn) sn t) as [s2|] eqn:E1; [|discriminate].
  destruct (add_cash_flow s2 t None true) as [s3|] eqn:E2; [|discriminate].
  intros H. injection H as <-.
  apply add_term_to_eq_spec in E1 as (St1 & (e & L0 & L1) & O1).
  rewrite lookup_ensure_var_same in L0. injection L0 as <-.
  rewrite static_ensure_var in St1.
  apply add_cash_flow_spec in E2 as (St2 & HF & HO).
  destruct HF as (eF & F0 & F1); [now left|].
  assert (SF : sn <> "F") by (rewrite Hr; apply sup_not_F).
  assert (SI : sn <> "INC") by (rewrite Hr; apply sup_not_INC).
  split; [congruence|]. split; [|split].
  - rewrite HO; auto.
  - intros k K1 K2 K3. rewrite HO by auto. rewrite O1 by congruence. apply lookup_ensure_var_other. congruence.
  - intros v. rewrite (Fsum_add v s2 s3 eF _ (static_fullcode _ _ St2) F0 F1).
    assert (FC : fullcode s2 = fullcode s) by exact (static_fullcode _ _ St1).
    assert (E : Fsum v s2 = Fsum v s).
    { apply Fsum_ext; [exact FC|]. rewrite O1 by congruence. apply lookup_ensure_var_other. congruence. }
    rewrite E. f_equal. apply (tsum_in_static v s s2 [t]) in FC. simpl in FC. lra.
Qed.

Lemma supplier_local_static mk ln s s' : supplier_local mk ln s = Ok s' -> static s' = static s.
Proof. intros H. now apply supplier_local_spec in H. Qed.
Lemma supplier_foreign_static mk t s s' : supplier_foreign mk t s = Ok s' -> static s' = static s.
Proof. intros H. now apply supplier_foreign_spec in H. Qed.

Lemma Fsum_set_eqn_sup v s x e : Fsum v (set_eqn s ("SUP_" ++ x) e) = Fsum v s.
Proof. apply Fsum_ext; [reflexivity|]. apply lookup_set_eqn_other. apply sup_not_F. Qed.

(** everything one iteration of the supplier loop does *)
Lemma supply_step_spec h a mk W i e W' :
  supply_step h a mk W (i, e) = Ok W' -> i <> sid mk ->
  exists b sup mkW,
    resolve W i = Ok (b, sup) /\
    find_sec (sid mk) (home W) = Some mkW /\
    find_sec (sid mk) (home W') = Some (set_eqn mkW (alloc_name sup) e) /\
    map static (home W') = map static (home W) /\ map static (abroad W') = map static (abroad W) /\
    (forall j, j <> i -> j <> sid mk -> find_sec j (home W') = find_sec j (home W)) /\
    (forall j, j <> i -> find_sec j (abroad W') = find_sec j (abroad W)) /\
    if b then
      exists s', supplier_local mk (alloc_name sup) sup = Ok s' /\ find_sec i (home W') = Some s' /\
        abroad W' = abroad W /\ fxl W' = fxl W /\ crosses W' = crosses W /\
        (forall v, zsum (Fsum v) (home W') = zsum (Fsum v) (home W) + v (qualify sup (supply_name mk sup)))
    else
      exists s' L, fxl W = Some L /\
        supplier_foreign mk (credited h a (full_name mk (alloc_name sup))) sup = Ok s' /\
        find_sec i (abroad W') = Some s' /\ find_sec i (home W') = find_sec i (home W) /\
        fxl W' = Some (fx_pair h a (full_name mk (alloc_name sup)) L) /\
        (forall v, zsum (Fsum v) (home W') = zsum (Fsum v) (home W)) /\
        (forall v, zsum (Fsum v) (abroad W') = zsum (Fsum v) (abroad W) +
                   tval_in v sup (credited h a (full_name mk (alloc_name sup)))).
Proof.
  intros H Him. unfold supply_step in H.
  destruct (resolve W i) as [[b sup]|] eqn:R; [|discriminate].
  destruct (upd (sid mk) (fun s => Ok (set_eqn s (alloc_name sup) e)) (home W)) as [H1|] eqn:U1; [|discriminate].
  assert (P1 : forall s s', (fun s => Ok (set_eqn s (alloc_name sup) e)) s = Ok s' -> static s' = static s).
  { intros s s' E. injection E as <-. reflexivity. }
  pose proof (upd_static _ _ _ _ U1 P1) as St1.
  apply upd_spec in U1 as (m0 & m1 & A1 & A2 & A3 & A4 & A5 & _ & _); [|intros s s' E; apply static_sid, P1, E].
  injection A2 as <-.
  assert (F1 : forall v, zsum (Fsum v) H1 = zsum (Fsum v) (home W)).
  { intros v. rewrite A5. unfold alloc_name. rewrite Fsum_set_eqn_sup. lra. }
  exists b, sup, m0. split; [reflexivity|]. split; [exact A1|].
  assert (Rs : if b then find_sec i (home W) = Some sup
               else find_sec i (home W) = None /\ find_sec i (abroad W) = Some sup).
  { unfold resolve in R. destruct (find_sec i (home W)) as [s|].
    - injection R as <- <-. reflexivity.
    - destruct (find_sec i (abroad W)) as [s|]; [|discriminate]. injection R as <- <-. auto. }
  destruct b.
  - destruct (upd i (supplier_local mk (alloc_name sup)) H1) as [H2|] eqn:U2; [|discriminate].
    injection H as <-. simpl.
    pose proof (upd_static _ _ _ _ U2 (supplier_local_static mk _)) as St2.
    apply upd_spec in U2 as (s0 & s1 & B1 & B2 & B3 & B4 & B5 & _ & _);
      [|intros s s' E; apply static_sid, (supplier_local_static _ _ _ _ E)].
    rewrite (A4 i Him), Rs in B1. injection B1 as <-.
    split; [rewrite B4 by congruence; exact A3|]. split; [congruence|]. split; [reflexivity|].
    split; [intros j J1 J2; rewrite B4 by exact J1; now apply A4|]. split; [reflexivity|].
    exists s1. repeat (split; [first [exact B2|exact B3|reflexivity]|]).
    intros v. rewrite B5, F1. apply supplier_local_spec in B2 as (_ & _ & _ & HF). rewrite HF. lra.
  - destruct Rs as [Rh Ra].
    destruct (fxl W) as [L|] eqn:EL; [|discriminate].
    destruct (upd i (supplier_foreign mk (credited h a (full_name mk (alloc_name sup)))) (abroad W)) as [A2|] eqn:U2; [|discriminate].
    injection H as <-. simpl.
    pose proof (upd_static _ _ _ _ U2 (supplier_foreign_static mk _)) as St2.
    apply upd_spec in U2 as (s0 & s1 & B1 & B2 & B3 & B4 & B5 & _ & _);
      [|intros s s' E; apply static_sid, (supplier_foreign_static _ _ _ _ E)].
    rewrite Ra in B1. injection B1 as <-.
    split; [exact A3|]. split; [exact St1|]. split; [exact St2|].
    split; [intros j J1 J2; now apply A4|]. split; [exact B4|].
    exists s1, L. split; [reflexivity|]. split; [exact B2|]. split; [exact B3|].
    split; [now apply A4|]. split; [reflexivity|]. split; [exact F1|].
    intros v. rewrite B5. apply supplier_foreign_spec in B2 as (_ & _ & _ & HF). rewrite HF. lra.
Qed.

(* ------------------------------------------------------------------ *)
(** * F. Supply: the loop over all suppliers *)

Lemma resolve_static W W1 i :
  map static (home W1) = map static (home W) -> map static (abroad W1) = map static (abroad W) ->
  match resolve W i, resolve W1 i with
  | Ok (b, s), Ok (b1, s1) => b1 = b /\ static s1 = static s
  | Err _, Err _ => True
  | _, _ => False
  end.
Proof.
  intros Hh Ha. unfold resolve.
  pose proof (find_sec_static i _ _ Hh) as Fh. pose proof (find_sec_static i _ _ Ha) as Fa.
  destruct (find_sec i (home W)), (find_sec i (home W1)); try contradiction; [auto|].
  destruct (find_sec i (abroad W)), (find_sec i (abroad W1)); try contradiction; auto.
Qed.

Section Fold.
Variables (h a : string) (mk : sector).
Let step := supply_step h a mk.
Definition not_market (L : list (nat * eqn)) : Prop := Forall (fun ie => fst ie <> sid mk) L.

Lemma fold_static L : forall W W', foldM step L W = Ok W' -> not_market L ->
  map static (home W') = map static (home W) /\ map static (abroad W') = map static (abroad W).
Proof.
  induction L as [|[i e] L IH]; intros W W' H NM; cbn [foldM] in H; unfold step in H.
  - injection H as <-. auto.
  - inversion NM as [|? ? N1 N2]; subst. simpl in N1.
    destruct (supply_step h a mk W (i, e)) as [W1|] eqn:E; [|discriminate].
    apply supply_step_spec in E as (b & sup & mkW & _ & _ & _ & S1 & S2 & _); [|exact N1].
    destruct (IH _ _ H N2) as [I1 I2]. split; congruence.
Qed.

(** a variable of the market that is none of the suppliers' allocation variables is left alone *)
Lemma fold_market_var k L : forall W W' mkW, foldM step L W = Ok W' -> not_market L ->
  find_sec (sid mk) (home W) = Some mkW ->
  (forall i e b s, List.In (i, e) L -> resolve W i = Ok (b, s) -> alloc_name s <> k) ->
  exists mk', find_sec (sid mk) (home W') = Some mk' /\ lookup_var k (vars mk') = lookup_var k (vars mkW) /\
              static mk' = static mkW.
Proof.
  induction L as [|[i e] L IH]; intros W W' mkW H NM Fm HK; cbn [foldM] in H; unfold step in H.
  - injection H as <-. eauto.
  - inversion NM as [|? ? N1 N2]; subst. simpl in N1.
    destruct (supply_step h a mk W (i, e)) as [W1|] eqn:E; [|discriminate].
    apply supply_step_spec in E as (b & sup & mkW0 & R & Fm0 & Fm1 & S1 & S2 & _); [|exact N1].
    rewrite Fm in Fm0. injection Fm0 as <-.
    destruct (IH _ _ _ H N2 Fm1) as (mk' & I1 & I2 & I3).
    + intros j e' b' s' Hin Rj. pose proof (resolve_static W W1 j S1 S2) as RS. rewrite Rj in RS.
      destruct (resolve W j) as [[b0 s0]|] eqn:R0; [|contradiction]. destruct RS as [_ RS].
      unfold alloc_name. rewrite (static_fullcode _ _ RS). apply (HK j e' b0 s0); [now right|exact R0].
    + exists mk'. split; [exact I1|]. split; [|rewrite I3; reflexivity].
      rewrite I2. apply lookup_set_eqn_other. apply (HK i e b sup); [now left|exact R].
Qed.

Lemma fold_others j L : forall W W', foldM step L W = Ok W' -> not_market L ->
  ~ List.In j (map fst L) -> j <> sid mk ->
  find_sec j (home W') = find_sec j (home W) /\ find_sec j (abroad W') = find_sec j (abroad W).
Proof.
  induction L as [|[i e] L IH]; intros W W' H NM Hj Hm; cbn [foldM] in H; unfold step in H.
  - injection H as <-. auto.
  - inversion NM as [|? ? N1 N2]; subst. simpl in N1, Hj.
    destruct (supply_step h a mk W (i, e)) as [W1|] eqn:E; [|discriminate].
    apply supply_step_spec in E as (b & sup & mkW & _ & _ & _ & _ & _ & O1 & O2 & _); [|exact N1].
    destruct (IH _ _ H N2) as [I1 I2]; [tauto|exact Hm|].
    rewrite I1, I2. split; [apply O1; [intros ->; tauto|exact Hm]|apply O2; intros ->; tauto].
Qed.

(** what the loop does to each supplier (registered once) *)
Lemma fold_supplier i e L : forall W W', foldM step L W = Ok W' -> not_market L ->
  NoDup (map fst L) -> List.In (i, e) L ->
  forall b s, resolve W i = Ok (b, s) ->
  if b then exists s', find_sec i (home W') = Some s' /\ supplier_local mk (alloc_name s) s = Ok s'
  else exists s', find_sec i (abroad W') = Some s' /\
                  supplier_foreign mk (credited h a (full_name mk (alloc_name s))) s = Ok s'.
Proof.
  induction L as [|[i0 e0] L IH]; intros W W' H NM ND Hin b s R; cbn [foldM] in H; unfold step in H; [destruct Hin|].
  inversion NM as [|? ? N1 N2]; subst. simpl in N1. inversion ND as [|? ? D1 D2]; subst.
  destruct (supply_step h a mk W (i0, e0)) as [W1|] eqn:E; [|discriminate].
  apply supply_step_spec in E as (b0 & sup & mkW & R0 & _ & _ & _ & _ & O1 & O2 & Hb); [|exact N1].
  destruct Hin as [Hin|Hin].
  - injection Hin as -> ->. rewrite R in R0. injection R0 as <- <-.
    assert (Hi : i <> sid mk) by exact N1.
    destruct (fold_others i L _ _ H N2 D1 Hi) as [X1 X2].
    destruct b.
    + destruct Hb as (s' & B1 & B2 & _). exists s'. split; [congruence|exact B1].
    + destruct Hb as (s' & L0 & _ & B1 & B2 & _). exists s'. split; [congruence|exact B1].
  - assert (Hne : i <> i0). { intros ->. apply D1. apply (in_map fst) in Hin. exact Hin. }
    assert (Hi : i <> sid mk).
    { rewrite Forall_forall in N2. apply (N2 (i, e) Hin). }
    apply (IH _ _ H N2 D2 Hin b s).
    unfold resolve in *. rewrite (O1 i Hne Hi), (O2 i Hne). exact R.
Qed.

(** suppliers that all live in the market's zone leave the rest of the world alone *)
Lemma fold_local L : forall W W', foldM step L W = Ok W' -> not_market L ->
  Forall (fun ie => find_sec (fst ie) (home W) <> None) L ->
  fxl W' = fxl W /\ abroad W' = abroad W /\ crosses W' = crosses W.
Proof.
  induction L as [|[i e] L IH]; intros W W' H NM HL; cbn [foldM] in H; unfold step in H.
  - injection H as <-. auto.
  - inversion NM as [|? ? N1 N2]; subst. simpl in N1. inversion HL as [|? ? L1 L2]; subst. simpl in L1.
    destruct (supply_step h a mk W (i, e)) as [W1|] eqn:E; [|discriminate].
    apply supply_step_spec in E as (b & sup & mkW & R & _ & _ & S1 & _ & _ & _ & Hb); [|exact N1].
    assert (b = true).
    { unfold resolve in R. destruct (find_sec i (home W)); [now injection R as <- _|contradiction]. }
    subst b. destruct Hb as (s' & _ & _ & B1 & B2 & B3 & _).
    destruct (IH _ _ H N2) as (I1 & I2 & I3).
    + rewrite Forall_forall in *. intros ie Hie. specialize (L2 ie Hie).
      pose proof (find_sec_static (fst ie) _ _ S1) as X.
      destruct (find_sec (fst ie) (home W)); [|contradiction]. destruct (find_sec (fst ie) (home W1)); [discriminate|contradiction].
    + repeat split; congruence.
Qed.

Local Open Scope R_scope.

(** what a supplier is credited, as the market's zone sees it: the supplier's own supply variable
    (a supplier of the zone), or the allocation sent abroad through the FX intermediary *)
Definition contrib (v : string -> R) (W : world) (i : nat) : R :=
  match resolve W i with
  | Ok (true, s) => v (qualify s (supply_name mk s))
  | Ok (false, s) => v (full_name mk (alloc_name s))
  | Err _ => 0
  end.

Fixpoint contribs (v : string -> R) (W : world) (L : list (nat * eqn)) : R :=
  match L with [] => 0 | ie :: r => contrib v W (fst ie) + contribs v W r end.

Definition hbal (v : string -> R) (W : world) : R :=
  zsum (Fsum v) (home W) + tsum v (net_terms (fxl W) h).
Definition abal (v : string -> R) (W : world) : R :=
  zsum (Fsum v) (abroad W) + tsum v (net_terms (fxl W) a).

Lemma contrib_static v W W1 i :
  map static (home W1) = map static (home W) -> map static (abroad W1) = map static (abroad W) ->
  contrib v W1 i = contrib v W i.
Proof.
  intros Hh Ha. pose proof (resolve_static W W1 i Hh Ha) as RS. unfold contrib.
  destruct (resolve W i) as [[b s]|], (resolve W1 i) as [[b1 s1]|]; try contradiction; [|reflexivity].
  destruct RS as [-> RS]. unfold qualify, supply_name, share_parent, alloc_name.
  rewrite (static_fullcode _ _ RS), (static_country _ _ RS). reflexivity.
Qed.

Lemma contribs_static v W W1 L :
  map static (home W1) = map static (home W) -> map static (abroad W1) = map static (abroad W) ->
  contribs v W1 L = contribs v W L.
Proof. intros Hh Ha. induction L as [|ie r IH]; simpl; [reflexivity|]. now rewrite IH, (contrib_static v W W1). Qed.

Lemma fold_hbal v L : h <> a -> h <> NUM -> forall W W', foldM step L W = Ok W' -> not_market L ->
  hbal v W' = hbal v W + contribs v W L.
Proof.
  intros Hha Hh. induction L as [|[i e] L IH]; intros W W' H NM; cbn [foldM] in H; unfold step in H.
  - injection H as <-. simpl. lra.
  - inversion NM as [|? ? N1 N2]; subst. simpl in N1.
    destruct (supply_step h a mk W (i, e)) as [W1|] eqn:E; [|discriminate].
    apply supply_step_spec in E as (b & sup & mkW & R & _ & _ & S1 & S2 & _ & _ & Hb); [|exact N1].
    rewrite (IH _ _ H N2), (contribs_static v W W1 L S1 S2). simpl. unfold contrib. rewrite R.
    unfold hbal. destruct b.
    + destruct Hb as (s' & _ & _ & _ & B2 & _ & B3). rewrite B2, B3. lra.
    + destruct Hb as (s' & L0 & B0 & _ & _ & _ & B2 & B3 & _). rewrite B2, B3, B0. simpl.
      rewrite (fx_pair_home v h a _ L0 Hha Hh). lra.
Qed.

Lemma tval_credited v s x : tval_in v s (credited h a (full_name mk x)) = v (full_name mk x) * v (cross_name h a).
Proof. unfold tval_in, credited. simpl. rewrite qualify_full, qualify_cross. lra. Qed.

Lemma fold_abal v L : h <> a -> a <> NUM -> forall W W', foldM step L W = Ok W' -> not_market L ->
  abal v W' = abal v W.
Proof.
  intros Hha Ha. induction L as [|[i e] L IH]; intros W W' H NM; cbn [foldM] in H; unfold step in H.
  - injection H as <-. reflexivity.
  - inversion NM as [|? ? N1 N2]; subst. simpl in N1.
    destruct (supply_step h a mk W (i, e)) as [W1|] eqn:E; [|discriminate].
    apply supply_step_spec in E as (b & sup & mkW & R & _ & _ & S1 & S2 & _ & _ & Hb); [|exact N1].
    rewrite (IH _ _ H N2). unfold abal. destruct b.
    + destruct Hb as (s' & _ & _ & B1 & B2 & _). rewrite B1, B2. reflexivity.
    + destruct Hb as (s' & L0 & B0 & _ & _ & _ & B2 & _ & B4). rewrite B2, B4, B0. simpl.
      rewrite (fx_pair_abroad v h a _ L0 Hha Ha), tval_credited. lra.
Qed.

End Fold.

(* ------------------------------------------------------------------ *)
(** * G. The whole of _GenerateEquations *)

Definition sup_list (mk : sector) (others : list (nat * string)) (r : nat) (fcs : list string) : list (nat * eqn) :=
  (map (fun o => (fst o, mkEqn (snd o) [])) others ++ [(r, mkEqn "" (residual_terms mk fcs))])%list.

Lemma sup_list_ids mk others r fcs : map fst (sup_list mk others r fcs) = (map fst others ++ [r])%list.
Proof. unfold sup_list. rewrite map_app, map_map. reflexivity. Qed.

(** names only depend on the immutable attributes *)
Lemma names_static mk1 mk : static mk1 = static mk ->
  sup_short mk1 = sup_short mk /\ dem_short mk1 = dem_short mk /\ dem_long mk1 = dem_long mk /\
  (forall s, supply_name mk1 s = supply_name mk s) /\ (forall s, dem_name mk1 s = dem_name mk s) /\
  (forall x, full_name mk1 x = full_name mk x) /\ sid mk1 = sid mk.
Proof.
  intros H. pose proof (static_code _ _ H) as Hc. pose proof (static_country _ _ H) as Hy.
  pose proof (static_fullcode _ _ H) as Hf. pose proof (static_sid _ _ H) as Hs.
  unfold sup_short, dem_short, dem_long, supply_name, dem_name, share_parent, full_name, sup_short, dem_short, dem_long.
  rewrite Hc, Hy, Hf. repeat split; auto.
Qed.

Lemma mg_unfold h a W m residual others W' :
  market_generate h a W m residual others = Ok W' ->
  exists mk r H1 mk1 H0 fcs,
    find_sec m (home W) = Some mk /\ the_residual (home W) mk residual = Ok r /\
    generate_demand (home W) m = Ok H1 /\ find_sec m H1 = Some mk1 /\
    upd m (fun s => opt_key (set_rhs_terms s (sup_short mk1) [(1%Z, [dem_short mk1])])) H1 = Ok H0 /\
    resolve_fullcodes (with_home W H0) (map fst others) = Ok fcs /\
    foldM (supply_step h a mk1) (sup_list mk1 others r fcs) (with_home W H0) = Ok W'.
Proof.
  unfold market_generate. destruct (find_sec m (home W)) as [mk|] eqn:Fm; [|discriminate].
  destruct (the_residual (home W) mk residual) as [r|] eqn:R; [|discriminate].
  destruct (generate_demand (home W) m) as [H1|] eqn:G; [|discriminate].
  unfold generate_supply. simpl home.
  destruct (find_sec m H1) as [mk1|] eqn:Fm1; [|discriminate].
  destruct (upd m _ H1) as [H0|] eqn:U; [|discriminate].
  replace (with_home (with_home W H1) H0) with (with_home W H0) by reflexivity.
  destruct (resolve_fullcodes (with_home W H0) (map fst others)) as [fcs|] eqn:RF; [|discriminate].
  intros F. exists mk, r, H1, mk1, H0, fcs. repeat split; auto.
Qed.

Local Open Scope R_scope.

Fixpoint ssum (f : string -> R) (l : list string) : R :=
  match l with [] => 0 | x :: r => f x + ssum f r end.

Lemma ssum_map (f : string -> R) (g : sector -> string) l : ssum f (map g l) = zsum (fun s => f (g s)) l.
Proof. induction l as [|x r IH]; simpl; [reflexivity|now rewrite IH]. Qed.

Lemma zsum_ext (f g : sector -> R) l : (forall s, List.In s l -> f s = g s) -> zsum f l = zsum g l.
Proof.
  induction l as [|x r IH]; intros H; simpl; [reflexivity|].
  rewrite (H x) by now left. rewrite IH; [reflexivity|]. intros s Hs. apply H. now right.
Qed.

Lemma zsum_app f l1 l2 : zsum f (l1 ++ l2)%list = zsum f l1 + zsum f l2.
Proof. induction l1 as [|x r IH]; simpl; [lra|]. rewrite IH. lra. Qed.

(** the residual supplier's equation: total supply minus the other suppliers' allocations *)
Lemma residual_sum v s mk fcs :
  tsum_in v s (residual_terms mk fcs) =
  v (qualify s (sup_short mk)) - ssum (fun fc => v (qualify s ("SUP_" ++ fc))) fcs.
Proof.
  unfold residual_terms.
  assert (G : forall acc, tsum_in v s (fold_left (fun acc fc => add_term ((-1)%Z, ["SUP_" ++ fc]) acc) fcs acc) =
                          tsum_in v s acc - ssum (fun fc => v (qualify s ("SUP_" ++ fc))) fcs).
  { induction fcs as [|fc r IH]; intros acc; cbn [fold_left ssum]; [lra|].
    rewrite IH, add_term_sum_in. unfold tval_in. cbn [fst snd fval_in]. lra. }
  rewrite G. cbn [tsum_in]. unfold tval_in. cbn [fst snd fval_in]. lra.
Qed.

Lemma resolve_sid W i b s : resolve W i = Ok (b, s) -> sid s = i.
Proof.
  unfold resolve. destruct (find_sec i (home W)) as [x|] eqn:E1.
  - intros H. injection H as <- <-. now apply find_sec_sid in E1.
  - destruct (find_sec i (abroad W)) as [x|] eqn:E2; [|discriminate].
    intros H. injection H as <- <-. now apply find_sec_sid in E2.
Qed.

Lemma find_any_resolve W i s : find_any W i = Some s <-> exists b, resolve W i = Ok (b, s).
Proof.
  unfold find_any, resolve. destruct (find_sec i (home W)) as [x|].
  - split; [intros H; injection H as <-; eauto|intros [b H]; injection H as <- <-; reflexivity].
  - destruct (find_sec i (abroad W)) as [x|].
    + split; [intros H; injection H as <-; eauto|intros [b H]; injection H as <- <-; reflexivity].
    + split; [discriminate|intros [b H]; discriminate].
Qed.

Lemma search_supplier_spec Z mk s : search_supplier Z mk = Ok s ->
  List.In s Z /\ sid s <> sid mk /\ country s = country mk /\ has_var s (sup_short mk) = true /\
  forall s', List.In s' Z -> is_candidate mk s' = true -> s' = s.
Proof.
  unfold search_supplier. destruct (filter (is_candidate mk) Z) as [|x [|y r]] eqn:E; try discriminate.
  intros H. injection H as <-.
  assert (Hin : List.In x (filter (is_candidate mk) Z)) by (rewrite E; now left).
  apply filter_In in Hin as [Hin Hc]. unfold is_candidate, share_parent in Hc.
  apply andb_true_iff in Hc as [Hc H3]. apply andb_true_iff in Hc as [H1 H2].
  apply String.eqb_eq in H1. apply negb_true_iff, Nat.eqb_neq in H2.
  repeat split; auto. intros s' Hs' Hc'.
  assert (X : List.In s' (filter (is_candidate mk) Z)) by (apply filter_In; auto).
  rewrite E in X. destruct X as [X|[]]. now symmetry.
Qed.

Section Main.
Variables (h a : string).

(** the facts every theorem below starts from *)
Record generated (W : world) (m : nat) (residual : option nat) (others : list (nat * string)) (W' : world)
       (mk : sector) (r : nat) : Prop := mkGenerated {
  g_run : market_generate h a W m residual others = Ok W';
  g_market : find_sec m (home W) = Some mk;
  g_residual : the_residual (home W) mk residual = Ok r;
  g_not_market : Forall (fun i => i <> m) (map fst others ++ [r])
}.

Lemma not_market_list mk1 m others r fcs : sid mk1 = m ->
  Forall (fun i => i <> m) (map fst others ++ [r]) -> not_market mk1 (sup_list mk1 others r fcs).
Proof.
  intros Hs H. unfold not_market. rewrite Forall_forall in *. intros ie Hin.
  rewrite Hs. apply H. rewrite <- (sup_list_ids mk1 others r fcs). now apply in_map.
Qed.

(** the market's own variables after the call *)
Lemma mg_market_var W m residual others W' mk r : generated W m residual others W' mk r ->
  forall k, (forall i b s, List.In i (map fst others ++ [r]) -> resolve W i = Ok (b, s) -> alloc_name s <> k) ->
  exists mk', find_sec m (home W') = Some mk' /\ static mk' = static mk /\
    lookup_var k (vars mk') =
      if String.eqb k (sup_short mk) then Some (mkEqn "" [(1%Z, [dem_short mk])])
      else if String.eqb k (dem_short mk) then Some (mkEqn "" (dem_terms mk (home W)))
      else lookup_var k (vars mk).
Proof.
  intros [Run Fm Res NM] k HK.
  apply mg_unfold in Run as (mk0 & r0 & H1 & mk1 & H0 & fcs & Fm0 & Res0 & GD & Fm1 & U & RF & Fold).
  rewrite Fm in Fm0. injection Fm0 as <-. rewrite Res in Res0. injection Res0 as <-.
  apply generate_demand_spec in GD as (mk0 & md & Fm0 & Fmd & Std & Ld & Od & _ & _ & StH1).
  rewrite Fm in Fm0. injection Fm0 as <-. rewrite Fm1 in Fmd. injection Fmd as <-.
  destruct (names_static _ _ Std) as (N1 & N2 & N3 & N4 & N5 & N6 & N7).
  pose proof (find_sec_sid _ _ _ Fm) as Hsid.
  assert (P : forall s s', (fun s => opt_key (set_rhs_terms s (sup_short mk1) [(1%Z, [dem_short mk1])])) s = Ok s' ->
              static s' = static s).
  { intros s s' E. destruct (set_rhs_terms s (sup_short mk1) _) as [x|] eqn:Ex; [|discriminate]. injection E as <-.
    apply set_rhs_terms_spec in Ex. subst x. reflexivity. }
  pose proof (upd_static _ _ _ _ U P) as StH0.
  apply upd_spec in U as (s0 & s1 & A1 & A2 & A3 & _); [|intros s s' E; apply static_sid, P, E].
  rewrite Fm1 in A1. injection A1 as <-.
  destruct (set_rhs_terms mk1 (sup_short mk1) _) as [x|] eqn:Ex; [|discriminate]. injection A2 as <-.
  apply set_rhs_terms_spec in Ex. subst x.
  assert (NM1 : not_market mk1 (sup_list mk1 others r fcs)) by (apply (not_market_list mk1 m); [congruence|exact NM]).
  destruct (fold_market_var h a mk1 k _ _ _ (set_eqn mk1 (sup_short mk1) (mkEqn "" [(1%Z, [dem_short mk1])])) Fold NM1)
    as (mk' & F1 & F2 & F3).
  - simpl home. rewrite N7, Hsid. exact A3.
  - intros i e b s Hin Rs.
    assert (Hi : List.In i (map fst others ++ [r])).
    { rewrite <- (sup_list_ids mk1 others r fcs). apply (in_map fst) in Hin. exact Hin. }
    pose proof (resolve_static W (with_home W H0) i) as RS. simpl in RS.
    specialize (RS (eq_trans StH0 StH1) eq_refl). rewrite Rs in RS.
    destruct (resolve W i) as [[b0 s0]|] eqn:R0; [|contradiction]. destruct RS as [_ RS].
    unfold alloc_name. rewrite (static_fullcode _ _ RS). apply (HK i b0 s0 Hi R0).
  - exists mk'. rewrite N7, Hsid in F1. split; [exact F1|]. split; [rewrite F3; exact Std|].
    rewrite F2, N1, N2. destruct (String.eqb_spec k (sup_short mk)) as [->|K1].
    + apply lookup_set_eqn_same.
    + rewrite lookup_set_eqn_other by congruence.
      destruct (String.eqb_spec k (dem_short mk)) as [->|K2]; [exact Ld|now apply Od].
Qed.

Lemma dem_sup_differ mk : String.eqb (dem_short mk) (sup_short mk) = false.
Proof. apply String.eqb_neq. intros H. symmetry in H. revert H. apply sup_not_dem. Qed.

(** ** C04, who is aggregated *)
Lemma mg_demand_members W m residual others W' mk r : generated W m residual others W' mk r ->
  exists mk', find_sec m (home W') = Some mk' /\ static mk' = static mk /\
    lookup_var (dem_short mk) (vars mk') = Some (mkEqn "" (dem_terms mk (home W))).
Proof.
  intros G. destruct (mg_market_var _ _ _ _ _ _ _ G (dem_short mk)) as (mk' & F1 & F2 & F3).
  - intros i b s _ _. apply sup_not_dem.
  - exists mk'. rewrite dem_sup_differ, String.eqb_refl in F3. auto.
Qed.

Lemma dem_terms_In mk Z t : List.In t (dem_terms mk Z) <->
  exists s, List.In s Z /\ sid s <> sid mk /\ has_var s (dem_name mk s) = true /\
            t = (1%Z, [full_name s (dem_name mk s)]).
Proof.
  unfold dem_terms, demanders. rewrite map_map, in_map_iff. split.
  - intros (s & <- & Hin). apply filter_In in Hin as [Hin Hd]. unfold demander in Hd.
    apply andb_true_iff in Hd as [H1 H2]. apply negb_true_iff, Nat.eqb_neq in H1. exists s. auto.
  - intros (s & Hin & H1 & H2 & ->). exists s. split; [reflexivity|]. apply filter_In. split; [exact Hin|].
    unfold demander. apply andb_true_iff. split; [now apply negb_true_iff, Nat.eqb_neq|exact H2].
Qed.

Lemma NoDup_map_filter {A B} (f : A -> B) (p : A -> bool) l : NoDup (map f l) -> NoDup (map f (filter p l)).
Proof.
  induction l as [|x r IH]; simpl; intros H; [constructor|].
  inversion H as [|? ? H1 H2]; subst. destruct (p x); simpl; [|auto]. constructor; [|auto].
  intros Hin. apply H1. apply in_map_iff in Hin as (y & E & Hy). apply filter_In in Hy as [Hy _].
  apply in_map_iff. eauto.
Qed.

Lemma dem_terms_NoDup mk Z : NoDup (map (dem_full mk) Z) -> NoDup (dem_terms mk Z).
Proof.
  intros H. unfold dem_terms, demanders. apply (NoDup_map_filter _ (demander mk)) in H.
  revert H. generalize (map (dem_full mk) (filter (demander mk) Z)). intros l H.
  induction H as [|x r H1 H2 IH]; simpl; constructor; [|exact IH].
  intros Hin. apply H1. apply in_map_iff in Hin as (y & E & Hy). injection E as <-. exact Hy.
Qed.

Local Open Scope R_scope.
Variables (v : string -> R) (bv : string -> string -> R).

Lemma holds_lookup s n e : lookup_var n (vars s) = Some e -> holds v bv s n -> v (full_name s n) = eqn_val v bv s e.
Proof. intros L H. unfold holds in H. rewrite L in H. exact H. Qed.

Lemma tsum_dem_terms s mk Z : tsum_in v s (dem_terms mk Z) = zsum (fun d => v (dem_full mk d)) (demanders mk Z).
Proof.
  unfold dem_terms. induction (demanders mk Z) as [|d r IH]; simpl; [reflexivity|].
  rewrite IH. unfold tval_in. simpl. unfold dem_full. rewrite qualify_full. lra.
Qed.

(** ** C04, the market clears *)
Lemma mg_clears W m residual others W' mk r : generated W m residual others W' mk r ->
  (forall i b s, List.In i (map fst others ++ [r]) -> resolve W i = Ok (b, s) -> fullcode s <> code mk) ->
  has_substring "__" (dem_short mk) = false ->
  forall mk', find_sec m (home W') = Some mk' ->
  holds v bv mk' (sup_short mk) -> holds v bv mk' (dem_short mk) ->
  v (full_name mk (sup_short mk)) = v (full_name mk (dem_short mk)) /\
  v (full_name mk (dem_short mk)) = zsum (fun d => v (dem_full mk d)) (demanders mk (home W)).
Proof.
  intros G HF HD mk' Fm' HS HDm.
  destruct (mg_market_var _ _ _ _ _ _ _ G (sup_short mk)) as (mk2 & F1 & F2 & F3).
  { intros i b s Hi Rs E. apply (HF i b s Hi Rs). unfold alloc_name, sup_short in E. now apply append_inj_l in E. }
  rewrite Fm' in F1. injection F1 as <-. rewrite String.eqb_refl in F3.
  destruct (mg_demand_members _ _ _ _ _ _ _ G) as (mk3 & F4 & _ & F6).
  rewrite Fm' in F4. injection F4 as <-.
  apply (holds_lookup _ _ _ F3) in HS. apply (holds_lookup _ _ _ F6) in HDm.
  unfold eqn_val in HS, HDm. simpl in HS, HDm. rewrite tsum_dem_terms in HDm.
  unfold tval_in in HS. simpl in HS. rewrite (qualify_local _ _ HD) in HS.
  unfold full_name in *. rewrite (static_fullcode _ _ F2) in *. split; lra.
Qed.

(** ** C04, supply is fully allocated *)
Definition suppliers_of (W : world) (ids : list nat) (secs : list sector) : Prop :=
  Forall2 (fun i s => find_any W i = Some s) ids secs.

Lemma resolve_fullcodes_map W W0 ids osecs : 
  map static (home W0) = map static (home W) -> map static (abroad W0) = map static (abroad W) ->
  suppliers_of W ids osecs -> forall fcs, resolve_fullcodes W0 ids = Ok fcs -> fcs = map fullcode osecs.
Proof.
  intros Hh Ha H. induction H as [|i s ids osecs Hi Hr IH]; intros fcs R; simpl in R.
  - now injection R as <-.
  - apply find_any_resolve in Hi as [b Hi]. pose proof (resolve_static W W0 i Hh Ha) as RS. rewrite Hi in RS.
    destruct (resolve W0 i) as [[b0 s0]|]; [|contradiction]. destruct RS as [_ RS].
    destruct (resolve_fullcodes W0 ids) as [l|]; [|discriminate]. injection R as <-.
    simpl. rewrite (static_fullcode _ _ RS), (IH l eq_refl). reflexivity.
Qed.

Lemma mg_residual_var W m residual others W' mk r : generated W m residual others W' mk r ->
  forall osecs rs, suppliers_of W (map fst others) osecs -> find_any W r = Some rs ->
  exists mk', find_sec m (home W') = Some mk' /\ static mk' = static mk /\
    lookup_var (alloc_name rs) (vars mk') = Some (mkEqn "" (residual_terms mk (map fullcode osecs))).
Proof.
  intros [Run Fm Res NM] osecs rs HO HR.
  apply mg_unfold in Run as (mk0 & r0 & H1 & mk1 & H0 & fcs & Fm0 & Res0 & GD & Fm1 & U & RF & Fold).
  rewrite Fm in Fm0. injection Fm0 as <-. rewrite Res in Res0. injection Res0 as <-.
  apply generate_demand_spec in GD as (mk0 & md & Fm0 & Fmd & Std & _ & _ & _ & _ & StH1).
  rewrite Fm in Fm0. injection Fm0 as <-. rewrite Fm1 in Fmd. injection Fmd as <-.
  destruct (names_static _ _ Std) as (N1 & N2 & N3 & N4 & N5 & N6 & N7).
  pose proof (find_sec_sid _ _ _ Fm) as Hsid.
  assert (P : forall s s', (fun s => opt_key (set_rhs_terms s (sup_short mk1) [(1%Z, [dem_short mk1])])) s = Ok s' ->
              static s' = static s).
  { intros s s' E. destruct (set_rhs_terms s (sup_short mk1) _) as [x|] eqn:Ex; [|discriminate]. injection E as <-.
    apply set_rhs_terms_spec in Ex. subst x. reflexivity. }
  pose proof (upd_static _ _ _ _ U P) as StH0.
  assert (NM1 : not_market mk1 (sup_list mk1 others r fcs)) by (apply (not_market_list mk1 m); [congruence|exact NM]).
  assert (Sh : map static (home (with_home W H0)) = map static (home W)) by (simpl; congruence).
  rewrite (resolve_fullcodes_map W (with_home W H0) _ osecs Sh eq_refl HO fcs RF) in *.
  unfold sup_list in Fold, NM1. apply foldM_app in Fold as (Wa & Fa & Fb).
  unfold not_market in NM1. apply Forall_app in NM1 as [NMa NMb].
  destruct (fold_static h a mk1 _ _ _ Fa NMa) as [Sa1 Sa2].
  cbn [foldM] in Fb.
  destruct (supply_step h a mk1 Wa (r, mkEqn "" (residual_terms mk1 (map fullcode osecs)))) as [Wb|] eqn:E; [|discriminate].
  injection Fb as ->.
  apply Forall_inv in NMb as Nr. simpl in Nr.
  apply supply_step_spec in E as (b & sup & mkW & R & FmW & FmW' & S1 & _); [|exact Nr].
  apply find_any_resolve in HR as [b0 HR].
  pose proof (resolve_static W Wa r (eq_trans Sa1 Sh) Sa2) as RS. rewrite HR, R in RS. destruct RS as [_ RS].
  rewrite N7, Hsid in FmW, FmW'.
  exists (set_eqn mkW (alloc_name sup) (mkEqn "" (residual_terms mk1 (map fullcode osecs)))).
  split; [exact FmW'|]. split.
  - pose proof (find_sec_static m _ _ (eq_trans Sa1 Sh)) as X. rewrite Fm, FmW in X. exact X.
  - unfold alloc_name. rewrite <- (static_fullcode _ _ RS). fold (alloc_name sup). rewrite lookup_set_eqn_same.
    unfold residual_terms. now rewrite N1.
Qed.

Lemma mg_allocated W m residual others W' mk r : generated W m residual others W' mk r ->
  forall osecs rs, suppliers_of W (map fst others) osecs -> find_any W r = Some rs ->
  has_substring "__" (sup_short mk) = false ->
  Forall (fun s => has_substring "__" (alloc_name s) = false) osecs ->
  forall mk', find_sec m (home W') = Some mk' -> holds v bv mk' (alloc_name rs) ->
  zsum (fun s => v (full_name mk (alloc_name s))) (osecs ++ [rs])%list = v (full_name mk (sup_short mk)).
Proof.
  intros G osecs rs HO HR HS HA mk' Fm' Hh.
  destruct (mg_residual_var _ _ _ _ _ _ _ G osecs rs HO HR) as (mk2 & F1 & F2 & F3).
  rewrite Fm' in F1. injection F1 as <-.
  apply (holds_lookup _ _ _ F3) in Hh. unfold eqn_val in Hh. simpl in Hh.
  rewrite residual_sum, ssum_map, (qualify_local _ _ HS) in Hh.
  rewrite zsum_app. simpl.
  rewrite (zsum_ext (fun s => v (full_name mk (alloc_name s))) (fun s => v (qualify mk' ("SUP_" ++ fullcode s))) osecs).
  - unfold full_name in *. rewrite (static_fullcode _ _ F2) in *. lra.
  - intros s Hs. rewrite Forall_forall in HA. fold (alloc_name s). rewrite (qualify_local _ _ (HA s Hs)).
    unfold full_name. now rewrite (static_fullcode _ _ F2).
Qed.

(** ** C04, each supplier's own supply variable *)
Lemma mg_supplier W m residual others W' mk r : generated W m residual others W' mk r ->
  NoDup (map fst others ++ [r]) ->
  forall i b s, List.In i (map fst others ++ [r]) -> resolve W i = Ok (b, s) ->
  let sn := supply_name mk s in
  let p := prior_eqn s sn in
  if b then
    exists s', find_sec i (home W') = Some s' /\ static s' = static s /\
      lookup_var sn (vars s') = Some (mkEqn (blob p) (add_term (1%Z, [full_name mk (alloc_name s)]) (terms p)))
  else
    exists s', find_sec i (abroad W') = Some s' /\ static s' = static s /\
      lookup_var sn (vars s') =
        Some (mkEqn (blob p) (add_term (credited h a (full_name mk (alloc_name s))) (terms p))).
Proof.
  intros [Run Fm Res NM] ND i b s Hi Rs sn p.
  assert (Him : i <> m) by (rewrite Forall_forall in NM; now apply NM).
  apply mg_unfold in Run as (mk0 & r0 & H1 & mk1 & H0 & fcs & Fm0 & Res0 & GD & Fm1 & U & RF & Fold).
  rewrite Fm in Fm0. injection Fm0 as <-. rewrite Res in Res0. injection Res0 as <-.
  apply generate_demand_spec in GD as (mk0 & md & Fm0 & Fmd & Std & _ & _ & HJ & _ & StH1).
  rewrite Fm in Fm0. injection Fm0 as <-. rewrite Fm1 in Fmd. injection Fmd as <-.
  destruct (names_static _ _ Std) as (N1 & N2 & N3 & N4 & N5 & N6 & N7).
  pose proof (find_sec_sid _ _ _ Fm) as Hsid.
  assert (P : forall s s', (fun s => opt_key (set_rhs_terms s (sup_short mk1) [(1%Z, [dem_short mk1])])) s = Ok s' ->
              static s' = static s).
  { intros x x' E. destruct (set_rhs_terms x (sup_short mk1) _) as [y|] eqn:Ex; [|discriminate]. injection E as <-.
    apply set_rhs_terms_spec in Ex. subst y. reflexivity. }
  apply upd_spec in U as (_ & _ & _ & _ & _ & A4 & _); [|intros x x' E; apply static_sid, P, E].
  assert (NM1 : not_market mk1 (sup_list mk1 others r fcs)) by (apply (not_market_list mk1 m); [congruence|exact NM]).
  assert (ND1 : NoDup (map fst (sup_list mk1 others r fcs))) by (rewrite sup_list_ids; exact ND).
  assert (Hin : exists e, List.In (i, e) (sup_list mk1 others r fcs)).
  { rewrite <- (sup_list_ids mk1 others r fcs) in Hi. apply in_map_iff in Hi as ([j e] & E & Hin).
    simpl in E. subst j. eauto. }
  destruct Hin as [e Hin].
  specialize (HJ i Him).
  assert (SN : forall s1, static s1 = static s -> supply_name mk1 s1 = sn).
  { intros s1 E. rewrite N4. unfold sn, supply_name, share_parent. now rewrite (static_country _ _ E). }
  assert (AN : forall s1, static s1 = static s -> full_name mk1 (alloc_name s1) = full_name mk (alloc_name s)).
  { intros s1 E. rewrite N6. unfold alloc_name. now rewrite (static_fullcode _ _ E). }
  unfold resolve in Rs. destruct (find_sec i (home W)) as [x|] eqn:Fh.
  - injection Rs as <- <-. destruct (find_sec i H1) as [s1|] eqn:F1; [|contradiction]. destruct HJ as [t Ds].
    apply dem_step_spec in Ds as (St1 & _ & _ & O1).
    assert (R0 : resolve (with_home W H0) i = Ok (true, s1)).
    { unfold resolve. simpl home. now rewrite (A4 i Him), F1. }
    pose proof (fold_supplier h a mk1 i e _ _ _ Fold NM1 ND1 Hin _ _ R0) as (s' & F' & SL). cbn beta iota in *.
    apply supplier_local_spec in SL as (St' & L' & _).
    exists s'. split; [exact F'|]. split; [congruence|].
    rewrite (SN s1 St1) in L'. rewrite (AN s1 St1) in L'. rewrite L'.
    assert (PE : prior_eqn s1 sn = p).
    { unfold p, prior_eqn. rewrite O1; [reflexivity| | |].
      - destruct (supply_name_sup mk x) as [q Hq]. fold sn in Hq. rewrite Hq. apply sup_not_F.
      - destruct (supply_name_sup mk x) as [q Hq]. fold sn in Hq. rewrite Hq. apply sup_not_INC.
      - destruct (supply_name_sup mk x) as [q Hq]. fold sn in Hq. destruct (dem_name_dem mk x) as [q' Hq'].
        rewrite Hq, Hq'. apply sup_not_dem. }
    now rewrite PE.
  - destruct (find_sec i (abroad W)) as [x|] eqn:Fa; [|discriminate]. injection Rs as <- <-.
    destruct (find_sec i H1) as [s1|] eqn:F1; [contradiction|].
    assert (R0 : resolve (with_home W H0) i = Ok (false, x)).
    { unfold resolve. simpl home. simpl abroad. now rewrite (A4 i Him), F1, Fa. }
    pose proof (fold_supplier h a mk1 i e _ _ _ Fold NM1 ND1 Hin _ _ R0) as (s' & F' & SL). cbn beta iota in *.
    apply supplier_foreign_spec in SL as (St' & L' & _).
    exists s'. split; [exact F'|]. split; [exact St'|].
    rewrite (SN x eq_refl) in L'. rewrite (AN x eq_refl) in L'. exact L'.
Qed.

Lemma eqn_val_add s' s e t : fullcode s' = fullcode s ->
  eqn_val v bv s' (mkEqn (blob e) (add_term t (terms e))) = eqn_val v bv s e + tval_in v s t.
Proof.
  intros H. unfold eqn_val. simpl. rewrite H, add_term_sum_in, !(tsum_in_static v s s' _ H).
  pose proof (tsum_in_static v s s' [t] H) as X. simpl in X. lra.
Qed.

Lemma mg_supplier_amount_local W m residual others W' mk r : generated W m residual others W' mk r ->
  NoDup (map fst others ++ [r]) ->
  forall i s, List.In i (map fst others ++ [r]) -> find_sec i (home W) = Some s ->
  has_substring "__" (supply_name mk s) = false ->
  forall s', find_sec i (home W') = Some s' -> holds v bv s' (supply_name mk s) ->
  v (full_name s (supply_name mk s)) =
    eqn_val v bv s (prior_eqn s (supply_name mk s)) + v (full_name mk (alloc_name s)).
Proof.
  intros G ND i s Hi Fs HL s' Fs' Hh.
  assert (Rs : resolve W i = Ok (true, s)) by (unfold resolve; now rewrite Fs).
  pose proof (mg_supplier _ _ _ _ _ _ _ G ND i true s Hi Rs) as (s2 & F2 & St & L). cbn beta iota zeta in *.
  rewrite Fs' in F2. injection F2 as <-.
  apply (holds_lookup _ _ _ L) in Hh. rewrite (eqn_val_add s' s _ _ (static_fullcode _ _ St)) in Hh.
  unfold tval_in in Hh. simpl in Hh. rewrite qualify_full in Hh.
  unfold full_name in *. rewrite (static_fullcode _ _ St) in Hh. lra.
Qed.

Lemma mg_supplier_amount_foreign W m residual others W' mk r : generated W m residual others W' mk r ->
  NoDup (map fst others ++ [r]) ->
  forall i s, List.In i (map fst others ++ [r]) -> find_sec i (home W) = None -> find_sec i (abroad W) = Some s ->
  forall s', find_sec i (abroad W') = Some s' -> holds v bv s' (supply_name mk s) ->
  v (full_name s (supply_name mk s)) =
    eqn_val v bv s (prior_eqn s (supply_name mk s)) + v (full_name mk (alloc_name s)) * v (cross_name h a).
Proof.
  intros G ND i s Hi Fh Fs s' Fs' Hh.
  assert (Rs : resolve W i = Ok (false, s)) by (unfold resolve; now rewrite Fh, Fs).
  pose proof (mg_supplier _ _ _ _ _ _ _ G ND i false s Hi Rs) as (s2 & F2 & St & L). cbn beta iota zeta in *.
  rewrite Fs' in F2. injection F2 as <-.
  apply (holds_lookup _ _ _ L) in Hh. rewrite (eqn_val_add s' s _ _ (static_fullcode _ _ St)) in Hh.
  rewrite tval_credited in Hh.
  unfold full_name in *. rewrite (static_fullcode _ _ St) in Hh. lra.
Qed.

(** ** C01, the market group's bookings *)
Fixpoint nsum (f : nat -> R) (l : list nat) : R :=
  match l with [] => 0 | x :: r => f x + nsum f r end.

Lemma contribs_nsum mk W L : contribs mk v W L = nsum (contrib mk v W) (map fst L).
Proof. induction L as [|ie r IH]; simpl; [reflexivity|now rewrite IH]. Qed.

Lemma nsum_ext f g l : (forall i, List.In i l -> f i = g i) -> nsum f l = nsum g l.
Proof.
  induction l as [|x r IH]; intros H; simpl; [reflexivity|].
  rewrite (H x) by now left. rewrite IH; [reflexivity|]. intros i Hi. apply H. now right.
Qed.

Lemma nsum_zsum (R0 : nat -> sector -> Prop) f g ids secs : Forall2 R0 ids secs ->
  (forall i s, List.In i ids -> R0 i s -> f i = g s) -> nsum f ids = zsum g secs.
Proof.
  intros H. induction H as [|i s ids secs Hi Hr IH]; intros E; simpl; [reflexivity|].
  rewrite (E i s) by (auto; now left). rewrite IH; [reflexivity|]. intros j t Hj. apply E. now right.
Qed.

(** syntactic part: what the call adds to the F equations of the market's zone and to the FX
    intermediary's position in the zone's currency *)
Lemma mg_balance W m residual others W' mk r : generated W m residual others W' mk r ->
  h <> a -> h <> NUM ->
  hbal h v W' = hbal h v W - zsum (dem_val v mk) (demanders mk (home W))
                + nsum (contrib mk v W) (map fst others ++ [r]).
Proof.
  intros [Run Fm Res NM] Hha Hh.
  apply mg_unfold in Run as (mk0 & r0 & H1 & mk1 & H0 & fcs & Fm0 & Res0 & GD & Fm1 & U & RF & Fold).
  rewrite Fm in Fm0. injection Fm0 as <-. rewrite Res in Res0. injection Res0 as <-.
  apply generate_demand_spec in GD as (mk0 & md & Fm0 & Fmd & Std & _ & _ & _ & HZ & StH1).
  rewrite Fm in Fm0. injection Fm0 as <-. rewrite Fm1 in Fmd. injection Fmd as <-.
  destruct (names_static _ _ Std) as (N1 & N2 & N3 & N4 & N5 & N6 & N7).
  assert (P : forall s s', (fun s => opt_key (set_rhs_terms s (sup_short mk1) [(1%Z, [dem_short mk1])])) s = Ok s' ->
              static s' = static s).
  { intros x x' E. destruct (set_rhs_terms x (sup_short mk1) _) as [y|] eqn:Ex; [|discriminate]. injection E as <-.
    apply set_rhs_terms_spec in Ex. subst y. reflexivity. }
  pose proof (upd_static _ _ _ _ U P) as StH0.
  apply upd_spec in U as (s0 & s1 & A1 & A2 & _ & _ & A5 & _); [|intros x x' E; apply static_sid, P, E].
  destruct (set_rhs_terms s0 (sup_short mk1) _) as [y|] eqn:Ex; [|discriminate]. injection A2 as <-.
  apply set_rhs_terms_spec in Ex. subst y.
  pose proof (find_sec_sid _ _ _ Fm) as Hsid.
  assert (NM1 : not_market mk1 (sup_list mk1 others r fcs)) by (apply (not_market_list mk1 m); [congruence|exact NM]).
  rewrite (fold_hbal h a mk1 v _ Hha Hh _ _ Fold NM1).
  rewrite contribs_nsum, sup_list_ids.
  assert (Sh : map static (home (with_home W H0)) = map static (home W)) by (simpl; congruence).
  rewrite (nsum_ext (contrib mk1 v (with_home W H0)) (contrib mk v W)).
  - unfold hbal. simpl. rewrite (A5 (Fsum v)). unfold sup_short. rewrite Fsum_set_eqn_sup. rewrite (HZ v). lra.
  - intros i _. rewrite (contrib_static mk1 v W (with_home W H0) i Sh eq_refl).
    unfold contrib. destruct (resolve W i) as [[[|] s]|]; [now rewrite N4|now rewrite N6|reflexivity].
Qed.

Lemma mg_abalance W m residual others W' mk r : generated W m residual others W' mk r ->
  h <> a -> a <> NUM -> abal a v W' = abal a v W.
Proof.
  intros [Run Fm Res NM] Hha Ha.
  apply mg_unfold in Run as (mk0 & r0 & H1 & mk1 & H0 & fcs & Fm0 & Res0 & GD & Fm1 & U & RF & Fold).
  rewrite Fm in Fm0. injection Fm0 as <-. rewrite Res in Res0. injection Res0 as <-.
  apply generate_demand_spec in GD as (mk0 & md & Fm0 & Fmd & Std & _).
  rewrite Fm in Fm0. injection Fm0 as <-. rewrite Fm1 in Fmd. injection Fmd as <-.
  assert (NM1 : not_market mk1 (sup_list mk1 others r fcs)).
  { apply (not_market_list mk1 m); [|exact NM]. rewrite (static_sid _ _ Std). now apply find_sec_sid in Fm. }
  rewrite (fold_abal h a mk1 v _ Hha Ha _ _ Fold NM1). reflexivity.
Qed.

(** the hypotheses on the participants under which the bookings cancel *)
Record participants_ok (W W' : world) (mk : sector) (ids : list nat) (osecs : list sector) (rs : sector) : Prop := {
  p_dem_local : has_substring "__" (dem_short mk) = false /\ has_substring "__" (dem_long mk) = false;
  p_sup_local : has_substring "__" (sup_short mk) = false;
  p_alloc_local : Forall (fun s => has_substring "__" (alloc_name s) = false) osecs;
  p_codes : Forall (fun s => fullcode s <> code mk) (osecs ++ [rs]);
  (* each supplier of the market's zone: its supply variable was fresh (or evaluated to 0), has a
     local name, and its equation after the call is satisfied *)
  p_fresh : forall i s, List.In i ids -> find_sec i (home W) = Some s ->
            has_substring "__" (supply_name mk s) = false /\
            eqn_val v bv s (prior_eqn s (supply_name mk s)) = 0;
  p_holds : forall i s s', List.In i ids -> find_sec i (home W) = Some s -> find_sec i (home W') = Some s' ->
            holds v bv s' (supply_name mk s)
}.

Lemma dem_val_full mk d : has_substring "__" (dem_short mk) = false -> has_substring "__" (dem_long mk) = false ->
  dem_val v mk d = v (dem_full mk d).
Proof.
  intros H1 H2. unfold dem_val, dem_full. rewrite qualify_local; [reflexivity|].
  unfold dem_name. destruct (share_parent mk d); assumption.
Qed.

Lemma mg_bookings W m residual others W' mk r : generated W m residual others W' mk r ->
  NoDup (map fst others ++ [r]) -> h <> a -> h <> NUM ->
  forall osecs rs, suppliers_of W (map fst others) osecs -> find_any W r = Some rs ->
  participants_ok W W' mk (map fst others ++ [r]) osecs rs ->
  forall mk', find_sec m (home W') = Some mk' ->
  holds v bv mk' (sup_short mk) -> holds v bv mk' (dem_short mk) -> holds v bv mk' (alloc_name rs) ->
  hbal h v W' = hbal h v W.
Proof.
  intros G ND Hha Hh osecs rs HO HR [[PD1 PD2] PS PA PC PF PH] mk' Fm' HS HD HA.
  rewrite (mg_balance _ _ _ _ _ _ _ G Hha Hh).
  assert (HF : forall i b s, List.In i (map fst others ++ [r]) -> resolve W i = Ok (b, s) -> fullcode s <> code mk).
  { intros i b s Hi Rs. assert (FA : find_any W i = Some s) by (apply find_any_resolve; eauto).
    rewrite Forall_forall in PC. apply PC. apply in_app_or in Hi as [Hi|[<-|[]]].
    - apply in_or_app. left. clear - HO Hi FA. induction HO as [|j t ids secs Hj Hr IH]; [destruct Hi|].
      destruct Hi as [->|Hi]; [left; congruence|right; auto].
    - apply in_or_app. right. left. congruence. }
  destruct (mg_clears _ _ _ _ _ _ _ G HF PD1 mk' Fm' HS HD) as [C1 C2].
  pose proof (mg_allocated _ _ _ _ _ _ _ G osecs rs HO HR PS PA mk' Fm' HA) as AL.
  rewrite (zsum_ext (dem_val v mk) (fun d => v (dem_full mk d))) by (intros d _; now apply dem_val_full).
  assert (SO : Forall2 (fun i s => find_any W i = Some s) (map fst others ++ [r]) (osecs ++ [rs])).
  { apply Forall2_app; [exact HO|]. constructor; [exact HR|constructor]. }
  rewrite (nsum_zsum _ (contrib mk v W) (fun s => v (full_name mk (alloc_name s))) _ _ SO).
  - lra.
  - intros i s Hi FA. unfold contrib, find_any in *. unfold resolve.
    destruct (find_sec i (home W)) as [x|] eqn:Fh.
    + injection FA as <-. destruct (PF i x Hi Fh) as [L0 Z0].
      destruct (mg_supplier _ _ _ _ _ _ _ G ND i true x Hi) as (s' & F' & _ & _); [unfold resolve; now rewrite Fh|].
      pose proof (mg_supplier_amount_local _ _ _ _ _ _ _ G ND i x Hi Fh L0 s' F' (PH i x s' Hi Fh F')) as AM.
      rewrite (qualify_local _ _ L0). lra.
    + rewrite FA. reflexivity.
Qed.

(** ** all suppliers in the market's own zone *)
Lemma mg_local W m residual others W' mk r : generated W m residual others W' mk r ->
  (forall i, List.In i (map fst others ++ [r]) -> find_sec i (home W) <> None) ->
  fxl W' = fxl W /\ abroad W' = abroad W /\ crosses W' = crosses W.
Proof.
  intros [Run Fm Res NM] HL.
  apply mg_unfold in Run as (mk0 & r0 & H1 & mk1 & H0 & fcs & Fm0 & Res0 & GD & Fm1 & U & RF & Fold).
  rewrite Fm in Fm0. injection Fm0 as <-. rewrite Res in Res0. injection Res0 as <-.
  apply generate_demand_spec in GD as (mk0 & md & Fm0 & Fmd & Std & _ & _ & _ & _ & StH1).
  rewrite Fm in Fm0. injection Fm0 as <-. rewrite Fm1 in Fmd. injection Fmd as <-.
  pose proof (find_sec_sid _ _ _ Fm) as Hsid.
  assert (P : forall s s', (fun s => opt_key (set_rhs_terms s (sup_short mk1) [(1%Z, [dem_short mk1])])) s = Ok s' ->
              static s' = static s).
  { intros x x' E. destruct (set_rhs_terms x (sup_short mk1) _) as [y|] eqn:Ex; [|discriminate]. injection E as <-.
    apply set_rhs_terms_spec in Ex. subst y. reflexivity. }
  pose proof (upd_static _ _ _ _ U P) as StH0.
  assert (NM1 : not_market mk1 (sup_list mk1 others r fcs)).
  { apply (not_market_list mk1 m); [|exact NM]. rewrite (static_sid _ _ Std). exact Hsid. }
  apply (fold_local h a mk1 _ _ _ Fold NM1).
  rewrite Forall_forall. intros ie Hie. simpl home.
  assert (Hi : List.In (fst ie) (map fst others ++ [r])).
  { rewrite <- (sup_list_ids mk1 others r fcs). now apply in_map. }
  specialize (HL _ Hi). pose proof (find_sec_static (fst ie) _ _ (eq_trans StH0 StH1)) as X.
  destruct (find_sec (fst ie) (home W)); [|contradiction]. destruct (find_sec (fst ie) H0); [discriminate|contradiction].
Qed.

Lemma mg_bookings_local W m residual others W' mk r : generated W m residual others W' mk r ->
  NoDup (map fst others ++ [r]) -> h <> a -> h <> NUM ->
  (forall i, List.In i (map fst others ++ [r]) -> find_sec i (home W) <> None) ->
  forall osecs rs, suppliers_of W (map fst others) osecs -> find_any W r = Some rs ->
  participants_ok W W' mk (map fst others ++ [r]) osecs rs ->
  forall mk', find_sec m (home W') = Some mk' ->
  holds v bv mk' (sup_short mk) -> holds v bv mk' (dem_short mk) -> holds v bv mk' (alloc_name rs) ->
  zsum (Fsum v) (home W') = zsum (Fsum v) (home W).
Proof.
  intros G ND Hha Hh HL osecs rs HO HR PO mk' Fm' HS HD HA.
  pose proof (mg_bookings _ _ _ _ _ _ _ G ND Hha Hh osecs rs HO HR PO mk' Fm' HS HD HA) as B.
  destruct (mg_local _ _ _ _ _ _ _ G HL) as (E1 & _). unfold hbal in B. rewrite E1 in B. lra.
Qed.

(** ** frame: who and what is left alone *)
Lemma dem_step_non mk s s' t : demander mk s = false -> dem_step mk s = Ok (s', t) -> s' = s.
Proof.
  unfold demander, dem_step. destruct (Nat.eqb (sid s) (sid mk)); simpl.
  - intros _ E. now injection E as <- _.
  - intros ->. intros E. now injection E as <- _.
Qed.

Lemma mg_vars_frame W m residual others W' mk r : generated W m residual others W' mk r ->
  NoDup (map fst others ++ [r]) ->
  forall j s, j <> m -> find_sec j (home W) = Some s ->
  exists s', find_sec j (home W') = Some s' /\ static s' = static s /\
    (forall k, k <> "F" -> k <> "INC" -> k <> dem_name mk s -> k <> supply_name mk s ->
               lookup_var k (vars s') = lookup_var k (vars s)) /\
    (~ List.In j (map fst others ++ [r]) -> demander mk s = false -> s' = s).
Proof.
  intros [Run Fm Res NM] ND j s Hjm Fs.
  apply mg_unfold in Run as (mk0 & r0 & H1 & mk1 & H0 & fcs & Fm0 & Res0 & GD & Fm1 & U & RF & Fold).
  rewrite Fm in Fm0. injection Fm0 as <-. rewrite Res in Res0. injection Res0 as <-.
  apply generate_demand_spec in GD as (mk0 & md & Fm0 & Fmd & Std & _ & _ & HJ & _ & StH1).
  rewrite Fm in Fm0. injection Fm0 as <-. rewrite Fm1 in Fmd. injection Fmd as <-.
  destruct (names_static _ _ Std) as (N1 & N2 & N3 & N4 & N5 & N6 & N7).
  pose proof (find_sec_sid _ _ _ Fm) as Hsid.
  assert (P : forall s s', (fun s => opt_key (set_rhs_terms s (sup_short mk1) [(1%Z, [dem_short mk1])])) s = Ok s' ->
              static s' = static s).
  { intros x x' E. destruct (set_rhs_terms x (sup_short mk1) _) as [y|] eqn:Ex; [|discriminate]. injection E as <-.
    apply set_rhs_terms_spec in Ex. subst y. reflexivity. }
  apply upd_spec in U as (_ & _ & _ & _ & _ & A4 & _); [|intros x x' E; apply static_sid, P, E].
  assert (NM1 : not_market mk1 (sup_list mk1 others r fcs)) by (apply (not_market_list mk1 m); [congruence|exact NM]).
  assert (ND1 : NoDup (map fst (sup_list mk1 others r fcs))) by (rewrite sup_list_ids; exact ND).
  specialize (HJ j Hjm). rewrite Fs in HJ. destruct (find_sec j H1) as [s1|] eqn:F1; [|contradiction].
  destruct HJ as [t Ds]. pose proof (dem_step_spec _ _ _ _ Ds) as (St1 & _ & _ & O1).
  destruct (in_dec Nat.eq_dec j (map fst others ++ [r])) as [Hin|Hnin].
  - assert (Hin' : exists e, List.In (j, e) (sup_list mk1 others r fcs)).
    { rewrite <- (sup_list_ids mk1 others r fcs) in Hin. apply in_map_iff in Hin as ([j' e] & E & Hin).
      simpl in E. subst j'. eauto. }
    destruct Hin' as [e Hin'].
    assert (R0 : resolve (with_home W H0) j = Ok (true, s1)).
    { unfold resolve. simpl home. now rewrite (A4 j Hjm), F1. }
    pose proof (fold_supplier h a mk1 j e _ _ _ Fold NM1 ND1 Hin' _ _ R0) as (s' & F' & SL). cbn beta iota in *.
    apply supplier_local_spec in SL as (St' & _ & O2 & _).
    exists s'. split; [exact F'|]. split; [congruence|]. split; [|intros C; contradiction].
    intros k K1 K2 K3 K4. rewrite O2; auto. rewrite N4. unfold supply_name, share_parent in *.
    now rewrite (static_country _ _ St1).
  - destruct (fold_others h a mk1 j _ _ _ Fold NM1) as [X _].
    { now rewrite sup_list_ids. } { congruence. }
    simpl home in X. exists s1. split; [rewrite X, (A4 j Hjm); exact F1|]. split; [exact St1|]. split.
    + intros k K1 K2 K3 _. now apply O1.
    + intros _ Hd. now apply dem_step_non in Ds.
Qed.

End Main.

(** ** immutable attributes, and the sector-by-sector form of the balance *)
Lemma mg_static h a W m residual others W' mk r : generated h a W m residual others W' mk r ->
  map static (home W') = map static (home W) /\ map static (abroad W') = map static (abroad W).
Proof.
  intros [Run Fm Res NM].
  apply mg_unfold in Run as (mk0 & r0 & H1 & mk1 & H0 & fcs & Fm0 & Res0 & GD & Fm1 & U & RF & Fold).
  rewrite Fm in Fm0. injection Fm0 as <-. rewrite Res in Res0. injection Res0 as <-.
  apply generate_demand_spec in GD as (mk0 & md & Fm0 & Fmd & Std & _ & _ & _ & _ & StH1).
  rewrite Fm in Fm0. injection Fm0 as <-. rewrite Fm1 in Fmd. injection Fmd as <-.
  assert (P : forall s s', (fun s => opt_key (set_rhs_terms s (sup_short mk1) [(1%Z, [dem_short mk1])])) s = Ok s' ->
              static s' = static s).
  { intros x x' E. destruct (set_rhs_terms x (sup_short mk1) _) as [y|] eqn:Ex; [|discriminate]. injection E as <-.
    apply set_rhs_terms_spec in Ex. subst y. reflexivity. }
  pose proof (upd_static _ _ _ _ U P) as StH0.
  assert (NM1 : not_market mk1 (sup_list mk1 others r fcs)).
  { apply (not_market_list mk1 m); [|exact NM]. rewrite (static_sid _ _ Std). now apply find_sec_sid in Fm. }
  destruct (fold_static h a mk1 _ _ _ Fold NM1) as [S1 S2]. simpl in S1, S2. split; congruence.
Qed.

Local Open Scope R_scope.

(** sum over the sectors of a zone, object by object, of (after - before) *)
Fixpoint dsum (f : sector -> R) (Z Z' : zone) : R :=
  match Z, Z' with
  | s :: r, s' :: r' => (f s' - f s) + dsum f r r'
  | _, _ => 0
  end.

Lemma dsum_zsum f Z : forall Z', List.length Z' = List.length Z -> dsum f Z Z' = zsum f Z' - zsum f Z.
Proof.
  induction Z as [|s r IH]; intros [|s' r'] H; simpl in *; try discriminate; [lra|].
  rewrite IH by congruence. lra.
Qed.

Lemma static_length Z Z' : map static Z' = map static Z -> List.length Z' = List.length Z.
Proof. intros H. rewrite <- (map_length static Z'), H. apply map_length. Qed.
