(** C14 — from lines to blocks: classification, comment inertness, default time variable,
    and the behaviour of the parser before fix D14. *)
From Coq Require Import List String Ascii Bool Arith ZArith Lia.
From SFC.Base Require Import Res Str.
From SFC.Block Require Import Classify StrLemmas Blocks LineProofs.
Import ListNotations.
Local Open Scope string_scope.

(* ---------------------------------------------------------------- running the printed lines *)
Lemma run_items fo b : forall st, wf_from fo (mode_exo st) b = true ->
  run (step fo) st (map print_item b) = Ok (fold_left apply_item b st).
Proof.
  induction b as [|it r IH]; intros st H; [reflexivity|].
  simpl in H. apply andb_true_iff in H as [Hit Hr].
  simpl. rewrite (item_step _ _ _ Hit). apply IH. now rewrite mode_apply_item.
Qed.

(* ---------------------------------------------------------------- printed lines are single lines *)
Lemma comment_no_nl c : comment_ok c = true -> contains_char nl (print_comment c) = false.
Proof. destruct c as [c|]; simpl; [|reflexivity]. intros H. now apply negb_true_iff in H. Qed.

Lemma body_text_ok fo m b : body_ok fo m b = true ->
  text_ok (print_body b) = true /\ String.eqb (strip (print_body b)) "" = false.
Proof.
  destruct b as [x rhs sp|x src f sp|x rhs sp|text|x rhs sp|txt sp|txt sp|text]; simpl body_ok; simpl print_body; intros H.
  - apply andb_true_iff in H as [H Hsp]. apply andb_true_iff in H as [Hx Hr].
    apply name_ok_facts in Hx. destruct (rhs_ok_parts _ Hr) as [Hp _].
    split; [|apply eqn_line_nonblank].
    exact (eqn_line_text_ok _ _ _ Hsp (name_lhs_ok _ Hx) (plain_rhs_side_ok _ Hp)).
  - apply andb_true_iff in H as [H Hsp]. apply andb_true_iff in H as [Hx Hs].
    apply name_ok_facts in Hx. apply name_ok_facts in Hs.
    split; [|apply eqn_line_nonblank].
    exact (eqn_line_text_ok _ _ _ Hsp (name_lhs_ok _ Hx) (lag_side_ok _ f Hs)).
  - apply andb_true_iff in H as [H Hsp]. apply andb_true_iff in H as [Hx Hr].
    apply name_ok_facts in Hx.
    split; [|apply eqn_line_nonblank].
    exact (eqn_line_text_ok _ _ _ Hsp (ic_lhs_ok _ Hx) (plain_rhs_side_ok _ Hr)).
  - apply andb_true_iff in H as [Ht Hw]. split; [exact Ht|].
    destruct (strip text) eqn:E; [|reflexivity].
    rewrite <- has_word_strip, E in Hw. discriminate.
  - apply andb_true_iff in H as [H Hsp]. apply andb_true_iff in H as [H Hr]. apply andb_true_iff in H as [Hm Hx].
    apply name_ok_facts in Hx.
    split; [|apply eqn_line_nonblank].
    exact (eqn_line_text_ok _ _ _ Hsp (name_lhs_ok _ Hx) (plain_rhs_side_ok _ Hr)).
  - apply andb_true_iff in H as [H Hsp]. apply andb_true_iff in H as [Hr Hi].
    split; [|apply eqn_line_nonblank].
    exact (eqn_line_text_ok _ "MaxTime" _ Hsp eq_refl (plain_rhs_side_ok _ Hr)).
  - apply andb_true_iff in H as [H Hsp]. apply andb_true_iff in H as [Hr Hf].
    split; [|apply eqn_line_nonblank].
    exact (eqn_line_text_ok _ "Err_Tolerance" _ Hsp eq_refl (plain_rhs_side_ok _ Hr)).
  - apply andb_true_iff in H as [H Hc]. apply andb_true_iff in H as [H Hne]. apply andb_true_iff in H as [Ht Hw].
    split; [exact Ht|]. now apply negb_true_iff in Hne.
Qed.

Lemma item_ok_code_ok fo m it : item_ok fo m it = true -> code_ok it = true.
Proof.
  destruct it as [b c|ws c|ws]; simpl; intros H; [|exact H|exact H].
  apply andb_true_iff in H as [Hb Hc]. destruct (body_text_ok _ _ _ Hb) as [H1 H2].
  now rewrite H1, H2, Hc.
Qed.

Lemma wf_code_ok fo b : forall m, wf_from fo m b = true -> forallb code_ok b = true.
Proof.
  induction b as [|it r IH]; intros m H; [reflexivity|]. simpl in *.
  apply andb_true_iff in H as [H1 H2]. now rewrite (item_ok_code_ok _ _ _ H1), (IH _ H2).
Qed.

Lemma code_ok_no_nl it : code_ok it = true -> contains_char nl (print_item it) = false.
Proof.
  destruct it as [b c|ws c|ws]; simpl; intros H.
  - apply andb_true_iff in H as [H Hc]. apply andb_true_iff in H as [Ht _].
    unfold text_ok in Ht. apply andb_true_iff in Ht as [_ Hn]. apply negb_true_iff in Hn.
    now rewrite contains_char_app, Hn, (comment_no_nl _ Hc).
  - apply andb_true_iff in H as [Hw Hc]. apply negb_true_iff in Hc.
    rewrite contains_char_app, (blank_no_nl _ Hw). simpl. exact Hc.
  - now apply blank_no_nl.
Qed.

Lemma lines_no_nl b : forallb code_ok b = true ->
  Forall (fun x => contains_char nlc x = false) (map print_item b).
Proof.
  induction b as [|it r IH]; simpl; intros H; [constructor|].
  apply andb_true_iff in H as [H1 H2]. constructor; [now apply code_ok_no_nl|now apply IH].
Qed.

Lemma split_print b : b <> [] -> forallb code_ok b = true ->
  split_char nl (print b) = map print_item b.
Proof.
  intros Hne H. unfold print. destruct b as [|it r]; [congruence|].
  exact (split_concat_lines _ _ (lines_no_nl _ H)).
Qed.

(* ---------------------------------------------------------------- comments are inert *)
Lemma run_set_comments fo b : forall cs st, forallb code_ok b = true ->
  run (step fo) st (map print_item (set_comments cs b)) = run (step fo) st (map print_item b).
Proof.
  induction b as [|it r IH]; intros cs st H; [reflexivity|].
  simpl in H. apply andb_true_iff in H as [Hit Hr].
  destruct it as [bd c|ws c|ws].
  - simpl in Hit. apply andb_true_iff in Hit as [Hit _]. apply andb_true_iff in Hit as [Ht Hne].
    unfold text_ok in Ht. apply andb_true_iff in Ht as [Hh _]. apply negb_true_iff in Hh, Hne.
    destruct cs as [|c' cs']; cbn [set_comments map print_item run].
    + rewrite (comment_inert_line fo st (print_body bd) None c Hh Hne).
      destruct (step fo st (print_body bd ++ print_comment c)); [now apply IH|reflexivity].
    + rewrite (comment_inert_line fo st (print_body bd) c' c Hh Hne).
      destruct (step fo st (print_body bd ++ print_comment c)); [now apply IH|reflexivity].
  - cbn [set_comments map print_item run]. destruct (step fo st (ws ++ "#" ++ c)); [now apply IH|reflexivity].
  - cbn [set_comments map print_item run]. destruct (step fo st ws); [now apply IH|reflexivity].
Qed.

Lemma set_comments_code_ok b : forall cs, forallb comment_ok cs = true -> forallb code_ok b = true ->
  forallb code_ok (set_comments cs b) = true.
Proof.
  induction b as [|it r IH]; intros cs Hcs H; [reflexivity|].
  simpl in H. apply andb_true_iff in H as [Hit Hr].
  destruct it as [bd c|ws c|ws].
  - simpl in Hit. apply andb_true_iff in Hit as [Hit _].
    destruct cs as [|c' cs']; simpl.
    + rewrite Hit. simpl. now apply IH.
    + simpl in Hcs. apply andb_true_iff in Hcs as [Hc' Hcs']. rewrite Hit, Hc'. simpl. now apply IH.
  - simpl. simpl in Hit. rewrite Hit. simpl. now apply IH.
  - simpl. simpl in Hit. rewrite Hit. simpl. now apply IH.
Qed.

Lemma set_comments_nil cs b : set_comments cs b = [] -> b = [].
Proof. destruct b as [|[bd c|ws c|ws] r]; [reflexivity| | |]; destruct cs; discriminate. Qed.

Theorem comments_inert fo cs b :
  forallb code_ok b = true -> forallb comment_ok cs = true ->
  parse_block fo (print (set_comments cs b)) = parse_block fo (print b).
Proof.
  intros Hb Hcs. destruct b as [|it r]; [reflexivity|].
  unfold parse_block, parse_with.
  rewrite (split_print (it :: r)) by (congruence || assumption).
  rewrite split_print.
  - now rewrite run_set_comments.
  - intros E. apply set_comments_nil in E. discriminate.
  - now apply set_comments_code_ok.
Qed.

Theorem comments_inert_wf fo cs b :
  wf fo b = true -> forallb comment_ok cs = true ->
  parse_block fo (print (set_comments cs b)) = parse_block fo (print b).
Proof. intros H. apply comments_inert. exact (wf_code_ok _ _ _ H). Qed.

(* ---------------------------------------------------------------- what the item-level run computes *)
Fixpoint collect (f : bool -> item -> list (string * string)) (m : bool) (b : list item) : list (string * string) :=
  match b with
  | [] => []
  | it :: r => (f m it ++ collect f (m || is_marker it) r)%list
  end.

Definition dset (d : dict) (kv : string * string) : dict := dict_set (fst kv) (snd kv) d.

Definition summary (st : pstate) (b : list item) : pstate :=
  mkState (mkParsed (Endogenous (out st) ++ collect endo_of (mode_exo st) b)%list
                    (Lagged (out st) ++ collect lag_of (mode_exo st) b)%list
                    (Exogenous (out st) ++ collect exo_of (mode_exo st) b)%list
                    (fold_left dset (collect ic_of (mode_exo st) b) (InitialConditions (out st)))
                    (fold_left dset (flat_map alleq_of b) (AllEquations (out st)))
                    (fold_left maxtime_of b (MaxTime (out st)))
                    (fold_left tol_of b (Err_Tolerance (out st)))
                    (msg (out st) ++ cat_all (map msg_of b)))
          (mode_exo st || existsb is_marker b)
          (found_t st || existsb defines_t b).

Lemma summary_nil st : summary st [] = st.
Proof.
  destruct st as [[E L X I A M T G] m f]. unfold summary. simpl.
  now rewrite !app_nil_r, append_nil_r, !orb_false_r.
Qed.

Lemma summary_cons st it r : summary (apply_item st it) r = summary st (it :: r).
Proof.
  destruct st as [[E L X I A M T G] m f].
  destruct it as [b c|ws c|ws].
  - destruct b as [x rhs sp|x src fm sp|x rhs sp|text|x rhs sp|txt sp|txt sp|text];
      destruct m; unfold summary; simpl; unfold mark_t; simpl;
      try (destruct (is_t_name x)); simpl;
      rewrite <- ?app_assoc, ?append_assoc, ?orb_true_r, ?orb_false_r; simpl; try reflexivity.
  - unfold summary. simpl. destruct (has_word (String "#"%char c)); destruct m; simpl;
      rewrite ?orb_true_r, ?orb_false_r; reflexivity.
  - unfold summary. simpl. now rewrite !orb_false_r.
Qed.

Lemma fold_apply b : forall st, fold_left apply_item b st = summary st b.
Proof.
  induction b as [|it r IH]; intros st; simpl; [now rewrite summary_nil|].
  now rewrite IH, summary_cons.
Qed.

(* ---------------------------------------------------------------- before / after the marker *)
Lemma collect_true f b : collect f true b = flat_map (f true) b.
Proof. induction b as [|it r IH]; simpl; [reflexivity|]. now rewrite IH. Qed.

Lemma collect_false f b : (forall it, is_marker it = true -> f false it = []) ->
  collect f false b = (flat_map (f false) (before b) ++ flat_map (f true) (after b))%list.
Proof.
  intros Hf. induction b as [|it r IH]; simpl; [reflexivity|].
  destruct (is_marker it) eqn:E; simpl.
  - now rewrite (Hf _ E), collect_true.
  - now rewrite IH, app_assoc.
Qed.

Lemma flat_map_nil {A B} (f : A -> list B) l : (forall x, f x = []) -> flat_map f l = [].
Proof. intros H. induction l as [|x l IH]; simpl; [reflexivity|]. now rewrite H, IH. Qed.

Lemma endo_true it : endo_of true it = [].
Proof. destruct it as [[] ?| |]; reflexivity. Qed.
Lemma lag_true it : lag_of true it = [].
Proof. destruct it as [[] ?| |]; reflexivity. Qed.
Lemma ic_true it : ic_of true it = [].
Proof. destruct it as [[] ?| |]; reflexivity. Qed.

Lemma marker_endo it : is_marker it = true -> endo_of false it = [].
Proof. destruct it as [[] ?| |]; simpl; try discriminate; reflexivity. Qed.
Lemma marker_lag it : is_marker it = true -> lag_of false it = [].
Proof. destruct it as [[] ?| |]; simpl; try discriminate; reflexivity. Qed.
Lemma marker_ic it : is_marker it = true -> ic_of false it = [].
Proof. destruct it as [[] ?| |]; simpl; try discriminate; reflexivity. Qed.
Lemma marker_exo it : is_marker it = true -> exo_of false it = [].
Proof. destruct it as [[] ?| |]; simpl; try discriminate; reflexivity. Qed.

Lemma exo_before fo b : wf_from fo false b = true -> flat_map (exo_of false) (before b) = [].
Proof.
  induction b as [|it r IH]; simpl; [reflexivity|]. intros H.
  apply andb_true_iff in H as [Hit Hr]. destruct (is_marker it) eqn:E; [reflexivity|].
  simpl. rewrite (IH Hr), app_nil_r.
  destruct it as [[] ?| |]; try reflexivity. simpl in Hit. discriminate.
Qed.

Lemma fold_dset_app l1 l2 d : fold_left dset (l1 ++ l2)%list d = fold_left dset l2 (fold_left dset l1 d).
Proof. apply fold_left_app. Qed.

(** The item-level run, read off as the declarative [expected]. *)
Lemma finish_summary fo b : wf_from fo false b = true ->
  finish (summary init_state b) = expected b.
Proof.
  intros H. unfold finish, expected, summary, init_state, init_parsed. simpl.
  rewrite (collect_false endo_of _ marker_endo), (collect_false lag_of _ marker_lag),
    (collect_false ic_of _ marker_ic), (collect_false exo_of _ marker_exo).
  rewrite (flat_map_nil (endo_of true) _ endo_true), (flat_map_nil (lag_of true) _ lag_true),
    (flat_map_nil (ic_of true) _ ic_true), (exo_before _ _ H), !app_nil_r.
  unfold default_t, needs_default_t, dict_of.
  destruct (existsb defines_t b); simpl; [now rewrite !app_nil_r|].
  unfold set_alleq, push_endo. simpl. rewrite fold_left_app. reflexivity.
Qed.

Theorem classify_block fo b : wf fo b = true -> parse_block fo (print b) = Ok (expected b).
Proof.
  intros H. destruct b as [|it r]; [reflexivity|].
  unfold parse_block, parse_with.
  rewrite split_print by (congruence || exact (wf_code_ok _ _ _ H)).
  rewrite (run_items fo (it :: r) init_state H), fold_apply, (finish_summary _ _ H). reflexivity.
Qed.

(* ---------------------------------------------------------------- exactly one class *)
Lemma item_one_class m it : is_equation it = true ->
  List.length (endo_of m it) + List.length (lag_of m it) + List.length (ic_of m it) + List.length (exo_of m it) = 1.
Proof. destruct it as [[] ?| |]; simpl; try discriminate; destruct m; reflexivity. Qed.

Lemma item_no_class m it : is_equation it = false ->
  endo_of m it = [] /\ lag_of m it = [] /\ ic_of m it = [] /\ exo_of m it = [].
Proof. destruct it as [[] ?| |]; simpl; try discriminate; auto. Qed.

Lemma collect_count b : forall m,
  List.length (collect endo_of m b) + List.length (collect lag_of m b) + List.length (collect ic_of m b) +
  List.length (collect exo_of m b) = List.length (filter is_equation b).
Proof.
  induction b as [|it r IH]; intros m; [reflexivity|]. simpl. rewrite !app_length.
  specialize (IH (m || is_marker it)). destruct (is_equation it) eqn:E.
  - pose proof (item_one_class m it E). simpl. lia.
  - destruct (item_no_class m it E) as [H1 [H2 [H3 H4]]]. rewrite H1, H2, H3, H4. simpl. lia.
Qed.

Definition ic_entries (b : list item) : list (string * string) := flat_map (ic_of false) (before b).

Lemma class_count fo b : wf fo b = true ->
  List.length (Endogenous (expected b)) + List.length (Lagged (expected b)) + List.length (ic_entries b) +
  List.length (Exogenous (expected b)) = List.length (filter is_equation b) + List.length (default_t b).
Proof.
  intros H. pose proof (collect_count b false) as C.
  rewrite (collect_false endo_of _ marker_endo), (collect_false lag_of _ marker_lag),
    (collect_false ic_of _ marker_ic), (collect_false exo_of _ marker_exo) in C.
  rewrite (flat_map_nil (endo_of true) _ endo_true), (flat_map_nil (lag_of true) _ lag_true),
    (flat_map_nil (ic_of true) _ ic_true), (exo_before _ _ H), !app_nil_r in C.
  unfold expected, ic_entries. simpl. rewrite app_length. simpl in C. lia.
Qed.

(* ---------------------------------------------------------------- the default time variable *)
Fixpoint dict_get (k : string) (d : dict) : option string :=
  match d with [] => None | (k', v) :: r => if String.eqb k k' then Some v else dict_get k r end.

Lemma dict_get_set k v d : dict_get k (dict_set k v d) = Some v.
Proof.
  induction d as [|[k' v'] r IH]; simpl; [now rewrite String.eqb_refl|].
  destruct (String.eqb k k') eqn:E; simpl; rewrite E; [reflexivity|exact IH].
Qed.

Lemma default_t_supplied b : existsb defines_t b = false ->
  Endogenous (expected b) = (flat_map (endo_of false) (before b) ++ [("t", "k")])%list /\
  dict_get "t" (AllEquations (expected b)) = Some "k".
Proof.
  intros H. unfold expected, default_t, needs_default_t. rewrite H. simpl. split; [reflexivity|].
  unfold dict_of. rewrite fold_left_app. simpl. apply dict_get_set.
Qed.

Lemma default_t_not_supplied b : existsb defines_t b = true ->
  Endogenous (expected b) = flat_map (endo_of false) (before b) /\
  AllEquations (expected b) = dict_of (flat_map alleq_of b).
Proof.
  intros H. unfold expected, default_t, needs_default_t. rewrite H. simpl. now rewrite !app_nil_r.
Qed.

(* ---------------------------------------------------------------- malformed lines are reported *)
Lemma cat_all_in x l : List.In x l -> exists a b, cat_all l = a ++ x ++ b.
Proof.
  induction l as [|y l IH]; simpl; [tauto|]. intros [->|H].
  - exists "", (cat_all l). reflexivity.
  - destruct (IH H) as [a [b E]]. exists (y ++ a), b. now rewrite E, append_assoc.
Qed.

Lemma regroup a P s Q z : a ++ (P ++ s ++ Q) ++ z = (a ++ P) ++ s ++ (Q ++ z).
Proof. now rewrite !append_assoc. Qed.

Lemma junk_reported b text c : List.In (Code (Junk text) c) b ->
  exists pre post, msg (expected b) = pre ++ strip text ++ post.
Proof.
  intros H. apply (in_map msg_of) in H. destruct (cat_all_in _ _ H) as [a [z E]].
  unfold expected. cbn [msg]. rewrite E. cbn [msg_of].
  destruct (contains_char "="%char text); unfold msg_multiple, msg_ignored; rewrite regroup; eauto.
Qed.
