(** C14 — model of [sfc_models/equation_parser.py:EquationParser.ParseString].

    [parse_block] mirrors the method line by line with the [str] mirrors of Base/Str.v, for the
    parser as repaired by proposed fix D14 (comment removed first; the section-marker test sees
    the code part, or the comment of a comment-only line).  [parse_block_orig] is the method as
    it was before the fix (marker test on the raw line).

    Python's [float(text)] acceptance (the Err_Tolerance check) is not modelled: it is the
    parameter [fo] (text -> Some accepted? ; [None] = "the harness did not supply the answer",
    which yields [Err OutOfFuel], never a Python outcome). *)
From Coq Require Import List String Ascii Bool Arith ZArith.
From SFC.Base Require Import Res Str.
Import ListNotations.
Local Open Scope string_scope.

Definition nl : ascii := "010"%char.
Definition NL : string := String nl "".
Definition WORD : string := "exogenous".

(** ['exogenous' in s.lower()] *)
Definition has_word (s : string) : bool := has_substring WORD (to_lower s).

(** [pos = s.find('#')]; code = [s[0:pos]] (or [s]); comment = [s[pos:]] (or ['']). *)
Definition cut_comment (s : string) : string * string :=
  match find_sub "#" s with
  | Some pos => (take pos s, drop pos s)
  | None => (s, "")
  end.

(** Python [int(text)] for ASCII text: surrounding whitespace, optional sign, decimal digits
    with single underscores between digits. [None] = ValueError. *)
Definition is_digit (c : ascii) : bool :=
  let n := nat_of_ascii c in Nat.leb 48 n && Nat.leb n 57.

Fixpoint int_digits (prev_digit : bool) (s : string) (acc : Z) : option Z :=
  match s with
  | EmptyString => if prev_digit then Some acc else None
  | String c r =>
      if is_digit c then int_digits true r (acc * 10 + Z.of_nat (nat_of_ascii c - 48))%Z
      else if Ascii.eqb c "_"%char then (if prev_digit then int_digits false r acc else None)
      else None
  end.

Definition py_int (s : string) : option Z :=
  match strip s with
  | String "+"%char r => int_digits false r 0%Z
  | String "-"%char r => option_map Z.opp (int_digits false r 0%Z)
  | t => int_digits false t 0%Z
  end.

(** Insertion-ordered dict: [d[k] = v]. *)
Definition dict := list (string * string).
Fixpoint dict_set (k v : string) (d : dict) : dict :=
  match d with
  | [] => [(k, v)]
  | (k', v') :: r => if String.eqb k k' then (k', v) :: r else (k', v') :: dict_set k v r
  end.

(** The parser attributes that ParseString sets, plus the returned message. *)
Record parsed : Type := mkParsed {
  Endogenous : list (string * string);
  Lagged : list (string * string);
  Exogenous : list (string * string);
  InitialConditions : dict;
  AllEquations : dict;
  MaxTime : Z;
  Err_Tolerance : string;
  msg : string }.

(** Loop state: the attributes, [mode == 'exogenous'], [found_t]. *)
Record pstate : Type := mkState { out : parsed; mode_exo : bool; found_t : bool }.

Definition init_parsed : parsed := mkParsed [] [] [] [] [] 0%Z "1e-8" "".
Definition init_state : pstate := mkState init_parsed false false.

Definition upd (f : parsed -> parsed) (st : pstate) : pstate :=
  mkState (f (out st)) (mode_exo st) (found_t st).
Definition set_mode (st : pstate) : pstate := mkState (out st) true (found_t st).
Definition set_found (st : pstate) : pstate := mkState (out st) (mode_exo st) true.

Definition push_endo (e : string * string) (p : parsed) : parsed :=
  mkParsed (Endogenous p ++ [e]) (Lagged p) (Exogenous p) (InitialConditions p) (AllEquations p)
           (MaxTime p) (Err_Tolerance p) (msg p).
Definition push_lag (e : string * string) (p : parsed) : parsed :=
  mkParsed (Endogenous p) (Lagged p ++ [e]) (Exogenous p) (InitialConditions p) (AllEquations p)
           (MaxTime p) (Err_Tolerance p) (msg p).
Definition push_exo (e : string * string) (p : parsed) : parsed :=
  mkParsed (Endogenous p) (Lagged p) (Exogenous p ++ [e]) (InitialConditions p) (AllEquations p)
           (MaxTime p) (Err_Tolerance p) (msg p).
Definition set_ic (k v : string) (p : parsed) : parsed :=
  mkParsed (Endogenous p) (Lagged p) (Exogenous p) (dict_set k v (InitialConditions p)) (AllEquations p)
           (MaxTime p) (Err_Tolerance p) (msg p).
Definition set_alleq (k v : string) (p : parsed) : parsed :=
  mkParsed (Endogenous p) (Lagged p) (Exogenous p) (InitialConditions p) (dict_set k v (AllEquations p))
           (MaxTime p) (Err_Tolerance p) (msg p).
Definition set_maxtime (n : Z) (p : parsed) : parsed :=
  mkParsed (Endogenous p) (Lagged p) (Exogenous p) (InitialConditions p) (AllEquations p)
           n (Err_Tolerance p) (msg p).
Definition set_tol (s : string) (p : parsed) : parsed :=
  mkParsed (Endogenous p) (Lagged p) (Exogenous p) (InitialConditions p) (AllEquations p)
           (MaxTime p) s (msg p).
Definition add_msg (s : string) (p : parsed) : parsed :=
  mkParsed (Endogenous p) (Lagged p) (Exogenous p) (InitialConditions p) (AllEquations p)
           (MaxTime p) (Err_Tolerance p) (msg p ++ s).

Definition msg_ignored (s : string) : string := "Ignored line: """ ++ s ++ """" ++ NL.
Definition msg_multiple (s : string) : string := "Line with multiple ""="" - ignored: """ ++ s ++ """" ++ NL.

(** Lines 88-122: a line with exactly one '=' ([varname], [eqn] already stripped). *)
Definition classify_eq (fo : string -> option bool) (st : pstate) (varname eqn : string) : result pstate :=
  let st := upd (set_alleq varname eqn) st in
  if String.eqb varname "MaxTime" then
    match py_int eqn with
    | Some n => Ok (upd (set_maxtime n) st)
    | None => Err ValueError
    end
  else if String.eqb varname "Err_Tolerance" then
    match fo eqn with
    | Some true => Ok (upd (set_tol eqn) st)
    | Some false => Err ValueError
    | None => Err OutOfFuel
    end
  else
    let st := if String.eqb varname "t" || String.eqb varname "t_minus_1" then set_found st else st in
    if mode_exo st then Ok (upd (push_exo (varname, eqn)) st)
    else if has_substring "(0)" varname then
      Ok (upd (set_ic (replace "(0)" "" varname) eqn) st)
    else
      let eqn := replace "(t-1)" "(k-1)" eqn in
      let eqn := replace " (k -1 )" "(k-1)" eqn in
      match find_sub "(k-1)" eqn with
      | None => Ok (upd (push_endo (varname, eqn)) st)
      | Some pos => Ok (upd (push_lag (varname, take pos eqn)) st)
      end.

(** Lines 81-122: what happens to a non-empty, comment-free, stripped line. *)
Definition classify (fo : string -> option bool) (st : pstate) (code : string) : result pstate :=
  match split_char "="%char code with
  | [a] => Ok (upd (add_msg (msg_ignored a)) st)
  | [a; b] => classify_eq fo st (strip a) (strip b)
  | _ => Ok (upd (add_msg (msg_multiple code)) st)
  end.

(** One iteration of the loop, after fix D14. *)
Definition step (fo : string -> option bool) (st : pstate) (line : string) : result pstate :=
  let (code0, comment) := cut_comment line in
  let code := strip code0 in
  if has_word code then Ok (set_mode st)
  else if String.eqb code "" then Ok (if has_word comment then set_mode st else st)
  else classify fo st code.

(** One iteration of the loop as it was before the fix. *)
Definition step_orig (fo : string -> option bool) (st : pstate) (line : string) : result pstate :=
  if has_word line then Ok (set_mode st)
  else
    let code := strip (fst (cut_comment line)) in
    if String.eqb code "" then Ok st else classify fo st code.

Fixpoint run (stp : pstate -> string -> result pstate) (st : pstate) (lines : list string) : result pstate :=
  match lines with
  | [] => Ok st
  | l :: r => match stp st l with Ok st' => run stp st' r | Err e => Err e end
  end.

(** Lines 123-126. *)
Definition finish (st : pstate) : parsed :=
  if found_t st then out st
  else set_alleq "t" "k" (push_endo ("t", "k") (out st)).

Definition parse_with (stp : pstate -> string -> result pstate) (s : string) : result parsed :=
  match run stp init_state (split_char nl s) with
  | Ok st => Ok (finish st)
  | Err e => Err e
  end.

Definition parse_block (fo : string -> option bool) (s : string) : result parsed := parse_with (step fo) s.
Definition parse_block_orig (fo : string -> option bool) (s : string) : result parsed := parse_with (step_orig fo) s.

(** Float-acceptance oracle from a table supplied by the harness. *)
Fixpoint fo_of_table (t : list (string * bool)) (s : string) : option bool :=
  match t with
  | [] => None
  | (k, b) :: r => if String.eqb s k then Some b else fo_of_table r s
  end.
