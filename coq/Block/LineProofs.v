(** C14 — what one printed line does to the parser state. *)
From Coq Require Import List String Ascii Bool Arith ZArith Lia.
From SFC.Base Require Import Res Str.
From SFC.Block Require Import Classify StrLemmas Blocks.
Import ListNotations.
Local Open Scope string_scope.

(* ---------------------------------------------------------------- comments *)
Lemma cut_comment_some code c : contains_char "#"%char code = false ->
  cut_comment (code ++ String "#"%char c) = (code, String "#"%char c).
Proof.
  intros H. unfold cut_comment. rewrite (find_hash_app _ _ H), take_app_length, drop_app_length. reflexivity.
Qed.

Lemma cut_comment_none code : contains_char "#"%char code = false -> cut_comment code = (code, "").
Proof. intros H. unfold cut_comment. now rewrite (find_hash_none _ H). Qed.

(** the loop body in terms of the two parts of a line *)
Definition step_parts (fo : string -> option bool) (st : pstate) (code0 comment : string) : result pstate :=
  let code := strip code0 in
  if has_word code then Ok (set_mode st)
  else if String.eqb code "" then Ok (if has_word comment then set_mode st else st)
  else classify fo st code.

Lemma step_print fo st code c : contains_char "#"%char code = false ->
  step fo st (code ++ print_comment c) = step_parts fo st code (print_comment c).
Proof.
  intros H. unfold step. destruct c as [c|]; simpl print_comment.
  - now rewrite (cut_comment_some _ _ H).
  - now rewrite append_nil_r, (cut_comment_none _ H).
Qed.

Lemma step_parts_nonblank fo st code cm1 cm2 :
  String.eqb (strip code) "" = false -> step_parts fo st code cm1 = step_parts fo st code cm2.
Proof. intros H. unfold step_parts. rewrite H. reflexivity. Qed.

(** A trailing comment on a line with code is inert. *)
Lemma comment_inert_line fo st code c1 c2 :
  contains_char "#"%char code = false -> String.eqb (strip code) "" = false ->
  step fo st (code ++ print_comment c1) = step fo st (code ++ print_comment c2).
Proof. intros H1 H2. rewrite !step_print by assumption. now apply step_parts_nonblank. Qed.

(* ---------------------------------------------------------------- blanks and the marker word *)
Lemma is_blank_space c : is_blank_char c = true -> is_space c = true.
Proof. unfold is_blank_char. intros H. now apply andb_true_iff in H as [H _]. Qed.

Lemma blank_all_space w : blank w = true -> all_space w = true.
Proof. intros H. rewrite all_space_forall. exact (str_forall_impl _ _ _ is_blank_space H). Qed.

Lemma blank_no_nl w : blank w = true -> contains_char nl w = false.
Proof.
  intros H. rewrite contains_char_forall. apply negb_false_iff.
  refine (str_forall_impl _ _ _ _ H). intros c Hc. unfold is_blank_char in Hc.
  now apply andb_true_iff in Hc as [_ Hc].
Qed.

Lemma blank_no_char c w : is_space c = false -> blank w = true -> contains_char c w = false.
Proof. intros Hc H. apply contains_char_all_space; [exact Hc|now apply blank_all_space]. Qed.

Lemma space_not_in_word c : is_space c = true -> contains_char c WORD = false.
Proof. destruct c as [[] [] [] [] [] [] [] []]; simpl; intros H; try discriminate; reflexivity. Qed.

Lemma all_space_sepfree w : all_space w = true -> sepfree WORD w = true.
Proof.
  rewrite all_space_forall. apply str_forall_impl. intros c Hc. now rewrite (space_not_in_word _ Hc).
Qed.

Lemma WORD_ne : WORD <> "".
Proof. discriminate. Qed.

Lemma has_word_pad_l w s : all_space w = true -> has_word (w ++ s) = has_word s.
Proof.
  intros H. unfold has_word. rewrite to_lower_app, (to_lower_all_space _ H).
  apply has_substring_sepfree_l; [exact WORD_ne|now apply all_space_sepfree].
Qed.

Lemma has_word_pad_r w s : all_space w = true -> has_word (s ++ w) = has_word s.
Proof.
  intros H. unfold has_word. rewrite to_lower_app, (to_lower_all_space _ H).
  apply has_substring_sepfree_r; [exact WORD_ne|now apply all_space_sepfree].
Qed.

Lemma has_word_strip s : has_word (strip s) = has_word s.
Proof.
  destruct (strip_decomp s) as [u1 [u2 [H1 [H2 Hs]]]]. rewrite Hs at 2.
  now rewrite (has_word_pad_l _ _ H1), (has_word_pad_r _ _ H2).
Qed.

Lemma has_word_sep c a b : contains_char (lower_char c) WORD = false ->
  has_word (a ++ String c b) = has_word a || has_word b.
Proof.
  intros H. unfold has_word. rewrite to_lower_app, to_lower_cons. now apply has_substring_sep.
Qed.

Lemma has_word_nil : has_word "" = false.
Proof. reflexivity. Qed.

(* ---------------------------------------------------------------- an equation line *)
Lemma eqn_line_split sp name rhs :
  eqn_line sp name rhs = (w1 sp ++ name ++ w2 sp) ++ String "="%char (w3 sp ++ rhs ++ w4 sp).
Proof. unfold eqn_line. now rewrite !append_assoc. Qed.

Lemma has_word_eqn_line sp name rhs : sp_ok sp = true ->
  has_word (eqn_line sp name rhs) = has_word name || has_word rhs.
Proof.
  unfold sp_ok. intros H. apply andb_true_iff in H as [H H4]. apply andb_true_iff in H as [H H3].
  apply andb_true_iff in H as [H1 H2]. apply blank_all_space in H1, H2, H3, H4.
  rewrite eqn_line_split, has_word_sep by reflexivity.
  rewrite (has_word_pad_l _ _ H1), (has_word_pad_r _ _ H2), (has_word_pad_l _ _ H3), (has_word_pad_r _ _ H4).
  reflexivity.
Qed.

Lemma contains_char_eqn_line c sp name rhs : sp_ok sp = true -> is_space c = false ->
  Ascii.eqb "="%char c = false ->
  contains_char c (eqn_line sp name rhs) = contains_char c name || contains_char c rhs.
Proof.
  unfold sp_ok. intros H Hc Heq. apply andb_true_iff in H as [H H4]. apply andb_true_iff in H as [H H3].
  apply andb_true_iff in H as [H1 H2].
  unfold eqn_line. rewrite !contains_char_app.
  rewrite (blank_no_char _ _ Hc H1), (blank_no_char _ _ Hc H2), (blank_no_char _ _ Hc H3), (blank_no_char _ _ Hc H4).
  change (contains_char c "=") with (if Ascii.eqb "="%char c then true else false).
  rewrite Heq. simpl. now rewrite !orb_false_r.
Qed.

Lemma contains_nl_eqn_line sp name rhs : sp_ok sp = true ->
  contains_char nl (eqn_line sp name rhs) = contains_char nl name || contains_char nl rhs.
Proof.
  unfold sp_ok. intros H. apply andb_true_iff in H as [H H4]. apply andb_true_iff in H as [H H3].
  apply andb_true_iff in H as [H1 H2].
  unfold eqn_line. rewrite !contains_char_app.
  rewrite (blank_no_nl _ H1), (blank_no_nl _ H2), (blank_no_nl _ H3), (blank_no_nl _ H4).
  simpl. now rewrite !orb_false_r.
Qed.

Lemma app_cons_ne a c b : String.eqb (a ++ String c b) "" = false.
Proof. destruct a; reflexivity. Qed.

(** the name side of an equation line: what the generic lemma needs *)
Definition lhs_ok (name : string) : bool :=
  nospace name && negb (contains_char "="%char name) && negb (contains_char "#"%char name) &&
  negb (contains_char nl name) && negb (has_word name).

(** the right-hand side of an equation line *)
Definition side_ok (rhs : string) : bool :=
  negb (contains_char "="%char rhs) && negb (contains_char "#"%char rhs) &&
  negb (contains_char nl rhs) && negb (has_word rhs).

Lemma eqn_line_text_ok sp name rhs : sp_ok sp = true -> lhs_ok name = true -> side_ok rhs = true ->
  text_ok (eqn_line sp name rhs) = true.
Proof.
  intros Hsp Hn Hr. unfold lhs_ok in Hn. unfold side_ok in Hr.
  repeat (apply andb_true_iff in Hn as [Hn ?]). repeat (apply andb_true_iff in Hr as [Hr ?]).
  unfold text_ok. rewrite (contains_char_eqn_line _ _ _ _ Hsp) by reflexivity.
  rewrite (contains_nl_eqn_line _ _ _ Hsp).
  repeat match goal with H : negb _ = true |- _ => apply negb_true_iff in H; try rewrite H end.
  reflexivity.
Qed.

Lemma eqn_line_strip sp name rhs :
  strip (eqn_line sp name rhs) = lstrip (w1 sp ++ name ++ w2 sp) ++ String "="%char (rstrip (w3 sp ++ rhs ++ w4 sp)).
Proof. rewrite eqn_line_split. now apply strip_sep. Qed.

Lemma eqn_line_nonblank sp name rhs : String.eqb (strip (eqn_line sp name rhs)) "" = false.
Proof. rewrite eqn_line_strip. apply app_cons_ne. Qed.

(** An equation line reaches [classify_eq] with the name and the stripped right-hand side. *)
Lemma eqn_line_step fo st sp name rhs c :
  sp_ok sp = true -> lhs_ok name = true -> side_ok rhs = true ->
  step fo st (eqn_line sp name rhs ++ print_comment c) = classify_eq fo st name (strip rhs).
Proof.
  intros Hsp Hn Hr.
  pose proof (eqn_line_text_ok _ _ _ Hsp Hn Hr) as Htext.
  unfold text_ok in Htext. apply andb_true_iff in Htext as [Hhash _]. apply negb_true_iff in Hhash.
  rewrite (step_print _ _ _ _ Hhash). unfold step_parts.
  rewrite has_word_strip, (has_word_eqn_line _ _ _ Hsp), eqn_line_nonblank.
  unfold lhs_ok in Hn. unfold side_ok in Hr.
  repeat (apply andb_true_iff in Hn as [Hn ?]). repeat (apply andb_true_iff in Hr as [Hr ?]).
  repeat match goal with H : negb _ = true |- _ => apply negb_true_iff in H end.
  match goal with H : has_word name = false |- _ => rewrite H end.
  match goal with H : has_word rhs = false |- _ => rewrite H end.
  simpl orb. cbv iota.
  unfold sp_ok in Hsp. apply andb_true_iff in Hsp as [Hsp Hw4]. apply andb_true_iff in Hsp as [Hsp Hw3].
  apply andb_true_iff in Hsp as [Hw1 Hw2].
  assert (E1 : contains_char "="%char (w1 sp ++ name ++ w2 sp) = false).
  { rewrite !contains_char_app, (blank_no_char "="%char _ eq_refl Hw1), (blank_no_char "="%char _ eq_refl Hw2).
    match goal with H : contains_char "="%char name = false |- _ => now rewrite H end. }
  assert (E2 : contains_char "="%char (w3 sp ++ rhs ++ w4 sp) = false).
  { rewrite !contains_char_app, (blank_no_char "="%char _ eq_refl Hw3), (blank_no_char "="%char _ eq_refl Hw4).
    match goal with H : contains_char "="%char rhs = false |- _ => now rewrite H end. }
  unfold classify. rewrite eqn_line_strip.
  rewrite (split_sep _ _ _ (contains_char_lstrip _ _ E1)), (split_nochar _ _ (contains_char_rstrip _ _ E2)).
  rewrite strip_lstrip, strip_rstrip.
  rewrite (strip_tight_l _ _ _ (blank_all_space _ Hw1) (blank_all_space _ Hw2) Hn).
  rewrite (strip_pad _ _ _ (blank_all_space _ Hw3) (blank_all_space _ Hw4)).
  reflexivity.
Qed.

(* ---------------------------------------------------------------- names *)
Lemma ident_not_space c : ident_char c = true -> negb (is_space c) = true.
Proof. destruct c as [[] [] [] [] [] [] [] []]; simpl; intros H; try discriminate; reflexivity. Qed.

Lemma ident_no_char c x : ident_char c = false -> str_forall ident_char x = true -> contains_char c x = false.
Proof.
  intros Hc Hx. rewrite contains_char_forall. apply negb_false_iff.
  refine (str_forall_impl _ _ _ _ Hx). intros d Hd. apply negb_true_iff.
  destruct (Ascii.eqb_spec d c) as [->|_]; [congruence|reflexivity].
Qed.

Record name_facts (x : string) : Prop := {
  nf_ne : x <> "";
  nf_ident : str_forall ident_char x = true;
  nf_nospace : nospace x = true;
  nf_word : has_word x = false;
  nf_maxtime : String.eqb x "MaxTime" = false;
  nf_tol : String.eqb x "Err_Tolerance" = false }.

Lemma name_ok_facts x : name_ok x = true -> name_facts x.
Proof.
  unfold name_ok. intros H.
  apply andb_true_iff in H as [H Htol]. apply andb_true_iff in H as [H Hmt].
  apply andb_true_iff in H as [H Hw]. apply andb_true_iff in H as [Hne Hid].
  apply negb_true_iff in Htol, Hmt, Hw, Hne.
  split; try assumption.
  - intros ->. discriminate.
  - exact (str_forall_impl _ _ _ ident_not_space Hid).
Qed.

Lemma name_lhs_ok x : name_facts x -> lhs_ok x = true.
Proof.
  intros [? Hid Hns Hw ? ?]. unfold lhs_ok.
  rewrite Hns, Hw, (ident_no_char "="%char _ eq_refl Hid), (ident_no_char "#"%char _ eq_refl Hid),
    (ident_no_char nl _ eq_refl Hid). reflexivity.
Qed.

Lemma name_side_ok x : name_facts x -> side_ok x = true.
Proof. intros [? Hid Hns Hw ? ?]. unfold side_ok.
  rewrite Hw, (ident_no_char "="%char _ eq_refl Hid), (ident_no_char "#"%char _ eq_refl Hid),
    (ident_no_char nl _ eq_refl Hid). reflexivity.
Qed.

Lemma plain_rhs_side_ok s : plain_rhs_ok s = true -> side_ok s = true.
Proof.
  unfold plain_rhs_ok, text_ok, side_ok. intros H. repeat (apply andb_true_iff in H as [H ?]).
  repeat match goal with H : _ = true |- _ => rewrite H end. reflexivity.
Qed.

(* ---------------------------------------------------------------- item-level semantics *)
Definition mark_t (x : string) (st : pstate) : pstate := if is_t_name x then set_found st else st.
Definition record (x e : string) (st : pstate) : pstate := upd (set_alleq x e) st.

Definition apply_body (st : pstate) (b : body) : pstate :=
  match b with
  | Endo x rhs _ =>
      let st1 := mark_t x (record x (strip rhs) st) in
      if mode_exo st then upd (push_exo (x, strip rhs)) st1 else upd (push_endo (x, strip rhs)) st1
  | Lag x src f _ =>
      let st1 := mark_t x (record x (src ++ suffix f) st) in
      if mode_exo st then upd (push_exo (x, src ++ suffix f)) st1 else upd (push_lag (x, src)) st1
  | IC x rhs _ =>
      let st1 := record (x ++ "(0)") (strip rhs) st in
      if mode_exo st then upd (push_exo (x ++ "(0)", strip rhs)) st1 else upd (set_ic x (strip rhs)) st1
  | Marker _ => set_mode st
  | Exo x rhs _ => upd (push_exo (x, strip rhs)) (mark_t x (record x (strip rhs) st))
  | MaxTimeI txt _ => upd (set_maxtime (int_value txt)) (record "MaxTime" (strip txt) st)
  | TolI txt _ => upd (set_tol (strip txt)) (record "Err_Tolerance" (strip txt) st)
  | Junk text => upd (add_msg (msg_of (Code (Junk text) None))) st
  end.

Definition apply_item (st : pstate) (it : item) : pstate :=
  match it with
  | Code b _ => apply_body st b
  | CommentLine _ c => if has_word ("#" ++ c) then set_mode st else st
  | Blank _ => st
  end.

Lemma mode_mark_t x st : mode_exo (mark_t x st) = mode_exo st.
Proof. unfold mark_t. destruct (is_t_name x); reflexivity. Qed.

(* ---------------------------------------------------------------- classify_eq per class *)
Lemma classify_eq_plain fo st x e :
  String.eqb x "MaxTime" = false -> String.eqb x "Err_Tolerance" = false ->
  classify_eq fo st x e =
  let st1 := mark_t x (record x e st) in
  if mode_exo st then Ok (upd (push_exo (x, e)) st1)
  else if has_substring "(0)" x then Ok (upd (set_ic (replace "(0)" "" x) e) st1)
  else
    let e1 := replace " (k -1 )" "(k-1)" (replace "(t-1)" "(k-1)" e) in
    match find_sub "(k-1)" e1 with
    | None => Ok (upd (push_endo (x, e1)) st1)
    | Some pos => Ok (upd (push_lag (x, take pos e1)) st1)
    end.
Proof.
  intros H1 H2. unfold classify_eq. rewrite H1, H2.
  change (String.eqb x "t" || String.eqb x "t_minus_1") with (is_t_name x).
  fold (record x e st). fold (mark_t x (record x e st)).
  cbv zeta. rewrite mode_mark_t. reflexivity.
Qed.

Lemma name_no_paren x : name_facts x -> contains_char "("%char x = false.
Proof. intros [? Hid ? ? ? ?]. exact (ident_no_char "("%char _ eq_refl Hid). Qed.

Lemma name_no_sp x : name_facts x -> contains_char " "%char x = false.
Proof. intros [? Hid ? ? ? ?]. exact (ident_no_char " "%char _ eq_refl Hid). Qed.

Lemma classify_endo fo st x e : name_facts x ->
  has_substring "(k-1)" e = false -> has_substring "(t-1)" e = false -> has_substring " (k -1 )" e = false ->
  classify_eq fo st x e =
  Ok (let st1 := mark_t x (record x e st) in
      if mode_exo st then upd (push_exo (x, e)) st1 else upd (push_endo (x, e)) st1).
Proof.
  intros Hx Hk Ht Htok. rewrite classify_eq_plain by apply Hx.
  cbv zeta. destruct (mode_exo st); [reflexivity|].
  rewrite (has_substring_first_char _ _ _ (name_no_paren _ Hx)).
  rewrite (replace_none _ _ _ Ht), (replace_none _ _ _ Htok), (find_sub_none _ _ Hk). reflexivity.
Qed.

Lemma classify_exo fo st x e : name_facts x -> mode_exo st = true ->
  classify_eq fo st x e = Ok (upd (push_exo (x, e)) (mark_t x (record x e st))).
Proof. intros Hx Hm. rewrite classify_eq_plain by apply Hx. cbv zeta. now rewrite Hm. Qed.

Lemma lag_rewrite src f : contains_char "("%char src = false -> contains_char " "%char src = false ->
  replace " (k -1 )" "(k-1)" (replace "(t-1)" "(k-1)" (src ++ suffix f)) = src ++ "(k-1)".
Proof.
  intros Hp Hs. rewrite (replace_skip _ _ _ _ _ Hp).
  destruct f; simpl suffix.
  - change (replace "(t-1)" "(k-1)" "(k-1)") with "(k-1)". rewrite (replace_skip _ _ _ _ _ Hs). reflexivity.
  - change (replace "(t-1)" "(k-1)" "(t-1)") with "(k-1)". rewrite (replace_skip _ _ _ _ _ Hs). reflexivity.
  - change (replace "(t-1)" "(k-1)" " (k -1 )") with " (k -1 )". rewrite (replace_skip _ _ _ _ _ Hs). reflexivity.
Qed.

Lemma classify_lag fo st x src f : name_facts x -> name_facts src ->
  classify_eq fo st x (src ++ suffix f) =
  Ok (let st1 := mark_t x (record x (src ++ suffix f) st) in
      if mode_exo st then upd (push_exo (x, src ++ suffix f)) st1 else upd (push_lag (x, src)) st1).
Proof.
  intros Hx Hs. rewrite classify_eq_plain by apply Hx.
  cbv zeta. destruct (mode_exo st); [reflexivity|].
  rewrite (has_substring_first_char _ _ _ (name_no_paren _ Hx)).
  rewrite (lag_rewrite _ _ (name_no_paren _ Hs) (name_no_sp _ Hs)).
  rewrite (find_sub_skip _ _ _ _ (name_no_paren _ Hs)).
  change (find_sub "(k-1)" "(k-1)") with (Some 0). simpl option_map.
  rewrite Nat.add_0_r, take_app_length. reflexivity.
Qed.

Lemma ic_name_neq x s : contains_char "("%char s = false -> String.eqb (x ++ "(0)") s = false.
Proof.
  intros H. apply String.eqb_neq. intros E. rewrite <- E, contains_char_app in H.
  simpl in H. now rewrite orb_true_r in H.
Qed.

Lemma classify_ic fo st x e : name_facts x ->
  classify_eq fo st (x ++ "(0)") e =
  Ok (let st1 := record (x ++ "(0)") e st in
      if mode_exo st then upd (push_exo (x ++ "(0)", e)) st1 else upd (set_ic x e) st1).
Proof.
  intros Hx. rewrite classify_eq_plain by (apply ic_name_neq; reflexivity).
  cbv zeta. unfold mark_t, is_t_name. rewrite !ic_name_neq by reflexivity. simpl orb. cbv iota.
  destruct (mode_exo st); [reflexivity|].
  rewrite (has_substring_app_r "(0)" x "(0)" eq_refl).
  rewrite (replace_skip _ _ _ _ _ (name_no_paren _ Hx)).
  change (replace "(0)" "" "(0)") with "". now rewrite append_nil_r.
Qed.

Lemma py_int_strip s : py_int (strip s) = py_int s.
Proof. unfold py_int. now rewrite strip_idem. Qed.

Lemma classify_maxtime fo st txt : is_some (py_int txt) = true ->
  classify_eq fo st "MaxTime" (strip txt) =
  Ok (upd (set_maxtime (int_value txt)) (record "MaxTime" (strip txt) st)).
Proof.
  intros H. unfold classify_eq. rewrite String.eqb_refl, py_int_strip. unfold int_value.
  destruct (py_int txt); [reflexivity|discriminate].
Qed.

Lemma classify_tol fo st txt : fo (strip txt) = Some true ->
  classify_eq fo st "Err_Tolerance" (strip txt) =
  Ok (upd (set_tol (strip txt)) (record "Err_Tolerance" (strip txt) st)).
Proof.
  intros H. unfold classify_eq. change (String.eqb "Err_Tolerance" "MaxTime") with false.
  rewrite String.eqb_refl, H. reflexivity.
Qed.

(* ---------------------------------------------------------------- the lag notation *)
Lemma suffix_cases f : exists c r, suffix f = String c r /\ contains_char (lower_char c) WORD = false /\
  has_word r = false /\ side_ok (suffix f) = true.
Proof. destruct f; simpl; eexists; eexists; repeat split; reflexivity. Qed.

Lemma side_ok_app a b : side_ok a = true -> side_ok b = true ->
  (forall c r, b = String c r -> contains_char (lower_char c) WORD = false) -> b <> "" ->
  side_ok (a ++ b) = true.
Proof.
  unfold side_ok. intros Ha Hb Hsep Hne.
  apply andb_true_iff in Ha as [Ha Ha4]. apply andb_true_iff in Ha as [Ha Ha3]. apply andb_true_iff in Ha as [Ha1 Ha2].
  apply andb_true_iff in Hb as [Hb Hb4]. apply andb_true_iff in Hb as [Hb Hb3]. apply andb_true_iff in Hb as [Hb1 Hb2].
  apply negb_true_iff in Ha1, Ha2, Ha3, Ha4, Hb1, Hb2, Hb3, Hb4.
  rewrite !contains_char_app, Ha1, Ha2, Ha3, Hb1, Hb2, Hb3. simpl.
  destruct b as [|c r]; [congruence|]. rewrite (has_word_sep _ _ _ (Hsep _ _ eq_refl)), Ha4. simpl.
  assert (E : has_word (String c r) = has_word "" || has_word r).
  { rewrite <- (has_word_sep c "" r (Hsep _ _ eq_refl)). reflexivity. }
  rewrite E in Hb4. simpl in Hb4. now rewrite Hb4.
Qed.

Lemma lag_side_ok src f : name_facts src -> side_ok (src ++ suffix f) = true.
Proof.
  intros Hs. apply side_ok_app; [now apply name_side_ok|destruct f; reflexivity| |destruct f; discriminate].
  intros c r E. destruct f; simpl in E; injection E as <- _; reflexivity.
Qed.

Lemma lstrip_name_app x t : name_facts x -> lstrip (x ++ t) = x ++ t.
Proof.
  intros [Hne _ Hns _ _ _]. rewrite lstrip_app, (lstrip_nospace _ Hns). destruct x; [congruence|reflexivity].
Qed.

Lemma lag_strip src f : name_facts src -> strip (src ++ suffix f) = src ++ suffix f.
Proof.
  intros Hs. destruct f; simpl suffix.
  - change "(k-1)" with (String "("%char "k-1)"). rewrite strip_sep by reflexivity.
    now rewrite (lstrip_nospace _ (nf_nospace _ Hs)).
  - change "(t-1)" with (String "("%char "t-1)"). rewrite strip_sep by reflexivity.
    now rewrite (lstrip_nospace _ (nf_nospace _ Hs)).
  - change (src ++ " (k -1 )") with (src ++ (" " ++ String "("%char "k -1 )")).
    rewrite <- append_assoc, strip_sep by reflexivity.
    rewrite (lstrip_name_app _ _ Hs). reflexivity.
Qed.

(* ---------------------------------------------------------------- initial-condition names *)
Lemma ic_lhs_ok x : name_facts x -> lhs_ok (x ++ "(0)") = true.
Proof.
  intros Hx. pose proof (name_lhs_ok _ Hx) as H. unfold lhs_ok in *.
  apply andb_true_iff in H as [H H5]. apply andb_true_iff in H as [H H4]. apply andb_true_iff in H as [H H3].
  apply andb_true_iff in H as [H1 H2]. apply negb_true_iff in H2, H3, H4, H5.
  unfold nospace in *. rewrite str_forall_app, H1, !contains_char_app, H2, H3, H4.
  change "(0)" with (String "("%char "0)"). rewrite has_word_sep by reflexivity. rewrite H5. reflexivity.
Qed.

(* ---------------------------------------------------------------- junk *)
Lemma classify_junk fo st text :
  Nat.eqb (count_char "="%char text) 1 = false ->
  classify fo st (strip text) = Ok (upd (add_msg (msg_of (Code (Junk text) None))) st).
Proof.
  intros Hc. apply Nat.eqb_neq in Hc. unfold classify, msg_of.
  destruct (contains_char "="%char text) eqn:E.
  - pose proof (split_length "="%char (strip text)) as HL.
    rewrite (count_char_strip "="%char _ eq_refl) in HL.
    assert (Hn : count_char "="%char text <> 0).
    { intros Z. apply count_char_zero in Z. congruence. }
    destruct (split_char "="%char (strip text)) as [|a [|b [|c l]]]; simpl in HL; try lia. reflexivity.
  - now rewrite (split_nochar _ _ (contains_char_strip _ _ E)).
Qed.

(* ---------------------------------------------------------------- every item *)
Lemma rhs_ok_parts s : rhs_ok s = true ->
  plain_rhs_ok s = true /\ has_substring "(k-1)" s = false /\ has_substring "(t-1)" s = false /\
  has_substring " (k -1 )" s = false.
Proof.
  unfold rhs_ok. intros H. apply andb_true_iff in H as [H H3]. apply andb_true_iff in H as [H H2].
  apply andb_true_iff in H as [H0 H1]. apply negb_true_iff in H1, H2, H3. auto.
Qed.

Lemma body_step fo st b c : body_ok fo (mode_exo st) b = true ->
  step fo st (print_body b ++ print_comment c) = Ok (apply_body st b).
Proof.
  destruct b as [x rhs sp|x src f sp|x rhs sp|text|x rhs sp|txt sp|txt sp|text]; simpl body_ok; simpl print_body; intros H.
  - (* Endo *)
    apply andb_true_iff in H as [H Hsp]. apply andb_true_iff in H as [Hx Hr].
    apply name_ok_facts in Hx. destruct (rhs_ok_parts _ Hr) as [Hp [Hk [Ht Htok]]].
    rewrite (eqn_line_step _ _ _ _ _ _ Hsp (name_lhs_ok _ Hx) (plain_rhs_side_ok _ Hp)).
    apply classify_endo; [exact Hx| | |]; now apply has_substring_strip_false.
  - (* Lag *)
    apply andb_true_iff in H as [H Hsp]. apply andb_true_iff in H as [Hx Hs].
    apply name_ok_facts in Hx. apply name_ok_facts in Hs.
    rewrite (eqn_line_step _ _ _ _ _ _ Hsp (name_lhs_ok _ Hx) (lag_side_ok _ f Hs)).
    rewrite (lag_strip _ _ Hs). now apply classify_lag.
  - (* IC *)
    apply andb_true_iff in H as [H Hsp]. apply andb_true_iff in H as [Hx Hr].
    apply name_ok_facts in Hx.
    rewrite (eqn_line_step _ _ _ _ _ _ Hsp (ic_lhs_ok _ Hx) (plain_rhs_side_ok _ Hr)).
    now apply classify_ic.
  - (* Marker *)
    apply andb_true_iff in H as [Ht Hw]. unfold text_ok in Ht. apply andb_true_iff in Ht as [Hh _].
    apply negb_true_iff in Hh. rewrite (step_print _ _ _ _ Hh). unfold step_parts.
    now rewrite has_word_strip, Hw.
  - (* Exo *)
    apply andb_true_iff in H as [H Hsp]. apply andb_true_iff in H as [H Hr]. apply andb_true_iff in H as [Hm Hx].
    apply name_ok_facts in Hx.
    rewrite (eqn_line_step _ _ _ _ _ _ Hsp (name_lhs_ok _ Hx) (plain_rhs_side_ok _ Hr)).
    now apply classify_exo.
  - (* MaxTime *)
    apply andb_true_iff in H as [H Hsp]. apply andb_true_iff in H as [Hr Hi].
    rewrite (eqn_line_step _ _ _ "MaxTime" _ _ Hsp eq_refl (plain_rhs_side_ok _ Hr)).
    now apply classify_maxtime.
  - (* Err_Tolerance *)
    apply andb_true_iff in H as [H Hsp]. apply andb_true_iff in H as [Hr Hf].
    rewrite (eqn_line_step _ _ _ "Err_Tolerance" _ _ Hsp eq_refl (plain_rhs_side_ok _ Hr)).
    apply classify_tol. destruct (fo (strip txt)) as [[|]|]; try discriminate. reflexivity.
  - (* Junk *)
    apply andb_true_iff in H as [H Hc]. apply andb_true_iff in H as [H Hne]. apply andb_true_iff in H as [Ht Hw].
    unfold text_ok in Ht. apply andb_true_iff in Ht as [Hh _]. apply negb_true_iff in Hh, Hw, Hne, Hc.
    rewrite (step_print _ _ _ _ Hh). unfold step_parts. rewrite has_word_strip, Hw, Hne.
    now apply classify_junk.
Qed.

Lemma item_step fo st it : item_ok fo (mode_exo st) it = true ->
  step fo st (print_item it) = Ok (apply_item st it).
Proof.
  destruct it as [b c|ws c|ws]; simpl item_ok; simpl print_item; intros H.
  - apply andb_true_iff in H as [H _]. now apply body_step.
  - apply andb_true_iff in H as [Hw _]. unfold step.
    change (ws ++ "#" ++ c) with (ws ++ String "#"%char c).
    rewrite (cut_comment_some _ _ (blank_no_char "#"%char _ eq_refl Hw)).
    rewrite (strip_all_space _ (blank_all_space _ Hw)). reflexivity.
  - unfold step. rewrite (cut_comment_none _ (blank_no_char "#"%char _ eq_refl H)).
    rewrite (strip_all_space _ (blank_all_space _ H)). reflexivity.
Qed.

Lemma mode_apply_item st it : mode_exo (apply_item st it) = mode_exo st || is_marker it.
Proof.
  destruct it as [b c|ws c|ws]; simpl.
  - destruct b; simpl; destruct (mode_exo st) eqn:E; simpl; rewrite ?mode_mark_t; simpl; rewrite ?E; reflexivity.
  - destruct (has_word (String "#"%char c)); destruct (mode_exo st) eqn:E; simpl; rewrite ?E; reflexivity.
  - now rewrite orb_false_r.
Qed.
