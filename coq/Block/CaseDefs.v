(** Boolean comparison helpers used by the generated correspondence cases (C14). *)
From Coq Require Import List String Bool ZArith.
From SFC.Base Require Import Res.
From SFC.Block Require Import Classify Blocks.
Import ListNotations.

Fixpoint list_eqb {A} (eqb : A -> A -> bool) (a b : list A) : bool :=
  match a, b with
  | [], [] => true
  | x :: a', y :: b' => eqb x y && list_eqb eqb a' b'
  | _, _ => false
  end.

Definition res_eqb {A} (eqb : A -> A -> bool) (a b : result A) : bool :=
  match a, b with
  | Ok x, Ok y => eqb x y
  | Err e, Err f => err_eqb e f
  | _, _ => false
  end.

Definition pairs_eqb (a b : list (string * string)) : bool :=
  list_eqb (fun p q => String.eqb (fst p) (fst q) && String.eqb (snd p) (snd q)) a b.

Definition parsed_eqb (p q : parsed) : bool :=
  pairs_eqb (Endogenous p) (Endogenous q) && pairs_eqb (Lagged p) (Lagged q) &&
  pairs_eqb (Exogenous p) (Exogenous q) && pairs_eqb (InitialConditions p) (InitialConditions q) &&
  pairs_eqb (AllEquations p) (AllEquations q) && Z.eqb (MaxTime p) (MaxTime q) &&
  String.eqb (Err_Tolerance p) (Err_Tolerance q) && String.eqb (msg p) (msg q).

(** One C14 case: the block text, the harness-supplied table of [float()] acceptance, and the
    implementation's canonicalised outcome. *)
Definition c14_case (tbl : list (string * bool)) (text : string) (r : result parsed) : bool :=
  res_eqb parsed_eqb (parse_block (fo_of_table tbl) text) r.

Definition c14_case_orig (tbl : list (string * bool)) (text : string) (r : result parsed) : bool :=
  res_eqb parsed_eqb (parse_block_orig (fo_of_table tbl) text) r.

(** A generated description lies inside the quantifier of the C14 theorems ([wf]) and the Coq
    printer produces exactly the text that was handed to the implementation. *)
Definition c14_desc_case (tbl : list (string * bool)) (b : list item) (text : string) : bool :=
  wf (fo_of_table tbl) b && String.eqb (print b) text.
