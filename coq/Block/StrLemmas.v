(** Facts about the [str] mirrors of Base/Str.v used by the C14 proofs. *)
From Coq Require Import List String Ascii Bool Arith Lia.
From SFC.Base Require Import Str.
Import ListNotations.
Local Open Scope string_scope.

(* ---------------------------------------------------------------- append *)
Lemma app_nil_l (s : string) : "" ++ s = s.
Proof. reflexivity. Qed.

Lemma app_cons (c : ascii) (a b : string) : String c a ++ b = String c (a ++ b).
Proof. reflexivity. Qed.

Lemma app_eq_nil (a b : string) : a ++ b = "" -> a = "" /\ b = "".
Proof. destruct a; simpl; [auto|discriminate]. Qed.

(* ---------------------------------------------------------------- whitespace, strip *)
Definition all_space (w : string) : bool :=
  (fix go (s : string) : bool := match s with EmptyString => true | String c r => is_space c && go r end) w.

Fixpoint str_forall (P : ascii -> bool) (s : string) : bool :=
  match s with EmptyString => true | String c r => P c && str_forall P r end.

Lemma all_space_forall w : all_space w = str_forall is_space w.
Proof. induction w as [|c r IH]; simpl; [reflexivity|]. now rewrite <- IH. Qed.

Lemma str_forall_app P a b : str_forall P (a ++ b) = str_forall P a && str_forall P b.
Proof. induction a as [|c a IH]; simpl; [reflexivity|]. now rewrite IH, andb_assoc. Qed.

Lemma all_space_app a b : all_space (a ++ b) = all_space a && all_space b.
Proof. rewrite !all_space_forall. apply str_forall_app. Qed.

Lemma str_forall_impl (P Q : ascii -> bool) s :
  (forall c, P c = true -> Q c = true) -> str_forall P s = true -> str_forall Q s = true.
Proof.
  intros HPQ. induction s as [|c r IH]; simpl; [reflexivity|].
  intros H. apply andb_true_iff in H as [H1 H2]. now rewrite (HPQ _ H1), (IH H2).
Qed.

Lemma lstrip_app a b :
  lstrip (a ++ b) = match lstrip a with EmptyString => lstrip b | l => l ++ b end.
Proof.
  induction a as [|c a IH]; simpl; [reflexivity|].
  destruct (is_space c); [exact IH|reflexivity].
Qed.

Lemma rstrip_app a b :
  rstrip (a ++ b) = match rstrip b with EmptyString => rstrip a | r => a ++ r end.
Proof.
  induction a as [|c a IH]; simpl.
  - destruct (rstrip b); reflexivity.
  - rewrite IH. destruct (rstrip b) as [|d r] eqn:Hb; [reflexivity|].
    destruct a; reflexivity.
Qed.

Lemma lstrip_all_space w : all_space w = true -> lstrip w = "".
Proof.
  induction w as [|c r IH]; simpl; [reflexivity|].
  intros H. apply andb_true_iff in H as [H1 H2]. rewrite H1. exact (IH H2).
Qed.

Lemma rstrip_all_space w : all_space w = true -> rstrip w = "".
Proof.
  induction w as [|c r IH]; simpl; [reflexivity|].
  intros H. apply andb_true_iff in H as [H1 H2]. rewrite (IH H2), H1. reflexivity.
Qed.

Lemma rstrip_cons_nonspace c b : is_space c = false -> rstrip (String c b) = String c (rstrip b).
Proof. intros H. simpl. destruct (rstrip b); [now rewrite H|reflexivity]. Qed.

Lemma rstrip_idem s : rstrip (rstrip s) = rstrip s.
Proof.
  induction s as [|c r IH]; simpl; [reflexivity|].
  destruct (rstrip r) as [|d r'] eqn:Hr.
  - destruct (is_space c) eqn:Hc; simpl; [reflexivity|now rewrite Hc].
  - change (rstrip (String c (String d r')) = String c (String d r')).
    simpl in *. rewrite IH. reflexivity.
Qed.

Lemma lstrip_idem s : lstrip (lstrip s) = lstrip s.
Proof.
  induction s as [|c r IH]; simpl; [reflexivity|].
  destruct (is_space c) eqn:Hc; [exact IH|]. simpl. now rewrite Hc.
Qed.

Lemma lstrip_decomp s : exists w, all_space w = true /\ s = w ++ lstrip s.
Proof.
  induction s as [|c r [w [Hw Hs]]]; simpl.
  - exists "". auto.
  - destruct (is_space c) eqn:Hc.
    + exists (String c w). simpl. fold (all_space w). rewrite Hc, Hw. split; [reflexivity|]. now rewrite <- Hs.
    + exists "". auto.
Qed.

Lemma rstrip_decomp s : exists w, all_space w = true /\ s = rstrip s ++ w.
Proof.
  induction s as [|c r [w [Hw Hs]]]; simpl.
  - exists "". auto.
  - destruct (rstrip r) as [|d r'] eqn:Hr.
    + simpl in Hs. destruct (is_space c) eqn:Hc.
      * exists (String c w). simpl. fold (all_space w). rewrite Hc, Hw. split; [reflexivity|]. now rewrite <- Hs.
      * exists w. split; [exact Hw|]. simpl. now rewrite <- Hs.
    + exists w. split; [exact Hw|]. simpl. simpl in Hs. now rewrite <- Hs.
Qed.

Lemma strip_rstrip s : strip (rstrip s) = strip s.
Proof. unfold strip. now rewrite rstrip_idem. Qed.

Lemma strip_lstrip s : strip (lstrip s) = strip s.
Proof.
  unfold strip. destruct (lstrip_decomp s) as [w [Hw Hs]].
  rewrite Hs at 2. rewrite rstrip_app.
  destruct (rstrip (lstrip s)) as [|d r] eqn:Hr.
  - now rewrite (rstrip_all_space _ Hw).
  - rewrite lstrip_app, (lstrip_all_space _ Hw). reflexivity.
Qed.

Lemma strip_idem s : strip (strip s) = strip s.
Proof. unfold strip at 2. now rewrite strip_lstrip, strip_rstrip. Qed.

Lemma strip_pad w1 w2 s :
  all_space w1 = true -> all_space w2 = true -> strip (w1 ++ s ++ w2) = strip s.
Proof.
  intros H1 H2. unfold strip.
  rewrite rstrip_app. rewrite (rstrip_app s w2), (rstrip_all_space _ H2).
  destruct (rstrip s) as [|d r] eqn:Hr.
  - now rewrite (rstrip_all_space _ H1).
  - now rewrite lstrip_app, (lstrip_all_space _ H1).
Qed.

Lemma strip_pad_l w s : all_space w = true -> strip (w ++ s) = strip s.
Proof. intros H. rewrite <- (append_nil_r s) at 1. now apply (strip_pad w "" s). Qed.

Lemma strip_pad_r w s : all_space w = true -> strip (s ++ w) = strip s.
Proof. intros H. now apply (strip_pad "" w s). Qed.

Lemma strip_decomp s :
  exists w1 w2, all_space w1 = true /\ all_space w2 = true /\ s = w1 ++ strip s ++ w2.
Proof.
  destruct (rstrip_decomp s) as [w2 [H2 Hs2]].
  destruct (lstrip_decomp (rstrip s)) as [w1 [H1 Hs1]].
  exists w1, w2. repeat split; try assumption.
  unfold strip. rewrite <- append_assoc, <- Hs1. exact Hs2.
Qed.

Lemma strip_all_space w : all_space w = true -> strip w = "".
Proof. intros H. unfold strip. now rewrite (rstrip_all_space _ H). Qed.

Definition nospace (s : string) : bool := str_forall (fun c => negb (is_space c)) s.

Lemma lstrip_nospace s : nospace s = true -> lstrip s = s.
Proof.
  destruct s as [|c r]; simpl; [reflexivity|]. intros H.
  apply andb_true_iff in H as [H _]. apply negb_true_iff in H. now rewrite H.
Qed.

Lemma rstrip_nospace s : nospace s = true -> rstrip s = s.
Proof.
  induction s as [|c r IH]; simpl; [reflexivity|]. intros H.
  apply andb_true_iff in H as [H1 H2]. apply negb_true_iff in H1.
  rewrite (IH H2). destruct r; [now rewrite H1|reflexivity].
Qed.

Lemma strip_nospace s : nospace s = true -> strip s = s.
Proof. intros H. unfold strip. now rewrite (rstrip_nospace _ H), (lstrip_nospace _ H). Qed.

(** stripping around a non-space separator *)
Lemma strip_sep a c b : is_space c = false -> strip (a ++ String c b) = lstrip a ++ String c (rstrip b).
Proof.
  intros Hc. unfold strip. rewrite rstrip_app, (rstrip_cons_nonspace _ _ Hc).
  rewrite lstrip_app. destruct (lstrip a); [|reflexivity]. simpl. now rewrite Hc.
Qed.

(** a tight prefix followed by blanks *)
Lemma strip_tight_l w1 x w2 :
  all_space w1 = true -> all_space w2 = true -> nospace x = true -> strip (w1 ++ x ++ w2) = x.
Proof. intros H1 H2 Hx. rewrite (strip_pad _ _ _ H1 H2). now apply strip_nospace. Qed.

(* ---------------------------------------------------------------- characters *)
Lemma contains_char_app c a b : contains_char c (a ++ b) = contains_char c a || contains_char c b.
Proof. induction a as [|d a IH]; simpl; [reflexivity|]. destruct (Ascii.eqb d c); [reflexivity|exact IH]. Qed.

Lemma contains_char_forall c s : contains_char c s = negb (str_forall (fun d => negb (Ascii.eqb d c)) s).
Proof.
  induction s as [|d r IH]; simpl; [reflexivity|]. destruct (Ascii.eqb d c); simpl; [reflexivity|exact IH].
Qed.

Lemma contains_char_strip c s : contains_char c s = false -> contains_char c (strip s) = false.
Proof.
  intros H. destruct (strip_decomp s) as [w1 [w2 [_ [_ Hs]]]]. rewrite Hs in H.
  rewrite !contains_char_app in H. apply orb_false_iff in H as [_ H]. now apply orb_false_iff in H as [H _].
Qed.

Lemma contains_char_lstrip c s : contains_char c s = false -> contains_char c (lstrip s) = false.
Proof.
  intros H. destruct (lstrip_decomp s) as [w [_ Hs]]. rewrite Hs in H.
  rewrite contains_char_app in H. now apply orb_false_iff in H as [_ H].
Qed.

Lemma contains_char_rstrip c s : contains_char c s = false -> contains_char c (rstrip s) = false.
Proof.
  intros H. destruct (rstrip_decomp s) as [w [_ Hs]]. rewrite Hs in H.
  rewrite contains_char_app in H. now apply orb_false_iff in H as [H _].
Qed.

Lemma contains_char_all_space c w : is_space c = false -> all_space w = true -> contains_char c w = false.
Proof.
  intros Hc. induction w as [|d r IH]; simpl; [reflexivity|]. intros H.
  apply andb_true_iff in H as [H1 H2]. destruct (Ascii.eqb_spec d c) as [->|_]; [congruence|]. exact (IH H2).
Qed.

(* ---------------------------------------------------------------- split *)
Lemma split_nochar c s : contains_char c s = false -> split_char c s = [s].
Proof.
  induction s as [|d r IH]; simpl; [reflexivity|].
  destruct (Ascii.eqb d c); [discriminate|]. intros H. now rewrite (IH H).
Qed.

Lemma split_sep c a b : contains_char c a = false -> split_char c (a ++ String c b) = a :: split_char c b.
Proof.
  induction a as [|d a IH]; simpl.
  - intros _. now rewrite Ascii.eqb_refl.
  - destruct (Ascii.eqb d c); [discriminate|]. intros H. now rewrite (IH H).
Qed.

Fixpoint count_char (c : ascii) (s : string) : nat :=
  match s with EmptyString => 0 | String d r => (if Ascii.eqb d c then 1 else 0) + count_char c r end.

Lemma split_length c s : List.length (split_char c s) = S (count_char c s).
Proof.
  induction s as [|d r IH]; simpl; [reflexivity|].
  destruct (Ascii.eqb d c); simpl; [now rewrite IH|].
  destruct (split_char c r); simpl in *; [discriminate|exact IH].
Qed.

Lemma count_char_app c a b : count_char c (a ++ b) = count_char c a + count_char c b.
Proof. induction a as [|d a IH]; simpl; [reflexivity|]. rewrite IH. lia. Qed.

Lemma count_char_zero c s : count_char c s = 0 <-> contains_char c s = false.
Proof.
  induction s as [|d r IH]; simpl; [tauto|].
  destruct (Ascii.eqb d c); simpl; [split; [lia|discriminate]|exact IH].
Qed.

Lemma count_char_strip c s : is_space c = false -> count_char c (strip s) = count_char c s.
Proof.
  intros Hc. destruct (strip_decomp s) as [w1 [w2 [H1 [H2 Hs]]]]. rewrite Hs at 2.
  rewrite !count_char_app.
  assert (Z1 : count_char c w1 = 0) by (apply count_char_zero; now apply contains_char_all_space).
  assert (Z2 : count_char c w2 = 0) by (apply count_char_zero; now apply contains_char_all_space).
  lia.
Qed.

(* ---------------------------------------------------------------- prefix / substring *)
Lemma prefix_nil_r p : String.prefix p "" = match p with EmptyString => true | _ => false end.
Proof. destruct p; reflexivity. Qed.

Lemma prefix_cons a p b s :
  String.prefix (String a p) (String b s) = Ascii.eqb a b && String.prefix p s.
Proof.
  simpl. destruct (ascii_dec a b) as [->|Hn].
  - now rewrite Ascii.eqb_refl.
  - destruct (Ascii.eqb_spec a b); [contradiction|reflexivity].
Qed.

Lemma prefix_app p a b : String.prefix p a = true -> String.prefix p (a ++ b) = true.
Proof.
  revert a. induction p as [|x p IH]; intros a; [intros _; destruct (a ++ b); reflexivity|].
  destruct a as [|y a]; [discriminate|]. rewrite app_cons, !prefix_cons.
  intros H. apply andb_true_iff in H as [H1 H2]. now rewrite H1, (IH _ H2).
Qed.

(** a separator character that does not occur in the pattern *)
Lemma prefix_sep c p a b : contains_char c p = false ->
  String.prefix p (a ++ String c b) = String.prefix p a.
Proof.
  revert a. induction p as [|x p IH]; intros a Hp; [destruct a; destruct (_ ++ _); reflexivity|].
  simpl in Hp. destruct (Ascii.eqb x c) eqn:Hxc; [discriminate|].
  destruct a as [|y a].
  - rewrite app_nil_l, prefix_cons, Hxc. reflexivity.
  - rewrite app_cons, !prefix_cons, (IH _ Hp). reflexivity.
Qed.

Lemma has_substring_nil_r p : has_substring p "" = match p with EmptyString => true | _ => false end.
Proof. destruct p; reflexivity. Qed.

Lemma has_substring_cons p c s :
  has_substring p (String c s) = String.prefix p (String c s) || has_substring p s.
Proof. simpl. destruct p; [reflexivity|]. destruct (ascii_dec a c); [destruct (String.prefix p s)|]; reflexivity. Qed.

Lemma has_substring_sep c p a b : contains_char c p = false ->
  has_substring p (a ++ String c b) = has_substring p a || has_substring p b.
Proof.
  intros Hp. induction a as [|y a IH].
  - rewrite app_nil_l, has_substring_cons.
    replace (String c b) with ("" ++ String c b) at 1 by reflexivity.
    rewrite (prefix_sep _ _ _ _ Hp). rewrite has_substring_nil_r, prefix_nil_r. reflexivity.
  - rewrite app_cons, !has_substring_cons, IH.
    rewrite <- app_cons, (prefix_sep _ _ _ _ Hp). now rewrite orb_assoc.
Qed.

Lemma has_substring_app_l p a b : has_substring p a = true -> has_substring p (a ++ b) = true.
Proof.
  induction a as [|y a IH].
  - rewrite has_substring_nil_r. destruct p; [|discriminate]. intros _. destruct b; reflexivity.
  - rewrite app_cons, !has_substring_cons. intros H. apply orb_true_iff in H as [H|H].
    + rewrite <- app_cons, (prefix_app _ _ _ H). reflexivity.
    + rewrite (IH H). apply orb_true_r.
Qed.

Lemma has_substring_app_r p a b : has_substring p b = true -> has_substring p (a ++ b) = true.
Proof.
  intros H. induction a as [|y a IH]; [exact H|].
  rewrite app_cons, has_substring_cons, IH. apply orb_true_r.
Qed.

Lemma has_substring_mid p a m b : has_substring p m = true -> has_substring p (a ++ m ++ b) = true.
Proof. intros H. apply has_substring_app_r, has_substring_app_l, H. Qed.

Lemma has_substring_strip_false p s : has_substring p s = false -> has_substring p (strip s) = false.
Proof.
  intros H. destruct (has_substring p (strip s)) eqn:E; [|reflexivity].
  destruct (strip_decomp s) as [w1 [w2 [_ [_ Hs]]]]. rewrite Hs in H.
  now rewrite (has_substring_mid _ w1 _ w2 E) in H.
Qed.

(** [sepfree p w]: no character of [w] occurs in [p]. *)
Definition sepfree (p w : string) : bool := str_forall (fun c => negb (contains_char c p)) w.

Lemma has_substring_sepfree_l p w b : p <> "" -> sepfree p w = true ->
  has_substring p (w ++ b) = has_substring p b.
Proof.
  intros Hne. induction w as [|c w IH]; [reflexivity|]. intros H. simpl in H.
  apply andb_true_iff in H as [H1 H2]. apply negb_true_iff in H1.
  rewrite app_cons. rewrite <- (app_nil_l (String c (w ++ b))).
  rewrite (has_substring_sep _ _ _ _ H1), (IH H2), has_substring_nil_r.
  destruct p; [congruence|reflexivity].
Qed.

Lemma has_substring_sepfree p w : p <> "" -> sepfree p w = true -> has_substring p w = false.
Proof.
  intros Hne H. rewrite <- (append_nil_r w), (has_substring_sepfree_l _ _ _ Hne H), has_substring_nil_r.
  destruct p; [congruence|reflexivity].
Qed.

Lemma has_substring_sepfree_r p a w : p <> "" -> sepfree p w = true ->
  has_substring p (a ++ w) = has_substring p a.
Proof.
  intros Hne H. destruct w as [|c w]; [now rewrite append_nil_r|].
  simpl in H. apply andb_true_iff in H as [H1 H2]. apply negb_true_iff in H1.
  rewrite (has_substring_sep _ _ _ _ H1), (has_substring_sepfree _ _ Hne H2). apply orb_false_r.
Qed.

Lemma has_substring_first_char c p s : contains_char c s = false -> has_substring (String c p) s = false.
Proof.
  induction s as [|d r IH]; [reflexivity|]. simpl contains_char.
  destruct (Ascii.eqb d c) eqn:E; [discriminate|]. intros H.
  rewrite has_substring_cons, prefix_cons, (IH H).
  rewrite Ascii.eqb_sym, E. reflexivity.
Qed.

(* ---------------------------------------------------------------- lower case *)
Lemma to_lower_app a b : to_lower (a ++ b) = to_lower a ++ to_lower b.
Proof. induction a as [|c a IH]; simpl; [reflexivity|]. now rewrite IH. Qed.

Definition lower_char (c : ascii) : ascii :=
  let n := nat_of_ascii c in if andb (Nat.leb 65 n) (Nat.leb n 90) then ascii_of_nat (n + 32) else c.

Lemma to_lower_cons c r : to_lower (String c r) = String (lower_char c) (to_lower r).
Proof. reflexivity. Qed.

Lemma lower_char_space c : is_space c = true -> lower_char c = c.
Proof.
  destruct c as [[] [] [] [] [] [] [] []]; simpl; intros H; try discriminate; reflexivity.
Qed.

Lemma to_lower_all_space w : all_space w = true -> to_lower w = w.
Proof.
  induction w as [|c r IH]; [reflexivity|]. simpl all_space. fold (all_space r). intros H.
  apply andb_true_iff in H as [H1 H2]. rewrite to_lower_cons, (lower_char_space _ H1), (IH H2). reflexivity.
Qed.

(* ---------------------------------------------------------------- find / replace *)
Lemma find_sub_cons p c r :
  find_sub p (String c r) = if String.prefix p (String c r) then Some 0 else option_map S (find_sub p r).
Proof. destruct p; reflexivity. Qed.

Lemma find_sub_nil p : find_sub p "" = if String.prefix p "" then Some 0 else None.
Proof. destruct p; reflexivity. Qed.

Lemma replace_fuel_S f p q s :
  replace_fuel (S f) p q s =
  if String.prefix p s then q ++ replace_fuel f p q (drop (String.length p) s)
  else match s with EmptyString => EmptyString | String c r => String c (replace_fuel f p q r) end.
Proof. reflexivity. Qed.

Lemma find_sub_none p s : has_substring p s = false -> find_sub p s = None.
Proof.
  induction s as [|c r IH].
  - rewrite has_substring_nil_r, find_sub_nil, prefix_nil_r. destruct p; [discriminate|reflexivity].
  - rewrite has_substring_cons, find_sub_cons. intros H. apply orb_false_iff in H as [H1 H2].
    now rewrite H1, (IH H2).
Qed.

Lemma replace_fuel_none f p q s : has_substring p s = false -> replace_fuel f p q s = s.
Proof.
  revert s. induction f as [|f IH]; intros s; [reflexivity|]. rewrite replace_fuel_S.
  destruct s as [|c r].
  - rewrite has_substring_nil_r, prefix_nil_r. destruct p; [discriminate|reflexivity].
  - rewrite has_substring_cons. intros H. apply orb_false_iff in H as [H1 H2].
    now rewrite H1, (IH _ H2).
Qed.

Lemma replace_none p q s : has_substring p s = false -> replace p q s = s.
Proof. intros H. unfold replace. destruct p; [reflexivity|]. now apply replace_fuel_none. Qed.

(** a prefix that cannot start a match *)
Lemma prefix_first_char c p d s : Ascii.eqb d c = false -> String.prefix (String c p) (String d s) = false.
Proof. intros H. rewrite prefix_cons, Ascii.eqb_sym, H. reflexivity. Qed.

Lemma find_sub_skip c p a t : contains_char c a = false ->
  find_sub (String c p) (a ++ t) = option_map (fun n => String.length a + n) (find_sub (String c p) t).
Proof.
  induction a as [|d a IH]; simpl contains_char.
  - intros _. rewrite app_nil_l. destruct (find_sub (String c p) t); reflexivity.
  - destruct (Ascii.eqb d c) eqn:E; [discriminate|]. intros H.
    rewrite app_cons, find_sub_cons, (prefix_first_char _ _ _ _ E), (IH H).
    destruct (find_sub (String c p) t); reflexivity.
Qed.

Lemma replace_fuel_skip c p q a t f : contains_char c a = false ->
  replace_fuel (String.length a + f) (String c p) q (a ++ t) = a ++ replace_fuel f (String c p) q t.
Proof.
  induction a as [|d a IH]; simpl contains_char.
  - intros _. reflexivity.
  - destruct (Ascii.eqb d c) eqn:E; [discriminate|]. intros H.
    simpl String.length. rewrite Nat.add_succ_l, replace_fuel_S, app_cons, (prefix_first_char _ _ _ _ E), (IH H).
    reflexivity.
Qed.

Lemma replace_skip c p q a t : contains_char c a = false ->
  replace (String c p) q (a ++ t) = a ++ replace (String c p) q t.
Proof.
  intros H. unfold replace. rewrite length_append, <- Nat.add_succ_r. now apply replace_fuel_skip.
Qed.

Lemma take_app_length a b : take (String.length a) (a ++ b) = a.
Proof. induction a as [|c a IH]; simpl; [destruct b; reflexivity|]. now rewrite IH. Qed.

Lemma drop_app_length a b : drop (String.length a) (a ++ b) = b.
Proof. induction a as [|c a IH]; simpl; [reflexivity|exact IH]. Qed.

(** [s.find('#')] on a line with a comment, and on one without *)
Lemma find_hash_app code c : contains_char "#"%char code = false ->
  find_sub "#" (code ++ String "#"%char c) = Some (String.length code).
Proof.
  intros H. rewrite (find_sub_skip _ _ _ _ H), find_sub_cons, prefix_cons, Ascii.eqb_refl.
  destruct c; simpl; f_equal; apply Nat.add_0_r.
Qed.

Lemma find_hash_none code : contains_char "#"%char code = false -> find_sub "#" code = None.
Proof. intros H. apply find_sub_none. now apply has_substring_first_char. Qed.

(* ---------------------------------------------------------------- lines *)
Definition nlc : ascii := "010"%char.

Lemma split_concat_lines (l : string) (ls : list string) :
  Forall (fun x => contains_char nlc x = false) (l :: ls) ->
  split_char nlc (String.concat (String nlc "") (l :: ls)) = l :: ls.
Proof.
  revert l. induction ls as [|m ls IH]; intros l H.
  - inversion H; subst. simpl. now apply split_nochar.
  - inversion H as [|? ? Hl Hr]; subst.
    change (String.concat (String nlc "") (l :: m :: ls)) with (l ++ String nlc (String.concat (String nlc "") (m :: ls))).
    rewrite (split_sep _ _ _ Hl), (IH _ Hr). reflexivity.
Qed.
