From Coq Require Import List String.
From SFC.Block Require Import Classify.
Example placeholder : True. Proof. exact I. Qed.
Print Assumptions placeholder.
