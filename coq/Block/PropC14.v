(** C14 — Equation text is classified faithfully; comments are inert.
    Property theorems only; model in Classify.v (EquationParser.ParseString after fix D14, and
    [parse_block_orig] before it), block descriptions / printer / [expected] in Blocks.v, proofs in
    StrLemmas.v, LineProofs.v, BlockProofs.v.

    [fo] is Python's [float(text)] acceptance (trusted parameter).  A block description is a list
    of items: a line of code ([Endo], [Lag] in the three notations, [IC], [Marker], [Exo],
    [MaxTimeI], [TolI], [Junk]) with an optional trailing comment, a comment line, or a blank line,
    each with arbitrary blank spacing.  [wf] is a boolean predicate: names are identifier-shaped,
    do not contain the marker word (case-insensitively) and are not MaxTime / Err_Tolerance;
    right-hand sides contain no '#', '=', newline or marker word, and, for simultaneous equations, no
    lag notation; [Exo] lines stand after a marker; comments are ANY single-line text. *)
From Coq Require Import List String Ascii Bool Arith ZArith.
From SFC.Base Require Import Res Str.
From SFC.Block Require Import Classify StrLemmas Blocks LineProofs BlockProofs.
Import ListNotations.
Local Open Scope string_scope.

(** Every well-formed block parses without error to exactly what its description says:
    simultaneous equations before the first marker in [Endogenous] (plus ("t","k") when no line
    defines t or t_minus_1), lags in [Lagged] as (x, source), initial conditions in
    [InitialConditions] under x, everything after the first marker in [Exogenous], the run
    parameters in [MaxTime]/[Err_Tolerance], malformed lines only in the message — each
    right-hand side being the printed one with surrounding blanks removed. *)
Theorem C14_classify : forall fo b, wf fo b = true -> parse_block fo (print b) = Ok (expected b).
Proof. exact classify_block. Qed.
Print Assumptions C14_classify.

(** Each equation item contributes exactly one entry to exactly one of the four classes, the
    other items none; hence the four classes together hold one entry per equation line (plus the
    default time variable).  [InitialConditions] is the dict built from the initial-condition
    entries (a repeated name overwrites, as in Python). *)
Theorem C14_exactly_one : forall fo b, wf fo b = true ->
  (forall m it, is_equation it = true ->
     List.length (endo_of m it) + List.length (lag_of m it) + List.length (ic_of m it) +
     List.length (exo_of m it) = 1) /\
  (forall m it, is_equation it = false ->
     endo_of m it = [] /\ lag_of m it = [] /\ ic_of m it = [] /\ exo_of m it = []) /\
  List.length (Endogenous (expected b)) + List.length (Lagged (expected b)) + List.length (ic_entries b) +
  List.length (Exogenous (expected b)) = List.length (filter is_equation b) + List.length (default_t b) /\
  InitialConditions (expected b) = dict_of (ic_entries b).
Proof.
  intros fo b H. split; [exact item_one_class|]. split; [exact item_no_class|].
  split; [exact (class_count fo b H)|reflexivity].
Qed.
Print Assumptions C14_exactly_one.

(** Trailing comments are inert: replacing them by ANY single-line texts (containing '=', '#',
    digits, the marker word, lag or initial-condition notation, ...) changes nothing.  This needs much
    less than [wf]: every code line is '#'-free, newline-free and not blank. *)
Theorem C14_comments : forall fo cs b,
  forallb code_ok b = true -> forallb comment_ok cs = true ->
  parse_block fo (print (set_comments cs b)) = parse_block fo (print b).
Proof. exact comments_inert. Qed.
Print Assumptions C14_comments.

Theorem C14_comments_wf : forall fo cs b,
  wf fo b = true -> forallb comment_ok cs = true ->
  parse_block fo (print (set_comments cs b)) = parse_block fo (print b).
Proof. exact comments_inert_wf. Qed.
Print Assumptions C14_comments_wf.

(** The same fact for one arbitrary line of code in an arbitrary parser state. *)
Theorem C14_comment_line : forall fo st code c1 c2,
  contains_char "#"%char code = false -> String.eqb (strip code) "" = false ->
  step fo st (code ++ print_comment c1) = step fo st (code ++ print_comment c2).
Proof. exact comment_inert_line. Qed.
Print Assumptions C14_comment_line.

(** A time variable is supplied exactly when the user gives none. *)
Theorem C14_default_t : forall fo b, wf fo b = true ->
  exists e, parse_block fo (print b) = Ok e /\
  (existsb defines_t b = false ->
     Endogenous e = (flat_map (endo_of false) (before b) ++ [("t", "k")])%list /\
     dict_get "t" (AllEquations e) = Some "k") /\
  (existsb defines_t b = true ->
     Endogenous e = flat_map (endo_of false) (before b) /\
     AllEquations e = dict_of (flat_map alleq_of b)).
Proof.
  intros fo b H. exists (expected b). split; [exact (classify_block fo b H)|].
  split; [exact (default_t_supplied b)|exact (default_t_not_supplied b)].
Qed.
Print Assumptions C14_default_t.

(** Malformed lines are reported: the returned message contains the text of every junk line. *)
Theorem C14_malformed_reported : forall fo b text c, wf fo b = true ->
  List.In (Code (Junk text) c) b ->
  exists e pre post, parse_block fo (print b) = Ok e /\ msg e = pre ++ strip text ++ post.
Proof.
  intros fo b text c H Hin. destruct (junk_reported b text c Hin) as [pre [post E]].
  exists (expected b), pre, post. split; [exact (classify_block fo b H)|exact E].
Qed.
Print Assumptions C14_malformed_reported.

(** Before fix D14 (marker test on the raw line) a comment changes the classification:
    [x = y # this is exogenous] loses x and turns every later line into an exogenous one. *)
Definition sp0 : spacing := mkSp "" " " " " "".
Definition d14_block : list item := [Code (Endo "x" "y" sp0) None; Code (Endo "y" "2" sp0) None].
Definition d14_comments : list (option string) := [Some " this is exogenous"].
Definition no_float : string -> option bool := fun _ => None.

Theorem C14_orig_refuted :
  wf no_float d14_block = true /\ forallb comment_ok d14_comments = true /\
  parse_block_orig no_float (print (set_comments d14_comments d14_block)) <>
  parse_block_orig no_float (print d14_block) /\
  parse_block_orig no_float (print (set_comments d14_comments d14_block)) =
  Ok (mkParsed [("t", "k")] [] [("y", "2")] [] [("y", "2"); ("t", "k")] 0%Z "1e-8" "") /\
  parse_block no_float (print (set_comments d14_comments d14_block)) =
  Ok (mkParsed [("x", "y"); ("y", "2"); ("t", "k")] [] [] [] [("x", "y"); ("y", "2"); ("t", "k")] 0%Z "1e-8" "").
Proof.
  split; [vm_compute; reflexivity|]. split; [vm_compute; reflexivity|].
  split; [vm_compute; discriminate|]. split; vm_compute; reflexivity.
Qed.
Print Assumptions C14_orig_refuted.

(** Non-vacuity: a block with every kind of line, hostile comments and odd spacing is
    well formed, and this is what it parses to. *)
Definition sp1 : spacing := mkSp "  " "" (String "009"%char "") " ".
Definition ex_fo : string -> option bool := fo_of_table [("1e-6", true)].
Definition ex_block : list item :=
  [ Code (Endo "GOV__F" "GOV__LAG_F +GOV__T -GOV__DEM_GOOD" sp0) (Some " [F] an exogenous = bonus # (0)");
    Code (Lag "GOV__LAG_F" "GOV__F" FTok sp1) (Some " uses F(k-1)");
    Code (Lag "L2" "x" FT sp0) None;
    Code (IC "GOV__F" " 80." sp1) (Some "MaxTime = 7");
    CommentLine " " " just a note with = and #";
    Code (Junk "hello world") (Some " exogenous");
    Code (Junk "a = b = c") None;
    Blank "  ";
    Code (MaxTimeI "1_00" sp0) (Some "Err_Tolerance = zzz");
    CommentLine "" " Exogenous Variables";
    Code (Exo "GOV__DEM_GOOD" "[0.,] + [20.,] * 105" sp0) (Some " (k-1)");
    Code (Lag "after" "x" FK sp0) None;
    Code (TolI "1e-6" sp1) None;
    Code (Marker "exogenous = again") (Some "#") ].

Example C14_example_wf : wf ex_fo ex_block = true.
Proof. vm_compute. reflexivity. Qed.
Print Assumptions C14_example_wf.

Example C14_example_parse :
  parse_block ex_fo (print ex_block) =
  Ok (mkParsed [("GOV__F", "GOV__LAG_F +GOV__T -GOV__DEM_GOOD"); ("t", "k")]
               [("GOV__LAG_F", "GOV__F"); ("L2", "x")]
               [("GOV__DEM_GOOD", "[0.,] + [20.,] * 105"); ("after", "x(k-1)")]
               [("GOV__F", "80.")]
               [("GOV__F", "GOV__LAG_F +GOV__T -GOV__DEM_GOOD"); ("GOV__LAG_F", "GOV__F (k -1 )"); ("L2", "x(t-1)");
                ("GOV__F(0)", "80."); ("MaxTime", "1_00"); ("GOV__DEM_GOOD", "[0.,] + [20.,] * 105");
                ("after", "x(k-1)"); ("Err_Tolerance", "1e-6"); ("t", "k")]
               100%Z "1e-6"
               (msg_ignored "hello world" ++ msg_multiple "a = b = c")).
Proof. vm_compute. reflexivity. Qed.
Print Assumptions C14_example_parse.
