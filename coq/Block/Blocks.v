(** C14 — block descriptions: the documented line forms, how they are printed, which ones are
    well formed, and what the property says the parser must make of them ([expected]). *)
From Coq Require Import List String Ascii Bool Arith ZArith.
From SFC.Base Require Import Res Str.
From SFC.Block Require Import Classify StrLemmas.
Import ListNotations.
Local Open Scope string_scope.

(** The three ways a lag is written: [X(k-1)], [X(t-1)], and the tokenizer-spaced [X (k -1 )]
    that the framework itself emits. *)
Inductive lagform : Type := FK | FT | FTok.
Definition suffix (f : lagform) : string :=
  match f with FK => "(k-1)" | FT => "(t-1)" | FTok => " (k -1 )" end.

(** Spacing: before the name, between name and '=', between '=' and the right-hand side, after it. *)
Record spacing : Type := mkSp { w1 : string; w2 : string; w3 : string; w4 : string }.

(** A line that carries code. *)
Inductive body : Type :=
| Endo (x rhs : string) (sp : spacing)                 (* x = rhs *)
| Lag (x src : string) (f : lagform) (sp : spacing)    (* x = src(k-1) *)
| IC (x rhs : string) (sp : spacing)                   (* x(0) = rhs *)
| Marker (text : string)                               (* a line whose code mentions the marker word *)
| Exo (x rhs : string) (sp : spacing)                  (* x = rhs, after the marker *)
| MaxTimeI (txt : string) (sp : spacing)               (* MaxTime = txt *)
| TolI (txt : string) (sp : spacing)                   (* Err_Tolerance = txt *)
| Junk (text : string).                                (* not exactly one '=' *)

Inductive item : Type :=
| Code (b : body) (c : option string)    (* code with an optional trailing comment [# c] *)
| CommentLine (ws c : string)            (* a comment on a line of its own *)
| Blank (ws : string).

Definition eqn_line (sp : spacing) (name rhs : string) : string :=
  w1 sp ++ name ++ w2 sp ++ "=" ++ w3 sp ++ rhs ++ w4 sp.

Definition print_body (b : body) : string :=
  match b with
  | Endo x rhs sp | Exo x rhs sp => eqn_line sp x rhs
  | Lag x src f sp => eqn_line sp x (src ++ suffix f)
  | IC x rhs sp => eqn_line sp (x ++ "(0)") rhs
  | Marker text => text
  | MaxTimeI txt sp => eqn_line sp "MaxTime" txt
  | TolI txt sp => eqn_line sp "Err_Tolerance" txt
  | Junk text => text
  end.

Definition print_comment (c : option string) : string :=
  match c with None => "" | Some c => "#" ++ c end.

Definition print_item (it : item) : string :=
  match it with
  | Code b c => print_body b ++ print_comment c
  | CommentLine ws c => ws ++ "#" ++ c
  | Blank ws => ws
  end.

Definition print (b : list item) : string := String.concat NL (map print_item b).

(** Replace the trailing comments, in order, by the texts [cs] (items without a comment slot
    are left alone; when [cs] runs out the remaining lines get no comment). *)
Fixpoint set_comments (cs : list (option string)) (b : list item) : list item :=
  match b with
  | [] => []
  | Code bd _ :: r =>
      match cs with
      | [] => Code bd None :: set_comments [] r
      | c :: cs' => Code bd c :: set_comments cs' r
      end
  | it :: r => it :: set_comments cs r
  end.

(* ---------------------------------------------------------------- well-formedness (boolean) *)
Definition is_blank_char (c : ascii) : bool := is_space c && negb (Ascii.eqb c nl).
Definition blank (w : string) : bool := str_forall is_blank_char w.

Definition ident_char (c : ascii) : bool :=
  let n := nat_of_ascii c in
  (Nat.leb 48 n && Nat.leb n 57) || (Nat.leb 65 n && Nat.leb n 90) || (Nat.leb 97 n && Nat.leb n 122) || Nat.eqb n 95.

(** identifier-shaped, does not contain the marker word, is not a run parameter *)
Definition name_ok (x : string) : bool :=
  negb (String.eqb x "") && str_forall ident_char x && negb (has_word x) &&
  negb (String.eqb x "MaxTime") && negb (String.eqb x "Err_Tolerance").

(** any single-line text without '#' *)
Definition text_ok (s : string) : bool :=
  negb (contains_char "#"%char s) && negb (contains_char nl s).

(** a comment: any single-line text *)
Definition comment_ok (c : option string) : bool :=
  match c with None => true | Some c => negb (contains_char nl c) end.

(** a right-hand side in the exogenous section / of an initial condition / of a run parameter *)
Definition plain_rhs_ok (s : string) : bool :=
  text_ok s && negb (contains_char "="%char s) && negb (has_word s).

(** a simultaneous right-hand side: additionally no lag notation *)
Definition rhs_ok (s : string) : bool :=
  plain_rhs_ok s && negb (has_substring "(k-1)" s) && negb (has_substring "(t-1)" s) &&
  negb (has_substring " (k -1 )" s).

Definition sp_ok (sp : spacing) : bool := blank (w1 sp) && blank (w2 sp) && blank (w3 sp) && blank (w4 sp).

Definition is_some {A} (o : option A) : bool := match o with Some _ => true | None => false end.

(** [m]: are we after a section marker? ([Exo] lines may only stand there) *)
Definition body_ok (fo : string -> option bool) (m : bool) (b : body) : bool :=
  match b with
  | Endo x rhs sp => name_ok x && rhs_ok rhs && sp_ok sp
  | Lag x src f sp => name_ok x && name_ok src && sp_ok sp
  | IC x rhs sp => name_ok x && plain_rhs_ok rhs && sp_ok sp
  | Marker text => text_ok text && has_word text
  | Exo x rhs sp => m && name_ok x && plain_rhs_ok rhs && sp_ok sp
  | MaxTimeI txt sp => plain_rhs_ok txt && is_some (py_int txt) && sp_ok sp
  | TolI txt sp => plain_rhs_ok txt && (match fo (strip txt) with Some true => true | _ => false end) && sp_ok sp
  | Junk text => text_ok text && negb (has_word text) && negb (String.eqb (strip text) "") &&
                 negb (Nat.eqb (count_char "="%char text) 1)
  end.

Definition is_marker (it : item) : bool :=
  match it with
  | Code (Marker _) _ => true
  | CommentLine _ c => has_word ("#" ++ c)
  | _ => false
  end.

Definition item_ok (fo : string -> option bool) (m : bool) (it : item) : bool :=
  match it with
  | Code b c => body_ok fo m b && comment_ok c
  | CommentLine ws c => blank ws && negb (contains_char nl c)
  | Blank ws => blank ws
  end.

Fixpoint wf_from (fo : string -> option bool) (m : bool) (b : list item) : bool :=
  match b with
  | [] => true
  | it :: r => item_ok fo m it && wf_from fo (m || is_marker it) r
  end.

Definition wf (fo : string -> option bool) (b : list item) : bool := wf_from fo false b.

(** code lines only need this much for their comments to be inert *)
Definition code_ok (it : item) : bool :=
  match it with
  | Code b c => text_ok (print_body b) && negb (String.eqb (strip (print_body b)) "") && comment_ok c
  | CommentLine ws c => blank ws && negb (contains_char nl c)
  | Blank ws => blank ws
  end.

(* ---------------------------------------------------------------- what the property expects *)
Definition is_t_name (x : string) : bool := String.eqb x "t" || String.eqb x "t_minus_1".

Definition defines_t (it : item) : bool :=
  match it with
  | Code (Endo x _ _) _ | Code (Exo x _ _) _ | Code (Lag x _ _ _) _ => is_t_name x
  | _ => false
  end.

(** contributions of one item to the four classes; [m] = the item stands after a marker *)
Definition endo_of (m : bool) (it : item) : list (string * string) :=
  match it with
  | Code (Endo x rhs _) _ => if m then [] else [(x, strip rhs)]
  | _ => []
  end.
Definition lag_of (m : bool) (it : item) : list (string * string) :=
  match it with
  | Code (Lag x src _ _) _ => if m then [] else [(x, src)]
  | _ => []
  end.
Definition ic_of (m : bool) (it : item) : list (string * string) :=
  match it with
  | Code (IC x rhs _) _ => if m then [] else [(x, strip rhs)]
  | _ => []
  end.
Definition exo_of (m : bool) (it : item) : list (string * string) :=
  match it with
  | Code (Endo x rhs _) _ => if m then [(x, strip rhs)] else []
  | Code (Lag x src f _) _ => if m then [(x, src ++ suffix f)] else []
  | Code (IC x rhs _) _ => if m then [(x ++ "(0)", strip rhs)] else []
  | Code (Exo x rhs _) _ => [(x, strip rhs)]
  | _ => []
  end.

(** every line with exactly one '=' is also recorded under its printed name *)
Definition alleq_of (it : item) : list (string * string) :=
  match it with
  | Code (Endo x rhs _) _ | Code (Exo x rhs _) _ => [(x, strip rhs)]
  | Code (Lag x src f _) _ => [(x, src ++ suffix f)]
  | Code (IC x rhs _) _ => [(x ++ "(0)", strip rhs)]
  | Code (MaxTimeI txt _) _ => [("MaxTime", strip txt)]
  | Code (TolI txt _) _ => [("Err_Tolerance", strip txt)]
  | _ => []
  end.

Definition is_equation (it : item) : bool :=
  match it with
  | Code (Endo _ _ _) _ | Code (Lag _ _ _ _) _ | Code (IC _ _ _) _ | Code (Exo _ _ _) _ => true
  | _ => false
  end.

Definition int_value (txt : string) : Z := match py_int txt with Some n => n | None => 0%Z end.

Definition maxtime_of (acc : Z) (it : item) : Z :=
  match it with Code (MaxTimeI txt _) _ => int_value txt | _ => acc end.
Definition tol_of (acc : string) (it : item) : string :=
  match it with Code (TolI txt _) _ => strip txt | _ => acc end.

(** the report for a malformed line *)
Definition msg_of (it : item) : string :=
  match it with
  | Code (Junk text) _ =>
      if contains_char "="%char text then msg_multiple (strip text) else msg_ignored (strip text)
  | _ => ""
  end.

(** items before the first marker, and after it *)
Fixpoint before (b : list item) : list item :=
  match b with [] => [] | it :: r => if is_marker it then [] else it :: before r end.
Fixpoint after (b : list item) : list item :=
  match b with [] => [] | it :: r => if is_marker it then r else after r end.

Definition dict_of (l : list (string * string)) : dict :=
  fold_left (fun d kv => dict_set (fst kv) (snd kv) d) l [].

Definition cat_all (l : list string) : string := fold_right append "" l.

Definition needs_default_t (b : list item) : bool := negb (existsb defines_t b).
Definition default_t (b : list item) : list (string * string) :=
  if needs_default_t b then [("t", "k")] else [].

Definition expected (b : list item) : parsed :=
  mkParsed
    (flat_map (endo_of false) (before b) ++ default_t b)
    (flat_map (lag_of false) (before b))
    (flat_map (exo_of true) (after b))
    (dict_of (flat_map (ic_of false) (before b)))
    (dict_of (flat_map alleq_of b ++ default_t b))
    (fold_left maxtime_of b 0%Z)
    (fold_left tol_of b "1e-8")
    (cat_all (map msg_of b)).
