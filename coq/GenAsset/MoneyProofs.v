(** Proofs about the MoneyMarket model: the loop equals its closed form, membership, clearing,
    default money demand. *)
From Coq Require Import List String Ascii Bool ZArith Reals Lra Lia FinFun.
From SFC.Base Require Import Res Str.
From SFC.Gen Require Import Fx Zone.
From SFC.GenAsset Require Import Common CommonProofs Money.
Import ListNotations.
Local Open Scope string_scope.
Local Open Scope list_scope.

Lemma sup_dem_neq c : sup_name c <> dem_name c.
Proof. unfold sup_name, dem_name. simpl. discriminate. Qed.

Lemma dem_F_neq c : dem_name c <> "F".
Proof. unfold dem_name. simpl. discriminate. Qed.

Lemma eqn_eta e : mkEqn (blob e) (terms e) = e.
Proof. now destruct e. Qed.

(** the market after some sectors [l] have been processed *)
Definition market_after (c issuer : string) (m : sector) (l : list sector) (m' : sector) : Prop :=
  same_attrs m m' /\
  (forall e, lookup_var (dem_name c) (vars m) = Some e ->
     lookup_var (dem_name c) (vars m') = Some (mkEqn (blob e) (market_dem_terms c issuer l (terms e)))) /\
  lookup_var (sup_name c) (vars m') = market_sup_after c issuer l (lookup_var (sup_name c) (vars m)) /\
  (forall n, n <> dem_name c -> n <> sup_name c -> lookup_var n (vars m') = lookup_var n (vars m)).

Lemma market_after_nil c issuer m : market_after c issuer m [] m.
Proof.
  split; [apply same_attrs_refl|]. split; [|split; [reflexivity|reflexivity]].
  intros e H. unfold market_dem_terms. simpl. now rewrite eqn_eta.
Qed.

Lemma market_dem_terms_app c issuer a b start :
  market_dem_terms c issuer (a ++ b) start = market_dem_terms c issuer b (market_dem_terms c issuer a start).
Proof. unfold market_dem_terms. now rewrite filter_app, map_app, fold_left_app. Qed.

Lemma market_sup_after_app c issuer a b o :
  market_sup_after c issuer (a ++ b) o = market_sup_after c issuer b (market_sup_after c issuer a o).
Proof. unfold market_sup_after, sup_after. now rewrite fold_left_app. Qed.

Lemma market_after_trans c issuer m a m1 b m2 :
  market_after c issuer m a m1 -> market_after c issuer m1 b m2 -> market_after c issuer m (a ++ b) m2.
Proof.
  intros (A1 & D1 & S1 & O1) (A2 & D2 & S2 & O2). split; [eapply same_attrs_trans; eauto|].
  split; [|split].
  - intros e He. rewrite market_dem_terms_app. specialize (D1 e He).
    rewrite (D2 _ D1). reflexivity.
  - rewrite market_sup_after_app, S2, S1. reflexivity.
  - intros n H1 H2. rewrite O2, O1; auto.
Qed.

Lemma market_after_has_dem c issuer m l m' :
  has_var m (dem_name c) = true -> market_after c issuer m l m' -> has_var m' (dem_name c) = true.
Proof.
  unfold has_var. intros H (_ & D & _). destruct (lookup_var (dem_name c) (vars m)) as [e|]; [|discriminate].
  now rewrite (D e eq_refl).
Qed.

Lemma fullname_def s n ts x : fullname (def_variable s n ts) x = fullname s x.
Proof. reflexivity. Qed.

Lemma market_dem_terms_single c issuer s start :
  market_dem_terms c issuer [s] start =
  if money_holder issuer s then add_term (holder_term c s) start else start.
Proof. unfold market_dem_terms. simpl. now destruct (money_holder issuer s). Qed.

Lemma market_sup_after_single c issuer s o :
  market_sup_after c issuer [s] o =
  if money_issuer issuer s then Some (mkEqn "" [name1 (fullname s (sup_name c))]) else o.
Proof. reflexivity. Qed.

Lemma money_step_spec c issuer m s m' s' :
  money_step c issuer m s = Ok (m', s') ->
  s' = money_out c issuer (fullcode m) s /\ market_after c issuer m [s] m'.
Proof.
  unfold money_step, money_out, market_after.
  rewrite market_sup_after_single. setoid_rewrite market_dem_terms_single.
  unfold money_holder, money_issuer.
  destruct (hasF s) eqn:HF; simpl negb; simpl andb; cbv iota.
  2:{ intros H. injection H as <- <-. split; [reflexivity|]. split; [apply same_attrs_refl|].
      split; [intros e He; now rewrite eqn_eta|]. split; reflexivity. }
  destruct (String.eqb (code s) issuer) eqn:HI; simpl negb; cbv iota.
  - destruct (has_var m (dem_name c)) eqn:HD; [|discriminate].
    intros H. injection H as <- <-. split; [reflexivity|]. split; [apply same_attrs_with_vars|].
    split; [|split].
    + intros e He. rewrite lookup_def_other by apply sup_dem_neq. now rewrite He, eqn_eta.
    + now rewrite lookup_def_same.
    + intros n H1 H2. apply lookup_def_other. congruence.
  - destruct (has_var s (dem_name c)) eqn:HS.
    + destruct (add_term_to_eq m (dem_name c) (name1 (fullname s (dem_name c)))) as [m1|] eqn:HA; [|discriminate].
      simpl. intros H. injection H as <- <-. split; [reflexivity|].
      apply add_term_to_eq_some in HA as (e & He & ->). split; [apply same_attrs_with_vars|]. simpl.
      split; [|split].
      * intros e' He'. rewrite He in He'. injection He' as <-. now rewrite lookup_set_same.
      * apply lookup_set_other. intros E. symmetry in E. now apply sup_dem_neq in E.
      * intros n H1 H2. apply lookup_set_other. congruence.
    + destruct (has_var s "F") eqn:HFv; [|discriminate].
      rewrite fullname_def.
      destruct (add_term_to_eq m (dem_name c) (name1 (fullname s (dem_name c)))) as [m1|] eqn:HA; [|discriminate].
      simpl. intros H. injection H as <- <-. split; [reflexivity|].
      apply add_term_to_eq_some in HA as (e & He & ->). split; [apply same_attrs_with_vars|]. simpl.
      split; [|split].
      * intros e' He'. rewrite He in He'. injection He' as <-. now rewrite lookup_set_same.
      * apply lookup_set_other. intros E. symmetry in E. now apply sup_dem_neq in E.
      * intros n H1 H2. apply lookup_set_other. congruence.
Qed.

Lemma money_loop_spec c issuer : forall l m m' l',
  money_loop c issuer m l = Ok (m', l') ->
  l' = map (money_out c issuer (fullcode m)) l /\ market_after c issuer m l m'.
Proof.
  induction l as [|s r IH]; intros m m' l'; simpl.
  - intros H. injection H as <- <-. split; [reflexivity|apply market_after_nil].
  - destruct (money_step c issuer m s) as [[m1 s1]|e] eqn:HS; [|discriminate]. simpl.
    destruct (money_loop c issuer m1 r) as [[m2 r2]|e] eqn:HL; [|discriminate]. simpl.
    intros H. injection H as <- <-.
    apply money_step_spec in HS as [-> HA]. apply IH in HL as [-> HB].
    assert (fullcode m1 = fullcode m) as -> by (destruct HA as ((_ & _ & _ & E & _) & _); exact E).
    split; [reflexivity|]. change (s :: r) with ([s] ++ r)%list. eapply market_after_trans; eauto.
Qed.

(** the first sector of the zone with the given ID *)
Definition market_at (mk : nat) (z : zone) : option sector :=
  match split_sid mk z with Some (_, m, _) => Some m | None => None end.

Lemma split_sid_pre mk z pre m post :
  split_sid mk z = Some (pre, m, post) -> Forall (fun s => sid s <> mk) pre.
Proof.
  revert pre. induction z as [|s r IH]; intros pre; simpl; [discriminate|].
  destruct (Nat.eqb (sid s) mk) eqn:E.
  - intros H. injection H as <- <- <-. constructor.
  - destruct (split_sid mk r) as [[[p m'] q]|]; [|discriminate].
    intros H. injection H as <- <- <-. constructor; [now apply PeanoNat.Nat.eqb_neq|]. now apply IH.
Qed.

Lemma split_sid_build mk pre m post :
  Forall (fun s => sid s <> mk) pre -> sid m = mk -> split_sid mk (pre ++ m :: post) = Some (pre, m, post).
Proof.
  intros H Hm. induction H as [|s pre Hs _ IH]; simpl.
  - now rewrite Hm, PeanoNat.Nat.eqb_refl.
  - apply PeanoNat.Nat.eqb_neq in Hs. now rewrite Hs, IH.
Qed.

Lemma money_out_attrs c issuer mfull s : same_attrs s (money_out c issuer mfull s).
Proof.
  unfold money_out. destruct (negb (hasF s)); [apply same_attrs_refl|].
  destruct (String.eqb (code s) issuer); [apply same_attrs_with_vars|].
  destruct (has_var s (dem_name c)); [apply same_attrs_refl|apply same_attrs_with_vars].
Qed.

(** Closed form of the whole call. *)
Record money_result (c issuer : string) (mk : nat) (z z' : zone) (pre : list sector) (m : sector)
       (post : list sector) (m' : sector) : Prop := {
  mr_zone : z = (pre ++ m :: post)%list;
  mr_sid : sid m = mk;
  mr_pre : Forall (fun s => sid s <> mk) pre;
  mr_noF : hasF m = false;
  mr_zone' : z' = (map (money_out c issuer (fullcode m)) pre ++ m' :: map (money_out c issuer (fullcode m)) post)%list;
  mr_attrs : same_attrs m m';
  mr_dem : lookup_var (dem_name c) (vars m') = Some (mkEqn "" (market_dem_terms c issuer (pre ++ post) []));
  mr_sup : lookup_var (sup_name c) (vars m') =
           market_sup_after c issuer (pre ++ post) (lookup_var (sup_name c) (vars m));
  mr_other : forall n, n <> dem_name c -> n <> sup_name c -> lookup_var n (vars m') = lookup_var n (vars m)
}.

Theorem money_generate_spec c issuer mk z z' :
  money_generate c issuer mk z = Ok z' ->
  exists pre m post m', money_result c issuer mk z z' pre m post m'.
Proof.
  unfold money_generate. destruct (split_sid mk z) as [[[pre m] post]|] eqn:HS; [|discriminate].
  destruct (hasF m) eqn:HF; [discriminate|].
  set (m0 := add_variable m (dem_name c) "").
  destruct (money_loop c issuer m0 pre) as [[m1 pre']|e] eqn:H1; [|discriminate]. simpl.
  destruct (money_loop c issuer m1 post) as [[m2 post']|e] eqn:H2; [|discriminate]. simpl.
  intros H. injection H as <-.
  apply money_loop_spec in H1 as [-> A1]. apply money_loop_spec in H2 as [-> A2].
  assert (E1 : fullcode m1 = fullcode m) by (destruct A1 as ((_ & _ & _ & E & _) & _); exact E).
  rewrite E1. change (fullcode m0) with (fullcode m).
  pose proof (market_after_trans _ _ _ _ _ _ _ A1 A2) as (AT & D & S & O).
  destruct (split_sid_app _ _ _ _ _ HS) as [Hz Hm].
  exists pre, m, post, m2. constructor.
  - exact Hz.
  - exact Hm.
  - eapply split_sid_pre; eauto.
  - exact HF.
  - reflexivity.
  - eapply same_attrs_trans; [|exact AT]. apply same_attrs_with_vars.
  - rewrite (D (mkEqn "" [])); [reflexivity|]. unfold m0. apply lookup_addvar_same.
  - rewrite S. unfold m0. rewrite lookup_addvar_other; [reflexivity|].
    intros E. symmetry in E. now apply sup_dem_neq in E.
  - intros n Hn1 Hn2. rewrite O by assumption. unfold m0. apply lookup_addvar_other. congruence.
Qed.

Lemma money_result_market c issuer mk z z' pre m post m' :
  money_result c issuer mk z z' pre m post m' -> market_at mk z = Some m /\ market_at mk z' = Some m'.
Proof.
  intros R. destruct R. subst z z'. unfold market_at. split.
  - now rewrite split_sid_build.
  - rewrite split_sid_build; [reflexivity| |].
    + rewrite Forall_forall in *. intros s Hs. apply in_map_iff in Hs as (s0 & <- & Hs0).
      destruct (money_out_attrs c issuer (fullcode m) s0) as (E & _). rewrite E. auto.
    + destruct mr_attrs0 as (E & _). congruence.
Qed.

Lemma filter_zone_market (f : sector -> bool) pre m post :
  f m = false -> filter f (pre ++ m :: post) = filter f (pre ++ post).
Proof. intros H. rewrite !filter_app. simpl. now rewrite H. Qed.

Lemma holder_market_false issuer m : hasF m = false -> money_holder issuer m = false.
Proof. unfold money_holder. now intros ->. Qed.
Lemma issuer_market_false issuer m : hasF m = false -> money_issuer issuer m = false.
Proof. unfold money_issuer. now intros ->. Qed.

(** membership: with pairwise different full names the summands are the holders' demand names, in
    zone order, each once *)
Theorem money_members c issuer mk z z' :
  money_generate c issuer mk z = Ok z' ->
  NoDup (map (fun s => fullname s (dem_name c)) (filter (money_holder issuer) z)) ->
  exists m', market_at mk z' = Some m' /\
    lookup_var (dem_name c) (vars m') =
      Some (mkEqn "" (map (holder_term c) (filter (money_holder issuer) z))).
Proof.
  intros H ND. apply money_generate_spec in H as (pre & m & post & m' & R).
  destruct (money_result_market _ _ _ _ _ _ _ _ _ R) as [_ Hma].
  exists m'. split; [exact Hma|].
  destruct R. subst z. rewrite mr_dem0. unfold market_dem_terms.
  rewrite filter_zone_market in * by now apply holder_market_false.
  rewrite fold_add_term_fresh; [reflexivity|]. simpl.
  rewrite map_map. unfold holder_term, name1. simpl.
  rewrite <- (map_map (fun s => fullname s (dem_name c)) (fun x => [x])).
  apply FinFun.Injective_map_NoDup; [|exact ND]. intros a b E. now injection E.
Qed.

(** every holder owns DEM_<code> after the call, and sits in the zone *)
Lemma money_out_has_dem c issuer mfull s :
  money_holder issuer s = true -> has_var (money_out c issuer mfull s) (dem_name c) = true.
Proof.
  unfold money_holder, money_out. intros H. apply andb_true_iff in H as [-> H]. simpl.
  destruct (String.eqb (code s) issuer); [discriminate|].
  destruct (has_var s (dem_name c)) eqn:E; [exact E|apply has_var_def_same].
Qed.

Lemma money_result_in c issuer mk z z' pre m post m' s :
  money_result c issuer mk z z' pre m post m' -> List.In s z -> hasF s = true ->
  List.In (money_out c issuer (fullcode m) s) z'.
Proof.
  intros R Hin HF. destruct R. subst z z'. apply in_app_or in Hin as [Hin|[->|Hin]].
  - apply in_or_app. left. now apply in_map.
  - congruence.
  - apply in_or_app. right. right. now apply in_map.
Qed.

Local Open Scope R_scope.

Lemma market_sup_after_cases c issuer l o :
  (market_sup_after c issuer l o = o /\ filter (money_issuer issuer) l = []) \/
  (exists i, List.In i l /\ money_issuer issuer i = true /\
             market_sup_after c issuer l o = Some (mkEqn "" [name1 (fullname i (sup_name c))])).
Proof. apply sup_after_cases. Qed.

(** clearing: market DEM = sum of the holders' demands; every issuer's SUP = market DEM; if there is
    an issuer, market SUP = market DEM *)
Theorem money_clears c issuer mk z z' :
  money_generate c issuer mk z = Ok z' ->
  forall (v : string -> R) (bv : string -> string -> R),
  (forall s', List.In s' z' -> holds v bv s' (dem_name c) /\ holds v bv s' (sup_name c)) ->
  exists m, market_at mk z = Some m /\
    v (fullname m (dem_name c)) = sumR (fun h => v (fullname h (dem_name c))) (filter (money_holder issuer) z) /\
    (forall i, List.In i z -> money_issuer issuer i = true ->
       v (fullname i (sup_name c)) = v (fullname m (dem_name c))) /\
    ((exists i, List.In i z /\ money_issuer issuer i = true) ->
       v (fullname m (sup_name c)) = v (fullname m (dem_name c))).
Proof.
  intros H v bv Hh. apply money_generate_spec in H as (pre & m & post & m' & R).
  destruct (money_result_market _ _ _ _ _ _ _ _ _ R) as [Hma _].
  exists m. split; [exact Hma|].
  pose proof R as R0. destruct R.
  assert (Hm' : List.In m' z') by (subst z'; apply in_or_app; right; now left).
  assert (Efc : fullcode m' = fullcode m) by (destruct mr_attrs0 as (_ & _ & _ & E & _); exact E).
  (* issuers *)
  assert (Hiss : forall i, List.In i z -> money_issuer issuer i = true ->
                 v (fullname i (sup_name c)) = v (fullname m (dem_name c))).
  { intros i Hi Hii. assert (HFi : hasF i = true) by (unfold money_issuer in Hii; now apply andb_true_iff in Hii).
    pose proof (money_result_in _ _ _ _ _ _ _ _ _ _ R0 Hi HFi) as Hin.
    destruct (Hh _ Hin) as [_ Hs].
    unfold money_issuer in Hii. apply andb_true_iff in Hii as [_ Hc].
    assert (E : money_out c issuer (fullcode m) i =
                def_variable i (sup_name c) [name1 (fullcode m ++ "__" ++ dem_name c)%string]).
    { unfold money_out. now rewrite HFi, Hc. }
    rewrite E in Hs. apply (holds_def _ _ _ _ _ (lookup_def_same _ _ _)) in Hs.
    rewrite tsum_in_single, tval_name1_sep in Hs. exact Hs. }
  split; [|split; [exact Hiss|]].
  - destruct (Hh _ Hm') as [Hd _]. apply (holds_def _ _ _ _ _ mr_dem0) in Hd.
    unfold market_dem_terms in Hd. rewrite fold_add_term_sum in Hd. cbn [tsum_in] in Hd.
    rewrite tsum_holder_terms in Hd. subst z. rewrite filter_zone_market by now apply holder_market_false.
    unfold fullname in *. rewrite Efc in Hd. rewrite Hd. lra.
  - intros (i & Hi & Hii). destruct (Hh _ Hm') as [_ Hs].
    destruct (market_sup_after_cases c issuer (pre ++ post) (lookup_var (sup_name c) (vars m)))
      as [[_ Hn]|(j & Hj & Hjj & Hv)].
    + exfalso. subst z. rewrite <- (filter_zone_market _ pre m post) in Hn by now apply issuer_market_false.
      assert (Hc : List.In i (filter (money_issuer issuer) (pre ++ m :: post))) by (apply filter_In; now split).
      rewrite Hn in Hc. exact Hc.
    + rewrite <- mr_sup0 in Hv. apply (holds_def _ _ _ _ _ Hv) in Hs.
      rewrite tsum_in_single, tval_name1_full in Hs.
      assert (Hjz : List.In j z).
      { subst z. apply in_app_or in Hj as [Hj|Hj]; apply in_or_app; [now left|right; now right]. }
      rewrite <- (Hiss j Hjz Hjj). unfold fullname in *. rewrite Efc in Hs. exact Hs.
Qed.

(** default money demand: a holder that did not own DEM_<code> gets DEM_<code> = F *)
Theorem money_default_demand c issuer mk z z' s :
  money_generate c issuer mk z = Ok z' -> List.In s z -> money_holder issuer s = true ->
  has_var s (dem_name c) = false ->
  exists s', List.In s' z' /\ same_attrs s s' /\
    lookup_var (dem_name c) (vars s') = Some (mkEqn "" [name1 (fullname s "F")]) /\
    forall (v : string -> R) bv, holds v bv s' (dem_name c) -> v (fullname s (dem_name c)) = v (fullname s "F").
Proof.
  intros H Hin Hh Hno. apply money_generate_spec in H as (pre & m & post & m' & R).
  assert (HF : hasF s = true) by (unfold money_holder in Hh; now apply andb_true_iff in Hh).
  exists (money_out c issuer (fullcode m) s).
  split; [eapply money_result_in; eauto|]. split; [apply money_out_attrs|].
  assert (E : money_out c issuer (fullcode m) s = def_variable s (dem_name c) [name1 (fullname s "F")]).
  { unfold money_out. rewrite HF. simpl. unfold money_holder in Hh. apply andb_true_iff in Hh as [_ Hc].
    apply negb_true_iff in Hc. now rewrite Hc, Hno. }
  rewrite E. split; [apply lookup_def_same|].
  intros v bv Hv. apply (holds_def _ _ _ _ _ (lookup_def_same _ _ _)) in Hv.
  rewrite tsum_in_single, tval_name1_full in Hv. exact Hv.
Qed.

(** With the single-issuer check (proposed fix D22) the market always clears. *)
Lemma money_generate_checked_ok c issuer mk z z' :
  money_generate_checked c issuer mk z = Ok z' ->
  money_generate c issuer mk z = Ok z' /\ exists i, List.In i z /\ money_issuer issuer i = true.
Proof.
  unfold money_generate_checked. destruct (split_sid mk z) as [[[pre m] post]|]; [|discriminate].
  destruct (hasF m); [discriminate|].
  destruct (Nat.eqb (List.length (filter (money_issuer issuer) z)) 1) eqn:E; [|discriminate].
  intros H. split; [exact H|]. apply PeanoNat.Nat.eqb_eq in E.
  destruct (filter (money_issuer issuer) z) as [|i l] eqn:F; [discriminate|].
  exists i. apply filter_In. rewrite F. now left.
Qed.
