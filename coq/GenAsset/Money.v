(** Model of sector_definitions.py: MoneyMarket._GenerateEquations on a [Zone.zone].

    Python (self = the market, code = self.Code, issuer = self.IssuerShortCode):
      self.AddVariable('DEM_'+code, ..., '')
      for s in self.SearchListSource.GetSectors():          # the currency zone, in GetSectors() order
          if not s.HasF: continue
          if s.Code == issuer:
              s.AddVariable('SUP_'+code, ..., self.GetVariableName('DEM_'+code))
              self.AddVariable('SUP_'+code, ..., s.GetVariableName('SUP_'+code)); continue
          try: self.AddTermToEquation('DEM_'+code, s.GetVariableName('DEM_'+code)); continue
          except KeyError: pass
          s.AddVariable('DEM_'+code, ..., s.GetVariableName('F'))      # default money demand
          self.AddTermToEquation('DEM_'+code, s.GetVariableName('DEM_'+code))
    The market's own entry in the zone has HasF = False (Market.__init__) and is skipped; a zone in
    which it has HasF = True is outside the model. *)
From Coq Require Import List String Bool ZArith.
From SFC.Base Require Import Res Str.
From SFC.Gen Require Import Fx Zone.
From SFC.GenAsset Require Import Common.
Import ListNotations.
Local Open Scope string_scope.


(** one iteration of the loop: current market [m], current sector [s] *)
Definition money_step (c issuer : string) (m s : sector) : result (sector * sector) :=
  if negb (hasF s) then Ok (m, s)
  else if String.eqb (code s) issuer then
    if has_var m (dem_name c) then
      let s1 := def_variable s (sup_name c) [name1 (fullname m (dem_name c))] in
      let m1 := def_variable m (sup_name c) [name1 (fullname s1 (sup_name c))] in
      Ok (m1, s1)
    else Err KeyError
  else if has_var s (dem_name c) then
    do m1 <- of_option (add_term_to_eq m (dem_name c) (name1 (fullname s (dem_name c)))) ;;
    Ok (m1, s)
  else if has_var s "F" then
    let s1 := def_variable s (dem_name c) [name1 (fullname s "F")] in
    do m1 <- of_option (add_term_to_eq m (dem_name c) (name1 (fullname s1 (dem_name c)))) ;;
    Ok (m1, s1)
  else Err KeyError.

Fixpoint money_loop (c issuer : string) (m : sector) (l : list sector) : result (sector * list sector) :=
  match l with
  | [] => Ok (m, [])
  | s :: r =>
      do ms <- money_step c issuer m s ;;
      do mr <- money_loop c issuer (fst ms) r ;;
      Ok (fst mr, snd ms :: snd mr)
  end.

Definition money_generate (c issuer : string) (mk : nat) (z : zone) : result zone :=
  match split_sid mk z with
  | None => Err OutOfModel
  | Some (pre, m, post) =>
      if hasF m then Err OutOfModel
      else
        let m0 := add_variable m (dem_name c) "" in
        do r1 <- money_loop c issuer m0 pre ;;
        do r2 <- money_loop c issuer (fst r1) post ;;
        Ok (snd r1 ++ fst r2 :: snd r2)%list
  end.

(* ------------------------------------------------------------------ *)
(** * Closed-form description of the result (proved equal to the loop in MoneyProofs.v) *)

Definition money_issuer (issuer : string) (s : sector) : bool := hasF s && String.eqb (code s) issuer.
Definition money_holder (issuer : string) (s : sector) : bool := hasF s && negb (String.eqb (code s) issuer).

(** what the call does to a sector other than the market; [mfull] = the market's full code *)
Definition money_out (c issuer mfull : string) (s : sector) : sector :=
  if negb (hasF s) then s
  else if String.eqb (code s) issuer then def_variable s (sup_name c) [name1 (mfull ++ "__" ++ dem_name c)]
  else if has_var s (dem_name c) then s
  else def_variable s (dem_name c) [name1 (fullname s "F")].


(** terms of the market's DEM_<code> after the call: the holders' demand names, accumulated with
    Equation.AddTerm in zone order *)
Definition market_dem_terms (c issuer : string) (others : list sector) (start : list term) : list term :=
  fold_left (fun acc t => add_term t acc) (map (holder_term c) (filter (money_holder issuer) others)) start.

(** the market's SUP_<code> equation after the call: defined by the last issuer met, else as before *)
Definition market_sup_after (c issuer : string) (others : list sector) (before : option eqn) : option eqn :=
  sup_after (money_issuer issuer) c others before.

(** Variant for an implementation that refuses to generate equations unless exactly one sector of
    the zone is the issuer (proposed fix D22: LogicError, raised after DEM_<code> has been re-added). *)
Definition money_generate_checked (c issuer : string) (mk : nat) (z : zone) : result zone :=
  match split_sid mk z with
  | None => Err OutOfModel
  | Some (_, m, _) =>
      if hasF m then Err OutOfModel
      else if Nat.eqb (List.length (filter (money_issuer issuer) z)) 1 then money_generate c issuer mk z
      else Err LogicError
  end.
