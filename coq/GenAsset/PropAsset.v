(** Asset markets and portfolios at booking level (deepens C04 and C01).

    Models (Money.v, Deposit.v, Weighting.v) of MoneyMarket._GenerateEquations,
    DepositMarket._GenerateEquations and Sector.GenerateAssetWeighting acting on a [Zone.zone];
    every theorem below is for ALL zones (any list of sectors with any variables), all market codes
    and issuer codes, all valuations [v] of full variable names and all valuations [bv] of opaque
    expressions.  Proofs are in MoneyProofs.v, DepositProofs.v, WeightingProofs.v. *)
From Coq Require Import List String Bool ZArith Reals Lra.
From SFC.Base Require Import Res Str.
From SFC.Gen Require Import Fx Zone.
From SFC.GenAsset Require Import Common CommonProofs Money MoneyProofs Deposit DepositProofs Weighting WeightingProofs.
Import ListNotations.
Local Open Scope string_scope.
Local Open Scope R_scope.

(* ================================================================== *)
(** * MoneyMarket *)

(** The summands of the market's DEM_<code> are exactly the demand variables of the sectors of the
    zone that have F and are not the issuer (each owns DEM_<code> after the call: it had one, or
    was given the default), in zone order, each once. *)
Theorem Money_members : forall c issuer mk z z',
  money_generate c issuer mk z = Ok z' ->
  NoDup (map (fun s => fullname s (dem_name c)) (filter (money_holder issuer) z)) ->
  exists m', market_at mk z' = Some m' /\
    lookup_var (dem_name c) (vars m') =
      Some (mkEqn "" (map (holder_term c) (filter (money_holder issuer) z))).
Proof. exact money_members. Qed.
Print Assumptions Money_members.

(** Without any hypothesis on names: market DEM = sum of the holders' demands; every issuer's
    SUP = market DEM; when the zone has an issuer, market SUP = market DEM. *)
Theorem Money_clears : forall c issuer mk z z',
  money_generate c issuer mk z = Ok z' ->
  forall (v : string -> R) (bv : string -> string -> R),
  (forall s', List.In s' z' -> holds v bv s' (dem_name c) /\ holds v bv s' (sup_name c)) ->
  exists m, market_at mk z = Some m /\
    v (fullname m (dem_name c)) = sumR (fun h => v (fullname h (dem_name c))) (filter (money_holder issuer) z) /\
    (forall i, List.In i z -> money_issuer issuer i = true ->
       v (fullname i (sup_name c)) = v (fullname m (dem_name c))) /\
    ((exists i, List.In i z /\ money_issuer issuer i = true) ->
       v (fullname m (sup_name c)) = v (fullname m (dem_name c))).
Proof. exact money_clears. Qed.
Print Assumptions Money_clears.

(** A sector that had no DEM_<code> is given DEM_<code> = F. *)
Theorem Money_default_demand : forall c issuer mk z z' s,
  money_generate c issuer mk z = Ok z' -> List.In s z -> money_holder issuer s = true ->
  has_var s (dem_name c) = false ->
  exists s', List.In s' z' /\ same_attrs s s' /\
    lookup_var (dem_name c) (vars s') = Some (mkEqn "" [name1 (fullname s "F")]) /\
    forall (v : string -> R) bv, holds v bv s' (dem_name c) -> v (fullname s (dem_name c)) = v (fullname s "F").
Proof. exact money_default_demand. Qed.
Print Assumptions Money_default_demand.

(** Frame: the call is the sector-wise map [money_out] outside the market, and touches only
    DEM_<code> and SUP_<code> of the market. *)
Theorem Money_frame : forall c issuer mk z z',
  money_generate c issuer mk z = Ok z' ->
  exists pre m post m', money_result c issuer mk z z' pre m post m'.
Proof. exact money_generate_spec. Qed.
Print Assumptions Money_frame.

(* ================================================================== *)
(** * DepositMarket *)

Theorem Deposit_members : forall c issuer mk z z',
  deposit_generate c issuer mk z = Ok z' ->
  exists m', market_at mk z' = Some m' /\
    lookup_var (dem_name c) (vars m') = Some (mkEqn "" (map (holder_term c) (filter (dep_holder c issuer) z))).
Proof. exact deposit_members. Qed.
Print Assumptions Deposit_members.

Theorem Deposit_clears : forall c issuer mk z z',
  deposit_generate c issuer mk z = Ok z' ->
  forall (v : string -> R) (bv : string -> string -> R),
  (forall s', List.In s' z' -> holds v bv s' (dem_name c) /\ holds v bv s' (sup_name c)) ->
  exists m, market_at mk z = Some m /\
    v (fullname m (dem_name c)) = sumR (fun h => v (fullname h (dem_name c))) (filter (dep_holder c issuer) z) /\
    (forall i, List.In i z -> dep_issuer issuer i = true ->
       v (fullname i (sup_name c)) = v (fullname m (dem_name c))) /\
    ((exists i, List.In i z /\ dep_issuer issuer i = true) ->
       v (fullname m (sup_name c)) = v (fullname m (dem_name c))).
Proof. exact deposit_clears. Qed.
Print Assumptions Deposit_clears.

Theorem Deposit_frame : forall c issuer mk z z',
  deposit_generate c issuer mk z = Ok z' ->
  exists pre m post m' pre' post', deposit_result c issuer mk z z' pre m post m' pre' post'.
Proof. exact deposit_generate_spec. Qed.
Print Assumptions Deposit_frame.

(** The lag texts the call installs are those listed by [deposit_lags]. *)
Theorem Deposit_lag_installed : forall c issuer mk z z' s,
  deposit_generate c issuer mk z = Ok z' -> List.In s z -> dep_part c issuer s = true ->
  exists s' lagname src, List.In s' z' /\ fullcode s' = fullcode s /\
    List.In (fullname s lagname, src) (deposit_lags c issuer z) /\
    lookup_var lagname (vars s') = Some (mkEqn (lag_text src) []).
Proof. exact deposit_lag_installed. Qed.
Print Assumptions Deposit_lag_installed.

(** What the call books, for every valuation: the sum over the zone of the right-hand sides of the
    F equations changes by  sum_s booked(s)  with booked = -INT<code> for an issuer, +INT<code> for a
    holder, 0 otherwise; INC changes by the same entries except where INT<code> is an income
    exclusion of the sector. *)
Theorem Deposit_booked : forall c issuer mk z z' (v : string -> R),
  deposit_generate c issuer mk z = Ok z' -> has_substring "__" (int_name c) = false ->
  F_total v z' = F_total v z + sumR (booked c issuer v) z /\
  INC_total v z' = INC_total v z + sumR (booked_inc c issuer v) z.
Proof. exact deposit_booked. Qed.
Print Assumptions Deposit_booked.

(** C01, interest group: when last period's stocks were consistent the interest entries cancel. *)
Theorem Deposit_interest_cancels : forall c issuer mk z z',
  deposit_generate c issuer mk z = Ok z' ->
  has_substring "__" (int_name c) = false ->
  forall i, filter (dep_issuer issuer) z = [i] ->                       (* exactly one issuer *)
  (forall s, List.In s z -> dep_part c issuer s = true -> int_fresh c s = true) ->
  forall (v vprev : string -> R) (bv bvp : string -> string -> R),
  lag_link v vprev (deposit_lags c issuer z) ->
  (forall s', List.In s' z' -> (dep_issuer issuer s' = true -> holds vprev bvp s' (sup_name c)) /\
                               (sid s' = mk -> holds vprev bvp s' (dem_name c))) ->
  (forall s', List.In s' z' -> dep_part c issuer s' = true -> holds v bv s' (int_name c)) ->
  sumR (booked c issuer v) z = 0 /\
  - v (fullname i (int_name c)) + sumR (fun h => v (fullname h (int_name c))) (filter (dep_holder c issuer) z) = 0 /\
  F_total v z' = F_total v z.
Proof. exact deposit_interest_cancels. Qed.
Print Assumptions Deposit_interest_cancels.

(** For an implementation that refuses zones without exactly one issuer (proposed fix D22, model
    [deposit_generate_checked]) the issuer hypothesis is discharged by success itself. *)
Theorem Deposit_interest_cancels_checked : forall c issuer mk z z',
  deposit_generate_checked c issuer mk z = Ok z' ->
  has_substring "__" (int_name c) = false ->
  (forall s, List.In s z -> dep_part c issuer s = true -> int_fresh c s = true) ->
  forall (v vprev : string -> R) (bv bvp : string -> string -> R),
  lag_link v vprev (deposit_lags c issuer z) ->
  (forall s', List.In s' z' -> (dep_issuer issuer s' = true -> holds vprev bvp s' (sup_name c)) /\
                               (sid s' = mk -> holds vprev bvp s' (dem_name c))) ->
  (forall s', List.In s' z' -> dep_part c issuer s' = true -> holds v bv s' (int_name c)) ->
  sumR (booked c issuer v) z = 0 /\ F_total v z' = F_total v z.
Proof. exact deposit_interest_cancels_checked. Qed.
Print Assumptions Deposit_interest_cancels_checked.

Theorem Money_checked_has_issuer : forall c issuer mk z z',
  money_generate_checked c issuer mk z = Ok z' ->
  money_generate c issuer mk z = Ok z' /\ exists i, List.In i z /\ money_issuer issuer i = true.
Proof. exact money_generate_checked_ok. Qed.
Print Assumptions Money_checked_has_issuer.

(* ================================================================== *)
(** * GenerateAssetWeighting *)

Theorem Weighting_adds_up : forall s ws res s',
  asset_weighting s ws res false = Ok s' -> NoDup (map fst ws) -> ~ List.In res (map fst ws) ->
  forall (v : string -> R) (bv : string -> string -> R),
  holds v bv s' (wgt_name res) ->
  (forall c, List.In c (map fst ws ++ [res]) -> holds v bv s' (dem_name c)) ->
  fold_right (fun c a => v (fullname s (dem_name c)) + a) 0 (map fst ws ++ [res]) = v (fullname s "F").
Proof. exact weighting_adds_up_distinct. Qed.
Print Assumptions Weighting_adds_up.

(** For any list of pairs (duplicates allowed) the identity holds over the codes of the dict the
    implementation builds from it. *)
Theorem Weighting_adds_up_dict : forall s ws res s',
  asset_weighting s ws res false = Ok s' -> ~ List.In res (weighted_codes ws) ->
  forall (v : string -> R) (bv : string -> string -> R),
  holds v bv s' (wgt_name res) ->
  (forall c, List.In c (weighted_codes ws ++ [res]) -> holds v bv s' (dem_name c)) ->
  fold_right (fun c a => v (fullname s (dem_name c)) + a) 0 (weighted_codes ws ++ [res]) = v (fullname s "F").
Proof. exact weighting_adds_up. Qed.
Print Assumptions Weighting_adds_up_dict.

Theorem Weighting_codes_distinct : forall ws, NoDup (weighted_codes ws).
Proof. exact weighted_codes_nodup. Qed.
Print Assumptions Weighting_codes_distinct.

(* ================================================================== *)
(** * Concrete zones: the hypotheses are satisfiable, and what fails without them *)

Definition base_vars : list (string * eqn) :=
  [("F", mkEqn "" [(1%Z, ["LAG_F"])]); ("INC", mkEqn "" []); ("LAG_F", mkEqn "F(k-1)" [])].
Definition sec (id : nat) (cd cn : string) (extra : list (string * eqn)) : sector :=
  mkSector id cd cn (cn ++ "_" ++ cd) true false false [] (base_vars ++ extra).
Definition mkt (id : nat) (cd cn : string) (extra : list (string * eqn)) : sector :=
  mkSector id cd cn (cn ++ "_" ++ cd) false false true []
           ([("SUP_" ++ cd, mkEqn "" []); ("DEM_" ++ cd, mkEqn "" [])] ++ extra).
Definition dep_extra : list (string * eqn) := [("r", mkEqn "0." []); ("LAG_r", mkEqn "r(k-1)" [])].

(** two countries sharing a currency: government, two households (one with its own money demand),
    a money market and a deposit market *)
Definition ex_zone : zone :=
  [ sec 4 "GOV" "CA" []; sec 5 "HH" "CA" [("DEM_DEP", mkEqn "0.5*F" []); ("DEM_MON", mkEqn "0.5*F" [])];
    mkt 8 "MON" "CA" []; mkt 9 "DEP" "CA" dep_extra; sec 6 "HH" "ON" [("DEM_DEP", mkEqn "0.25*F" [])] ].

Definition dem_terms_of (mk : nat) (c : string) (r : result zone) : option (list term) :=
  match r with
  | Ok z' => match market_at mk z' with
             | Some m => option_map terms (lookup_var (dem_name c) (vars m))
             | None => None
             end
  | Err _ => None
  end.

Example Money_example :
  dem_terms_of 8 "MON" (money_generate "MON" "GOV" 8 ex_zone) =
    Some [(1%Z, ["CA_HH__DEM_MON"]); (1%Z, ["ON_HH__DEM_MON"])].
Proof. vm_compute. reflexivity. Qed.
Print Assumptions Money_example.

Example Deposit_example :
  dem_terms_of 9 "DEP" (deposit_generate "DEP" "GOV" 9 ex_zone) =
    Some [(1%Z, ["CA_HH__DEM_DEP"]); (1%Z, ["ON_HH__DEM_DEP"])]
  /\ deposit_lags "DEP" "GOV" ex_zone =
     [("CA_GOV__LAG_SUP_DEP", "CA_GOV__SUP_DEP"); ("CA_HH__LAG_DEM_DEP", "CA_HH__DEM_DEP");
      ("ON_HH__LAG_DEM_DEP", "ON_HH__DEM_DEP")].
Proof. split; vm_compute; reflexivity. Qed.
Print Assumptions Deposit_example.

(** hypotheses of the interest lemma other than "exactly one issuer" *)
Definition interest_hyps (c issuer : string) (mk : nat) (z z' : zone)
           (v vprev : string -> R) (bv bvp : string -> string -> R) : Prop :=
  has_substring "__" (int_name c) = false /\
  (forall s, List.In s z -> dep_part c issuer s = true -> int_fresh c s = true) /\
  lag_link v vprev (deposit_lags c issuer z) /\
  (forall s', List.In s' z' -> (dep_issuer issuer s' = true -> holds vprev bvp s' (sup_name c)) /\
                               (sid s' = mk -> holds vprev bvp s' (dem_name c))) /\
  (forall s', List.In s' z' -> dep_part c issuer s' = true -> holds v bv s' (int_name c)).

Definition interest_sum (c issuer : string) (z : zone) (v : string -> R) : R :=
  - sumR (fun i => v (fullname i (int_name c))) (filter (dep_issuer issuer) z)
  + sumR (fun h => v (fullname h (int_name c))) (filter (dep_holder c issuer) z).

Definition one : string -> R := fun _ => 1.
Definition bone : string -> string -> R := fun _ _ => 1.

Definition zone_of (r : result zone) : zone := match r with Ok z => z | Err _ => [] end.

(** one issuer, one holder; every variable worth 1 in both periods (interest rate 100%) *)
Definition ex1 : zone := [ sec 4 "GOV" "CA" []; sec 5 "HH" "CA" [("DEM_DEP", mkEqn "0.5*F" [])]; mkt 9 "DEP" "CA" dep_extra ].
Definition ex1' : zone := Eval vm_compute in zone_of (deposit_generate "DEP" "GOV" 9 ex1).

Ltac each_sector H := repeat (destruct H as [<-|H]); [..|contradiction H].
Ltac holds_one := unfold holds, eqn_val, one, bone; simpl; unfold tval_in, qualify; simpl; lra.

Example Deposit_interest_example :
  deposit_generate "DEP" "GOV" 9 ex1 = Ok ex1' /\
  (exists i, filter (dep_issuer "GOV") ex1 = [i]) /\
  interest_hyps "DEP" "GOV" 9 ex1 ex1' one one bone bone /\
  one (fullname (sec 5 "HH" "CA" []) (int_name "DEP")) <> 0.
Proof.
  split; [vm_compute; reflexivity|]. split; [eexists; vm_compute; reflexivity|].
  split; [|unfold one; lra].
  split; [reflexivity|]. split; [|split; [|split]].
  - intros s Hs _. each_sector Hs; reflexivity.
  - intros l src _. reflexivity.
  - intros s' Hs. each_sector Hs; (split; intros Hx; vm_compute in Hx; try discriminate Hx; holds_one).
  - intros s' Hs Hp. each_sector Hs; vm_compute in Hp; try discriminate Hp; holds_one.
Qed.
Print Assumptions Deposit_interest_example.

(** two sectors of the zone carry the issuer's short code (a government in each of two countries
    sharing the currency): both pay the interest, the holders receive it once *)
Definition ex2 : zone := [ sec 4 "GOV" "CA" []; sec 5 "HH" "CA" [("DEM_DEP", mkEqn "0.5*F" [])]; mkt 9 "DEP" "CA" dep_extra;
                           sec 7 "GOV" "ON" [] ].
Definition ex2' : zone := Eval vm_compute in zone_of (deposit_generate "DEP" "GOV" 9 ex2).

Theorem Deposit_two_issuers_refuted :
  deposit_generate "DEP" "GOV" 9 ex2 = Ok ex2' /\
  interest_hyps "DEP" "GOV" 9 ex2 ex2' one one bone bone /\
  interest_sum "DEP" "GOV" ex2 one = -1 /\
  F_total one ex2' = F_total one ex2 - 1.
Proof.
  split; [vm_compute; reflexivity|]. split; [|split].
  - split; [reflexivity|]. split; [|split; [|split]].
    + intros s Hs _. each_sector Hs; reflexivity.
    + intros l src _. reflexivity.
    + intros s' Hs. each_sector Hs; (split; intros Hx; vm_compute in Hx; try discriminate Hx; holds_one).
    + intros s' Hs Hp. each_sector Hs; vm_compute in Hp; try discriminate Hp; holds_one.
  - unfold interest_sum, one. simpl. lra.
  - unfold F_total, F_terms, one. simpl. unfold tval_in. simpl. lra.
Qed.
Print Assumptions Deposit_two_issuers_refuted.

(** no sector carries the issuer's short code: the holders receive interest nobody pays *)
Definition ex3 : zone := [ sec 4 "TRE" "CA" []; sec 5 "HH" "CA" [("DEM_DEP", mkEqn "0.5*F" [])]; mkt 9 "DEP" "CA" dep_extra ].
Definition ex3' : zone := Eval vm_compute in zone_of (deposit_generate "DEP" "GOV" 9 ex3).

Theorem Deposit_no_issuer_refuted :
  deposit_generate "DEP" "GOV" 9 ex3 = Ok ex3' /\
  interest_hyps "DEP" "GOV" 9 ex3 ex3' one one bone bone /\
  interest_sum "DEP" "GOV" ex3 one = 1 /\
  F_total one ex3' = F_total one ex3 + 1.
Proof.
  split; [vm_compute; reflexivity|]. split; [|split].
  - split; [reflexivity|]. split; [|split; [|split]].
    + intros s Hs _. each_sector Hs; reflexivity.
    + intros l src _. reflexivity.
    + intros s' Hs. each_sector Hs; (split; intros Hx; vm_compute in Hx; try discriminate Hx; holds_one).
    + intros s' Hs Hp. each_sector Hs; vm_compute in Hp; try discriminate Hp; holds_one.
  - unfold interest_sum, one. simpl. lra.
  - unfold F_total, F_terms, one. simpl. unfold tval_in. simpl. lra.
Qed.
Print Assumptions Deposit_no_issuer_refuted.

(** miniature of a wrong counter-entry: the issuer's interest is computed on another stock
    (its lagged financial assets) than the holders'; with LAG_F worth 2 the entries do not cancel
    although every other hypothesis holds *)
Definition bad_gov : sector :=
  def_variable (nth 0 ex1' (sec 0 "" "" [])) "INTDEP" [(1%Z, ["CA_DEP__LAG_r"; "CA_GOV__LAG_F"])].
Definition ex1_bad : zone := bad_gov :: tl ex1'.
Definition v_bad : string -> R :=
  fun n => if String.eqb n "CA_GOV__LAG_F" then 2 else if String.eqb n "CA_GOV__INTDEP" then 2 else 1.

Theorem Interest_wrong_stock_refuted :
  interest_hyps "DEP" "GOV" 9 ex1 ex1_bad v_bad one bone bone /\
  interest_sum "DEP" "GOV" ex1 v_bad = -1.
Proof.
  split.
  - split; [reflexivity|]. split; [|split; [|split]].
    + intros s Hs _. each_sector Hs; reflexivity.
    + intros l src Hl. vm_compute in Hl.
      repeat (destruct Hl as [E|Hl]; [injection E as <- <-; reflexivity|]). contradiction.
    + intros s' Hs. each_sector Hs; (split; intros Hx; vm_compute in Hx; try discriminate Hx; holds_one).
    + intros s' Hs Hp. each_sector Hs; vm_compute in Hp; try discriminate Hp; unfold holds, eqn_val, v_bad; simpl; unfold tval_in, qualify; simpl; lra.
  - unfold interest_sum, v_bad. simpl. lra.
Qed.
Print Assumptions Interest_wrong_stock_refuted.

(** portfolio: one weighted asset (weight expression opaque, worth 1/2) and the residual *)
Definition ex_hh : sector := sec 5 "HH" "CA" [].
Definition ex_hh' : sector :=
  Eval vm_compute in match asset_weighting ex_hh [("DEP", "0.5")] "MON" false with Ok s => s | Err _ => ex_hh end.
Definition v_half : string -> R := fun n => if String.eqb n "CA_HH__F" then 1 else / 2.

Example Weighting_example :
  asset_weighting ex_hh [("DEP", "0.5")] "MON" false = Ok ex_hh' /\
  holds v_half bone ex_hh' (wgt_name "MON") /\
  (forall c, List.In c ["DEP"; "MON"] -> holds v_half bone ex_hh' (dem_name c)) /\
  v_half "CA_HH__DEM_DEP" + (v_half "CA_HH__DEM_MON" + 0) = v_half "CA_HH__F".
Proof.
  split; [vm_compute; reflexivity|]. split; [|split].
  - unfold holds, eqn_val, v_half. simpl. unfold tval_in, qualify. simpl. lra.
  - intros c Hc. each_sector Hc; unfold holds, eqn_val, v_half; simpl; unfold tval_in, qualify; simpl; lra.
  - unfold v_half. simpl. lra.
Qed.
Print Assumptions Weighting_example.

(** a code listed twice in a list of pairs is ONE asset of the dict (last weight wins); summing
    the demands over the listed codes with multiplicity does not give F *)
Definition ex_hh_dup : sector :=
  Eval vm_compute in match asset_weighting ex_hh [("DEP", "0.9"); ("DEP", "0.5")] "MON" false with Ok s => s | Err _ => ex_hh end.

Theorem Weighting_duplicate_code_refuted :
  asset_weighting ex_hh [("DEP", "0.9"); ("DEP", "0.5")] "MON" false = Ok ex_hh_dup /\
  weighted_codes [("DEP", "0.9"); ("DEP", "0.5")] = ["DEP"] /\
  lookup_var "WGT_DEP" (vars ex_hh_dup) = Some (mkEqn "0.5" []) /\
  holds v_half bone ex_hh_dup (wgt_name "MON") /\
  (forall c, List.In c ["DEP"; "DEP"; "MON"] -> holds v_half bone ex_hh_dup (dem_name c)) /\
  fold_right (fun c a => v_half (fullname ex_hh (dem_name c)) + a) 0 ["DEP"; "DEP"; "MON"] <> v_half (fullname ex_hh "F").
Proof.
  split; [vm_compute; reflexivity|]. split; [vm_compute; reflexivity|]. split; [vm_compute; reflexivity|].
  split; [|split].
  - unfold holds, eqn_val, v_half. simpl. unfold tval_in, qualify. simpl. lra.
  - intros c Hc. each_sector Hc; unfold holds, eqn_val, v_half; simpl; unfold tval_in, qualify; simpl; lra.
  - unfold v_half. simpl. lra.
Qed.
Print Assumptions Weighting_duplicate_code_refuted.
