(** Model of sector.py: Sector.GenerateAssetWeighting(asset_weighting_dict, residual_asset_code,
    is_absolute_weighting=False).

      if is_absolute_weighting: raise NotImplementedError
      residual_weight = '1.0'
      if type(arg) in (list, tuple): arg = dict built by  tmp[code] = eqn  (a code listed twice keeps its
                                     first position and its last weight)
      for code, weight_eqn in arg.items():
          self.AddVariable('WGT_'+code, ..., weight_eqn)
          self.AddVariable('DEM_'+code, ..., 'F * WGT_'+code)
          residual_weight += ' - WGT_'+code
      self.AddVariable('WGT_'+res, ..., residual_weight)
      self.AddVariable('DEM_'+res, ..., 'F * WGT_'+res)
    AddVariable raises ValueError when the variable name contains '__'.
    The weight expressions are opaque texts; the demand and residual-weight definitions are installed
    with their structured meaning ([def_variable]): F*WGT_c is the term (1, [F; WGT_c]); the residual
    weight is the constant term (1, []) followed by (-1, [WGT_c]) for every weighted code. *)
From Coq Require Import List String Ascii Bool ZArith.
From SFC.Base Require Import Res Str.
From SFC.Gen Require Import Fx Zone.
From SFC.GenAsset Require Import Common.
Import ListNotations.
Local Open Scope string_scope.

Definition wgt_name (c : string) : string := "WGT_" ++ c.

(** dict assignment  d[k] = v  on an insertion-ordered dict *)
Fixpoint dict_set (k v : string) (d : list (string * string)) : list (string * string) :=
  match d with
  | [] => [(k, v)]
  | (k', v') :: r => if String.eqb k k' then (k', v) :: r else (k', v') :: dict_set k v r
  end.

Definition dict_of_pairs (ws : list (string * string)) : list (string * string) :=
  fold_left (fun d kv => dict_set (fst kv) (snd kv) d) ws [].

(** Term(text, is_blob=True): strip, then drop interior spaces *)
Definition squeeze (w : string) : string := remove_char " "%char (strip w).

Definition demand_def (c : string) : list term := [(1%Z, ["F"; wgt_name c])].

Fixpoint weighting_loop (s : sector) (d : list (string * string)) (resid : list term)
  : result (sector * list term) :=
  match d with
  | [] => Ok (s, resid)
  | (c, w) :: r =>
      if has_substring "__" (wgt_name c) then Err ValueError
      else
        let s1 := add_variable s (wgt_name c) (squeeze w) in
        if has_substring "__" (dem_name c) then Err ValueError
        else
          let s2 := def_variable s1 (dem_name c) (demand_def c) in
          weighting_loop s2 r (resid ++ [((-1)%Z, [wgt_name c])])%list
  end.

Definition asset_weighting (s : sector) (ws : list (string * string)) (res : string) (absolute : bool)
  : result sector :=
  if absolute then Err NotImplemented
  else
    do x <- weighting_loop s (dict_of_pairs ws) [(1%Z, [])] ;;
    let '(s1, resid) := x in
    if has_substring "__" (wgt_name res) then Err ValueError
    else
      let s2 := def_variable s1 (wgt_name res) resid in
      if has_substring "__" (dem_name res) then Err ValueError
      else Ok (def_variable s2 (dem_name res) (demand_def res)).

(** the asset codes the call allocates among (keys of the dict, then the residual) *)
Definition weighted_codes (ws : list (string * string)) : list string := map fst (dict_of_pairs ws).
