(** Model of sector_definitions.py: DepositMarket._GenerateEquations on a [Zone.zone].

    Python (self = the market, code = self.Code, issuer = self.IssuerShortCode; the constructor has
    created  r  and  LAG_r := r(k-1)  in the market):
      dem_terms = []
      for s in self.SearchListSource.GetSectors():
          if isinstance(s, Market): continue
          if s.Code == issuer:
              s.AddVariable('SUP_'+code, ..., self.GetVariableName('DEM_'+code))
              s.AddVariable('LAG_SUP_'+code, ..., s.GetVariableName('SUP_'+code) + '(k-1)')
              s.AddCashFlow('-INT'+code, '{0}*{1}'.format(self.GetVariableName('LAG_r'),
                                                          s.GetVariableName('LAG_SUP_'+code)), ...)
              self.AddVariable('SUP_'+code, ..., s.GetVariableName('SUP_'+code)); continue
          try: term = s.GetVariableName('DEM_'+code)
          except KeyError: continue
          s.AddVariable('LAG_DEM_'+code, ..., s.GetVariableName('DEM_'+code) + '(k-1)')
          s.AddCashFlow('+INT'+code, '{0}*{1}'.format(self.GetVariableName('LAG_r'),
                                                      s.GetVariableName('LAG_DEM_'+code)), ...)
          dem_terms.append(s.GetVariableName('DEM_'+code))
      self.AddVariable('DEM_'+code, ..., create_equation_from_terms(dem_terms))
    The market's own entry in the zone is a Market instance and is skipped; a zone in which it is not
    flagged [is_market] is outside the model.  Lag definitions are installed as the opaque text
    source(k-1); their meaning is given separately by [deposit_lags]. *)
From Coq Require Import List String Bool ZArith.
From SFC.Base Require Import Res Str.
From SFC.Gen Require Import Fx Zone.
From SFC.GenAsset Require Import Common.
Import ListNotations.
Local Open Scope string_scope.

Definition lag_sup_name (c : string) : string := "LAG_" ++ sup_name c.
Definition lag_dem_name (c : string) : string := "LAG_" ++ dem_name c.
Definition int_name (c : string) : string := "INT" ++ c.

Definition dep_issuer (issuer : string) (s : sector) : bool := negb (is_market s) && String.eqb (code s) issuer.
Definition dep_holder (c issuer : string) (s : sector) : bool :=
  negb (is_market s) && negb (String.eqb (code s) issuer) && has_var s (dem_name c).

(** the definition of the interest variable: lagged rate of the market times a lagged stock *)
Definition int_def (mfull : string) (stock : string) : list term := [(1%Z, [mfull ++ "__" ++ "LAG_r"; stock])].

(** what the call does to a sector other than the market ([None] = KeyError: no F / INC);
    [mfull] = the market's full code *)
Definition deposit_out (c issuer mfull : string) (s : sector) : option sector :=
  if is_market s then Some s
  else if String.eqb (code s) issuer then
    let s1 := def_variable s (sup_name c) [name1 (mfull ++ "__" ++ dem_name c)] in
    let s2 := add_variable s1 (lag_sup_name c) (lag_text (fullname s (sup_name c))) in
    add_cash_flow_def s2 ((-1)%Z, [int_name c]) (int_def mfull (fullname s (lag_sup_name c))) true
  else if has_var s (dem_name c) then
    let s1 := add_variable s (lag_dem_name c) (lag_text (fullname s (dem_name c))) in
    add_cash_flow_def s1 (1%Z, [int_name c]) (int_def mfull (fullname s (lag_dem_name c))) true
  else Some s.

(** one iteration: current market [m], sector [s], holder names collected so far *)
Definition deposit_step (c issuer : string) (m s : sector) (acc : list term)
  : result (sector * sector * list term) :=
  if is_market s then Ok (m, s, acc)
  else if String.eqb (code s) issuer then
    if has_var m (dem_name c) && has_var m "LAG_r" then      (* self.GetVariableName(...) *)
      do s3 <- of_option (deposit_out c issuer (fullcode m) s) ;;
      Ok (def_variable m (sup_name c) [name1 (fullname s (sup_name c))], s3, acc)
    else Err KeyError
  else if has_var s (dem_name c) then
    if has_var m "LAG_r" then
      do s2 <- of_option (deposit_out c issuer (fullcode m) s) ;;
      Ok (m, s2, (acc ++ [holder_term c s])%list)
    else Err KeyError
  else Ok (m, s, acc).

Fixpoint deposit_loop (c issuer : string) (m : sector) (l : list sector) (acc : list term)
  : result (sector * list sector * list term) :=
  match l with
  | [] => Ok (m, [], acc)
  | s :: r =>
      do x <- deposit_step c issuer m s acc ;;
      let '(m1, s1, acc1) := x in
      do y <- deposit_loop c issuer m1 r acc1 ;;
      let '(m2, r2, acc2) := y in
      Ok (m2, s1 :: r2, acc2)
  end.

Definition deposit_generate (c issuer : string) (mk : nat) (z : zone) : result zone :=
  match split_sid mk z with
  | None => Err OutOfModel
  | Some (pre, m, post) =>
      if negb (is_market m) then Err OutOfModel
      else
        do x <- deposit_loop c issuer m pre [] ;;
        let '(m1, pre', acc1) := x in
        do y <- deposit_loop c issuer m1 post acc1 ;;
        let '(m2, post', acc2) := y in
        Ok (pre' ++ def_variable m2 (dem_name c) acc2 :: post')%list
  end.

(** the lag definitions the call installs: (lag variable, source), both full names; the value of the
    lag variable in a period is the value of its source in the period before *)
Definition deposit_lags (c issuer : string) (z : zone) : list (string * string) :=
  flat_map (fun s =>
    if is_market s then []
    else if String.eqb (code s) issuer then [(fullname s (lag_sup_name c), fullname s (sup_name c))]
    else if has_var s (dem_name c) then [(fullname s (lag_dem_name c), fullname s (dem_name c))]
    else []) z.

(** the interest variable is (re)defined by AddCashFlow only when absent or trivially defined *)
Definition int_fresh (c : string) (s : sector) : bool :=
  match lookup_var (int_name c) (vars s) with None => true | Some e => renders_empty e end.

(** Variant for an implementation that refuses to generate equations unless exactly one non-market
    sector of the zone is the issuer (proposed fix D22: LogicError before anything is changed). *)
Definition deposit_generate_checked (c issuer : string) (mk : nat) (z : zone) : result zone :=
  match split_sid mk z with
  | None => Err OutOfModel
  | Some (_, m, _) =>
      if negb (is_market m) then Err OutOfModel
      else if Nat.eqb (List.length (filter (dep_issuer issuer) z)) 1 then deposit_generate c issuer mk z
      else Err LogicError
  end.
