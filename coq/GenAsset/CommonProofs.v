(** Basic facts about the shared definitions: frame properties of the sector operations and the
    meaning of full names inside terms. *)
From Coq Require Import List String Ascii Bool ZArith Reals Lra Lia.
From SFC.Base Require Import Res Str.
From SFC.Gen Require Import Fx Zone.
From SFC.GenAsset Require Import Common.
Import ListNotations.
Local Open Scope string_scope.

(* ---- strings ---- *)
Lemma has_substring_cons p ch r :
  has_substring p (String ch r) = if prefix p (String ch r) then true else has_substring p r.
Proof. reflexivity. Qed.

Lemma has_sub_sep a b : has_substring "__" (a ++ "__" ++ b) = true.
Proof.
  induction a as [|ch a IH]; [destruct b; reflexivity|].
  change ((String ch a) ++ "__" ++ b) with (String ch (a ++ "__" ++ b)).
  rewrite has_substring_cons.
  destruct (prefix "__" (String ch (a ++ "__" ++ b))); [reflexivity|exact IH].
Qed.

Lemma has_sub_fullname s n : has_substring "__" (fullname s n) = true.
Proof. apply has_sub_sep. Qed.

Lemma qualify_fullname s' s n : qualify s' (fullname s n) = fullname s n.
Proof. unfold qualify. now rewrite has_sub_fullname. Qed.

Lemma qualify_sep s' a b : qualify s' (a ++ "__" ++ b) = a ++ "__" ++ b.
Proof. unfold qualify. now rewrite has_sub_sep. Qed.

Lemma qualify_local s n : has_substring "__" n = false -> qualify s n = fullname s n.
Proof. intros H. unfold qualify, fullname. now rewrite H. Qed.

Lemma append_inj_l (p a b : string) : p ++ a = p ++ b -> a = b.
Proof. induction p as [|ch p IH]; simpl; intros H; [exact H|]. injection H as H. auto. Qed.

Lemma append_inj_r (a b x : string) : a ++ x = b ++ x -> a = b.
Proof.
  revert b. induction a as [|ch a IH]; intros [|ch' b] H; simpl in H.
  - reflexivity.
  - exfalso. apply (f_equal String.length) in H. simpl in H. rewrite length_append in H. lia.
  - exfalso. apply (f_equal String.length) in H. simpl in H. rewrite length_append in H. lia.
  - injection H as Hc H. subst. f_equal. auto.
Qed.

Lemma fullname_inj a b n : fullname a n = fullname b n -> fullcode a = fullcode b.
Proof. unfold fullname. apply append_inj_r. Qed.

(* ---- sector operations: what they leave alone ---- *)
Lemma lookup_def_same s n ts : lookup_var n (vars (def_variable s n ts)) = Some (mkEqn "" ts).
Proof. unfold def_variable. simpl. apply lookup_set_same. Qed.

Lemma lookup_def_other s n m ts : n <> m -> lookup_var m (vars (def_variable s n ts)) = lookup_var m (vars s).
Proof. intros H. unfold def_variable. simpl. now apply lookup_set_other. Qed.

Lemma lookup_addvar_same s n b : lookup_var n (vars (add_variable s n b)) = Some (mkEqn b []).
Proof. unfold add_variable. simpl. apply lookup_set_same. Qed.

Lemma lookup_addvar_other s n m b : n <> m -> lookup_var m (vars (add_variable s n b)) = lookup_var m (vars s).
Proof. intros H. unfold add_variable. simpl. now apply lookup_set_other. Qed.

Lemma has_var_def_same s n ts : has_var (def_variable s n ts) n = true.
Proof. unfold has_var. now rewrite lookup_def_same. Qed.

Lemma has_var_def_other s n m ts : n <> m -> has_var (def_variable s n ts) m = has_var s m.
Proof. intros H. unfold has_var. now rewrite lookup_def_other. Qed.

Lemma add_term_to_eq_some s n t s' :
  add_term_to_eq s n t = Some s' ->
  exists e, lookup_var n (vars s) = Some e /\
            s' = with_vars s (set_var n (mkEqn (blob e) (add_term t (terms e))) (vars s)).
Proof.
  unfold add_term_to_eq. destruct (lookup_var n (vars s)) as [e|]; [|discriminate].
  intros H. injection H as <-. eauto.
Qed.

Lemma add_term_to_eq_has s n t : has_var s n = true -> exists s', add_term_to_eq s n t = Some s'.
Proof.
  unfold has_var, add_term_to_eq. destruct (lookup_var n (vars s)); [eauto|discriminate].
Qed.

(** effect of Sector.AddCashFlow(term) without a definition *)
Lemma add_cash_flow_none_spec s t inc s2 :
  add_cash_flow s t None inc = Some s2 ->
  fullcode s2 = fullcode s /\ sid s2 = sid s /\ code s2 = code s /\ is_market s2 = is_market s /\
  hasF s2 = hasF s /\ excl s2 = excl s /\ country s2 = country s /\ taxable s2 = taxable s /\
  (exists eF, lookup_var "F" (vars s) = Some eF /\
              lookup_var "F" (vars s2) = Some (mkEqn (blob eF) (add_term t (terms eF)))) /\
  (if inc && negb (mem (String.concat "*" (snd t)) (excl s))
   then exists eI, lookup_var "INC" (vars s) = Some eI /\
                   lookup_var "INC" (vars s2) = Some (mkEqn (blob eI) (add_term t (terms eI)))
   else lookup_var "INC" (vars s2) = lookup_var "INC" (vars s)) /\
  (forall n, n <> "F" -> n <> "INC" -> lookup_var n (vars s2) = lookup_var n (vars s)).
Proof.
  unfold add_cash_flow.
  destruct (add_term_to_eq s "F" t) as [s1|] eqn:H1; [|discriminate].
  apply add_term_to_eq_some in H1 as (eF & HF & ->).
  destruct (inc && negb (mem (String.concat "*" (snd t)) (excl s))) eqn:HI.
  - destruct (add_term_to_eq _ "INC" t) as [s3|] eqn:H2; [|discriminate].
    apply add_term_to_eq_some in H2 as (eI & HIe & ->). intros H. injection H as <-. simpl.
    repeat (split; [reflexivity|]).
    simpl in HIe. rewrite lookup_set_other in HIe by discriminate.
    split; [|split].
    + exists eF. split; [exact HF|]. rewrite lookup_set_other by discriminate. apply lookup_set_same.
    + exists eI. split; [exact HIe|]. apply lookup_set_same.
    + intros n Hn1 Hn2. rewrite !lookup_set_other by congruence. reflexivity.
  - intros H. injection H as <-. simpl. repeat (split; [reflexivity|]). split; [|split].
    + exists eF. split; [exact HF|]. apply lookup_set_same.
    + apply lookup_set_other. discriminate.
    + intros n Hn1 Hn2. apply lookup_set_other. congruence.
Qed.

Lemma install_def_spec s name d :
  let s' := install_def s name d in
  fullcode s' = fullcode s /\ sid s' = sid s /\ code s' = code s /\ is_market s' = is_market s /\
  hasF s' = hasF s /\ excl s' = excl s /\ country s' = country s /\ taxable s' = taxable s /\
  lookup_var name (vars s') =
    match lookup_var name (vars s) with
    | Some e => if renders_empty e then Some (mkEqn "" d) else Some e
    | None => Some (mkEqn "" d)
    end /\
  (forall n, n <> name -> lookup_var n (vars s') = lookup_var n (vars s)).
Proof.
  unfold install_def. destruct (lookup_var name (vars s)) as [e|] eqn:E.
  - destruct (renders_empty e).
    + simpl. repeat (split; [reflexivity|]). split; [apply lookup_set_same|].
      intros n Hn. apply lookup_set_other. congruence.
    + simpl. repeat (split; [reflexivity|]). split; [exact E|reflexivity].
  - simpl. repeat (split; [reflexivity|]). split; [apply lookup_set_same|].
    intros n Hn. apply lookup_set_other. congruence.
Qed.

(** effect of Sector.AddCashFlow(term, eqn) with a structured definition *)
Lemma add_cash_flow_def_spec s t d inc s' :
  String.concat "*" (snd t) <> "F" -> String.concat "*" (snd t) <> "INC" ->
  add_cash_flow_def s t d inc = Some s' ->
  fullcode s' = fullcode s /\ sid s' = sid s /\ code s' = code s /\ is_market s' = is_market s /\
  hasF s' = hasF s /\ excl s' = excl s /\ country s' = country s /\ taxable s' = taxable s /\
  (exists eF, lookup_var "F" (vars s) = Some eF /\
              lookup_var "F" (vars s') = Some (mkEqn (blob eF) (add_term t (terms eF)))) /\
  (if inc && negb (mem (String.concat "*" (snd t)) (excl s))
   then exists eI, lookup_var "INC" (vars s) = Some eI /\
                   lookup_var "INC" (vars s') = Some (mkEqn (blob eI) (add_term t (terms eI)))
   else lookup_var "INC" (vars s') = lookup_var "INC" (vars s)) /\
  lookup_var (String.concat "*" (snd t)) (vars s') =
    match lookup_var (String.concat "*" (snd t)) (vars s) with
    | Some e => if renders_empty e then Some (mkEqn "" d) else Some e
    | None => Some (mkEqn "" d)
    end /\
  (forall n, n <> "F" -> n <> "INC" -> n <> String.concat "*" (snd t) ->
             lookup_var n (vars s') = lookup_var n (vars s)).
Proof.
  intros N1 N2. unfold add_cash_flow_def.
  destruct (add_cash_flow s t None inc) as [s2|] eqn:H; [|discriminate].
  simpl. intros E. injection E as <-.
  apply add_cash_flow_none_spec in H as (A1 & A2 & A3 & A4 & A5 & A6 & A7 & A8 & HF & HI & HO).
  destruct (install_def_spec s2 (String.concat "*" (snd t)) d) as (B1 & B2 & B3 & B4 & B5 & B6 & B7 & B8 & HN & HO2).
  repeat (split; [congruence|]).
  split; [|split; [|split]].
  - destruct HF as (eF & E1 & E2). exists eF. split; [exact E1|]. rewrite HO2 by congruence. exact E2.
  - destruct (inc && negb (mem (String.concat "*" (snd t)) (excl s))).
    + destruct HI as (eI & E1 & E2). exists eI. split; [exact E1|]. rewrite HO2 by congruence. exact E2.
    + rewrite HO2 by congruence. exact HI.
  - rewrite HN. rewrite HO by congruence. reflexivity.
  - intros n H1 H2 H3. rewrite HO2 by congruence. apply HO; assumption.
Qed.

(** the static attributes of a sector (everything except its equations) *)
Definition same_attrs (s s' : sector) : Prop :=
  sid s' = sid s /\ code s' = code s /\ country s' = country s /\ fullcode s' = fullcode s /\
  hasF s' = hasF s /\ taxable s' = taxable s /\ is_market s' = is_market s /\ excl s' = excl s.

Lemma same_attrs_refl s : same_attrs s s.
Proof. repeat split. Qed.

Lemma same_attrs_trans a b c : same_attrs a b -> same_attrs b c -> same_attrs a c.
Proof. unfold same_attrs. intuition congruence. Qed.

Lemma same_attrs_with_vars s vs : same_attrs s (with_vars s vs).
Proof. repeat split. Qed.

Lemma fullname_attrs s s' n : same_attrs s s' -> fullname s' n = fullname s n.
Proof. intros H. unfold fullname. destruct H as (_ & _ & _ & -> & _). reflexivity. Qed.

(* ---- semantics ---- *)
Local Open Scope R_scope.

Lemma tval_name1_full v s' s n : tval_in v s' (name1 (fullname s n)) = v (fullname s n).
Proof. unfold tval_in, name1. cbn [fst snd fval_in]. rewrite qualify_fullname. lra. Qed.

Lemma tval_name1_sep v s' a b : tval_in v s' (name1 (a ++ "__" ++ b)%string) = v (a ++ "__" ++ b)%string.
Proof. unfold tval_in, name1. cbn [fst snd fval_in]. rewrite qualify_sep. lra. Qed.

Lemma fval_in_attrs v s s' f : fullcode s' = fullcode s -> fval_in v s' f = fval_in v s f.
Proof. intros H. induction f as [|x f IH]; simpl; [reflexivity|]. unfold qualify. now rewrite H, IH. Qed.

Lemma tsum_in_attrs v s s' l : fullcode s' = fullcode s -> tsum_in v s' l = tsum_in v s l.
Proof.
  intros H. induction l as [|t l IH]; simpl; [reflexivity|].
  unfold tval_in. now rewrite (fval_in_attrs v s s' _ H), IH.
Qed.

Lemma tsum_in_app v s a b : tsum_in v s (a ++ b) = tsum_in v s a + tsum_in v s b.
Proof. induction a as [|t a IH]; simpl; [lra|]. rewrite IH. lra. Qed.

Lemma eqn_val_def v bv s ts : eqn_val v bv s (mkEqn "" ts) = tsum_in v s ts.
Proof. unfold eqn_val. cbn [blob terms String.eqb]. lra. Qed.

Lemma holds_def v bv s n ts :
  lookup_var n (vars s) = Some (mkEqn "" ts) -> holds v bv s n -> v (fullname s n) = tsum_in v s ts.
Proof. unfold holds. intros ->. rewrite eqn_val_def. exact (fun H => H). Qed.

Lemma tsum_in_single v s t : tsum_in v s [t] = tval_in v s t.
Proof. cbn [tsum_in]. lra. Qed.

Lemma tsum_F_terms_add v s s' t eF :
  fullcode s' = fullcode s ->
  lookup_var "F" (vars s) = Some eF ->
  lookup_var "F" (vars s') = Some (mkEqn (blob eF) (add_term t (terms eF))) ->
  tsum_in v s' (F_terms s') = tsum_in v s (F_terms s) + tval_in v s t.
Proof.
  intros Hc H1 H2. unfold F_terms. rewrite H1, H2. cbn [terms].
  rewrite (tsum_in_attrs v s s' _ Hc), add_term_sum_in. lra.
Qed.

Lemma tsum_INC_terms_add v s s' t eI :
  fullcode s' = fullcode s ->
  lookup_var "INC" (vars s) = Some eI ->
  lookup_var "INC" (vars s') = Some (mkEqn (blob eI) (add_term t (terms eI))) ->
  tsum_in v s' (INC_terms s') = tsum_in v s (INC_terms s) + tval_in v s t.
Proof.
  intros Hc H1 H2. unfold INC_terms. rewrite H1, H2. cbn [terms].
  rewrite (tsum_in_attrs v s s' _ Hc), add_term_sum_in. lra.
Qed.

(** sums over sectors *)
Fixpoint sumR (f : sector -> R) (l : list sector) : R :=
  match l with [] => 0 | s :: r => f s + sumR f r end.

Lemma sumR_app f a b : sumR f (a ++ b) = sumR f a + sumR f b.
Proof. induction a as [|s a IH]; simpl; [lra|]. rewrite IH. lra. Qed.

Lemma sumR_ext f g l : (forall s, List.In s l -> f s = g s) -> sumR f l = sumR g l.
Proof.
  induction l as [|s l IH]; intros H; simpl; [reflexivity|].
  rewrite (H s (or_introl eq_refl)), IH; [reflexivity|]. intros x Hx. apply H. now right.
Qed.

Lemma sumR_Forall2 (P : sector -> sector -> Prop) f g h l l' :
  Forall2 P l l' -> (forall s s', P s s' -> g s' = f s + h s) -> sumR g l' = sumR f l + sumR h l.
Proof.
  intros H Hp. induction H as [|s s' l l' Hs _ IH]; simpl; [lra|]. rewrite (Hp _ _ Hs), IH. lra.
Qed.

Lemma Forall2_in_l {A B} (P : A -> B -> Prop) l l' a :
  Forall2 P l l' -> List.In a l -> exists b, List.In b l' /\ P a b.
Proof.
  intros H. induction H as [|x y l l' Hxy _ IH]; intros Hin; [contradiction|].
  destruct Hin as [->|Hin]; [exists y; split; [now left|exact Hxy]|].
  destruct (IH Hin) as (b & Hb & Hp). exists b. split; [now right|exact Hp].
Qed.

Lemma sumR_scal k f l : sumR (fun s => k * f s) l = k * sumR f l.
Proof. induction l as [|s l IH]; simpl; [lra|]. rewrite IH. lra. Qed.

Lemma fold_add_term_sum v s ts : forall start,
  tsum_in v s (fold_left (fun acc t => add_term t acc) ts start) = tsum_in v s start + tsum_in v s ts.
Proof.
  induction ts as [|t ts IH]; intros start; simpl; [lra|].
  rewrite IH, add_term_sum_in. lra.
Qed.

(** adding terms with pairwise different, new factor lists appends them in order *)
Lemma add_term_fresh t l :
  (forall u, List.In u l -> snd u <> snd t) -> add_term t l = (l ++ [t])%list.
Proof.
  induction l as [|[c f] r IH]; intros H; simpl; [reflexivity|].
  destruct (factors_eqb (snd t) f) eqn:E.
  - apply factors_eqb_eq in E. exfalso. apply (H (c, f)); [now left|]. simpl. congruence.
  - rewrite IH; [reflexivity|]. intros u Hu. apply H. now right.
Qed.

Lemma fold_add_term_fresh ts : forall start,
  NoDup (map snd (start ++ ts)%list) ->
  fold_left (fun acc t => add_term t acc) ts start = (start ++ ts)%list.
Proof.
  induction ts as [|t ts IH]; intros start H; simpl; [now rewrite app_nil_r|].
  rewrite add_term_fresh.
  - rewrite IH; [now rewrite <- app_assoc|]. now rewrite <- app_assoc.
  - intros u Hu E. rewrite map_app in H. simpl in H.
    apply NoDup_remove_2 in H. apply H. apply in_or_app. left. rewrite <- E. now apply in_map.
Qed.

Lemma sup_after_cases (f : sector -> bool) c l o :
  (sup_after f c l o = o /\ filter f l = []) \/
  (exists i, List.In i l /\ f i = true /\
             sup_after f c l o = Some (mkEqn "" [name1 (fullname i (sup_name c))])).
Proof.
  revert o. induction l as [|s l IH]; intros o; [left; split; reflexivity|].
  unfold sup_after. simpl. fold (sup_after f c l).
  destruct (f s) eqn:E.
  - right. destruct (IH (Some (mkEqn "" [name1 (fullname s (sup_name c))]))) as [[H _]|(i & Hi & Hii & H)].
    + exists s. split; [now left|]. split; [exact E|exact H].
    + exists i. split; [now right|]. split; [exact Hii|exact H].
  - destruct (IH o) as [[H Hn]|(i & Hi & Hii & H)].
    + left. split; [exact H|exact Hn].
    + right. exists i. split; [now right|]. split; [exact Hii|exact H].
Qed.

Lemma sup_after_app (f : sector -> bool) c a b o :
  sup_after f c (a ++ b) o = sup_after f c b (sup_after f c a o).
Proof. unfold sup_after. now rewrite fold_left_app. Qed.

Lemma tsum_holder_terms v m c l :
  tsum_in v m (map (holder_term c) l) = sumR (fun h => v (fullname h (dem_name c))) l.
Proof.
  induction l as [|h l IH]; simpl; [reflexivity|]. unfold holder_term at 1. rewrite tval_name1_full, IH. reflexivity.
Qed.

(* ---- the zipper ---- *)
Lemma split_sid_app mk z pre m post :
  split_sid mk z = Some (pre, m, post) -> z = (pre ++ m :: post)%list /\ sid m = mk.
Proof.
  revert pre. induction z as [|s r IH]; intros pre; simpl; [discriminate|].
  destruct (Nat.eqb (sid s) mk) eqn:E.
  - intros H. injection H as <- <- <-. apply PeanoNat.Nat.eqb_eq in E. now split.
  - destruct (split_sid mk r) as [[[p m'] q]|]; [|discriminate].
    intros H. injection H as <- <- <-. destruct (IH p eq_refl) as [-> Hs]. now split.
Qed.
