(** Boolean comparisons used by the generated correspondence cases (harness/gen_asset.py).

    The implementation's state is sent as, per sector, (ID, [(variable, expected equation)]) where
    an expected equation is (blob text, parse of the blob text, non-blob terms): the parse is
    [Some ts] when the blob text is a signed sum of products of names and integer constants (Python
    [ast]), else [None].  A model equation agrees when it is literally (blob text, terms), or when
    its blob is empty and its terms are parse ++ terms: definitions are compared by parsed terms,
    not by spelling. *)
From Coq Require Import List String Bool ZArith.
From SFC.Base Require Import Res Str.
From SFC.Gen Require Import Fx Zone.
From SFC.GenAsset Require Import Common Money Deposit Weighting.
Import ListNotations.
Local Open Scope string_scope.

Definition xeqn := (string * option (list term) * list term)%type.

Definition term_eqb (a b : term) : bool := Z.eqb (fst a) (fst b) && factors_eqb (snd a) (snd b).

Fixpoint terms_eqb (a b : list term) : bool :=
  match a, b with
  | [], [] => true
  | x :: a', y :: b' => term_eqb x y && terms_eqb a' b'
  | _, _ => false
  end.

Definition eqn_matches (e : eqn) (x : xeqn) : bool :=
  let '(b, p, ts) := x in
  (String.eqb (blob e) b && terms_eqb (terms e) ts)
  || match p with
     | Some pts => String.eqb (blob e) "" && terms_eqb (terms e) (pts ++ ts)
     | None => false
     end.

Definition sector_matches (s : sector) (x : nat * list (string * xeqn)) : bool :=
  Nat.eqb (sid s) (fst x) &&
  Nat.eqb (List.length (vars s)) (List.length (snd x)) &&
  forallb (fun nx => match lookup_var (fst nx) (vars s) with
                     | Some e => eqn_matches e (snd nx)
                     | None => false
                     end) (snd x).

Fixpoint zone_matches (z : zone) (xs : list (nat * list (string * xeqn))) : bool :=
  match z, xs with
  | [], [] => true
  | s :: z', x :: xs' => sector_matches s x && zone_matches z' xs'
  | _, _ => false
  end.

Definition result_matches (r : result zone) (expected : result (list (nat * list (string * xeqn)))) : bool :=
  match r, expected with
  | Ok z, Ok xs => zone_matches z xs
  | Err e, Err e' => err_eqb e e'
  | _, _ => false
  end.

Definition money_case (c issuer : string) (mk : nat) (z : zone)
           (expected : result (list (nat * list (string * xeqn)))) : bool :=
  result_matches (money_generate c issuer mk z) expected.

Fixpoint lags_eqb (a b : list (string * string)) : bool :=
  match a, b with
  | [], [] => true
  | (x, y) :: a', (x', y') :: b' => String.eqb x x' && String.eqb y y' && lags_eqb a' b'
  | _, _ => false
  end.

(** [lags]: the (lag variable, source) pairs read off the implementation's state after the call *)
Definition deposit_case (c issuer : string) (mk : nat) (z : zone)
           (expected : result (list (nat * list (string * xeqn)))) (lags : list (string * string)) : bool :=
  result_matches (deposit_generate c issuer mk z) expected &&
  match expected with Ok _ => lags_eqb (deposit_lags c issuer z) lags | Err _ => true end.

Definition weighting_case (s : sector) (ws : list (string * string)) (res : string) (absolute : bool)
           (expected : result (nat * list (string * xeqn))) : bool :=
  match asset_weighting s ws res absolute, expected with
  | Ok s', Ok x => sector_matches s' x
  | Err e, Err e' => err_eqb e e'
  | _, _ => false
  end.

(** the same against the models with the single-issuer check (proposed fix D22) *)
Definition money_case_checked (c issuer : string) (mk : nat) (z : zone)
           (expected : result (list (nat * list (string * xeqn)))) : bool :=
  result_matches (money_generate_checked c issuer mk z) expected.

Definition deposit_case_checked (c issuer : string) (mk : nat) (z : zone)
           (expected : result (list (nat * list (string * xeqn)))) (lags : list (string * string)) : bool :=
  result_matches (deposit_generate_checked c issuer mk z) expected &&
  match expected with Ok _ => lags_eqb (deposit_lags c issuer z) lags | Err _ => true end.
