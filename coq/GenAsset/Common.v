(** Shared definitions of the asset-market models (MoneyMarket, DepositMarket,
    GenerateAssetWeighting) on a [Zone.zone].

    Structured definitions.  The Python installs right-hand sides as opaque texts ("blobs") even
    when the text is really a single full variable name, a product of two names or a signed sum of
    such (SUP_MON := <market DEM full name>, INTDEP := LAG_r_full*LAG_SUP_full,
    WGT_res := 1.0 - WGT_a - WGT_b).  [Zone.holds] says nothing about an opaque text, so the models
    here install those definitions as an EMPTY blob plus parsed terms ([def_variable]); the
    correspondence compares them with the implementation's text by parsed terms, not by spelling.
    Genuinely opaque texts (user weight expressions, lag definitions  X(k-1)) stay blobs. *)
From Coq Require Import List String Bool ZArith.
From SFC.Base Require Import Res Str.
From SFC.Gen Require Import Fx Zone.
Import ListNotations.
Local Open Scope string_scope.

(** Sector.GetVariableName once full codes are assigned *)
Definition fullname (s : sector) (n : string) : string := fullcode s ++ "__" ++ n.

Definition dem_name (c : string) : string := "DEM_" ++ c.
Definition sup_name (c : string) : string := "SUP_" ++ c.

(** the term  +x  for a single (full or local) name *)
Definition name1 (x : string) : term := (1%Z, [x]).

(** AddVariable(n, desc, text) where [text] denotes the sum of the terms [ts] *)
Definition def_variable (s : sector) (n : string) (ts : list term) : sector :=
  with_vars s (set_var n (mkEqn "" ts) (vars s)).

(** the text installed for a lag variable:  source(k-1)  *)
Definition lag_text (src : string) : string := src ++ "(k-1)".

(** Last part of Sector.AddCashFlow(term, eqn, ...) when [eqn] is given: define the flow variable
    unless it already has a non-trivial right-hand side. *)
Definition install_def (s : sector) (name : string) (d : list term) : sector :=
  match lookup_var name (vars s) with
  | Some e => if renders_empty e then def_variable s name d else s
  | None => def_variable s name d
  end.

(** Sector.AddCashFlow(term, eqn, desc, is_income) with a structured [eqn]: exactly
    [Zone.add_cash_flow] for the bookings on F and INC, then [install_def]. *)
Definition add_cash_flow_def (s : sector) (t : term) (d : list term) (is_income : bool) : option sector :=
  option_map (fun s2 => install_def s2 (String.concat "*" (snd t)) d) (add_cash_flow s t None is_income).

(** The market is the first sector of the zone whose ID is [mk]; the zone is split around it. *)
Fixpoint split_sid (mk : nat) (z : zone) : option (list sector * sector * list sector) :=
  match z with
  | [] => None
  | s :: r =>
      if Nat.eqb (sid s) mk then Some ([], s, r)
      else match split_sid mk r with
           | Some (pre, m, post) => Some (s :: pre, m, post)
           | None => None
           end
  end.

(** Outcome used for zones outside the model (the market is not in the zone, or the market's own
    entry does not have the flags its constructor gives it).  [OutOfFuel] is never a Python outcome. *)
Definition OutOfModel : err := OutOfFuel.

Definition of_option {A} (o : option A) : result A :=
  match o with Some a => Ok a | None => Err KeyError end.

(** the market's SUP_<code> equation after a scan of [others]: defined by the last issuer met,
    otherwise what it was before *)
Definition sup_after (is_issuer : sector -> bool) (c : string) (others : list sector) (before : option eqn)
  : option eqn :=
  fold_left (fun acc s => if is_issuer s then Some (mkEqn "" [name1 (fullname s (sup_name c))]) else acc)
            others before.

Definition holder_term (c : string) (s : sector) : term := name1 (fullname s (dem_name c)).

(** the parsed terms of a sector's F and INC equations (the ledgers the cash flows are booked on) *)
Definition F_terms (s : sector) : list term :=
  match lookup_var "F" (vars s) with Some e => terms e | None => [] end.
Definition INC_terms (s : sector) : list term :=
  match lookup_var "INC" (vars s) with Some e => terms e | None => [] end.
