(** Proofs about GenerateAssetWeighting: dict semantics of a list of pairs, the installed
    definitions, and the portfolio identity (through C04_portfolio of coq/Gen/PropC04.v). *)
From Coq Require Import List String Ascii Bool ZArith Reals Lra Lia.
From SFC.Base Require Import Res Str.
From SFC.Gen Require Import Fx Zone.
From SFC.Gen Require PropC04.
From SFC.GenAsset Require Import Common CommonProofs Weighting.
Import ListNotations.
Local Open Scope string_scope.
Local Open Scope list_scope.

(* ---- names ---- *)
Lemma wgt_dem_neq a b : wgt_name a <> dem_name b.
Proof. unfold wgt_name, dem_name. simpl. discriminate. Qed.
Lemma dem_inj a b : dem_name a = dem_name b -> a = b.
Proof. unfold dem_name. apply append_inj_l. Qed.
Lemma wgt_inj a b : wgt_name a = wgt_name b -> a = b.
Proof. unfold wgt_name. apply append_inj_l. Qed.

(* ---- the dict ---- *)
Lemma dict_set_keys k v d :
  map fst (dict_set k v d) = if mem k (map fst d) then map fst d else map fst d ++ [k].
Proof.
  induction d as [|[k' v'] r IH]; simpl; [reflexivity|].
  destruct (String.eqb k k'); simpl; [reflexivity|]. rewrite IH. now destruct (mem k (map fst r)).
Qed.

Lemma NoDup_snoc {A} (l : list A) x : NoDup l -> ~ List.In x l -> NoDup (l ++ [x]).
Proof.
  induction l as [|y l IH]; simpl; intros H Hx; [constructor; [intros []|constructor]|].
  inversion H as [|? ? Hy Hl]; subst. constructor.
  - intros Hin. apply in_app_or in Hin as [Hin|[<-|[]]]; [contradiction|]. apply Hx. now left.
  - apply IH; [exact Hl|]. intros Hin. apply Hx. now right.
Qed.

Lemma dict_set_nodup k v d : NoDup (map fst d) -> NoDup (map fst (dict_set k v d)).
Proof.
  intros H. rewrite dict_set_keys. destruct (mem k (map fst d)) eqn:E; [exact H|].
  apply NoDup_snoc; [exact H|]. intros Hin. apply mem_In in Hin. congruence.
Qed.

Lemma dict_fold_nodup ws : forall d, NoDup (map fst d) ->
  NoDup (map fst (fold_left (fun d kv => dict_set (fst kv) (snd kv) d) ws d)).
Proof. induction ws as [|kv ws IH]; intros d H; simpl; [exact H|]. apply IH. now apply dict_set_nodup. Qed.

Lemma weighted_codes_nodup ws : NoDup (weighted_codes ws).
Proof. unfold weighted_codes, dict_of_pairs. apply dict_fold_nodup. constructor. Qed.

Lemma dict_set_fresh k v d : ~ List.In k (map fst d) -> dict_set k v d = d ++ [(k, v)].
Proof.
  induction d as [|[k' v'] r IH]; simpl; intros H; [reflexivity|].
  destruct (String.eqb_spec k k') as [->|Hn]; [exfalso; apply H; now left|].
  rewrite IH; [reflexivity|]. intros Hin. apply H. now right.
Qed.

Lemma dict_fold_distinct ws : forall d, NoDup (map fst (d ++ ws)) ->
  fold_left (fun d kv => dict_set (fst kv) (snd kv) d) ws d = d ++ ws.
Proof.
  induction ws as [|[k v] ws IH]; intros d H; simpl; [now rewrite app_nil_r|].
  rewrite dict_set_fresh.
  - rewrite IH; [now rewrite <- app_assoc|]. now rewrite <- app_assoc.
  - rewrite map_app in H. simpl in H. apply NoDup_remove_2 in H. intros Hin. apply H.
    apply in_or_app. now left.
Qed.

(** a list of pairs with distinct codes (and any dict) is taken as it is *)
Lemma dict_of_pairs_distinct ws : NoDup (map fst ws) -> dict_of_pairs ws = ws.
Proof. intros H. unfold dict_of_pairs. now rewrite dict_fold_distinct. Qed.

(* ---- the loop ---- *)
Definition minus_w (c : string) : term := ((-1)%Z, [wgt_name c]).

Lemma weighting_loop_spec : forall d s resid s' resid',
  NoDup (map fst d) ->
  weighting_loop s d resid = Ok (s', resid') ->
  resid' = resid ++ map minus_w (map fst d) /\
  fullcode s' = fullcode s /\
  (forall c, List.In c (map fst d) ->
     lookup_var (dem_name c) (vars s') = Some (mkEqn "" (demand_def c)) /\
     has_substring "__" (wgt_name c) = false) /\
  (forall n, (forall c, List.In c (map fst d) -> n <> wgt_name c /\ n <> dem_name c) ->
     lookup_var n (vars s') = lookup_var n (vars s)).
Proof.
  induction d as [|[c w] r IH]; intros s resid s' resid' ND; cbn [weighting_loop].
  - cbn [map]. intros H. injection H as <- <-. split; [now rewrite app_nil_r|]. split; [reflexivity|].
    split; [intros c []|reflexivity].
  - destruct (has_substring "__" (wgt_name c)) eqn:H1; [discriminate|].
    destruct (has_substring "__" (dem_name c)) eqn:H2; [discriminate|].
    intros H. cbn [map fst] in *. inversion ND as [|? ? Hnotin ND']; subst.
    apply IH in H as (Hr & Hf & Hd & Ho); [|exact ND'].
    split; [rewrite Hr, <- app_assoc; reflexivity|]. split; [rewrite Hf; reflexivity|]. split.
    + intros c' [<-|Hin].
      * split; [|exact H1]. rewrite Ho.
        -- apply lookup_def_same.
        -- intros c' Hc'. split; [intros E; symmetry in E; now apply wgt_dem_neq in E|].
           intros E. apply dem_inj in E. subst. contradiction.
      * apply Hd. exact Hin.
    + intros n Hn. rewrite Ho by (intros c' Hc'; apply Hn; now right).
      destruct (Hn c (or_introl eq_refl)) as [N1 N2].
      rewrite lookup_def_other, lookup_addvar_other by congruence. reflexivity.
Qed.

Record weighting_result (s : sector) (ws : list (string * string)) (res : string) (s' : sector) : Prop := {
  wr_fullcode : fullcode s' = fullcode s;
  wr_dem : forall c, List.In c (weighted_codes ws ++ [res]) ->
             lookup_var (dem_name c) (vars s') = Some (mkEqn "" (demand_def c));
  wr_local : forall c, List.In c (weighted_codes ws ++ [res]) -> has_substring "__" (wgt_name c) = false;
  wr_res : lookup_var (wgt_name res) (vars s') =
           Some (mkEqn "" ((1%Z, []) :: map minus_w (weighted_codes ws)))
}.

Theorem asset_weighting_spec s ws res s' :
  asset_weighting s ws res false = Ok s' -> ~ List.In res (weighted_codes ws) ->
  weighting_result s ws res s'.
Proof.
  unfold asset_weighting. intros H Hres.
  destruct (weighting_loop s (dict_of_pairs ws) [(1%Z, [])]) as [[s1 resid]|e] eqn:HL; [|discriminate].
  cbn [bind] in H. destruct (has_substring "__" (wgt_name res)) eqn:H1; [discriminate|].
  destruct (has_substring "__" (dem_name res)) eqn:H2; [discriminate|]. injection H as <-.
  apply weighting_loop_spec in HL as (Hr & Hf & Hd & Ho); [|apply weighted_codes_nodup].
  fold (weighted_codes ws) in *. constructor.
  - simpl. exact Hf.
  - intros c Hin. apply in_app_or in Hin as [Hin|[<-|[]]].
    + rewrite lookup_def_other, lookup_def_other.
      * apply Hd. exact Hin.
      * apply wgt_dem_neq.
      * intros E. apply dem_inj in E. subst. contradiction.
    + apply lookup_def_same.
  - intros c Hin. apply in_app_or in Hin as [Hin|[<-|[]]]; [now apply Hd|exact H1].
  - rewrite lookup_def_other by (intros E; symmetry in E; now apply wgt_dem_neq in E).
    rewrite lookup_def_same, Hr. reflexivity.
Qed.

(* ---- semantics ---- *)
Local Open Scope R_scope.

Lemma qualify_F s : qualify s "F" = fullname s "F".
Proof. reflexivity. Qed.

Lemma tsum_demand_def v s c :
  has_substring "__" (wgt_name c) = false ->
  tsum_in v s (demand_def c) = v (fullname s "F") * v (fullname s (wgt_name c)).
Proof.
  intros H. unfold demand_def. rewrite tsum_in_single. unfold tval_in. cbn [fst snd fval_in].
  rewrite qualify_F, (qualify_local _ _ H). lra.
Qed.

Lemma tsum_minus_w v s codes :
  (forall c, List.In c codes -> has_substring "__" (wgt_name c) = false) ->
  tsum_in v s (map minus_w codes) = - fold_right (fun c a => v (fullname s (wgt_name c)) + a) 0 codes.
Proof.
  induction codes as [|c r IH]; intros H; simpl; [lra|].
  rewrite IH by (intros c' Hc'; apply H; now right).
  unfold minus_w, tval_in. cbn [fst snd fval_in]. rewrite (qualify_local _ _ (H c (or_introl eq_refl))). lra.
Qed.

(** The demands for all assets among which the sector allocates its wealth add up to F. *)
Theorem weighting_adds_up s ws res s' :
  asset_weighting s ws res false = Ok s' -> ~ List.In res (weighted_codes ws) ->
  forall (v : string -> R) (bv : string -> string -> R),
  holds v bv s' (wgt_name res) ->
  (forall c, List.In c (weighted_codes ws ++ [res]) -> holds v bv s' (dem_name c)) ->
  fold_right (fun c a => v (fullname s (dem_name c)) + a) 0 (weighted_codes ws ++ [res]) = v (fullname s "F").
Proof.
  intros H Hres v bv Hw Hd. destruct (asset_weighting_spec _ _ _ _ H Hres).
  set (F := v (fullname s "F")). set (wgt := fun c => v (fullname s (wgt_name c))).
  assert (Efn : forall n, fullname s' n = fullname s n) by (intros n; unfold fullname; now rewrite wr_fullcode0).
  (* each demand *)
  assert (HD : forall c, List.In c (weighted_codes ws ++ [res]) -> v (fullname s (dem_name c)) = F * wgt c).
  { intros c Hc. specialize (Hd c Hc). apply (holds_def _ _ _ _ _ (wr_dem0 c Hc)) in Hd.
    rewrite (tsum_in_attrs v s s' _ wr_fullcode0), tsum_demand_def in Hd by now apply wr_local0.
    rewrite Efn in Hd. exact Hd. }
  (* the residual weight *)
  assert (HW : wgt res = PropC04.residual_weight wgt (weighted_codes ws) 1).
  { apply (holds_def _ _ _ _ _ wr_res0) in Hw. rewrite (tsum_in_attrs v s s' _ wr_fullcode0) in Hw.
    cbn [tsum_in] in Hw. rewrite tsum_minus_w in Hw by (intros c Hc; apply wr_local0, in_or_app; now left).
    rewrite Efn in Hw. unfold wgt at 1. rewrite Hw, PropC04.residual_weight_sum.
    unfold tval_in. cbn [fst snd fval_in]. unfold wgt. lra. }
  rewrite fold_right_app. cbn [fold_right].
  rewrite (HD res) by (apply in_or_app; right; now left). rewrite HW.
  assert (E : forall a0 l, (forall c, List.In c l -> v (fullname s (dem_name c)) = F * wgt c) ->
              fold_right (fun c a => v (fullname s (dem_name c)) + a) a0 l =
              fold_right (fun c a => PropC04.demand F wgt c + a) 0 l + a0).
  { intros a0 l Hl. induction l as [|c l IH]; simpl; [lra|]. rewrite IH by (intros c' Hc'; apply Hl; now right).
    rewrite (Hl c (or_introl eq_refl)). unfold PropC04.demand. lra. }
  rewrite E by (intros c Hc; apply HD, in_or_app; now left).
  pose proof (PropC04.C04_portfolio F wgt (weighted_codes ws)) as P. unfold PropC04.demand_residual in P.
  lra.
Qed.

(** for a dict, or a list of pairs with distinct codes, the codes are the listed ones *)
Corollary weighting_adds_up_distinct s ws res s' :
  asset_weighting s ws res false = Ok s' -> NoDup (map fst ws) -> ~ List.In res (map fst ws) ->
  forall (v : string -> R) (bv : string -> string -> R),
  holds v bv s' (wgt_name res) ->
  (forall c, List.In c (map fst ws ++ [res]) -> holds v bv s' (dem_name c)) ->
  fold_right (fun c a => v (fullname s (dem_name c)) + a) 0 (map fst ws ++ [res]) = v (fullname s "F").
Proof.
  intros H ND Hres v bv Hw Hd.
  assert (E : weighted_codes ws = map fst ws) by (unfold weighted_codes; now rewrite dict_of_pairs_distinct).
  rewrite <- E in *. eapply weighting_adds_up; eauto.
Qed.
