(** Proofs about the DepositMarket model: closed form of the call, membership, clearing, what is
    booked on F and INC, and the interest group lemma of C01. *)
From Coq Require Import List String Ascii Bool ZArith Reals Lra Lia.
From SFC.Base Require Import Res Str.
From SFC.Gen Require Import Fx Zone.
From SFC.GenAsset Require Import Common CommonProofs Money MoneyProofs Deposit.
Import ListNotations.
Local Open Scope string_scope.
Local Open Scope list_scope.

Ltac nn := let H := fresh "Hnn" in
  intro H; unfold int_name, lag_sup_name, lag_dem_name, sup_name, dem_name in H; simpl in H; discriminate H.

(* ------------------------------------------------------------------ *)
(** * What the call does to one participant *)

Record part_result (c : string) (sign : Z) (s s' : sector) (lagname lagsrc : string) (d : list term) : Prop := {
  pr_fullcode : fullcode s' = fullcode s;
  pr_sid : sid s' = sid s;
  pr_code : code s' = code s;
  pr_market : is_market s' = is_market s;
  pr_excl : excl s' = excl s;
  pr_F : exists eF, lookup_var "F" (vars s) = Some eF /\
           lookup_var "F" (vars s') = Some (mkEqn (blob eF) (add_term (sign, [int_name c]) (terms eF)));
  pr_INC : if negb (mem (int_name c) (excl s))
           then exists eI, lookup_var "INC" (vars s) = Some eI /\
                  lookup_var "INC" (vars s') = Some (mkEqn (blob eI) (add_term (sign, [int_name c]) (terms eI)))
           else lookup_var "INC" (vars s') = lookup_var "INC" (vars s);
  pr_lag : lookup_var lagname (vars s') = Some (mkEqn (lag_text lagsrc) []);
  pr_int : int_fresh c s = true -> lookup_var (int_name c) (vars s') = Some (mkEqn "" d);
  pr_dem : lookup_var (dem_name c) (vars s') = lookup_var (dem_name c) (vars s)
}.

Lemma concat_single x : String.concat "*" [x] = x.
Proof. reflexivity. Qed.

Lemma deposit_out_issuer c issuer mfull s s' :
  is_market s = false -> String.eqb (code s) issuer = true ->
  deposit_out c issuer mfull s = Some s' ->
  part_result c (-1)%Z s s' (lag_sup_name c) (fullname s (sup_name c)) (int_def mfull (fullname s (lag_sup_name c))) /\
  lookup_var (sup_name c) (vars s') = Some (mkEqn "" [name1 (mfull ++ "__" ++ dem_name c)%string]).
Proof.
  intros HM HC. unfold deposit_out. rewrite HM, HC.
  intros H. apply add_cash_flow_def_spec in H; cbn [snd]; rewrite ?concat_single; try nn.
  cbn [snd] in H. rewrite concat_single in H.
  destruct H as (A1 & A2 & A3 & A4 & A5 & A6 & A7 & A8 & HF & HI & HN & HO).
  cbn [excl add_variable def_variable with_vars andb] in HI.
  split; [constructor|]; try assumption.
  - destruct HF as (eF & E1 & E2). exists eF. split; [|exact E2].
    rewrite lookup_addvar_other, lookup_def_other in E1 by nn. exact E1.
  - destruct (negb (mem (int_name c) (excl s))).
    + destruct HI as (eI & E1 & E2). exists eI. split; [|exact E2].
      rewrite lookup_addvar_other, lookup_def_other in E1 by nn. exact E1.
    + rewrite HI. rewrite lookup_addvar_other, lookup_def_other by nn. reflexivity.
  - rewrite HO by nn. apply lookup_addvar_same.
  - intros Hfr. rewrite HN. rewrite lookup_addvar_other, lookup_def_other by nn.
    unfold int_fresh in Hfr. destruct (lookup_var (int_name c) (vars s)) as [e|]; [now rewrite Hfr|reflexivity].
  - rewrite HO by nn. rewrite lookup_addvar_other, lookup_def_other by nn. reflexivity.
  - rewrite HO by nn. rewrite lookup_addvar_other by nn. apply lookup_def_same.
Qed.

Lemma deposit_out_holder c issuer mfull s s' :
  is_market s = false -> String.eqb (code s) issuer = false -> has_var s (dem_name c) = true ->
  deposit_out c issuer mfull s = Some s' ->
  part_result c 1%Z s s' (lag_dem_name c) (fullname s (dem_name c)) (int_def mfull (fullname s (lag_dem_name c))).
Proof.
  intros HM HC HD. unfold deposit_out. rewrite HM, HC, HD.
  intros H. apply add_cash_flow_def_spec in H; cbn [snd]; rewrite ?concat_single; try nn.
  cbn [snd] in H. rewrite concat_single in H.
  destruct H as (A1 & A2 & A3 & A4 & A5 & A6 & A7 & A8 & HF & HI & HN & HO).
  cbn [excl add_variable with_vars andb] in HI.
  constructor; try assumption.
  - destruct HF as (eF & E1 & E2). exists eF. split; [|exact E2].
    rewrite lookup_addvar_other in E1 by nn. exact E1.
  - destruct (negb (mem (int_name c) (excl s))).
    + destruct HI as (eI & E1 & E2). exists eI. split; [|exact E2].
      rewrite lookup_addvar_other in E1 by nn. exact E1.
    + rewrite HI. rewrite lookup_addvar_other by nn. reflexivity.
  - rewrite HO by nn. apply lookup_addvar_same.
  - intros Hfr. rewrite HN. rewrite lookup_addvar_other by nn.
    unfold int_fresh in Hfr. destruct (lookup_var (int_name c) (vars s)) as [e|]; [now rewrite Hfr|reflexivity].
  - rewrite HO by nn. rewrite lookup_addvar_other by nn. reflexivity.
Qed.

Lemma deposit_out_other c issuer mfull s :
  dep_issuer issuer s = false -> dep_holder c issuer s = false -> deposit_out c issuer mfull s = Some s.
Proof.
  unfold dep_issuer, dep_holder, deposit_out. destruct (is_market s); [reflexivity|]. simpl.
  destruct (String.eqb (code s) issuer); [discriminate|]. simpl. now intros _ ->.
Qed.

(** attributes are preserved whatever the sector *)
Lemma deposit_out_attrs c issuer mfull s s' :
  deposit_out c issuer mfull s = Some s' ->
  fullcode s' = fullcode s /\ sid s' = sid s /\ code s' = code s /\ is_market s' = is_market s /\
  lookup_var (dem_name c) (vars s') = lookup_var (dem_name c) (vars s).
Proof.
  intros H. destruct (is_market s) eqn:HM.
  - unfold deposit_out in H. rewrite HM in H. injection H as <-. now repeat split.
  - destruct (String.eqb (code s) issuer) eqn:HC.
    + destruct (deposit_out_issuer _ _ _ _ _ HM HC H) as [R _]. destruct R. repeat split; congruence.
    + destruct (has_var s (dem_name c)) eqn:HD.
      * destruct (deposit_out_holder _ _ _ _ _ HM HC HD H). repeat split; congruence.
      * unfold deposit_out in H. rewrite HM, HC, HD in H. injection H as <-. now repeat split.
Qed.

(* ------------------------------------------------------------------ *)
(** * The loop *)

Definition dmarket_after (c issuer : string) (m : sector) (l : list sector) (m' : sector) : Prop :=
  same_attrs m m' /\
  lookup_var (sup_name c) (vars m') = sup_after (dep_issuer issuer) c l (lookup_var (sup_name c) (vars m)) /\
  (forall n, n <> sup_name c -> lookup_var n (vars m') = lookup_var n (vars m)).

Lemma dmarket_after_trans c issuer m a m1 b m2 :
  dmarket_after c issuer m a m1 -> dmarket_after c issuer m1 b m2 -> dmarket_after c issuer m (a ++ b) m2.
Proof.
  intros (A1 & S1 & O1) (A2 & S2 & O2). split; [eapply same_attrs_trans; eauto|]. split.
  - rewrite sup_after_app, S2, S1. reflexivity.
  - intros n Hn. rewrite O2, O1; auto.
Qed.

Lemma deposit_step_spec c issuer m s acc m' s' acc' :
  deposit_step c issuer m s acc = Ok (m', s', acc') ->
  deposit_out c issuer (fullcode m) s = Some s' /\
  acc' = acc ++ map (holder_term c) (filter (dep_holder c issuer) [s]) /\
  dmarket_after c issuer m [s] m'.
Proof.
  unfold deposit_step, dmarket_after, sup_after. cbn [fold_left filter map].
  unfold dep_holder, dep_issuer.
  destruct (is_market s) eqn:HM; cbn [negb andb].
  { intros H. injection H as <- <- <-. unfold deposit_out. rewrite HM.
    split; [reflexivity|]. split; [now rewrite app_nil_r|]. split; [apply same_attrs_refl|]. split; reflexivity. }
  destruct (String.eqb (code s) issuer) eqn:HC; cbn [negb andb].
  - destruct (has_var m (dem_name c) && has_var m "LAG_r"); [|discriminate].
    destruct (deposit_out c issuer (fullcode m) s) as [s3|]; [|discriminate]. simpl.
    intros H. injection H as <- <- <-. split; [reflexivity|]. split; [now rewrite app_nil_r|].
    split; [apply same_attrs_with_vars|]. split; [apply lookup_def_same|].
    intros n Hn. apply lookup_def_other. congruence.
  - destruct (has_var s (dem_name c)) eqn:HD.
    + destruct (has_var m "LAG_r"); [|discriminate].
      destruct (deposit_out c issuer (fullcode m) s) as [s3|]; [|discriminate]. simpl.
      intros H. injection H as <- <- <-. split; [reflexivity|]. split; [reflexivity|].
      split; [apply same_attrs_refl|]. split; reflexivity.
    + intros H. injection H as <- <- <-. unfold deposit_out. rewrite HM, HC, HD.
      split; [reflexivity|]. split; [now rewrite app_nil_r|]. split; [apply same_attrs_refl|]. split; reflexivity.
Qed.

Lemma deposit_loop_spec c issuer : forall l m acc m' l' acc',
  deposit_loop c issuer m l acc = Ok (m', l', acc') ->
  Forall2 (fun s s' => deposit_out c issuer (fullcode m) s = Some s') l l' /\
  acc' = acc ++ map (holder_term c) (filter (dep_holder c issuer) l) /\
  dmarket_after c issuer m l m'.
Proof.
  induction l as [|s r IH]; intros m acc m' l' acc'; simpl.
  - intros H. injection H as <- <- <-. split; [constructor|]. split; [now rewrite app_nil_r|].
    split; [apply same_attrs_refl|]. split; reflexivity.
  - destruct (deposit_step c issuer m s acc) as [[[m1 s1] acc1]|e] eqn:HS; [|discriminate]. simpl.
    destruct (deposit_loop c issuer m1 r acc1) as [[[m2 r2] acc2]|e] eqn:HL; [|discriminate]. simpl.
    intros H. injection H as <- <- <-.
    apply deposit_step_spec in HS as (Hs & Ha & HA). apply IH in HL as (Hr & Hb & HB).
    assert (E : fullcode m1 = fullcode m) by (destruct HA as ((_ & _ & _ & E & _) & _); exact E).
    rewrite E in Hr. split; [constructor; assumption|]. split.
    + rewrite Hb, Ha. cbn [filter]. destruct (dep_holder c issuer s); cbn [map].
      * rewrite <- app_assoc. reflexivity.
      * now rewrite app_nil_r.
    + change (s :: r) with ([s] ++ r). eapply dmarket_after_trans; eauto.
Qed.

Record deposit_result (c issuer : string) (mk : nat) (z z' : zone) (pre : list sector) (m : sector)
       (post : list sector) (m' : sector) (pre' post' : list sector) : Prop := {
  dr_zone : z = pre ++ m :: post;
  dr_sid : sid m = mk;
  dr_pre : Forall (fun s => sid s <> mk) pre;
  dr_mkt : is_market m = true;
  dr_zone' : z' = pre' ++ m' :: post';
  dr_pre' : Forall2 (fun s s' => deposit_out c issuer (fullcode m) s = Some s') pre pre';
  dr_post' : Forall2 (fun s s' => deposit_out c issuer (fullcode m) s = Some s') post post';
  dr_attrs : same_attrs m m';
  dr_dem : lookup_var (dem_name c) (vars m') =
           Some (mkEqn "" (map (holder_term c) (filter (dep_holder c issuer) (pre ++ post))));
  dr_sup : lookup_var (sup_name c) (vars m') =
           sup_after (dep_issuer issuer) c (pre ++ post) (lookup_var (sup_name c) (vars m));
  dr_other : forall n, n <> dem_name c -> n <> sup_name c -> lookup_var n (vars m') = lookup_var n (vars m)
}.

Theorem deposit_generate_spec c issuer mk z z' :
  deposit_generate c issuer mk z = Ok z' ->
  exists pre m post m' pre' post', deposit_result c issuer mk z z' pre m post m' pre' post'.
Proof.
  unfold deposit_generate. destruct (split_sid mk z) as [[[pre m] post]|] eqn:HS; [|discriminate].
  destruct (is_market m) eqn:HM; [|discriminate]. cbn [negb].
  destruct (deposit_loop c issuer m pre []) as [[[m1 pre'] acc1]|e] eqn:H1; [|discriminate]. simpl.
  destruct (deposit_loop c issuer m1 post acc1) as [[[m2 post'] acc2]|e] eqn:H2; [|discriminate]. simpl.
  intros H. injection H as <-.
  apply deposit_loop_spec in H1 as (F1 & -> & A1). apply deposit_loop_spec in H2 as (F2 & -> & A2).
  assert (E1 : fullcode m1 = fullcode m) by (destruct A1 as ((_ & _ & _ & E & _) & _); exact E).
  rewrite E1 in F2.
  pose proof (dmarket_after_trans _ _ _ _ _ _ _ A1 A2) as (AT & S & O).
  destruct (split_sid_app _ _ _ _ _ HS) as [Hz Hm].
  exists pre, m, post, (def_variable m2 (dem_name c)
     (([] ++ map (holder_term c) (filter (dep_holder c issuer) pre)) ++
      map (holder_term c) (filter (dep_holder c issuer) post))), pre', post'.
  constructor.
  - exact Hz.
  - exact Hm.
  - eapply split_sid_pre; eauto.
  - exact HM.
  - reflexivity.
  - exact F1.
  - exact F2.
  - eapply same_attrs_trans; [exact AT|apply same_attrs_with_vars].
  - rewrite lookup_def_same. simpl. now rewrite filter_app, map_app.
  - rewrite lookup_def_other by (intros E; symmetry in E; now apply sup_dem_neq in E). exact S.
  - intros n Hn1 Hn2. rewrite lookup_def_other by congruence. apply O. exact Hn2.
Qed.

Lemma deposit_result_market c issuer mk z z' pre m post m' pre' post' :
  deposit_result c issuer mk z z' pre m post m' pre' post' ->
  market_at mk z = Some m /\ market_at mk z' = Some m'.
Proof.
  intros R. destruct R. subst z z'. unfold market_at. split.
  - now rewrite split_sid_build.
  - rewrite split_sid_build; [reflexivity| |].
    + clear - dr_pre0 dr_pre'0. induction dr_pre'0 as [|s s' l l' Hs _ IH]; [constructor|].
      inversion dr_pre0 as [|? ? Hn Hr]; subst. constructor; [|now apply IH].
      apply deposit_out_attrs in Hs as (_ & E & _). congruence.
    + destruct dr_attrs0 as (E & _). congruence.
Qed.

Lemma dep_holder_market c issuer m : is_market m = true -> dep_holder c issuer m = false.
Proof. unfold dep_holder. now intros ->. Qed.
Lemma dep_issuer_market issuer m : is_market m = true -> dep_issuer issuer m = false.
Proof. unfold dep_issuer. now intros ->. Qed.

(** every sector of the zone other than the market has its image in the new zone *)
Lemma deposit_result_in c issuer mk z z' pre m post m' pre' post' s :
  deposit_result c issuer mk z z' pre m post m' pre' post' -> List.In s z -> is_market s = false ->
  exists s', List.In s' z' /\ deposit_out c issuer (fullcode m) s = Some s'.
Proof.
  intros R Hin HM. destruct R. subst z z'. apply in_app_or in Hin as [Hin|[->|Hin]].
  - destruct (Forall2_in_l _ _ _ _ dr_pre'0 Hin) as (s' & Hs' & Hp). exists s'. split; [|exact Hp].
    apply in_or_app. now left.
  - congruence.
  - destruct (Forall2_in_l _ _ _ _ dr_post'0 Hin) as (s' & Hs' & Hp). exists s'. split; [|exact Hp].
    apply in_or_app. right. now right.
Qed.

(* ------------------------------------------------------------------ *)
(** * Membership and clearing *)

Theorem deposit_members c issuer mk z z' :
  deposit_generate c issuer mk z = Ok z' ->
  exists m', market_at mk z' = Some m' /\
    lookup_var (dem_name c) (vars m') = Some (mkEqn "" (map (holder_term c) (filter (dep_holder c issuer) z))).
Proof.
  intros H. apply deposit_generate_spec in H as (pre & m & post & m' & pre' & post' & R).
  destruct (deposit_result_market _ _ _ _ _ _ _ _ _ _ _ R) as [_ Hma].
  exists m'. split; [exact Hma|]. destruct R. subst z.
  rewrite filter_zone_market by now apply dep_holder_market. exact dr_dem0.
Qed.

Local Open Scope R_scope.

Theorem deposit_clears c issuer mk z z' :
  deposit_generate c issuer mk z = Ok z' ->
  forall (v : string -> R) (bv : string -> string -> R),
  (forall s', List.In s' z' -> holds v bv s' (dem_name c) /\ holds v bv s' (sup_name c)) ->
  exists m, market_at mk z = Some m /\
    v (fullname m (dem_name c)) = sumR (fun h => v (fullname h (dem_name c))) (filter (dep_holder c issuer) z) /\
    (forall i, List.In i z -> dep_issuer issuer i = true ->
       v (fullname i (sup_name c)) = v (fullname m (dem_name c))) /\
    ((exists i, List.In i z /\ dep_issuer issuer i = true) ->
       v (fullname m (sup_name c)) = v (fullname m (dem_name c))).
Proof.
  intros H v bv Hh. apply deposit_generate_spec in H as (pre & m & post & m' & pre' & post' & R).
  destruct (deposit_result_market _ _ _ _ _ _ _ _ _ _ _ R) as [Hma _].
  exists m. split; [exact Hma|].
  pose proof R as R0. destruct R.
  assert (Hm' : List.In m' z') by (subst z'; apply in_or_app; right; now left).
  assert (Efc : fullcode m' = fullcode m) by (destruct dr_attrs0 as (_ & _ & _ & E & _); exact E).
  assert (Hiss : forall i, List.In i z -> dep_issuer issuer i = true ->
                 v (fullname i (sup_name c)) = v (fullname m (dem_name c))).
  { intros i Hi Hii. unfold dep_issuer in Hii. apply andb_true_iff in Hii as [HMi HCi].
    apply negb_true_iff in HMi.
    destruct (deposit_result_in _ _ _ _ _ _ _ _ _ _ _ _ R0 Hi HMi) as (i' & Hin & Ho).
    destruct (deposit_out_issuer _ _ _ _ _ HMi HCi Ho) as [P Hsup]. destruct P.
    destruct (Hh _ Hin) as [_ Hs]. apply (holds_def _ _ _ _ _ Hsup) in Hs.
    rewrite tsum_in_single, tval_name1_sep in Hs. unfold fullname in *. rewrite pr_fullcode0 in Hs. exact Hs. }
  split; [|split; [exact Hiss|]].
  - destruct (Hh _ Hm') as [Hd _]. apply (holds_def _ _ _ _ _ dr_dem0) in Hd.
    rewrite tsum_holder_terms in Hd. subst z. rewrite filter_zone_market by now apply dep_holder_market.
    unfold fullname in *. rewrite Efc in Hd. exact Hd.
  - intros (i & Hi & Hii). destruct (Hh _ Hm') as [_ Hs].
    destruct (sup_after_cases (dep_issuer issuer) c (pre ++ post) (lookup_var (sup_name c) (vars m)))
      as [[_ Hn]|(j & Hj & Hjj & Hv)].
    + exfalso. subst z. rewrite <- (filter_zone_market _ pre m post) in Hn by now apply dep_issuer_market.
      assert (Hc : List.In i (filter (dep_issuer issuer) (pre ++ m :: post))) by (apply filter_In; now split).
      rewrite Hn in Hc. exact Hc.
    + rewrite <- dr_sup0 in Hv. apply (holds_def _ _ _ _ _ Hv) in Hs.
      rewrite tsum_in_single, tval_name1_full in Hs.
      assert (Hjz : List.In j z).
      { subst z. apply in_app_or in Hj as [Hj|Hj]; apply in_or_app; [now left|right; now right]. }
      rewrite <- (Hiss j Hjz Hjj). unfold fullname in *. rewrite Efc in Hs. exact Hs.
Qed.

(* ------------------------------------------------------------------ *)
(** * What is booked on F and INC *)

Definition F_total (v : string -> R) (z : zone) : R := sumR (fun s => tsum_in v s (F_terms s)) z.
Definition INC_total (v : string -> R) (z : zone) : R := sumR (fun s => tsum_in v s (INC_terms s)) z.

(** the entry the call books on a sector's F: -INT for an issuer, +INT for a holder *)
Definition booked (c issuer : string) (v : string -> R) (s : sector) : R :=
  if dep_issuer issuer s then - v (fullname s (int_name c))
  else if dep_holder c issuer s then v (fullname s (int_name c)) else 0.

(** the entry booked on INC: the same unless INT<code> is an income exclusion of the sector *)
Definition booked_inc (c issuer : string) (v : string -> R) (s : sector) : R :=
  if mem (int_name c) (excl s) then 0 else booked c issuer v s.

Lemma tval_int v s c k :
  has_substring "__" (int_name c) = false ->
  tval_in v s (k, [int_name c]) = IZR k * v (fullname s (int_name c)).
Proof. intros H. unfold tval_in. cbn [fst snd fval_in]. rewrite (qualify_local _ _ H). lra. Qed.

Lemma deposit_out_booked c issuer mfull s s' v :
  has_substring "__" (int_name c) = false ->
  deposit_out c issuer mfull s = Some s' ->
  tsum_in v s' (F_terms s') = tsum_in v s (F_terms s) + booked c issuer v s /\
  tsum_in v s' (INC_terms s') = tsum_in v s (INC_terms s) + booked_inc c issuer v s.
Proof.
  intros Hc H. unfold booked_inc, booked.
  destruct (dep_issuer issuer s) eqn:HI.
  - unfold dep_issuer in HI. apply andb_true_iff in HI as [HM HC]. apply negb_true_iff in HM.
    destruct (deposit_out_issuer _ _ _ _ _ HM HC H) as [P _]. destruct P.
    destruct pr_F0 as (eF & E1 & E2). split.
    + rewrite (tsum_F_terms_add v s s' _ eF pr_fullcode0 E1 E2), tval_int by exact Hc. lra.
    + destruct (mem (int_name c) (excl s)); cbn [negb] in pr_INC0.
      * unfold INC_terms. rewrite pr_INC0. rewrite (tsum_in_attrs v s s' _ pr_fullcode0). lra.
      * destruct pr_INC0 as (eI & I1 & I2).
        rewrite (tsum_INC_terms_add v s s' _ eI pr_fullcode0 I1 I2), tval_int by exact Hc. lra.
  - destruct (dep_holder c issuer s) eqn:HH.
    + unfold dep_holder in HH. apply andb_true_iff in HH as [HH HD]. apply andb_true_iff in HH as [HM HC].
      apply negb_true_iff in HM, HC.
      destruct (deposit_out_holder _ _ _ _ _ HM HC HD H). destruct pr_F0 as (eF & E1 & E2). split.
      * rewrite (tsum_F_terms_add v s s' _ eF pr_fullcode0 E1 E2), tval_int by exact Hc. lra.
      * destruct (mem (int_name c) (excl s)); cbn [negb] in pr_INC0.
        -- unfold INC_terms. rewrite pr_INC0. rewrite (tsum_in_attrs v s s' _ pr_fullcode0). lra.
        -- destruct pr_INC0 as (eI & I1 & I2).
           rewrite (tsum_INC_terms_add v s s' _ eI pr_fullcode0 I1 I2), tval_int by exact Hc. lra.
    + rewrite (deposit_out_other _ _ _ _ HI HH) in H. injection H as <-.
      destruct (mem (int_name c) (excl s)); split; lra.
Qed.

Lemma booked_market c issuer v m : is_market m = true -> booked c issuer v m = 0.
Proof. intros H. unfold booked. now rewrite (dep_issuer_market _ _ H), (dep_holder_market _ _ _ H). Qed.

(** For every zone and every valuation: the call changes the sum of the right-hand sides of the
    zone's F equations by exactly the booked interest entries (and likewise INC). *)
Theorem deposit_booked c issuer mk z z' v :
  deposit_generate c issuer mk z = Ok z' -> has_substring "__" (int_name c) = false ->
  F_total v z' = F_total v z + sumR (booked c issuer v) z /\
  INC_total v z' = INC_total v z + sumR (booked_inc c issuer v) z.
Proof.
  intros H Hc. apply deposit_generate_spec in H as (pre & m & post & m' & pre' & post' & R). destruct R.
  subst z z'. unfold F_total, INC_total. rewrite !sumR_app. cbn [sumR].
  assert (Efc : fullcode m' = fullcode m) by (destruct dr_attrs0 as (_ & _ & _ & E & _); exact E).
  assert (EF : tsum_in v m' (F_terms m') = tsum_in v m (F_terms m)).
  { unfold F_terms. rewrite dr_other0 by nn. apply tsum_in_attrs. exact Efc. }
  assert (EI : tsum_in v m' (INC_terms m') = tsum_in v m (INC_terms m)).
  { unfold INC_terms. rewrite dr_other0 by nn. apply tsum_in_attrs. exact Efc. }
  assert (B0 : booked c issuer v m = 0) by now apply booked_market.
  assert (B1 : booked_inc c issuer v m = 0) by (unfold booked_inc; rewrite B0; now destruct (mem _ _)).
  split.
  - rewrite (sumR_Forall2 _ (fun s => tsum_in v s (F_terms s)) _ (booked c issuer v) _ _ dr_pre'0)
      by (intros s s' Hs; now apply (deposit_out_booked _ _ _ _ _ v Hc Hs)).
    rewrite (sumR_Forall2 _ (fun s => tsum_in v s (F_terms s)) _ (booked c issuer v) _ _ dr_post'0)
      by (intros s s' Hs; now apply (deposit_out_booked _ _ _ _ _ v Hc Hs)).
    rewrite EF, B0. lra.
  - rewrite (sumR_Forall2 _ (fun s => tsum_in v s (INC_terms s)) _ (booked_inc c issuer v) _ _ dr_pre'0)
      by (intros s s' Hs; now apply (deposit_out_booked _ _ _ _ _ v Hc Hs)).
    rewrite (sumR_Forall2 _ (fun s => tsum_in v s (INC_terms s)) _ (booked_inc c issuer v) _ _ dr_post'0)
      by (intros s s' Hs; now apply (deposit_out_booked _ _ _ _ _ v Hc Hs)).
    rewrite EI, B1. lra.
Qed.

Lemma sumR_booked c issuer v l :
  sumR (booked c issuer v) l =
  - sumR (fun i => v (fullname i (int_name c))) (filter (dep_issuer issuer) l)
  + sumR (fun h => v (fullname h (int_name c))) (filter (dep_holder c issuer) l).
Proof.
  induction l as [|s l IH]; simpl; [lra|]. rewrite IH. unfold booked.
  assert (X : dep_issuer issuer s = true -> dep_holder c issuer s = false).
  { unfold dep_issuer, dep_holder. intros H. apply andb_true_iff in H as [-> ->]. reflexivity. }
  destruct (dep_issuer issuer s) eqn:HI.
  - rewrite (X eq_refl). simpl. lra.
  - destruct (dep_holder c issuer s); simpl; lra.
Qed.

(* ------------------------------------------------------------------ *)
(** * The interest group lemma *)

Definition lag_link (v vprev : string -> R) (lags : list (string * string)) : Prop :=
  forall l src, List.In (l, src) lags -> v l = vprev src.

Definition dep_part (c issuer : string) (s : sector) : bool := dep_issuer issuer s || dep_holder c issuer s.

Lemma deposit_lags_issuer c issuer z i :
  List.In i z -> dep_issuer issuer i = true ->
  List.In (fullname i (lag_sup_name c), fullname i (sup_name c)) (deposit_lags c issuer z).
Proof.
  intros Hi Hii. unfold deposit_lags. apply in_flat_map. exists i. split; [exact Hi|].
  unfold dep_issuer in Hii. apply andb_true_iff in Hii as [HM HC]. apply negb_true_iff in HM.
  rewrite HM, HC. now left.
Qed.

Lemma deposit_lags_holder c issuer z h :
  List.In h z -> dep_holder c issuer h = true ->
  List.In (fullname h (lag_dem_name c), fullname h (dem_name c)) (deposit_lags c issuer z).
Proof.
  intros Hi Hh. unfold deposit_lags. apply in_flat_map. exists h. split; [exact Hi|].
  unfold dep_holder in Hh. apply andb_true_iff in Hh as [Hh HD]. apply andb_true_iff in Hh as [HM HC].
  apply negb_true_iff in HM, HC. rewrite HM, HC, HD. now left.
Qed.

Lemma tsum_int_def v s mfull stock :
  tsum_in v s (int_def mfull (fullname s stock)) = v (mfull ++ "__" ++ "LAG_r")%string * v (fullname s stock).
Proof.
  unfold int_def. rewrite tsum_in_single. unfold tval_in. cbn [fst snd fval_in].
  rewrite qualify_sep, qualify_fullname. lra.
Qed.

Theorem deposit_interest_cancels c issuer mk z z' :
  deposit_generate c issuer mk z = Ok z' ->
  has_substring "__" (int_name c) = false ->
  forall i, filter (dep_issuer issuer) z = [i] ->
  (forall s, List.In s z -> dep_part c issuer s = true -> int_fresh c s = true) ->
  forall (v vprev : string -> R) (bv bvp : string -> string -> R),
  lag_link v vprev (deposit_lags c issuer z) ->
  (* last period's stocks were consistent: vprev satisfies the clearing equations the call installs *)
  (forall s', List.In s' z' -> (dep_issuer issuer s' = true -> holds vprev bvp s' (sup_name c)) /\
                               (sid s' = mk -> holds vprev bvp s' (dem_name c))) ->
  (* the current valuation satisfies the interest definitions the call installs *)
  (forall s', List.In s' z' -> dep_part c issuer s' = true -> holds v bv s' (int_name c)) ->
  sumR (booked c issuer v) z = 0 /\
  - v (fullname i (int_name c)) + sumR (fun h => v (fullname h (int_name c))) (filter (dep_holder c issuer) z) = 0 /\
  F_total v z' = F_total v z.
Proof.
  intros H Hc i Hone Hfresh v vprev bv bvp Hlag Hprev Hint.
  pose proof (deposit_booked _ _ _ _ _ v H Hc) as [HB _].
  apply deposit_generate_spec in H as (pre & m & post & m' & pre' & post' & R).
  pose proof R as R0. destruct R.
  assert (Hm' : List.In m' z') by (subst z'; apply in_or_app; right; now left).
  assert (Efc : fullcode m' = fullcode m) by (destruct dr_attrs0 as (_ & _ & _ & E & _); exact E).
  assert (Esid : sid m' = mk) by (destruct dr_attrs0 as (E & _); congruence).
  set (r := v (fullcode m ++ "__" ++ "LAG_r")%string).
  (* the issuer *)
  assert (Hiz : List.In i z /\ dep_issuer issuer i = true).
  { apply filter_In. rewrite Hone. now left. }
  destruct Hiz as [Hiz Hii].
  (* value of the market's demand last period *)
  assert (HD : vprev (fullname m (dem_name c)) =
               sumR (fun h => vprev (fullname h (dem_name c))) (filter (dep_holder c issuer) z)).
  { destruct (Hprev _ Hm') as [_ Hd]. specialize (Hd Esid). apply (holds_def _ _ _ _ _ dr_dem0) in Hd.
    rewrite tsum_holder_terms in Hd. subst z. rewrite filter_zone_market by now apply dep_holder_market.
    unfold fullname in *. rewrite Efc in Hd. exact Hd. }
  (* the issuer's interest *)
  assert (HI : v (fullname i (int_name c)) = r * vprev (fullname m (dem_name c))).
  { pose proof Hii as Hii0. unfold dep_issuer in Hii. apply andb_true_iff in Hii as [HMi HCi]. apply negb_true_iff in HMi.
    destruct (deposit_result_in _ _ _ _ _ _ _ _ _ _ _ _ R0 Hiz HMi) as (i' & Hin & Ho).
    destruct (deposit_out_issuer _ _ _ _ _ HMi HCi Ho) as [P Hsup]. destruct P.
    assert (Hi'iss : dep_issuer issuer i' = true) by (unfold dep_issuer; now rewrite pr_market0, pr_code0, HMi, HCi).
    assert (Hi'part : dep_part c issuer i' = true) by (unfold dep_part; now rewrite Hi'iss).
    assert (Hfr : int_fresh c i = true) by (apply Hfresh; [exact Hiz|unfold dep_part; now rewrite Hii0]).
    pose proof (Hint _ Hin Hi'part) as Hv. apply (holds_def _ _ _ _ _ (pr_int0 Hfr)) in Hv.
    unfold fullname in Hv at 1. rewrite pr_fullcode0 in Hv.
    assert (Ei : tsum_in v i' (int_def (fullcode m) (fullname i (lag_sup_name c))) =
                 r * v (fullname i (lag_sup_name c))).
    { rewrite (tsum_in_attrs v i i' _ pr_fullcode0). apply tsum_int_def. }
    rewrite Ei in Hv. rewrite (Hlag _ _ (deposit_lags_issuer c issuer z i Hiz Hii0)) in Hv.
    destruct (Hprev _ Hin) as [Hs _]. specialize (Hs Hi'iss). apply (holds_def _ _ _ _ _ Hsup) in Hs.
    rewrite tsum_in_single, tval_name1_sep in Hs. unfold fullname in Hs at 1. rewrite pr_fullcode0 in Hs.
    unfold fullname at 1. rewrite Hv. unfold fullname at 1. rewrite Hs. reflexivity. }
  (* the holders' interest *)
  assert (HH : sumR (fun h => v (fullname h (int_name c))) (filter (dep_holder c issuer) z) =
               r * sumR (fun h => vprev (fullname h (dem_name c))) (filter (dep_holder c issuer) z)).
  { rewrite <- sumR_scal. apply sumR_ext. intros h Hh. apply filter_In in Hh as [Hhz Hhh].
    pose proof Hhh as Hhh0. unfold dep_holder in Hhh. apply andb_true_iff in Hhh as [Hhh HDh].
    apply andb_true_iff in Hhh as [HMh HCh]. apply negb_true_iff in HMh, HCh.
    destruct (deposit_result_in _ _ _ _ _ _ _ _ _ _ _ _ R0 Hhz HMh) as (h' & Hin & Ho).
    destruct (deposit_out_holder _ _ _ _ _ HMh HCh HDh Ho).
    assert (Hh'part : dep_part c issuer h' = true).
    { unfold dep_part, dep_holder, has_var. rewrite pr_market0, pr_code0, pr_dem0, HMh, HCh.
      unfold has_var in HDh. rewrite HDh. apply orb_true_r. }
    assert (Hfr : int_fresh c h = true) by (apply Hfresh; [exact Hhz|unfold dep_part; rewrite Hhh0; apply orb_true_r]).
    pose proof (Hint _ Hin Hh'part) as Hv. apply (holds_def _ _ _ _ _ (pr_int0 Hfr)) in Hv.
    unfold fullname in Hv at 1. rewrite pr_fullcode0 in Hv.
    rewrite (tsum_in_attrs v h h' _ pr_fullcode0), tsum_int_def in Hv.
    rewrite (Hlag _ _ (deposit_lags_holder c issuer z h Hhz Hhh0)) in Hv.
    unfold fullname at 1. exact Hv. }
  assert (Z0 : - v (fullname i (int_name c)) +
               sumR (fun h => v (fullname h (int_name c))) (filter (dep_holder c issuer) z) = 0).
  { rewrite HI, HH, HD. lra. }
  assert (Z1 : sumR (booked c issuer v) z = 0).
  { rewrite sumR_booked, Hone. cbn [sumR]. lra. }
  split; [exact Z1|]. split; [exact Z0|]. rewrite HB, Z1. lra.
Qed.

(** the lag texts the call installs are those of [deposit_lags] *)
Theorem deposit_lag_installed c issuer mk z z' s :
  deposit_generate c issuer mk z = Ok z' -> List.In s z -> dep_part c issuer s = true ->
  exists s' lagname src, List.In s' z' /\ fullcode s' = fullcode s /\
    List.In (fullname s lagname, src) (deposit_lags c issuer z) /\
    lookup_var lagname (vars s') = Some (mkEqn (lag_text src) []).
Proof.
  intros H Hs Hp. apply deposit_generate_spec in H as (pre & m & post & m' & pre' & post' & R).
  unfold dep_part in Hp. destruct (dep_issuer issuer s) eqn:HI.
  - pose proof HI as HI0. unfold dep_issuer in HI. apply andb_true_iff in HI as [HM HC]. apply negb_true_iff in HM.
    destruct (deposit_result_in _ _ _ _ _ _ _ _ _ _ _ _ R Hs HM) as (s' & Hin & Ho).
    destruct (deposit_out_issuer _ _ _ _ _ HM HC Ho) as [P _]. destruct P.
    exists s', (lag_sup_name c), (fullname s (sup_name c)). repeat split; try assumption.
    now apply deposit_lags_issuer.
  - simpl in Hp. pose proof Hp as HH0. unfold dep_holder in Hp. apply andb_true_iff in Hp as [Hp HD].
    apply andb_true_iff in Hp as [HM HC]. apply negb_true_iff in HM, HC.
    destruct (deposit_result_in _ _ _ _ _ _ _ _ _ _ _ _ R Hs HM) as (s' & Hin & Ho).
    destruct (deposit_out_holder _ _ _ _ _ HM HC HD Ho).
    exists s', (lag_dem_name c), (fullname s (dem_name c)). repeat split; try assumption.
    now apply deposit_lags_holder.
Qed.

(** With the single-issuer check (proposed fix D22) success itself gives the issuer. *)
Lemma length_one {A} (l : list A) : List.length l = 1%nat -> exists a, l = [a].
Proof. destruct l as [|a [|b l]]; simpl; try discriminate. intros _. now exists a. Qed.

Lemma deposit_generate_checked_ok c issuer mk z z' :
  deposit_generate_checked c issuer mk z = Ok z' ->
  deposit_generate c issuer mk z = Ok z' /\ exists i, filter (dep_issuer issuer) z = [i].
Proof.
  unfold deposit_generate_checked. destruct (split_sid mk z) as [[[pre m] post]|]; [|discriminate].
  destruct (negb (is_market m)); [discriminate|].
  destruct (Nat.eqb (List.length (filter (dep_issuer issuer) z)) 1) eqn:E; [|discriminate].
  intros H. split; [exact H|]. apply length_one. now apply PeanoNat.Nat.eqb_eq.
Qed.

Theorem deposit_interest_cancels_checked c issuer mk z z' :
  deposit_generate_checked c issuer mk z = Ok z' ->
  has_substring "__" (int_name c) = false ->
  (forall s, List.In s z -> dep_part c issuer s = true -> int_fresh c s = true) ->
  forall (v vprev : string -> R) (bv bvp : string -> string -> R),
  lag_link v vprev (deposit_lags c issuer z) ->
  (forall s', List.In s' z' -> (dep_issuer issuer s' = true -> holds vprev bvp s' (sup_name c)) /\
                               (sid s' = mk -> holds vprev bvp s' (dem_name c))) ->
  (forall s', List.In s' z' -> dep_part c issuer s' = true -> holds v bv s' (int_name c)) ->
  sumR (booked c issuer v) z = 0 /\ F_total v z' = F_total v z.
Proof.
  intros H Hc Hf v vprev bv bvp Hl Hp Hi. apply deposit_generate_checked_ok in H as [H (i & Hone)].
  destruct (deposit_interest_cancels _ _ _ _ _ H Hc i Hone Hf v vprev bv bvp Hl Hp Hi) as (A & _ & B).
  now split.
Qed.
