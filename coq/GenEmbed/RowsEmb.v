(** _CreateFinalEquations commutes with the embedding of an economy: rendering (Term.__str__ /
    Equation.GetRightHandSide), qualification of local names (RowsScan.v), classification of the
    row text (RowsClass.v), the row of a variable, and the rows of a sector up to the re-sorting by
    the new names.  The side condition [text_ok] is defined in RowsDefs.v.

    Proof structure and the sorting lemmas are adapted from GenRename/RowEq.v (piecewise renamings;
    GenRename is not a dependency of this family). *)
From Coq Require Import List String Ascii Bool ZArith Arith Lia Permutation Sorted DecimalString.
From SFC.Base Require Import Res Str Sorting.
From SFC.Gen Require Import Fx Zone.
From SFC.GenMain2 Require Import Program Classes Main.
From SFC.GenEmbed Require Import EmbDefs JointDefs Laws Good ZoneEmb TokenMap PrefixLaws RowsDefs RowsScan RowsClass.
Import ListNotations.
Local Open Scope string_scope.

(* ------------------------------------------------------------------ *)
(** * Numbers *)

Definition numch (c : ascii) : bool := is_digit c || Ascii.eqb c "."%char || Ascii.eqb c "-"%char || Ascii.eqb c "+"%char.
Fixpoint numeric (s : string) : bool := match s with EmptyString => true | String c r => numch c && numeric r end.

Lemma numeric_app a b : numeric (a ++ b) = numeric a && numeric b.
Proof. induction a as [|c a IH]; simpl; [reflexivity|]. now rewrite IH, andb_assoc. Qed.

Lemma uint_numeric d : numeric (NilEmpty.string_of_uint d) = true.
Proof. induction d; simpl; auto. Qed.

Lemma zstr_numeric z : numeric (zstr z) = true.
Proof.
  unfold zstr, NilZero.string_of_int. destruct (Z.to_int z) as [d|d]; unfold NilZero.string_of_uint.
  - destruct d; try reflexivity; apply (uint_numeric (_ d)).
  - simpl. destruct d; try reflexivity; apply (uint_numeric (_ d)).
Qed.

Lemma zstr_neg z : (z < 0)%Z -> exists rest, zstr z = String "-"%char rest.
Proof. destruct z; try discriminate. intros _. unfold zstr. simpl. eauto. Qed.

Lemma alpha_not_numch c : is_alpha c = true -> numch c = false.
Proof. destruct c as [[] [] [] [] [] [] [] []]; vm_compute; intros H; (reflexivity || discriminate H). Qed.

(** no identifier in a number: every token map copies it *)
Lemma tmap_numeric f s : numeric s = true -> tmap f s = s.
Proof.
  apply (tmap_fix (fun x => numeric x = true)).
  - intros a b H. rewrite numeric_app in H. now apply andb_true_iff in H.
  - intros a b H. rewrite numeric_app in H. now apply andb_true_iff in H.
  - intros x H _ Hh. exfalso. destruct x as [|c x]; [discriminate|]. simpl in H, Hh.
    apply andb_true_iff in H as [H _]. rewrite (alpha_not_numch c Hh) in H. discriminate.
Qed.

Definition strip_plus (s : string) : string := match s with String "+"%char r => r | _ => s end.

Lemma strip_plus_cons c r : strip_plus (String c r) = if Ascii.eqb c "+"%char then r else String c r.
Proof. destruct c as [[] [] [] [] [] [] [] []]; reflexivity. Qed.

(* ------------------------------------------------------------------ *)
(** * Sorting (copied from GenRename/RowEq.v) *)

Lemma leb_antisym a b : String.leb a b = true -> String.leb b a = true -> a = b.
Proof.
  unfold String.leb. intros H1 H2. destruct (String.compare a b) eqn:E.
  - now apply String.compare_eq_iff.
  - rewrite String.compare_antisym, E in H2. simpl in H2. discriminate.
  - discriminate.
Qed.

Lemma leb_false_total a b : String.leb a b = false -> String.leb b a = true.
Proof. intros H. destruct (String.leb_total a b) as [H1|H1]; [congruence|exact H1]. Qed.

Lemma insert_comm x y l : insert x (insert y l) = insert y (insert x l).
Proof.
  induction l as [|z l IH]; simpl.
  - destruct (String.leb x y) eqn:Exy, (String.leb y x) eqn:Eyx; try reflexivity.
    + now rewrite (leb_antisym x y Exy Eyx).
    + apply leb_false_total in Exy. congruence.
  - destruct (String.leb y z) eqn:Eyz, (String.leb x z) eqn:Exz; simpl.
    + destruct (String.leb x y) eqn:Exy, (String.leb y x) eqn:Eyx; try rewrite Exz; try rewrite Eyz; try reflexivity.
      * now rewrite (leb_antisym x y Exy Eyx).
      * apply leb_false_total in Exy. congruence.
    + rewrite Eyz. destruct (String.leb x y) eqn:Exy; [|now rewrite Exz].
      rewrite (leb_trans x y z Exy Eyz) in Exz. discriminate.
    + rewrite Exz. destruct (String.leb y x) eqn:Eyx; [|now rewrite Eyz].
      rewrite (leb_trans y x z Eyx Exz) in Eyz. discriminate.
    + rewrite Exz, Eyz. now rewrite IH.
Qed.

Lemma sort_perm_eq l l' : Permutation l l' -> sort l = sort l'.
Proof.
  induction 1; simpl; [reflexivity|now rewrite IHPermutation|apply insert_comm|congruence].
Qed.

Lemma compare_app p a b : String.compare (p ++ a) (p ++ b) = String.compare a b.
Proof. induction p as [|c p IH]; simpl; [reflexivity|]. now rewrite ascii_compare_refl. Qed.

Lemma leb_app p a b : String.leb (p ++ a) (p ++ b) = String.leb a b.
Proof. unfold String.leb. now rewrite compare_app. Qed.

Lemma sort_rows_map (h : string -> row) l :
  (forall a b, String.leb (r_lhs (h a)) (r_lhs (h b)) = String.leb a b) ->
  sort_rows (map h l) = map h (sort l).
Proof.
  intros Hh. induction l as [|x l IH]; simpl; [reflexivity|]. rewrite IH.
  generalize (sort l). intros m. induction m as [|y m IHm]; simpl; [reflexivity|].
  rewrite Hh. destruct (String.leb x y); simpl; [reflexivity|now rewrite IHm].
Qed.

Lemma nodup_map_inj (h : string -> string) l : (forall a b, h a = h b -> a = b) ->
  nodup string_dec (map h l) = map h (nodup string_dec l).
Proof.
  intros Hinj. induction l as [|x l IH]; simpl; [reflexivity|].
  destruct (in_dec string_dec x l) as [Hin|Hn]; destruct (in_dec string_dec (h x) (map h l)) as [Hin'|Hn'].
  - exact IH.
  - exfalso. apply Hn'. now apply in_map.
  - exfalso. apply Hn. apply in_map_iff in Hin' as (y & Hy & Hin). apply Hinj in Hy. now subst.
  - simpl. now rewrite IH.
Qed.

Lemma keys_has s n : List.In n (keys s) -> has_var s n = true.
Proof.
  unfold keys. rewrite nodup_In. intros H. apply in_map_iff in H as ([k e] & <- & Hin). unfold has_var.
  cbn [fst]. induction (vars s) as [|[k' e'] vs IH]; [contradiction|]. simpl.
  destruct (String.eqb_spec k k'); [reflexivity|]. destruct Hin as [Hin|Hin]; [congruence|now apply IH].
Qed.

(** insertion sort leaves a sorted list alone *)
Lemma sort_sorted_id l : Sorted sle l -> sort l = l.
Proof.
  induction 1 as [|x l Hs IH Hd]; [reflexivity|]. cbn [sort]. rewrite IH.
  destruct Hd as [|y l Hxy]; [reflexivity|]. cbn [insert]. unfold sle in Hxy. now rewrite Hxy.
Qed.

Lemma sort_idem l : sort (sort l) = sort l.
Proof. apply sort_sorted_id, sort_sorted. Qed.

(** the rows of a sector are sorted by their left-hand sides *)
Lemma sector_rows_sorted s : sort_rows (sector_rows s) = sector_rows s.
Proof.
  unfold sector_rows. rewrite sort_rows_map; [now rewrite sort_idem|].
  intros a b. unfold var_row. cbn [r_lhs]. now rewrite !leb_app.
Qed.

(* ------------------------------------------------------------------ *)
(** * Lookups *)

Lemma lookup_In n (vs : list (string * eqn)) e : lookup_var n vs = Some e -> List.In (n, e) vs.
Proof.
  induction vs as [|[k e'] vs IH]; [discriminate|]. cbn [lookup_var].
  destruct (String.eqb_spec n k) as [->|]; [intros [= ->]; now left|intros H; right; auto].
Qed.

Lemma lookup_none_dd (vs : list (string * eqn)) a :
  (forall ke, List.In ke vs -> has_substring "__" (fst ke) = false) -> has_substring "__" a = true ->
  lookup_var a vs = None.
Proof.
  intros Hk Ha. induction vs as [|[k e] vs IH]; [reflexivity|]. cbn [lookup_var].
  destruct (String.eqb_spec a k) as [->|].
  - exfalso. specialize (Hk (k, e) (or_introl eq_refl)). cbn [fst] in Hk. congruence.
  - apply IH. intros ke Hin. apply Hk. now right.
Qed.

(* ------------------------------------------------------------------ *)
(** * The word EXOGENOUS and '_' *)

Lemma prefix_us w : no_us w = true -> forall a b, String.prefix w (a ++ String "_"%char b) = String.prefix w a.
Proof.
  induction w as [|d w IH]; intros Hw a b; [destruct a; reflexivity|].
  simpl in Hw. apply andb_true_iff in Hw as [Hd Hw]. apply negb_true_iff in Hd.
  destruct a as [|e a]; cbn [append String.prefix].
  - destruct (ascii_dec d "_"%char) as [->|]; [discriminate Hd|reflexivity].
  - destruct (ascii_dec d e); [now apply IH|reflexivity].
Qed.

Lemma has_us w a b : no_us w = true ->
  has_substring w (a ++ String "_"%char b) = has_substring w a || has_substring w b.
Proof.
  intros Hw. induction a as [|c a IH].
  - cbn [append has_substring]. pose proof (prefix_us w Hw "" b) as E. cbn [append] in E. rewrite E.
    destruct (String.prefix w ""); reflexivity.
  - cbn [append has_substring]. change (String c (a ++ String "_"%char b)) with (String c a ++ String "_"%char b).
    rewrite (prefix_us w Hw). destruct (String.prefix w (String c a)); [reflexivity|exact IH].
Qed.

(* ------------------------------------------------------------------ *)
(** * The country-prefix maps *)

Section Prefix.
Variable cc : string.
Variable mkc : string -> bool.
Variable off : nat.
Hypothesis Hcc : cleancc cc = true.
Hypothesis Hmk : mkc_ok cc mkc.

Local Notation M := (pmap cc mkc off).
Local Notation L := (Lp cc mkc).
Local Notation T := (fun b => tmap (Lp cc mkc b)).
Local Notation Nm := (Nmp cc mkc).

Let Hok := pmap_ok cc mkc off Hcc Hmk.

Lemma L_id b x : all_id x = true -> head_alpha x = true -> all_id (L b x) = true.
Proof. intros H _. now apply Lp_all_id. Qed.
Lemma L_hd b x : all_id x = true -> head_alpha x = true -> head_alpha (L b x) = true.
Proof. intros _ H. now apply Lp_head. Qed.
Lemma L_inj b x y : all_id x = true -> head_alpha x = true -> all_id y = true -> head_alpha y = true ->
  L b x = L b y -> x = y.
Proof. intros _ _ _ _. now apply Lp_inj. Qed.

Lemma L_fixb b x : fixb x = true -> L b x = x.
Proof.
  unfold fixb. intros H. apply andb_true_iff in H as [H1 H2]. apply negb_true_iff in H1, H2. now apply Lp_fix.
Qed.

Lemma has_EXO_Nm x : has_substring EXO cc = false -> has_substring EXO x = false -> has_substring EXO (Nm x) = false.
Proof.
  intros Hc Hx. destruct (Nmp_cases cc mkc x) as [[E _]|(X & -> & _ & E)]; rewrite E; [exact Hx|].
  change ("SUP_" ++ cc ++ "_" ++ X) with ("SUP" ++ String "_"%char (cc ++ String "_"%char X)).
  rewrite !has_us by reflexivity. rewrite Hc. change (has_substring EXO "SUP") with false. cbn [orb].
  now apply (no_sub_app_r EXO "SUP_" X).
Qed.

Lemma has_EXO_L b x : has_substring EXO cc = false -> has_substring EXO x = false -> has_substring EXO (L b x) = false.
Proof.
  intros Hc Hx. unfold Lp. destruct (has_substring "__" x) eqn:D.
  - destruct (dd_form x D) as (A & B & -> & HA). rewrite mup_full by exact HA.
    pose proof (no_sub_app_l EXO _ _ Hx) as HxA. pose proof (no_sub_app_r EXO "__" B (no_sub_app_r EXO _ _ Hx)) as HxB.
    set (B' := if mkc A then Nm B else B).
    assert (HB' : has_substring EXO B' = false) by (unfold B'; destruct (mkc A); [now apply has_EXO_Nm|exact HxB]).
    unfold FCp. rewrite !append_assoc.
    change (cc ++ "_" ++ A ++ "__" ++ B') with (cc ++ String "_"%char (A ++ String "_"%char ("" ++ String "_"%char B'))).
    rewrite !has_us by reflexivity. rewrite Hc, HxA, HB'. reflexivity.
  - destruct b; [now apply has_EXO_Nm|exact Hx].
Qed.

(** ** Rendering *)

Lemma T_factor b x : factor_ok x = true -> T b x = L b x.
Proof.
  unfold factor_ok. intros H. apply andb_true_iff in H as [H1 H2]. cbv beta. rewrite tmap_run by exact H1.
  destruct (head_alpha x) eqn:E; [now apply emit_alpha|]. rewrite emit_num by exact E.
  simpl in H2. apply negb_true_iff in H2. symmetry. apply Lp_fix; [exact H2|].
  destruct (String.prefix "SUP_" x) eqn:P; [|reflexivity]. apply prefix_split in P. rewrite P in E. discriminate E.
Qed.

Lemma T_concat b fs : forallb factor_ok fs = true -> T b (String.concat "*" fs) = String.concat "*" (map (L b) fs).
Proof.
  induction fs as [|x fs IH]; [reflexivity|]. intros H. cbn [forallb] in H. apply andb_true_iff in H as [H1 H2].
  destruct fs as [|y fs]; [now apply T_factor|].
  change (String.concat "*" (x :: y :: fs)) with (x ++ String "*"%char (String.concat "*" (y :: fs))).
  change (String.concat "*" (map (L b) (x :: y :: fs))) with (L b x ++ String "*"%char (String.concat "*" (map (L b) (y :: fs)))).
  cbv beta. rewrite tmap_sep by reflexivity. f_equal; [now apply T_factor|]. f_equal. now apply IH.
Qed.

Lemma T_num_star b n X : numeric n = true -> T b (n ++ String "*"%char X) = n ++ String "*"%char (T b X).
Proof. intros H. cbv beta. rewrite tmap_sep by reflexivity. now rewrite tmap_numeric. Qed.

Lemma render_term_emb b t : term_ok t = true -> T b (render_term t) = render_term (emb_term M b t).
Proof.
  destruct t as [c fs]. unfold render_term, emb_term, term_ok. cbn [fst snd e_L pmap].
  destruct (Z.eqb c 0); [reflexivity|]. cbn [orb]. intros H.
  destruct fs as [|x fs]; cbn [map].
  - apply tmap_numeric. rewrite !numeric_app, zstr_numeric. now destruct (Z.ltb 0 c).
  - set (fs' := x :: fs) in *. change (L b x :: map (L b) fs) with (map (L b) fs').
    rewrite <- (T_concat b fs' H). set (X := String.concat "*" fs'). cbv beta.
    destruct (Z.eqb c 1); [cbn [append]; now rewrite tmap_cons by reflexivity|].
    destruct (Z.eqb c (-1)); [cbn [append]; now rewrite tmap_cons by reflexivity|].
    assert (HN : tmap (L b) (zstr c ++ ".0*" ++ X) = zstr c ++ ".0*" ++ tmap (L b) X).
    { change (zstr c ++ ".0*" ++ X) with (zstr c ++ (".0" ++ String "*"%char X)).
      change (zstr c ++ ".0*" ++ tmap (L b) X) with (zstr c ++ (".0" ++ String "*"%char (tmap (L b) X))).
      rewrite <- !append_assoc. apply (T_num_star b). now rewrite numeric_app, zstr_numeric. }
    destruct (Z.ltb 0 c); [|exact HN].
    cbn [append]. rewrite tmap_cons by reflexivity. f_equal. exact HN.
Qed.

Lemma render_term_starts t : sep_start (render_term t) = true.
Proof.
  destruct t as [c fs]. unfold render_term. cbn [fst snd].
  destruct (Z.eqb_spec c 0); [reflexivity|].
  assert (HZ : sep_start ((if Z.ltb 0 c then "+" else "") ++ zstr c ++ ".0") = true /\
               forall y, (Z.ltb 0 c = false -> sep_start (zstr c ++ y) = true)).
  { destruct (Z.ltb_spec 0 c); [split; [reflexivity|discriminate]|].
    destruct (zstr_neg c ltac:(lia)) as (rest & ->). split; [reflexivity|]. intros; reflexivity. }
  destruct HZ as [H1 H2]. destruct fs as [|x fs]; [exact H1|].
  destruct (Z.eqb c 1); [reflexivity|]. destruct (Z.eqb c (-1)); [reflexivity|].
  destruct (Z.ltb 0 c) eqn:El; [reflexivity|]. now apply H2.
Qed.

Lemma sep_start_app a b : sep_start a = true -> sep_start b = true -> sep_start (a ++ b) = true.
Proof. destruct a; simpl; auto. Qed.

Lemma concat_terms_starts ts : sep_start (String.concat "" (map render_term ts)) = true.
Proof.
  induction ts as [|t ts IH]; [reflexivity|]. cbn [map]. destruct ts as [|t2 ts]; [apply render_term_starts|].
  change (String.concat "" (render_term t :: map render_term (t2 :: ts)))
    with (render_term t ++ "" ++ String.concat "" (map render_term (t2 :: ts))).
  apply sep_start_app; [apply render_term_starts|exact IH].
Qed.

Lemma concat_terms_emb b ts : forallb term_ok ts = true ->
  T b (String.concat "" (map render_term ts)) = String.concat "" (map render_term (map (emb_term M b) ts)).
Proof.
  induction ts as [|t ts IH]; [reflexivity|]. intros H. cbn [forallb] in H. apply andb_true_iff in H as [H1 H2].
  cbn [map]. destruct ts as [|t2 ts]; [now apply render_term_emb|].
  change (String.concat "" (render_term t :: map render_term (t2 :: ts)))
    with (render_term t ++ "" ++ String.concat "" (map render_term (t2 :: ts))).
  change (String.concat "" (render_term (emb_term M b t) :: map render_term (map (emb_term M b) (t2 :: ts))))
    with (render_term (emb_term M b t) ++ "" ++ String.concat "" (map render_term (map (emb_term M b) (t2 :: ts)))).
  cbn [append]. cbv beta. rewrite tmap_app_r by apply concat_terms_starts.
  rewrite <- (render_term_emb b t H1), <- (IH H2). reflexivity.
Qed.

(** a mapped text starts with '+' exactly when the text does *)
Lemma strip_plus_T b out : strip_plus (T b out) = T b (strip_plus out).
Proof.
  cbv beta. destruct (id_split out) as (a & r & -> & Ha & Hr). destruct a as [|c a].
  - cbn [append]. destruct r as [|c r]; [reflexivity|]. simpl in Hr. apply negb_true_iff in Hr.
    rewrite (tmap_cons _ c r Hr), !strip_plus_cons. destruct (Ascii.eqb c "+"%char); [reflexivity|].
    now rewrite (tmap_cons _ c r Hr).
  - assert (Hn : String c a <> "") by discriminate.
    assert (E1 : strip_plus (String c a ++ r) = String c a ++ r).
    { cbn [append]. rewrite strip_plus_cons. simpl in Ha. apply andb_true_iff in Ha as [Hc _].
      destruct (Ascii.eqb_spec c "+"%char) as [->|]; [discriminate Hc|reflexivity]. }
    rewrite E1. rewrite (tmap_split _ _ r Ha Hr).
    pose proof (emit_ne _ (L_hd b) _ Ha Hn) as H2. pose proof (emit_id _ (L_id b) _ Ha) as H3.
    destruct (emit (L b) (String c a)) as [|d y]; [congruence|]. cbn [append]. rewrite strip_plus_cons.
    simpl in H3. apply andb_true_iff in H3 as [Hd _].
    destruct (Ascii.eqb_spec d "+"%char) as [->|]; [discriminate Hd|reflexivity].
Qed.

Theorem render_emb b e : forallb term_ok (terms e) = true -> render (emb_eqn M b e) = T b (render e).
Proof.
  intros H. unfold render. cbn [blob terms emb_eqn e_T pmap]. unfold Tp.
  rewrite <- (concat_terms_emb b _ H). cbv beta.
  rewrite <- tmap_app_r by apply concat_terms_starts.
  set (out := blob e ++ String.concat "" (map render_term (terms e))).
  change (match tmap (L b) out with String "+"%char x => x | _ => tmap (L b) out end) with (strip_plus (tmap (L b) out)).
  change (match out with String "+"%char x => x | _ => out end) with (strip_plus out).
  rewrite (strip_plus_T b out). cbv beta. set (o2 := strip_plus out).
  assert (E : String.eqb (tmap (L b) o2) "" = String.eqb o2 "").
  { destruct (String.eqb_spec o2 "") as [->|Hn]; [reflexivity|].
    destruct (String.eqb_spec (tmap (L b) o2) "") as [E|]; [|reflexivity]. exfalso. apply Hn.
    now apply (tmap_nil_iff _ (L_id b) (L_hd b) (L_inj b)). }
  rewrite E. destruct (String.eqb o2 ""); [|reflexivity]. symmetry. now apply tmap_numeric.
Qed.

(** ** Qualification of the local names *)

Definition keys_ok (s : sector) : Prop := forall ke, List.In ke (vars s) -> has_substring "__" (fst ke) = false.

Lemma keys_ok_emb s : keys_ok s -> keys_ok (emb M s).
Proof.
  intros H ke Hin. change (vars (emb M s)) with (emb_vars M (is_market s) (vars s)) in Hin.
  unfold emb_vars in Hin. apply in_map_iff in Hin as (ke0 & <- & Hin). cbn [emb_var fst].
  rewrite (N_dd _ _ _ Hok). now apply H.
Qed.

Lemma lookup_of_emb s a : good_p cc mkc s = true -> keys_ok s -> ident a ->
  lookup_of (emb M s) (L (is_market s) a) = option_map (T (is_market s)) (lookup_of s a).
Proof.
  intros Hg Hk [Ha Hh]. unfold lookup_of. destruct (has_substring "__" a) eqn:D.
  - unfold has_var. rewrite (lookup_none_dd (vars s) a Hk D).
    rewrite (lookup_none_dd (vars (emb M s)) _ (keys_ok_emb s Hk)); [reflexivity|].
    now rewrite (Lp_dd cc mkc Hcc).
  - assert (E : L (is_market s) a = e_N M (is_market s) a) by (now rewrite Lp_local).
    rewrite E. unfold emb. rewrite (has_var_emb _ _ _ Hok). destruct (has_var s a); [|reflexivity].
    cbn [option_map]. f_equal. symmetry. apply (ok_T_full _ _ _ Hok (is_market s) s a Hg).
    split; [exact Ha|]. now apply head_alpha_ne.
Qed.

Theorem final_text_emb s e : good_p cc mkc s = true -> keys_ok s -> forallb term_ok (terms e) = true ->
  final_text (emb M s) (emb_eqn M (is_market s) e) = T (is_market s) (final_text s e).
Proof.
  intros Hg Hk He. unfold final_text. rewrite (render_emb _ e He). cbv beta.
  apply (qualify_tmap _ (L_id _) (L_hd _)). intros a Ha. now apply lookup_of_emb.
Qed.

(** ** Rows *)

Lemma text_ok_spec s : text_ok s = true ->
  has_substring EXO (country s) = false /\ keys_ok s /\
  forall n e, lookup_var n (vars s) = Some e -> forallb term_ok (terms e) = true /\ exo_text (final_text s e) = true.
Proof.
  unfold text_ok. intros H. apply andb_true_iff in H as [H1 H2]. apply negb_true_iff in H1.
  rewrite forallb_forall in H2. split; [exact H1|]. split.
  - intros ke Hin. specialize (H2 ke Hin). apply andb_true_iff in H2 as [H2 _]. now apply negb_true_iff in H2.
  - intros n e El. specialize (H2 (n, e) (lookup_In _ _ _ El)). cbn [fst snd] in H2.
    apply andb_true_iff in H2 as [_ H2]. unfold eqn_ok in H2. now apply andb_true_iff in H2.
Qed.

Lemma classify_emb b t : has_substring EXO cc = false -> exo_text t = true ->
  classify (T b t) = map_kind (T b) (classify t).
Proof.
  intros Hc Ht. apply (classify_tmap _ (L_id b) (L_hd b) (L_inj b) (L_fixb b)); [|exact Ht].
  intros x _ _. now apply has_EXO_L.
Qed.

Theorem var_row_pmap_sec s n : good_p cc mkc s = true -> text_ok s = true -> has_var s n = true ->
  var_row (emb M s) (e_N M (is_market s) n) = emb_row M (is_market s) (var_row s n).
Proof.
  intros Hg Ht Hn. destruct (text_ok_spec s Ht) as (Hc & Hk & He).
  assert (Ecc : country s = cc) by apply (good_p_spec cc mkc s Hg). rewrite Ecc in Hc.
  unfold var_row, emb_row. cbn [r_lhs r_kind]. f_equal.
  - symmetry. apply (ok_L_full _ _ _ Hok (is_market s) s n Hg).
  - unfold emb. rewrite (lookup_emb_s _ _ _ Hok). unfold has_var in Hn.
    destruct (lookup_var n (vars s)) as [e|] eqn:El; [|discriminate]. cbn [option_map].
    destruct (He n e El) as [He1 He2]. fold (emb M s). rewrite (final_text_emb s e Hg Hk He1).
    now apply classify_emb.
Qed.

Lemma keys_emb s : keys (emb M s) = map (e_N M (is_market s)) (keys s).
Proof.
  unfold keys. change (vars (emb M s)) with (emb_vars M (is_market s) (vars s)). unfold emb_vars.
  rewrite map_map. cbn [fst emb_var]. rewrite <- (map_map fst (e_N M (is_market s))).
  apply nodup_map_inj. apply (N_inj _ _ _ Hok).
Qed.

Theorem sector_rows_pmap_sec s : good_p cc mkc s = true -> text_ok s = true ->
  sector_rows (emb M s) = sort_rows (map (emb_row M (is_market s)) (sector_rows s)).
Proof.
  intros Hg Ht. unfold sector_rows. rewrite keys_emb, map_map.
  assert (H1 : map (fun n => emb_row M (is_market s) (var_row s n)) (sort (keys s)) =
               map (var_row (emb M s)) (map (e_N M (is_market s)) (sort (keys s)))).
  { rewrite map_map. apply map_ext_in. intros n Hin. symmetry. apply var_row_pmap_sec; [exact Hg|exact Ht|].
    apply keys_has. now apply sort_In. }
  rewrite H1. rewrite sort_rows_map.
  2:{ intros a b. unfold var_row. cbn [r_lhs]. now rewrite !leb_app. }
  f_equal. apply sort_perm_eq. apply Permutation_map. apply sort_perm.
Qed.

End Prefix.

(* ------------------------------------------------------------------ *)
(** * The theorems *)

Theorem var_row_pmap cc mkc off s n : cleancc cc = true -> mkc_ok cc mkc -> good_p cc mkc s = true -> text_ok s = true ->
  has_var s n = true ->
  var_row (emb (pmap cc mkc off) s) (e_N (pmap cc mkc off) (is_market s) n) = emb_row (pmap cc mkc off) (is_market s) (var_row s n).
Proof. intros Hcc Hmk. now apply var_row_pmap_sec. Qed.

Theorem sector_rows_pmap cc mkc off s : cleancc cc = true -> mkc_ok cc mkc -> good_p cc mkc s = true -> text_ok s = true ->
  sector_rows (emb (pmap cc mkc off) s) = sort_rows (map (emb_row (pmap cc mkc off) (is_market s)) (sector_rows s)).
Proof. intros Hcc Hmk. now apply sector_rows_pmap_sec. Qed.

(* ------------------------------------------------------------------ *)
(** * The identity maps *)

Lemma emb_vars_id off b vs : emb_vars (idmap off) b vs = vs.
Proof.
  unfold emb_vars. rewrite <- (map_id vs) at 2. apply map_ext. intros [k [bl ts]].
  unfold emb_var, emb_eqn, e_N. cbn [fst snd blob terms idmap e_Nm e_T e_L]. f_equal; [now destruct b|]. f_equal.
  rewrite <- (map_id ts) at 2. apply map_ext. intros [c fs]. unfold emb_term. cbn [fst snd]. now rewrite map_id.
Qed.

(** [sector_rows] reads the full code and the variables only *)
Lemma sector_rows_ext s s' : fullcode s = fullcode s' -> vars s = vars s' -> sector_rows s = sector_rows s'.
Proof.
  destruct s as [i c cn fc hf tx m ex vs], s' as [i' c' cn' fc' hf' tx' m' ex' vs']. cbn [fullcode vars]. intros -> ->. reflexivity.
Qed.

Lemma emb_row_id off b x : emb_row (idmap off) b x = x.
Proof. destruct x as [l k]. unfold emb_row. cbn [r_lhs r_kind idmap e_L e_T]. now destruct k. Qed.

Theorem sector_rows_idmap off s :
  sector_rows (emb (idmap off) s) = sort_rows (map (emb_row (idmap off) (is_market s)) (sector_rows s)).
Proof.
  rewrite (sector_rows_ext (emb (idmap off) s) s); [|reflexivity|apply emb_vars_id].
  rewrite (map_ext _ (fun x => x) (emb_row_id off (is_market s))), map_id. symmetry. apply sector_rows_sorted.
Qed.

Theorem var_row_idmap off s n :
  var_row (emb (idmap off) s) (e_N (idmap off) (is_market s) n) = emb_row (idmap off) (is_market s) (var_row s n).
Proof.
  rewrite emb_row_id. assert (E : e_N (idmap off) (is_market s) n = n) by (unfold e_N; now destruct (is_market s)).
  rewrite E. pose proof (emb_vars_id off (is_market s) (vars s)) as Ev.
  destruct s as [i c cn fc hf tx m ex vs]. unfold emb, emb_with. cbn [sid code country fullcode hasF taxable is_market excl vars idmap e_FC e_off] in *.
  rewrite Ev. reflexivity.
Qed.
