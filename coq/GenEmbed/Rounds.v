(** A joint zone made of embedded blocks; a run of steps made of one batch per block, each batch
    acting on its own block only: the result is, block by block, the embedding of the local result. *)
From Coq Require Import List String Bool ZArith Arith Lia.
From SFC.Base Require Import Res Str.
From SFC.Gen Require Import Fx Zone.
From SFC.GenMarket Require Import Market.
From SFC.GenTax Require Import Tax TaxProofs DividendProofs.
From SFC.GenEmbed Require Import ZoneEmb Block.
Import ListNotations.

Definition frames (Z Z' : zone) : Prop := Forall2 frame Z Z'.

Lemma frames_refl Z : frames Z Z. Proof. apply Forall2_refl_frame. Qed.
Lemma frames_trans a b c : frames a b -> frames b c -> frames a c. Proof. apply Forall2_trans_frame. Qed.
Lemma frames_app a a' b b' : frames a a' -> frames b b' -> frames (a ++ b) (a' ++ b').
Proof. apply Forall2_app. Qed.

Section Rounds.
Variable rel : zone -> zone -> Prop.                 (* what a batch may do to the blocks of the others: nothing that matters *)
Hypothesis rel_refl : forall Z, rel Z Z.
Hypothesis rel_app : forall a a' b b', rel a a' -> rel b b' -> rel (a ++ b) (a' ++ b').
Variable A : Type.                                   (* a block's descriptor together with its batch *)
Variable eb : A -> zone -> zone.                      (* the block as it sits in the joint zone *)
Variable run : A -> zone -> result zone.              (* the batch on the whole joint zone *)
Variable loc : A -> zone -> result zone.              (* the batch on the stand-alone zone *)
Variable P : A -> zone -> zone -> zone -> Prop.       (* frame condition: pre, stand-alone zone, post *)

Hypothesis P_frames : forall a pre Z post pre' post',
  P a pre Z post -> rel pre pre' -> rel post post' -> P a pre' Z post'.
Hypothesis loc_frames : forall a pre Z post Z', P a pre Z post -> loc a Z = Ok Z' -> rel (eb a Z) (eb a Z').
Hypothesis run_loc : forall a pre Z post, P a pre Z post ->
  run a (pre ++ eb a Z ++ post) = rmap (fun Z' => pre ++ eb a Z' ++ post) (loc a Z).

Definition jz (l : list (A * zone)) : zone := List.concat (map (fun x => eb (fst x) (snd x)) l).

Fixpoint locs (l : list (A * zone)) : result (list (A * zone)) :=
  match l with
  | [] => Ok []
  | (a, Z) :: r => do Z' <- loc a Z ;; do r' <- locs r ;; Ok ((a, Z') :: r')
  end.

Fixpoint wfr (pre : zone) (l : list (A * zone)) : Prop :=
  match l with
  | [] => True
  | (a, Z) :: r => P a pre Z (jz r) /\ wfr (pre ++ eb a Z) r
  end.

Lemma wfr_frames : forall l pre pre', wfr pre l -> rel pre pre' -> wfr pre' l.
Proof.
  induction l as [|[a Z] r IH]; intros pre pre' H HF; [exact I|]. destruct H as [H1 H2]. split.
  - eapply P_frames; [exact H1|exact HF|apply rel_refl].
  - eapply IH; [exact H2|]. apply rel_app; [exact HF|apply rel_refl].
Qed.

Theorem rounds : forall l pre, wfr pre l ->
  foldM (fun Z a => run a Z) (map fst l) (pre ++ jz l) = rmap (fun l' => pre ++ jz l') (locs l).
Proof.
  induction l as [|[a Z] r IH]; intros pre H.
  - reflexivity.
  - unfold jz. cbn [map fst snd List.concat foldM locs]. fold (jz r). destruct H as [H1 H2].
    rewrite (run_loc a pre Z _ H1). destruct (loc a Z) as [Z'|e] eqn:El; cbn [rmap bind]; [|reflexivity].
    assert (H2' : wfr (pre ++ eb a Z') r).
    { eapply wfr_frames; [exact H2|]. apply rel_app; [apply rel_refl|]. eapply loc_frames; eauto. }
    specialize (IH (pre ++ eb a Z') H2'). rewrite <- app_assoc in IH. rewrite IH.
    destruct (locs r) as [r'|]; cbn [rmap bind]; [|reflexivity].
    unfold jz. cbn [map fst snd List.concat]. now rewrite <- app_assoc.
Qed.

End Rounds.
