(** List plumbing: a zone of the joint model is  pre ++ (block of one economy) ++ post ; the steps of
    the pipeline that belong to the economy act on its block only. *)
From Coq Require Import List String Ascii Bool ZArith Arith Lia.
From SFC.Base Require Import Res Str Sorting.
From SFC.Gen Require Import Fx Zone.
From SFC.GenMarket Require Import Market.
From SFC.GenTax Require Import Tax TaxProofs.
From SFC.GenMain2 Require Import Program Classes Main Program2 Main2.
From SFC.GenEmbed Require Import EmbDefs Laws ZoneEmb.
Import ListNotations.
Local Open Scope string_scope.

(* ------------------------------------------------------------------ *)
(** * Monadic folds *)

Lemma foldM_app {A B} (f : A -> B -> result A) l1 l2 a :
  foldM f (l1 ++ l2)%list a = bind (foldM f l1 a) (foldM f l2).
Proof.
  revert a. induction l1 as [|b r IH]; intros a; [reflexivity|]. cbn [app foldM].
  destruct (f a b); [apply IH|reflexivity].
Qed.

(** the final state of a traced run is the plain fold *)
Definition run_final {A B} (f : A -> B -> result A) (l : list B) (a : A) : result A :=
  rmap snd (run_trace f l a).

Lemma run_trace_foldM {A B} (f : A -> B -> result A) l a : rmap snd (run_trace f l a) = foldM f l a.
Proof.
  revert a. induction l as [|b r IH]; intros a; [reflexivity|]. cbn [run_trace foldM].
  destruct (f a b) as [a1|e]; cbn [bind]; [|reflexivity]. rewrite <- IH.
  destruct (run_trace f r a1); reflexivity.
Qed.

Lemma run_trace_ok {A B} (f : A -> B -> result A) l a a' :
  foldM f l a = Ok a' -> exists tr, run_trace f l a = Ok (tr, a').
Proof.
  intros H. rewrite <- run_trace_foldM in H. destruct (run_trace f l a) as [[tr x]|]; [|discriminate].
  cbn in H. inversion H. subst. now exists tr.
Qed.

Lemma run_trace_err {A B} (f : A -> B -> result A) l a e :
  foldM f l a = Err e -> run_trace f l a = Err e.
Proof.
  intros H. rewrite <- run_trace_foldM in H. destruct (run_trace f l a) as [[tr x]|]; [discriminate|].
  cbn in H. now inversion H.
Qed.

(* ------------------------------------------------------------------ *)
(** * Selecting and writing back a part of a zone *)

Lemma filter_none {A} (p : A -> bool) l : (forall x, List.In x l -> p x = false) -> filter p l = [].
Proof.
  induction l as [|x r IH]; intros H; [reflexivity|]. cbn [filter]. rewrite (H x (or_introl eq_refl)).
  apply IH. intros y Hy. apply H. now right.
Qed.

Lemma filter_all {A} (p : A -> bool) l : (forall x, List.In x l -> p x = true) -> filter p l = l.
Proof.
  induction l as [|x r IH]; intros H; [reflexivity|]. cbn [filter]. rewrite (H x (or_introl eq_refl)).
  f_equal. apply IH. intros y Hy. apply H. now right.
Qed.

Lemma filter_frame {A} (p : A -> bool) pre B post :
  (forall x, List.In x pre -> p x = false) -> (forall x, List.In x post -> p x = false) ->
  filter p (pre ++ B ++ post)%list = filter p B.
Proof.
  intros H1 H2. rewrite !filter_app, (filter_none p pre H1), (filter_none p post H2). now rewrite app_nil_r.
Qed.

Lemma put_back_p_none p C Z : (forall s, List.In s Z -> p s = false) -> put_back_p p C Z = Z.
Proof.
  revert C. induction Z as [|s r IH]; intros C H; [reflexivity|]. cbn [put_back_p].
  rewrite (H s (or_introl eq_refl)). f_equal. apply IH. intros y Hy. apply H. now right.
Qed.

Lemma put_back_p_app_l p C pre Z : (forall s, List.In s pre -> p s = false) ->
  put_back_p p C (pre ++ Z)%list = (pre ++ put_back_p p C Z)%list.
Proof.
  induction pre as [|s r IH]; intros H; [reflexivity|]. cbn [app put_back_p].
  rewrite (H s (or_introl eq_refl)). f_equal. apply IH. intros y Hy. apply H. now right.
Qed.

(** the part is written back into the block; what follows the block is not selected *)
Lemma put_back_p_app_r p : forall B C post, (forall s, List.In s post -> p s = false) ->
  List.length C = List.length (filter p B) ->
  put_back_p p C (B ++ post)%list = (put_back_p p C B ++ post)%list.
Proof.
  induction B as [|s r IH]; intros C post H HL.
  - cbn [app]. now rewrite put_back_p_none.
  - cbn [app put_back_p filter] in *. destruct (p s).
    + destruct C as [|c C']; [discriminate|]. cbn [List.length] in HL. cbn [app]. f_equal. apply IH; [exact H|lia].
    + cbn [app]. f_equal. now apply IH.
Qed.

Lemma put_back_p_all p : forall B C, (forall s, List.In s B -> p s = true) -> List.length C = List.length B ->
  put_back_p p C B = C.
Proof.
  induction B as [|s r IH]; intros C H HL.
  - destruct C; [reflexivity|discriminate].
  - destruct C as [|c C']; [discriminate|]. cbn [put_back_p]. rewrite (H s (or_introl eq_refl)).
    f_equal. apply IH; [intros y Hy; apply H; now right|cbn in HL; lia].
Qed.

Lemma on_part_frame p (f : zone -> result zone) pre B post :
  (forall s, List.In s pre -> p s = false) -> (forall s, List.In s post -> p s = false) ->
  (forall C', f (filter p B) = Ok C' -> List.length C' = List.length (filter p B)) ->
  on_part p f (pre ++ B ++ post)%list = bind (f (filter p B)) (fun C' => Ok (pre ++ put_back_p p C' B ++ post)%list).
Proof.
  intros H1 H2 HL. unfold on_part. rewrite (filter_frame p pre B post H1 H2).
  destruct (f (filter p B)) as [C'|e] eqn:Ef; cbn [bind]; [|reflexivity].
  f_equal. rewrite put_back_p_app_l by exact H1. f_equal. apply put_back_p_app_r; [exact H2|]. now apply HL.
Qed.

Lemma put_back_p_ext p q C Z : (forall s, List.In s Z -> p s = q s) -> put_back_p p C Z = put_back_p q C Z.
Proof.
  revert C. induction Z as [|s r IH]; intros C H; [reflexivity|]. cbn [put_back_p].
  rewrite <- (H s (or_introl eq_refl)). destruct (p s).
  - destruct C; f_equal; apply IH; intros y Hy; apply H; now right.
  - f_equal. apply IH. intros y Hy. apply H. now right.
Qed.

Lemma put_back_p_country cc C Z : put_back_p (in_country cc) C Z = put_back cc C Z.
Proof.
  revert C. induction Z as [|s r IH]; intros C; [reflexivity|]. cbn [put_back_p put_back].
  destruct (in_country cc s); [destruct C|]; now rewrite ?IH.
Qed.

Lemma put_back_p_map (h : sector -> sector) p q : (forall s, q (h s) = p s) ->
  forall Z C, put_back_p q (map h C) (map h Z) = map h (put_back_p p C Z).
Proof.
  intros Hq. induction Z as [|s r IH]; intros C; [reflexivity|]. cbn [map put_back_p]. rewrite Hq.
  destruct (p s).
  - destruct C as [|c C']; cbn [map]; f_equal; [apply (IH [])|apply IH].
  - cbn [map]. f_equal. apply IH.
Qed.

(* ------------------------------------------------------------------ *)
(** * Objects by creation index *)

Lemma find_sec_app i Z1 Z2 :
  find_sec i (Z1 ++ Z2)%list = match find_sec i Z1 with Some s => Some s | None => find_sec i Z2 end.
Proof.
  unfold find_sec. induction Z1 as [|s r IH]; [reflexivity|]. cbn [app find].
  destruct (Nat.eqb (sid s) i); [reflexivity|exact IH].
Qed.

Lemma find_sec_none i Z : (forall s, List.In s Z -> sid s <> i) -> find_sec i Z = None.
Proof.
  unfold find_sec. induction Z as [|s r IH]; intros H; [reflexivity|]. cbn [find].
  destruct (Nat.eqb_spec (sid s) i) as [E|_]; [exfalso; exact (H s (or_introl eq_refl) E)|].
  apply IH. intros y Hy. apply H. now right.
Qed.

Lemma find_sec_some i Z s : find_sec i Z = Some s -> List.In s Z /\ sid s = i.
Proof.
  unfold find_sec. intros H. apply find_some in H as [H1 H2]. split; [exact H1|]. now apply Nat.eqb_eq.
Qed.

Lemma upd_app_l i f Z1 Z2 : (forall s, List.In s Z1 -> sid s <> i) ->
  upd i f (Z1 ++ Z2)%list = rmap (fun Z => (Z1 ++ Z)%list) (upd i f Z2).
Proof.
  induction Z1 as [|s r IH]; intros H.
  - cbn [app]. destruct (upd i f Z2); reflexivity.
  - cbn [app upd]. destruct (Nat.eqb_spec (sid s) i) as [E|_]; [exfalso; exact (H s (or_introl eq_refl) E)|].
    rewrite IH by (intros y Hy; apply H; now right). destruct (upd i f Z2); reflexivity.
Qed.

Lemma upd_not_found i f Z : (forall s, List.In s Z -> sid s <> i) -> upd i f Z = Err KeyError.
Proof.
  induction Z as [|s r IH]; intros H; [reflexivity|]. cbn [upd].
  destruct (Nat.eqb_spec (sid s) i) as [E|_]; [exfalso; exact (H s (or_introl eq_refl) E)|].
  rewrite IH; [reflexivity|]. intros y Hy. apply H. now right.
Qed.

(** an update inside the block: what follows is only searched when the block has no such object,
    and then nothing is found there either *)
Lemma upd_app_r i f Z1 Z2 : (forall s, List.In s Z2 -> sid s <> i) ->
  upd i f (Z1 ++ Z2)%list = rmap (fun Z => (Z ++ Z2)%list) (upd i f Z1).
Proof.
  intros H. induction Z1 as [|s r IH].
  - cbn [app upd rmap]. now apply upd_not_found.
  - cbn [app upd]. destruct (Nat.eqb (sid s) i).
    + destruct (f s); reflexivity.
    + rewrite IH. destruct (upd i f r); reflexivity.
Qed.

Lemma upd_frame i f pre B post :
  (forall s, List.In s pre -> sid s <> i) -> (forall s, List.In s post -> sid s <> i) ->
  upd i f (pre ++ B ++ post)%list = rmap (fun B' => (pre ++ B' ++ post)%list) (upd i f B).
Proof.
  intros H1 H2. rewrite upd_app_l by exact H1. rewrite upd_app_r by exact H2.
  destruct (upd i f B); reflexivity.
Qed.

Lemma find_sec_frame i pre B post :
  (forall s, List.In s pre -> sid s <> i) -> (forall s, List.In s post -> sid s <> i) ->
  find_sec i (pre ++ B ++ post)%list = find_sec i B.
Proof.
  intros H1 H2. rewrite !find_sec_app, (find_sec_none i pre H1), (find_sec_none i post H2).
  now destruct (find_sec i B).
Qed.

Lemma upd_length i f Z Z' : upd i f Z = Ok Z' -> List.length Z' = List.length Z.
Proof.
  revert Z'. induction Z as [|s r IH]; intros Z' H; [discriminate|]. cbn [upd] in H.
  destruct (Nat.eqb (sid s) i).
  - destruct (f s); [|discriminate]. now inversion H.
  - destruct (upd i f r) as [r'|]; [|discriminate]. inversion H. cbn. f_equal. now apply IH.
Qed.

Lemma Forall2_length_frame (Z Z' : zone) : Forall2 frame Z Z' -> List.length Z' = List.length Z.
Proof. induction 1 as [|a b l l' _ _ IH]; [reflexivity|]. cbn. now rewrite IH. Qed.

(** an update commutes with the embedding as soon as the function does on the objects it can reach *)
Lemma upd_emb_at (M : emap) (fc : string -> string) i (f f' : sector -> result sector) Z :
  (forall s, List.In s Z -> sid s = i -> f' (emb_with fc M s) = rmap (emb_with fc M) (f s)) ->
  upd (i + e_off M) f' (map (emb_with fc M) Z) = rmap (map (emb_with fc M)) (upd i f Z).
Proof.
  induction Z as [|s r IH]; intros H; [reflexivity|]. cbn [map upd]. rewrite (sid_eqb_emb M fc).
  destruct (Nat.eqb_spec (sid s) i) as [Hs|Hs].
  - rewrite (H s (or_introl eq_refl) Hs). destruct (f s); reflexivity.
  - rewrite IH by (intros x Hx; apply H; now right). destruct (upd i f r); reflexivity.
Qed.
