(** Construction phase: a step of an economy's program executed inside the joint model
    (Main2.run_step2 on the translated step) does to the economy's block of the joint construction
    state what the stand-alone step (Main.run_step) does to the stand-alone state; everything else
    is left alone. *)
From Coq Require Import List String Ascii Bool ZArith Arith Lia.
From SFC.Base Require Import Res Str Sorting.
From SFC.Gen Require Import Fx Zone.
From SFC.GenMarket Require Import Market.
From SFC.GenTax Require Import Tax TaxProofs DividendProofs.
From SFC.GenAsset Require Import Weighting.
From SFC.GenMain2 Require Import Program Classes Main Ledger MainProofs Program2 Main2.
From SFC.GenEmbed Require Import EmbDefs JointDefs Laws Good ZoneEmb Block ClassEmb.
Import ListNotations.
Local Open Scope string_scope.

(* ------------------------------------------------------------------ *)
(** * Lists *)

Lemma set_nth_app_l {A} (l1 l2 : list A) i x : set_nth (List.length l1 + i) x (l1 ++ l2)%list = (l1 ++ set_nth i x l2)%list.
Proof. induction l1 as [|a r IH]; [reflexivity|]. cbn. now rewrite IH. Qed.

Lemma set_nth_app_r {A} (l1 l2 : list A) i x : i < List.length l1 -> set_nth i x (l1 ++ l2)%list = (set_nth i x l1 ++ l2)%list.
Proof.
  revert i. induction l1 as [|a r IH]; intros i H; [cbn in H; lia|]. destruct i as [|i]; [reflexivity|].
  cbn. rewrite IH by (cbn in H; lia). reflexivity.
Qed.

Lemma set_nth_map {A B} (f : A -> B) (l : list A) i x : set_nth i (f x) (map f l) = map f (set_nth i x l).
Proof. revert i. induction l as [|a r IH]; intros [|i]; cbn; try reflexivity. now rewrite IH. Qed.

Lemma nth_app_l {A} (l1 l2 : list A) i d : nth (List.length l1 + i) (l1 ++ l2)%list d = nth i l2 d.
Proof. induction l1 as [|a r IH]; [reflexivity|]. exact IH. Qed.

Lemma nth_error_app_l {A} (l1 l2 : list A) i : nth_error (l1 ++ l2)%list (List.length l1 + i) = nth_error l2 i.
Proof. induction l1 as [|a r IH]; [reflexivity|]. exact IH. Qed.

Lemma sup_of_set_same m x L : sup_of m (sup_set m x L) = x.
Proof.
  induction L as [|[k y] r IH]; cbn; [now rewrite Nat.eqb_refl|].
  destruct (Nat.eqb_spec k m) as [->|Hn]; cbn; [now rewrite Nat.eqb_refl|].
  destruct (Nat.eqb_spec k m); [contradiction|exact IH].
Qed.

Lemma sup_of_set_other m m' x L : m' <> m -> sup_of m' (sup_set m x L) = sup_of m' L.
Proof.
  intros Hn. induction L as [|[k y] r IH]; cbn.
  - destruct (Nat.eqb_spec m m'); [congruence|reflexivity].
  - destruct (Nat.eqb_spec k m) as [->|Hk]; cbn.
    + destruct (Nat.eqb_spec m m'); [congruence|reflexivity].
    + destruct (Nat.eqb k m'); [reflexivity|exact IH].
Qed.

(* ------------------------------------------------------------------ *)
(** * What a step appends to the model's lists *)

Definition step_flows (x : step) : list flow :=
  match x with StOp (ORegisterCashFlow a b v i j) => [(a, Some b, v, i, j)] | _ => [] end.
Definition step_exo (x : step) : list (nat * string * string) :=
  match x with StOp (OSetExogenous s n spec) => [(s, n, spec)] | _ => [] end.
Definition step_ic (x : step) : list (nat * string * string) :=
  match x with StOp (OAddInitialCondition s n v) => [(s, n, v)] | _ => [] end.

Lemma run_step_logs C x C' : run_step C x = Ok C' ->
  c_flows C' = (c_flows C ++ step_flows x)%list /\ c_exo C' = (c_exo C ++ step_exo x)%list /\ c_ic C' = (c_ic C ++ step_ic x)%list.
Proof.
  destruct x as [c|ci c k|o]; cbn [run_step step_flows step_exo step_ic].
  - destruct (mem c (c_countries C)); [discriminate|]. intros H. inversion H. cbn. now rewrite !app_nil_r.
  - destruct (nth_error _ _); [|discriminate]. destruct (existsb _ _); [discriminate|].
    destruct (resolve_markets _ _); [|discriminate]. cbn [bind]. destruct (construct _ _ _ _ _); [|discriminate].
    intros H. inversion H. cbn. now rewrite !app_nil_r.
  - destruct o; cbn [run_op].
    + destruct (on_sector _ _ _); [|discriminate]. intros H. inversion H. cbn. now rewrite !app_nil_r.
    + destruct (find_sec _ _); [|discriminate]. intros H. inversion H. cbn. now rewrite !app_nil_r.
    + destruct (find_sec src _); [|discriminate]. destruct (find_sec tgt _); [|discriminate].
      intros H. inversion H. cbn. now rewrite !app_nil_r.
    + destruct (find_sec market _); [|discriminate]. destruct (find_sec supplier _); [|discriminate].
      destruct (has_add_supplier _); [|discriminate]. destruct (sup_of _ _).
      intros H. inversion H. cbn. now rewrite !app_nil_r.
    + destruct (on_sector _ _ _); [|discriminate]. intros H. inversion H. cbn. now rewrite !app_nil_r.
    + destruct (find_sec _ _); [|discriminate]. intros H. inversion H. cbn. now rewrite !app_nil_r.
    + destruct (find_sec cb _); [|discriminate]. destruct (find_sec tre _); [|discriminate].
      intros H. inversion H. cbn. now rewrite !app_nil_r.
Qed.

(* ------------------------------------------------------------------ *)
(** * Static conditions on the steps of an economy's program *)

Definition op_refs (o : uop) : list nat :=
  match o with
  | OAddVariable s _ _ | OSetExogenous s _ _ | OAssetWeighting s _ _ | OAddInitialCondition s _ _ => [s]
  | ORegisterCashFlow a b _ _ _ | OAddSupplier a b _ | OSetTreasury a b => [a; b]
  end.

Definition cls_refs (k : cls) : list nat :=
  match k with
  | CCentralBank (Some t) => [t]
  | CBusinessMulti _ _ _ ms => ms
  | _ => []
  end.

Definition op_texts_ok (o : uop) : bool :=
  match o with
  | OAddVariable _ _ t => clean t
  | OSetExogenous _ _ spec => exo_ok spec
  | OAddSupplier _ _ (Some t) => clean t
  | OAssetWeighting _ ws _ => forallb (fun cw => clean (snd cw)) ws
  | _ => true
  end.

(** [ns] = number of sectors the economy declares *)
Definition step_okb (ns : nat) (x : step) : bool :=
  match x with
  | StCountry _ => true
  | StSector _ _ k => cls_ok k && forallb (fun j => Nat.ltb j ns) (cls_refs k)
  | StOp o => op_texts_ok o && forallb (fun j => Nat.ltb j ns) (op_refs o)
  end.

Lemma GenEmb_In_r (Z Z' : zone) : Forall2 frame Z Z' ->
  forall t', List.In t' Z' -> exists t, List.In t Z /\ frame t t'.
Proof.
  induction 1 as [|a b l l' Hab _ IH]; intros t' Ht; [destruct Ht|].
  destruct Ht as [<-|Ht]; [exists a; split; [now left|exact Hab]|].
  destruct (IH _ Ht) as (t & H1 & H2). exists t. split; [now right|exact H2].
Qed.

Section Cons.
Variables (M : emap) (mcode : string -> Prop) (G : sector -> Prop).
Hypothesis Hok : emap_ok M mcode G.
Variable p : program.
Variables (coff : nat) (cur : string).

Notation E0 := (emb_with (fun x => x) M).
Notation N := (e_N M).
Notation T := (e_T M).
Notation off := (e_off M).
Notation ns := (nsectors p).
Notation ism := (sec_is_market p).
Notation shk := (fun k => COld (shift_cls off k)).

Hypothesis Hmcode : forall c, List.In c (market_codes p) -> mcode c.

Record kblock (K : kstate) (C : cstate) (preK postK : list (string * string)) (preS postS : list sector)
       (preC postC : list cls2) : Prop := mkKblock {
  kb_countries : k_countries K = (preK ++ map (fun c => (c, cur)) (c_countries C) ++ postK)%list;
  kb_secs : k_secs K = (preS ++ map E0 (c_secs C) ++ postS)%list;
  kb_classes : k_classes K = (preC ++ map shk (c_classes C) ++ postC)%list;
  kb_lenK : List.length preK = coff;
  kb_lenS : List.length preS = off;
  kb_lenC : List.length preC = off;
  kb_pre_sid : forall x, List.In x preS -> sid x < off;
  kb_post_sid : forall x, List.In x postS -> off + ns <= sid x;
  kb_out_cc : forall x, List.In x (preS ++ postS)%list -> ~ List.In (country x) (country_codes p);
  kb_out_code : forall x, List.In x (preK ++ postK)%list -> ~ List.In (fst x) (country_codes p);
  kb_sup : forall m, m < ns -> sup_of (m + off) (k_sup K) = shift_supinfo M (sup_of m (c_sup C))
}.

(** the stand-alone state is well formed with respect to the program *)
Record cwf (C : cstate) : Prop := mkCwf {
  cw_sids : map sid (c_secs C) = seq 0 (List.length (c_secs C));
  cw_len : List.length (c_classes C) = List.length (c_secs C);
  cw_ns : List.length (c_secs C) <= ns;
  cw_ism : forall x, List.In x (c_secs C) -> ism (sid x) = is_market x;
  cw_cls : forall m, m < List.length (c_classes C) -> cls_is_market (class_of (c_classes C) m) = ism m;
  cw_cc : forall c, List.In c (c_countries C) -> List.In c (country_codes p)
}.

(* ------------------------------------------------------------------ *)
(** * Looking into the joint state *)

Section Look.
Variables (K : kstate) (C : cstate) (preK postK : list (string * string)) (preS postS : list sector) (preC postC : list cls2).
Hypothesis HK : kblock K C preK postK preS postS preC postC.
Hypothesis HC : cwf C.

Lemma c_sid_lt x : List.In x (c_secs C) -> sid x < List.length (c_secs C).
Proof.
  intros Hx. assert (H : List.In (sid x) (map sid (c_secs C))) by now apply in_map.
  rewrite (cw_sids _ HC) in H. apply in_seq in H. lia.
Qed.

Lemma pre_ne i x : List.In x preS -> sid x <> i + off.
Proof. intros Hx. pose proof (kb_pre_sid _ _ _ _ _ _ _ _ HK x Hx). lia. Qed.

Lemma post_ne i x : i < ns -> List.In x postS -> sid x <> i + off.
Proof. intros Hi Hx. pose proof (kb_post_sid _ _ _ _ _ _ _ _ HK x Hx). lia. Qed.

Lemma find_k i : i < ns -> find_sec (i + off) (k_secs K) = option_map E0 (find_sec i (c_secs C)).
Proof.
  intros Hi. rewrite (kb_secs _ _ _ _ _ _ _ _ HK).
  rewrite find_sec_frame; [apply find_sec_emb|intros x Hx; now apply pre_ne|intros x Hx; now apply post_ne].
Qed.

Lemma upd_k i f' f : i < ns ->
  (forall s, List.In s (c_secs C) -> sid s = i -> f' (E0 s) = rmap E0 (f s)) ->
  upd (i + off) f' (k_secs K) = rmap (fun B => (preS ++ map E0 B ++ postS)%list) (upd i f (c_secs C)).
Proof.
  intros Hi Hf. rewrite (kb_secs _ _ _ _ _ _ _ _ HK).
  rewrite Block.upd_frame; [|intros x Hx; now apply pre_ne|intros x Hx; now apply post_ne].
  rewrite (upd_emb_at M (fun x => x) i f f' (c_secs C) Hf). destruct (upd i f (c_secs C)); reflexivity.
Qed.

Lemma on_sector_k i f' f : i < ns ->
  (forall s, List.In s (c_secs C) -> sid s = i -> f' (E0 s) = rmap E0 (f s)) ->
  on_sector (i + off) f' (k_secs K) = rmap (fun B => (preS ++ map E0 B ++ postS)%list) (on_sector i f (c_secs C)).
Proof.
  intros Hi Hf. unfold on_sector. rewrite (find_k i Hi).
  destruct (find_sec i (c_secs C)); cbn [option_map]; [now apply upd_k|reflexivity].
Qed.

Lemma ism_found i x : find_sec i (c_secs C) = Some x -> ism i = is_market x.
Proof. intros H. apply find_sec_some in H as [H1 <-]. now apply (cw_ism _ HC). Qed.

Lemma class_k i : i < List.length (c_classes C) ->
  class_of2 (k_classes K) (i + off) = COld (shift_cls off (class_of (c_classes C) i)).
Proof.
  intros Hi. unfold class_of2, class_of. rewrite (kb_classes _ _ _ _ _ _ _ _ HK).
  assert (Ei : i + off = List.length preC + i) by (rewrite (kb_lenC _ _ _ _ _ _ _ _ HK); lia).
  rewrite Ei, nth_app_l.
  rewrite app_nth1 by (now rewrite map_length).
  change (COld CGov) with ((fun k => COld (shift_cls off k)) CGov).
  apply (map_nth (fun k => COld (shift_cls off k))).
Qed.

Lemma found_lt i x : find_sec i (c_secs C) = Some x -> i < List.length (c_secs C).
Proof. intros H. apply find_sec_some in H as [H1 <-]. now apply c_sid_lt. Qed.

End Look.

(* ------------------------------------------------------------------ *)
(** * User operations *)

Definition klogs (K K' : kstate) (x : step) : Prop :=
  k_flows K' = (k_flows K ++ map (shift_flow M ism) (step_flows x))%list /\
  k_exo K' = (k_exo K ++ map (shift_exo M ism) (step_exo x))%list /\
  k_ic K' = (k_ic K ++ map (shift_ic M ism) (step_ic x))%list /\
  k_ext K' = k_ext K /\
  (forall k, k < off \/ off + ns <= k -> sup_of k (k_sup K') = sup_of k (k_sup K)).

Lemma cwf_secs C SL' cl' : cwf C -> Forall2 frame (c_secs C) SL' ->
  List.length cl' = List.length (c_classes C) ->
  (forall m, m < List.length cl' -> cls_is_market (class_of cl' m) = cls_is_market (class_of (c_classes C) m)) ->
  forall sup fl ex ic, cwf (mkC (c_countries C) SL' cl' sup fl ex ic).
Proof.
  intros [A1 A2 A3 A4 A5 A6] HF Hl Hc sup fl ex ic.
  assert (Hlen : List.length SL' = List.length (c_secs C)) by (now apply Forall2_length_frame).
  assert (Hsid : map sid SL' = map sid (c_secs C)).
  { clear -HF. induction HF as [|a b l l' Hab _ IH]; [reflexivity|]. cbn. rewrite IH. f_equal. now apply frame_sid. }
  constructor; cbn [c_secs c_classes c_countries].
  - now rewrite Hsid, Hlen.
  - now rewrite Hl, Hlen.
  - now rewrite Hlen.
  - intros x' Hx'. destruct (GenEmb_In_r _ _ HF _ Hx') as (x & H1 & H2).
    rewrite (frame_sid _ _ H2), (ZoneEmb.frame_is_market _ _ H2). now apply A4.
  - intros m Hm. rewrite Hc by exact Hm. apply A5. now rewrite <- Hl.
  - exact A6.
Qed.

Section Ops.
Variables (K : kstate) (C : cstate) (preK postK : list (string * string)) (preS postS : list sector) (preC postC : list cls2).
Hypothesis HK : kblock K C preK postK preS postS preC postC.
Hypothesis HC : cwf C.

Lemma kblock_secs SL' : Forall2 frame (c_secs C) SL' -> forall K' C',
  k_countries K' = k_countries K -> k_secs K' = (preS ++ map E0 SL' ++ postS)%list -> k_classes K' = k_classes K ->
  k_sup K' = k_sup K ->
  c_countries C' = c_countries C -> c_secs C' = SL' -> c_classes C' = c_classes C -> c_sup C' = c_sup C ->
  kblock K' C' preK postK preS postS preC postC.
Proof.
  intros HF K' C' E1 E2 E3 E4 F1 F2 F3 F4. destruct HK as [A1 A2 A3 A4 A5 A6 A7 A8 A9 A10 A11].
  constructor; try assumption.
  - now rewrite E1, F1.
  - now rewrite E2, F2.
  - now rewrite E3, F3.
  - intros m Hm. now rewrite E4, F4, A11.
Qed.

Lemma forallb_lt l : forallb (fun j => Nat.ltb j ns) l = true -> forall j, List.In j l -> j < ns.
Proof. intros H j Hj. rewrite forallb_forall in H. specialize (H j Hj). now apply Nat.ltb_lt. Qed.

Theorem op_sim o : step_okb ns (StOp o) = true ->
  match run_op C o with
  | Ok C' => exists K', run_op2 K (UOld (emb_uop M ism o)) = Ok K' /\
                        kblock K' C' preK postK preS postS preC postC /\ cwf C' /\ klogs K K' (StOp o) /\
                        k_default K' = k_default K
  | Err e => run_op2 K (UOld (emb_uop M ism o)) = Err e
  end.
Proof.
  intros Hok0. cbn [step_okb] in Hok0. apply andb_true_iff in Hok0 as [Ht Hr]. pose proof (forallb_lt _ Hr) as Hlt.
  destruct o as [s n t|s n spec|a b v i j|m sup text|s ws res|s n v|cb tre]; cbn [op_refs op_texts_ok emb_uop run_op run_op2] in *.
  - (* AddVariable *)
    assert (Hs : s < ns) by (apply Hlt; now left).
    rewrite (on_sector_k K C preK postK preS postS preC postC HK s _ (fun x => addv x n t) Hs).
    2:{ intros x Hx Hsx. rewrite <- Hsx, (cw_ism _ HC x Hx). now apply (addv_emb M mcode G Hok). }
    destruct (on_sector s (fun x => addv x n t) (c_secs C)) as [SL'|] eqn:Eo; cbn [rmap bind]; [|reflexivity].
    assert (HF : Forall2 frame (c_secs C) SL').
    { eapply on_sector_frame; [exact Eo|]. intros x x' Hx. unfold addv in Hx. destruct (has_substring "__" n); [discriminate|].
      inversion Hx. apply frame_with_vars. }
    eexists. split; [reflexivity|]. split; [|split; [|split]].
    + eapply kblock_secs; [exact HF| | | | | | | |]; reflexivity.
    + apply (cwf_secs C SL' (c_classes C) HC HF eq_refl). reflexivity.
    + repeat split; cbn; now rewrite ?app_nil_r.
    + reflexivity.
  - (* SetExogenous *)
    assert (Hs : s < ns) by (apply Hlt; now left).
    rewrite (find_k K C preK postK preS postS preC postC HK s Hs).
    destruct (find_sec s (c_secs C)) as [x|] eqn:Fx; cbn [option_map]; [|reflexivity].
    eexists. split; [reflexivity|]. split; [|split; [|split]].
    + eapply kblock_secs; [apply Forall2_refl_frame| | | | | | | |]; try reflexivity. cbn. apply (kb_secs _ _ _ _ _ _ _ _ HK).
    + destruct HC. constructor; assumption.
    + repeat split; cbn; now rewrite ?app_nil_r.
    + reflexivity.
  - (* RegisterCashFlow *)
    assert (Ha : a < ns) by (apply Hlt; now left). assert (Hb : b < ns) by (apply Hlt; right; now left).
    rewrite !(find_k K C preK postK preS postS preC postC HK) by assumption.
    destruct (find_sec a (c_secs C)) as [x|] eqn:Fa; cbn [option_map]; [|reflexivity].
    destruct (find_sec b (c_secs C)) as [y|] eqn:Fb; cbn [option_map]; [|reflexivity].
    eexists. split; [reflexivity|]. split; [|split; [|split]].
    + eapply kblock_secs; [apply Forall2_refl_frame| | | | | | | |]; try reflexivity. cbn. apply (kb_secs _ _ _ _ _ _ _ _ HK).
    + destruct HC. constructor; assumption.
    + repeat split; cbn; now rewrite ?app_nil_r.
    + reflexivity.
  - (* AddSupplier *)
    assert (Hm : m < ns) by (apply Hlt; now left). assert (Hsup : sup < ns) by (apply Hlt; right; now left).
    rewrite !(find_k K C preK postK preS postS preC postC HK) by assumption.
    destruct (find_sec m (c_secs C)) as [x|] eqn:Fm; cbn [option_map]; [|reflexivity].
    destruct (find_sec sup (c_secs C)) as [y|] eqn:Fsu; cbn [option_map]; [|reflexivity].
    assert (Hml : m < List.length (c_classes C)) by (rewrite (cw_len _ HC); eapply found_lt; eauto).
    rewrite (class_k K C preK postK preS postS preC postC HK m Hml).
    assert (Hhas : has_add_supplier2 (COld (shift_cls off (class_of (c_classes C) m))) = has_add_supplier (class_of (c_classes C) m)).
    { now destruct (class_of (c_classes C) m). }
    rewrite Hhas. destruct (has_add_supplier (class_of (c_classes C) m)) eqn:Eh; [|reflexivity].
    assert (Hism : ism m = true).
    { rewrite <- (cw_cls _ HC m Hml). now destruct (class_of (c_classes C) m). }
    rewrite (kb_sup _ _ _ _ _ _ _ _ HK m Hm). destruct (sup_of m (c_sup C)) as [res others] eqn:Es.
    unfold shift_supinfo. cbn [fst snd].
    eexists. split; [reflexivity|]. split; [|split; [|split]].
    + destruct HK as [A1 A2 A3 A4 A5 A6 A7 A8 A9 A10 A11]. constructor; try assumption. cbn [k_sup c_sup].
      intros m' Hm'. destruct (Nat.eq_dec m' m) as [->|Hne].
      * rewrite !sup_of_set_same. unfold shift_supinfo. rewrite Hism.
        destruct text as [t|]; cbn [option_map]; [|reflexivity].
        rewrite (T_eqb_nil M mcode G Hok). destruct (String.eqb t ""); [reflexivity|].
        cbn [fst snd]. f_equal. unfold shift_others. rewrite map_app. cbn [map fst snd]. f_equal. f_equal. f_equal.
        cbn [op_texts_ok] in Ht. rewrite (squeeze_clean' t Ht). apply squeeze_clean'. now apply (ok_T_clean _ _ _ Hok).
      * rewrite !sup_of_set_other by lia. now apply A11.
    + destruct HC. constructor; assumption.
    + split; [cbn; now rewrite app_nil_r|]. split; [cbn; now rewrite app_nil_r|]. split; [cbn; now rewrite app_nil_r|].
      split; [reflexivity|]. intros k Hk. cbn [k_sup]. apply sup_of_set_other. lia.
    + reflexivity.
  - (* AssetWeighting *)
    assert (Hs : s < ns) by (apply Hlt; now left).
    rewrite (on_sector_k K C preK postK preS postS preC postC HK s _ (fun x => asset_weighting x ws res false) Hs).
    2:{ intros x Hx Hsx. rewrite <- Hsx, (cw_ism _ HC x Hx). now apply (asset_weighting_emb M mcode G Hok). }
    destruct (on_sector s (fun x => asset_weighting x ws res false) (c_secs C)) as [SL'|] eqn:Eo; cbn [rmap bind]; [|reflexivity].
    assert (HF : Forall2 frame (c_secs C) SL').
    { eapply on_sector_frame; [exact Eo|]. intros x x' Hx. apply asset_weighting_lstep in Hx. exact (ls_frame _ _ _ Hx). }
    eexists. split; [reflexivity|]. split; [|split; [|split]].
    + eapply kblock_secs; [exact HF| | | | | | | |]; reflexivity.
    + apply (cwf_secs C SL' (c_classes C) HC HF eq_refl). reflexivity.
    + repeat split; cbn; now rewrite ?app_nil_r.
    + reflexivity.
  - (* AddInitialCondition *)
    assert (Hs : s < ns) by (apply Hlt; now left).
    rewrite (find_k K C preK postK preS postS preC postC HK s Hs).
    destruct (find_sec s (c_secs C)) as [x|] eqn:Fx; cbn [option_map]; [|reflexivity].
    eexists. split; [reflexivity|]. split; [|split; [|split]].
    + eapply kblock_secs; [apply Forall2_refl_frame| | | | | | | |]; try reflexivity. cbn. apply (kb_secs _ _ _ _ _ _ _ _ HK).
    + destruct HC. constructor; assumption.
    + repeat split; cbn; now rewrite ?app_nil_r.
    + reflexivity.
  - (* SetTreasury *)
    assert (Hcb : cb < ns) by (apply Hlt; now left). assert (Htre : tre < ns) by (apply Hlt; right; now left).
    rewrite !(find_k K C preK postK preS postS preC postC HK) by assumption.
    destruct (find_sec cb (c_secs C)) as [x|] eqn:Fc; cbn [option_map]; [|reflexivity].
    destruct (find_sec tre (c_secs C)) as [y|] eqn:Ftr; cbn [option_map]; [|reflexivity].
    assert (Hcl : cb < List.length (c_classes C)) by (rewrite (cw_len _ HC); eapply found_lt; eauto).
    rewrite (class_k K C preK postK preS postS preC postC HK cb Hcl).
    set (k0 := class_of (c_classes C) cb).
    match goal with |- context [set_nth cb ?z (c_classes C)] => set (k1 := z) end.
    assert (Ek : match COld (shift_cls off k0) with
                 | COld (CCentralBank _) => COld (CCentralBank (Some (tre + off)))
                 | CGoldCB _ stock => CGoldCB (Some (tre + off)) stock
                 | k => k
                 end = COld (shift_cls off k1)).
    { unfold k1. now destruct k0. }
    rewrite Ek.
    eexists. split; [reflexivity|]. split; [|split; [|split]].
    + destruct HK as [A1 A2 A3 A4 A5 A6 A7 A8 A9 A10 A11]. constructor; try assumption. cbn [k_classes c_classes].
      rewrite A3. assert (Ei : cb + off = List.length preC + cb) by lia. rewrite Ei, set_nth_app_l.
      rewrite set_nth_app_r by (now rewrite map_length). f_equal. f_equal.
      apply (set_nth_map (fun k => COld (shift_cls off k))).
    + assert (Hlen : forall (A : Type) (l : list A) i z, List.length (set_nth i z l) = List.length l).
      { intros A l. induction l as [|a r IH]; intros [|i'] z; cbn; try reflexivity. now rewrite IH. }
      apply (cwf_secs C (c_secs C) (set_nth cb k1 (c_classes C)) HC (Forall2_refl_frame _) (Hlen _ _ _ _)).
      intros m Hm. unfold class_of.
      assert (Hnth : forall (l : list cls) i z d m0, nth m0 (set_nth i z l) d = if Nat.eqb m0 i then (if Nat.ltb i (List.length l) then z else d) else nth m0 l d).
      { induction l as [|a r IH]; intros [|i'] z d [|m0]; cbn; try reflexivity.
        - destruct (Nat.eqb m0 i'); reflexivity.
        - rewrite IH. destruct (Nat.eqb m0 i'); [|reflexivity]. reflexivity. }
      rewrite Hnth. destruct (Nat.eqb_spec m cb) as [->|Hne]; [|reflexivity].
      destruct (Nat.ltb_spec cb (List.length (c_classes C))) as [_|Hge]; [|lia].
      fold (class_of (c_classes C) cb). fold k0. unfold k1. now destruct k0.
    + repeat split; cbn; now rewrite ?app_nil_r.
    + reflexivity.
Qed.

End Ops.

(* ------------------------------------------------------------------ *)
(** * Declarations (nothing of a later economy exists yet) *)

Lemma market_refs_shift k : market_refs (shift_cls off k) = map (fun j => j + off) (market_refs k).
Proof. now destruct k. Qed.

Lemma market_refs_sub k j : List.In j (market_refs k) -> List.In j (cls_refs k).
Proof. destruct k; cbn; tauto. Qed.

Section Decl.
Variables (K : kstate) (C : cstate) (preK : list (string * string)) (preS : list sector) (preC : list cls2).
Hypothesis HK : kblock K C preK [] preS [] preC [].
Hypothesis HC : cwf C.

Lemma resolve_markets_k ids : (forall j, List.In j ids -> j < ns) ->
  resolve_markets (k_secs K) (map (fun j => j + off) ids) = resolve_markets (c_secs C) ids.
Proof.
  induction ids as [|j r IH]; intros H; [reflexivity|]. cbn [map resolve_markets].
  rewrite (find_k K C preK [] preS [] preC [] HK j) by (apply H; now left).
  destruct (find_sec j (c_secs C)) as [m|]; cbn [option_map]; [|reflexivity].
  rewrite IH by (intros x Hx; apply H; now right). reflexivity.
Qed.

Lemma len_secs_k : List.length (k_secs K) = List.length (c_secs C) + off.
Proof. rewrite (kb_secs _ _ _ _ _ _ _ _ HK), !app_length, map_length, (kb_lenS _ _ _ _ _ _ _ _ HK). cbn. lia. Qed.

Theorem sector_sim ci c k : step_okb ns (StSector ci c k) = true ->
  nth_error (sector_decls p) (List.length (c_secs C)) = Some (ci, c, k) ->
  match run_step C (StSector ci c k) with
  | Ok C' => exists K', run_step2 K (S2Sector (ci + coff) c (COld (shift_cls off k))) = Ok K' /\
                        kblock K' C' preK [] preS [] preC [] /\ cwf C' /\ klogs K K' (StSector ci c k) /\
                        k_default K' = k_default K
  | Err e => run_step2 K (S2Sector (ci + coff) c (COld (shift_cls off k))) = Err e
  end.
Proof.
  intros Hok0 Hdecl. cbn [step_okb] in Hok0. apply andb_true_iff in Hok0 as [Hcls Hr]. pose proof (forallb_lt _ Hr) as Hlt.
  cbn [run_step run_step2]. unfold add_sector.
  assert (Hroom : List.length (c_secs C) < ns).
  { unfold nsectors. apply nth_error_Some. now rewrite Hdecl. }
  assert (Hmk : cls_is_market k = true -> mcode c).
  { intros Hm. apply Hmcode. unfold market_codes. apply in_map_iff. exists (ci, c, k). split; [reflexivity|].
    apply filter_In. split; [eapply nth_error_In; exact Hdecl|exact Hm]. }
  rewrite (kb_countries _ _ _ _ _ _ _ _ HK), app_nil_r.
  assert (Eci : ci + coff = List.length preK + ci) by (rewrite (kb_lenK _ _ _ _ _ _ _ _ HK); lia).
  rewrite Eci, nth_error_app_l, nth_error_map.
  destruct (nth_error (c_countries C) ci) as [cc|] eqn:Ecc; cbn [option_map]; [|reflexivity].
  assert (Hcc : List.In cc (country_codes p)) by (apply (cw_cc _ HC); eapply nth_error_In; exact Ecc).
  assert (Eex : existsb (fun s => in_country cc s && String.eqb (code s) c) (k_secs K)
                = existsb (fun s => in_country cc s && String.eqb (code s) c) (c_secs C)).
  { rewrite (kb_secs _ _ _ _ _ _ _ _ HK), app_nil_r, existsb_app.
    assert (E1 : existsb (fun s => in_country cc s && String.eqb (code s) c) preS = false).
    { assert (Hp : forall x, List.In x preS -> in_country cc x = false).
      { intros x Hx. unfold in_country. destruct (String.eqb_spec (country x) cc) as [E|_]; [|reflexivity].
        exfalso. apply (kb_out_cc _ _ _ _ _ _ _ _ HK x); [rewrite app_nil_r; exact Hx|now rewrite E]. }
      clear -Hp. induction preS as [|x r IH]; [reflexivity|]. cbn [existsb].
      rewrite (Hp x (or_introl eq_refl)). cbn [andb orb]. apply IH. intros y Hy. apply Hp. now right. }
    rewrite E1. cbn [orb]. apply (existsb_emb M). intros s _. reflexivity. }
  rewrite Eex. destruct (existsb _ (c_secs C)); [reflexivity|].
  unfold market_refs2. rewrite market_refs_shift.
  rewrite resolve_markets_k by (intros j Hj; apply Hlt; now apply market_refs_sub).
  destruct (resolve_markets (c_secs C) (market_refs k)) as [mrefs|]; cbn [bind]; [|reflexivity].
  unfold construct2, old_class.
  assert (Hc2 : construct (List.length (k_secs K)) cc c (shift_cls off k) mrefs
                = rmap E0 (construct (List.length (c_secs C)) cc c k mrefs)).
  { rewrite len_secs_k. apply (construct_emb M mcode G Hok (fun x => x) _ cc c k mrefs Hcls Hmk eq_refl). }
  assert (Hc3 : match shift_cls off k with
                | k0 => construct (List.length (k_secs K)) cc c k0 mrefs
                end = rmap E0 (construct (List.length (c_secs C)) cc c k mrefs)) by exact Hc2.
  destruct (construct (List.length (c_secs C)) cc c k mrefs) as [s|] eqn:Ecs; cbn [rmap bind] in *;
    [|now rewrite Hc2].
  destruct (construct_static _ _ _ _ _ _ Ecs) as (S1 & S2 & S3 & S4 & S5 & S6 & S7).
  eexists. split; [rewrite Hc2; reflexivity|]. split; [|split; [|split]].
  - destruct HK as [A1 A2 A3 A4 A5 A6 A7 A8 A9 A10 A11]. constructor; try assumption; cbn [k_countries k_secs k_classes k_sup c_countries c_secs c_classes c_sup].
    + now rewrite app_nil_r.
    + rewrite A2, !app_nil_r, map_app. cbn [map]. now rewrite <- app_assoc.
    + rewrite A3, !app_nil_r, map_app. cbn [map]. now rewrite <- app_assoc.
  - destruct HC as [B1 B2 B3 B4 B5 B6]. constructor; cbn [c_countries c_secs c_classes].
    + rewrite map_app, B1, app_length. cbn [map List.length]. rewrite S1.
      replace (List.length (c_secs C) + 1) with (S (List.length (c_secs C))) by lia. now rewrite seq_S.
    + rewrite !app_length. cbn. now rewrite B2.
    + rewrite app_length. cbn. lia.
    + intros x Hx. apply in_app_or in Hx as [Hx|[<-|[]]]; [now apply B4|].
      rewrite S1, S5. unfold sec_is_market. now rewrite Hdecl.
    + intros m Hm. rewrite app_length in Hm. cbn in Hm. unfold class_of.
      destruct (Nat.eq_dec m (List.length (c_classes C))) as [->|Hne].
      * rewrite app_nth2 by lia. rewrite Nat.sub_diag. cbn. unfold sec_is_market. now rewrite B2, Hdecl.
      * rewrite app_nth1 by lia. apply B5. lia.
    + exact B6.
  - repeat split; cbn; now rewrite ?app_nil_r.
  - reflexivity.
Qed.

End Decl.

(* ------------------------------------------------------------------ *)
(** * Countries; RegisterCurrency acts on the ExternalSector's sectors only *)

Lemma on_sector_app_r i f P R : (forall x, List.In x R -> sid x <> i) ->
  on_sector i f (P ++ R)%list = rmap (fun P' => (P' ++ R)%list) (on_sector i f P).
Proof.
  intros H. unfold on_sector. rewrite find_sec_app, (find_sec_none i R H).
  destruct (find_sec i P); [now apply upd_app_r|reflexivity].
Qed.

Lemma on_sector_sids i f P P' : on_sector i f P = Ok P' -> (forall s s', f s = Ok s' -> frame s s') -> Forall2 frame P P'.
Proof. apply on_sector_frame. Qed.

Lemma addv_frame' s n t s' : addv s n t = Ok s' -> frame s s'.
Proof. unfold addv. destruct (has_substring "__" n); [discriminate|]. intros H. inversion H. apply frame_with_vars. Qed.

Lemma register_currency_frame e c P P' : register_currency e c P = Ok P' -> Forall2 frame P P'.
Proof.
  unfold register_currency. destruct (on_sector (e_xr e) _ P) as [S1|] eqn:E1; [|discriminate]. cbn [bind]. intros E2.
  eapply Forall2_trans_frame.
  - eapply on_sector_frame; [exact E1|]. intros s s' H. eapply addv_frame'; exact H.
  - eapply on_sector_frame; [exact E2|]. intros s s' H. eapply addvs_frame; exact H.
Qed.

Lemma register_currency_app e c P R : (forall x, List.In x R -> sid x <> e_xr e /\ sid x <> e_fx e) ->
  register_currency e c (P ++ R)%list = rmap (fun P' => (P' ++ R)%list) (register_currency e c P).
Proof.
  intros H. unfold register_currency. rewrite on_sector_app_r by (intros x Hx; now apply H).
  destruct (on_sector (e_xr e) _ P) as [S1|]; cbn [rmap bind]; [|reflexivity].
  now rewrite on_sector_app_r by (intros x Hx; now apply H).
Qed.

(** total version: the sector list after RegisterCurrency *)
Definition regS (e : ext_ids) (c : string) (S : list sector) : list sector :=
  match register_currency e c S with Ok S' => S' | Err _ => S end.

Section Country.
Variables (K : kstate) (C : cstate) (preK : list (string * string)) (preS : list sector) (preC : list cls2).
Hypothesis HK : kblock K C preK [] preS [] preC [].
Hypothesis HC : cwf C.

Lemma mem_map_fst c (l : list string) : mem c (map fst (map (fun x => (x, cur)) l)) = mem c l.
Proof. induction l as [|a r IH]; [reflexivity|]. cbn. now rewrite IH. Qed.

Lemma mem_false c l : ~ List.In c l -> mem c l = false.
Proof. intros H. destruct (mem c l) eqn:E; [|reflexivity]. apply mem_In in E. contradiction. Qed.

Lemma mem_app c l1 l2 : mem c (l1 ++ l2)%list = mem c l1 || mem c l2.
Proof. induction l1 as [|a r IH]; [reflexivity|]. cbn. destruct (String.eqb c a); [reflexivity|exact IH]. Qed.

Theorem country_sim c seen : List.In c (country_codes p) ->
  seen = match c_countries C with [] => false | _ => true end ->
  (c_countries C = [] -> c = cur /\ ~ List.In cur (map snd preK)) ->
  (c_countries C <> [] -> k_default K = cur) ->
  (forall e, k_ext K = Some e -> e_xr e < off /\ e_fx e < off) ->
  (forall e, k_ext K = Some e -> c_countries C = [] -> is_ok (register_currency e cur preS) = true) ->
  match run_step C (StCountry c) with
  | Ok C' => exists K' preS', run_step2 K (S2Country c None seen) = Ok K' /\
                              kblock K' C' preK [] preS' [] preC [] /\ cwf C' /\ klogs K K' (StCountry c) /\
                              k_default K' = cur /\ Forall2 frame preS preS' /\
                              preS' = match k_ext K with
                                      | Some e => match c_countries C with [] => regS e cur preS | _ => preS end
                                      | None => preS
                                      end
  | Err e => run_step2 K (S2Country c None seen) = Err e
  end.
Proof.
  intros Hc Hseen Hfirst Hlater Hext Hreg. cbn [run_step run_step2]. unfold add_country.
  assert (Ecur : (if seen then k_default K else c) = cur).
  { rewrite Hseen. destruct (c_countries C) as [|c0 r] eqn:Ec; [now apply Hfirst|]. apply Hlater. discriminate. }
  rewrite Ecur.
  assert (Emem : mem c (map fst (k_countries K)) = mem c (c_countries C)).
  { rewrite (kb_countries _ _ _ _ _ _ _ _ HK), app_nil_r, map_app, mem_app, mem_map_fst.
    rewrite mem_false; [reflexivity|]. intros Hin. apply in_map_iff in Hin as (x & <- & Hx).
    apply (kb_out_code _ _ _ _ _ _ _ _ HK x); [rewrite app_nil_r; exact Hx|exact Hc]. }
  rewrite Emem. destruct (mem c (c_countries C)) eqn:Em; [reflexivity|].
  assert (HB : forall x, List.In x (map E0 (c_secs C) ++ [])%list -> forall j, j < off -> sid x <> j).
  { intros x Hx j Hj. rewrite app_nil_r in Hx. apply in_map_iff in Hx as (x0 & <- & _). cbn [sid emb_with]. lia. }
  assert (HCw : cwf (mkC (c_countries C ++ [c]) (c_secs C) (c_classes C) (c_sup C) (c_flows C) (c_exo C) (c_ic C))).
  { destruct HC as [B1 B2 B3 B4 B5 B6]. constructor; cbn [c_countries c_secs c_classes]; try assumption.
    intros c0 H0. apply in_app_or in H0 as [H0|[<-|[]]]; [now apply B6|exact Hc]. }
  assert (HKb : forall S' P', S' = (P' ++ map E0 (c_secs C) ++ [])%list -> Forall2 frame preS P' -> forall d ex,
    kblock (mkK (k_countries K ++ [(c, cur)]) d ex S' (k_classes K) (k_sup K) (k_flows K) (k_exo K) (k_ic K))
           (mkC (c_countries C ++ [c]) (c_secs C) (c_classes C) (c_sup C) (c_flows C) (c_exo C) (c_ic C)) preK [] P' [] preC []).
  { intros S' P' -> HF d ex. destruct HK as [A1 A2 A3 A4 A5 A6 A7 A8 A9 A10 A11].
    assert (HPin : forall x', List.In x' P' -> exists x, List.In x preS /\ frame x x') by (apply GenEmb_In_r; exact HF).
    constructor; cbn [k_countries k_secs k_classes k_sup c_countries c_secs c_classes c_sup]; try assumption.
    - rewrite A1, !app_nil_r, map_app. cbn [map]. now rewrite <- app_assoc.
    - reflexivity.
    - rewrite <- A5. now apply Forall2_length_frame.
    - intros x' Hx'. destruct (HPin x' Hx') as (x & H1 & H2). rewrite (frame_sid _ _ H2). now apply A7.
    - intros x' Hx'. rewrite app_nil_r in Hx'. destruct (HPin x' Hx') as (x & H1 & H2). rewrite (frame_country _ _ H2).
      apply A9. rewrite app_nil_r. exact H1. }
  set (nz := negb (mem cur (map snd (k_countries K)))).
  destruct (k_ext K) as [e|] eqn:Ee.
  - destruct nz eqn:Enz.
    + (* a new currency zone registers itself *)
      assert (Hempty : c_countries C = []).
      { destruct (c_countries C) as [|c0 r] eqn:Ec; [reflexivity|]. exfalso. unfold nz in Enz.
        rewrite (kb_countries _ _ _ _ _ _ _ _ HK), Ec in Enz. rewrite !map_app, !mem_app in Enz. cbn [map snd mem] in Enz.
        rewrite String.eqb_refl in Enz. cbn in Enz. rewrite orb_true_r in Enz. discriminate. }
      destruct (Hext e eq_refl) as [Hx1 Hx2].
      rewrite (kb_secs _ _ _ _ _ _ _ _ HK).
      rewrite register_currency_app by (intros x Hx; split; apply (HB x Hx); assumption).
      specialize (Hreg e eq_refl Hempty). destruct (register_currency e cur preS) as [P'|] eqn:Er; [|discriminate].
      cbn [rmap bind]. pose proof (register_currency_frame _ _ _ _ Er) as HF.
      eexists. exists P'. split; [reflexivity|]. split; [apply HKb; [reflexivity|exact HF]|].
      split; [exact HCw|]. split; [repeat split; cbn; now rewrite ?app_nil_r|]. split; [reflexivity|]. split; [exact HF|].
      rewrite Hempty. unfold regS. now rewrite Er.
    + cbn [bind]. eexists. exists preS. split; [reflexivity|].
      split; [apply HKb; [apply (kb_secs _ _ _ _ _ _ _ _ HK)|apply Forall2_refl_frame]|].
      split; [exact HCw|]. split; [repeat split; cbn; now rewrite ?app_nil_r|]. split; [reflexivity|].
      split; [apply Forall2_refl_frame|].
      destruct (c_countries C) as [|c0 r0] eqn:Ec; [|reflexivity]. exfalso. unfold nz in Enz.
      destruct (Hfirst eq_refl) as [_ Hfr]. rewrite (kb_countries _ _ _ _ _ _ _ _ HK), Ec in Enz.
      cbn [map app] in Enz. rewrite app_nil_r in Enz. rewrite (mem_false _ _ Hfr) in Enz. discriminate.
  - cbn [bind]. eexists. exists preS. split; [reflexivity|].
    split; [apply HKb; [apply (kb_secs _ _ _ _ _ _ _ _ HK)|apply Forall2_refl_frame]|].
    split; [exact HCw|]. split; [repeat split; cbn; now rewrite ?app_nil_r|]. split; [reflexivity|].
    split; [apply Forall2_refl_frame|reflexivity].
Qed.

End Country.

End Cons.
