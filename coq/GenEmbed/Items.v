(** The joint construction state as a list of items (one per slot: an economy with its current
    stand-alone state, or the ExternalSector): what Model.CountryList, the sector list and the
    class list look like, and the facts about creation indices / country codes that make every
    item's block a frame for the others. *)
From Coq Require Import List String Ascii Bool ZArith Arith Lia.
From SFC.Base Require Import Res Str Sorting.
From SFC.Gen Require Import Fx Zone.
From SFC.GenMarket Require Import Market.
From SFC.GenTax Require Import Tax TaxProofs DividendProofs.
From SFC.GenMain2 Require Import Program Classes Main Ledger MainProofs Program2 Main2.
From SFC.GenEmbed Require Import EmbDefs JointDefs Laws Good ZoneEmb Block ClassEmb ConsEmb ConsRun ExtReg.
Import ListNotations.
Local Open Scope string_scope.

Inductive item :=
| IExt (n : nat)
| IComp (p : program) (coff soff : nat) (C : cstate).

Section Items.
Variable g : bool.        (* does the joint model have several countries? *)

Definition iM (p : program) (soff : nat) : emap := emap_at g soff p.

Lemma iM_off p soff : e_off (iM p soff) = soff.
Proof. unfold iM, emap_at. now destruct (gains_prefix g p). Qed.

Definition it_cur (it : item) : string := match it with IExt _ => "NUMERAIRE" | IComp p _ _ _ => first_code p end.
Definition it_codes (it : item) : list string := match it with IExt _ => ["EXT"] | IComp p _ _ _ => country_codes p end.
Definition it_ns (it : item) : nat := match it with IExt _ => 3 | IComp p _ _ _ => nsectors p end.
Definition it_nc (it : item) : nat := match it with IExt _ => 1 | IComp p _ _ _ => ncountries p end.

Definition it_countries (it : item) : list (string * string) :=
  match it with
  | IExt _ => [("EXT", "NUMERAIRE")]
  | IComp p _ _ C => map (fun c => (c, first_code p)) (c_countries C)
  end.

Definition it_secs (curs : list string) (it : item) : list sector :=
  match it with
  | IExt n => Xof n curs
  | IComp p _ soff C => map (emb0 (iM p soff)) (c_secs C)
  end.

Definition it_classes (it : item) : list cls2 :=
  match it with
  | IExt _ => [CXR; CFX; CGOLD]
  | IComp p _ soff C => map (fun k => COld (shift_cls soff k)) (c_classes C)
  end.

Definition curs_of (its : list item) : list string := map it_cur its.
Definition countries_of (its : list item) : list (string * string) := List.concat (map it_countries its).
Definition secs_of (curs : list string) (its : list item) : list sector := List.concat (map (it_secs curs) its).
Definition classes_of (its : list item) : list cls2 := List.concat (map it_classes its).
Definition tot_ns (its : list item) : nat := sum_nat (map it_ns its).
Definition tot_nc (its : list item) : nat := sum_nat (map it_nc its).

Fixpoint ext_of (its : list item) : option ext_ids :=
  match its with
  | [] => None
  | IExt n :: _ => Some (xids n)
  | _ :: r => ext_of r
  end.

(** an economy whose declarations have all been executed *)
Record comp_full (p : program) (C : cstate) : Prop := mkCompFull {
  cf_wf : cwf p C;
  cf_len : List.length (c_secs C) = nsectors p;
  cf_cc : c_countries C = country_codes p;
  cf_sc : forall x, List.In x (c_secs C) -> List.In (country x) (country_codes p)
}.

Fixpoint items_wf (coff soff : nat) (its : list item) : Prop :=
  match its with
  | [] => True
  | IExt n :: r => n = soff /\ items_wf (S coff) (3 + soff) r
  | IComp p co so C :: r => co = coff /\ so = soff /\ comp_full p C /\ items_wf (ncountries p + coff) (nsectors p + soff) r
  end.

Lemma sum_nat_app a b : sum_nat (a ++ b) = sum_nat a + sum_nat b.
Proof. unfold sum_nat. induction a as [|x r IH]; cbn [app fold_right]; [reflexivity|]. rewrite IH. lia. Qed.

Lemma tot_ns_app a b : tot_ns (a ++ b) = tot_ns a + tot_ns b.
Proof. unfold tot_ns. now rewrite map_app, sum_nat_app. Qed.
Lemma tot_nc_app a b : tot_nc (a ++ b) = tot_nc a + tot_nc b.
Proof. unfold tot_nc. now rewrite map_app, sum_nat_app. Qed.

Lemma items_wf_app : forall a b coff soff,
  items_wf coff soff (a ++ b) <-> items_wf coff soff a /\ items_wf (tot_nc a + coff) (tot_ns a + soff) b.
Proof.
  induction a as [|it r IH]; intros b coff soff.
  - cbn. tauto.
  - destruct it as [n|p co so C]; cbn [app items_wf].
    + rewrite IH. unfold tot_nc, tot_ns. cbn [map sum_nat it_nc it_ns].
      replace (sum_nat (map it_nc r) + S coff) with (1 + sum_nat (map it_nc r) + coff) by lia.
      replace (sum_nat (map it_ns r) + (3 + soff)) with (3 + sum_nat (map it_ns r) + soff) by lia. tauto.
    + rewrite IH. unfold tot_nc, tot_ns. cbn [map sum_nat it_nc it_ns].
      replace (sum_nat (map it_nc r) + (ncountries p + coff)) with (ncountries p + sum_nat (map it_nc r) + coff) by lia.
      replace (sum_nat (map it_ns r) + (nsectors p + soff)) with (nsectors p + sum_nat (map it_ns r) + soff) by lia. tauto.
Qed.

(* ------------------------------------------------------------------ *)
(** * Lengths and creation indices *)

Lemma seq_shift_map s n k : map (fun j => j + k) (seq s n) = seq (s + k) n.
Proof. revert s. induction n as [|n IH]; intros s; [reflexivity|]. cbn. now rewrite IH. Qed.

Lemma it_secs_sids curs it soff : forallb cleancc curs = true ->
  match it with IExt n => n = soff | IComp p _ so C => so = soff /\ comp_full p C end ->
  map sid (it_secs curs it) = seq soff (it_ns it).
Proof.
  intros Hc H. destruct it as [n|p co so C]; cbn [it_secs it_ns].
  - subst n. exact (Xof_xblock soff curs Hc).
  - destruct H as [-> HF]. rewrite map_map.
    assert (E : map (fun x => sid (emb0 (iM p soff) x)) (c_secs C) = map (fun j => j + soff) (map sid (c_secs C))).
    { rewrite map_map. apply map_ext. intros x. cbn [sid emb0 emb_with]. now rewrite iM_off. }
    rewrite E, (cw_sids _ _ (cf_wf _ _ HF)), (cf_len _ _ HF). apply (seq_shift_map 0).
Qed.

Definition codes_of (its : list item) : list string := List.concat (map it_codes its).

Lemma secs_of_app curs a b : secs_of curs (a ++ b) = (secs_of curs a ++ secs_of curs b)%list.
Proof. unfold secs_of. now rewrite map_app, concat_app. Qed.
Lemma countries_of_app a b : countries_of (a ++ b) = (countries_of a ++ countries_of b)%list.
Proof. unfold countries_of. now rewrite map_app, concat_app. Qed.
Lemma classes_of_app a b : classes_of (a ++ b) = (classes_of a ++ classes_of b)%list.
Proof. unfold classes_of. now rewrite map_app, concat_app. Qed.
Lemma codes_of_app a b : codes_of (a ++ b) = (codes_of a ++ codes_of b)%list.
Proof. unfold codes_of. now rewrite map_app, concat_app. Qed.

Lemma secs_sids curs : forallb cleancc curs = true -> forall its coff soff, items_wf coff soff its ->
  map sid (secs_of curs its) = seq soff (tot_ns its).
Proof.
  intros Hc. induction its as [|it r IH]; intros coff soff H; [reflexivity|].
  unfold secs_of, tot_ns. cbn [map List.concat sum_nat fold_right]. rewrite map_app.
  destruct it as [n|p co so C]; cbn [items_wf] in H.
  - destruct H as [-> H]. rewrite (it_secs_sids curs (IExt soff) soff Hc eq_refl). cbn [it_ns].
    fold (secs_of curs r). rewrite (IH _ _ H). fold (tot_ns r).
    replace (3 + soff) with (soff + 3) by lia. now rewrite <- seq_app.
  - destruct H as (-> & -> & HF & H). rewrite (it_secs_sids curs (IComp p coff soff C) soff Hc (conj eq_refl HF)). cbn [it_ns].
    fold (secs_of curs r). rewrite (IH _ _ H). fold (tot_ns r).
    replace (nsectors p + soff) with (soff + nsectors p) by lia. now rewrite <- seq_app.
Qed.

Lemma secs_length curs its coff soff : forallb cleancc curs = true -> items_wf coff soff its ->
  List.length (secs_of curs its) = tot_ns its.
Proof. intros Hc H. rewrite <- (map_length sid), (secs_sids curs Hc its coff soff H). apply seq_length. Qed.

Lemma secs_sid_range curs its coff soff x : forallb cleancc curs = true -> items_wf coff soff its ->
  List.In x (secs_of curs its) -> soff <= sid x < soff + tot_ns its.
Proof.
  intros Hc H Hx. assert (Hs : List.In (sid x) (map sid (secs_of curs its))) by now apply in_map.
  rewrite (secs_sids curs Hc its coff soff H) in Hs. apply in_seq in Hs. lia.
Qed.

Lemma countries_length : forall its coff soff, items_wf coff soff its -> List.length (countries_of its) = tot_nc its.
Proof.
  induction its as [|it r IH]; intros coff soff H; [reflexivity|].
  unfold countries_of, tot_nc. cbn [map List.concat sum_nat fold_right]. rewrite app_length.
  fold (countries_of r). fold (tot_nc r). destruct it as [n|p co so C]; cbn [items_wf] in H.
  - destruct H as [_ H]. rewrite (IH _ _ H). reflexivity.
  - destruct H as (_ & _ & HF & H). rewrite (IH _ _ H). cbn [it_countries it_nc]. rewrite map_length, (cf_cc _ _ HF). reflexivity.
Qed.

Lemma classes_length : forall its coff soff, items_wf coff soff its -> List.length (classes_of its) = tot_ns its.
Proof.
  induction its as [|it r IH]; intros coff soff H; [reflexivity|].
  unfold classes_of, tot_ns. cbn [map List.concat sum_nat fold_right]. rewrite app_length.
  fold (classes_of r). fold (tot_ns r). destruct it as [n|p co so C]; cbn [items_wf] in H.
  - destruct H as [_ H]. rewrite (IH _ _ H). reflexivity.
  - destruct H as (_ & _ & HF & H). rewrite (IH _ _ H). cbn [it_classes it_ns].
    rewrite map_length, (cw_len _ _ (cf_wf _ _ HF)), (cf_len _ _ HF). reflexivity.
Qed.

Lemma frame_country_list (Z Z' : list sector) : Forall2 frame Z Z' -> map country Z' = map country Z.
Proof. induction 1 as [|a b l l' Hab _ IH]; [reflexivity|]. cbn. rewrite IH. f_equal. now apply frame_country. Qed.

Lemma secs_countries curs : forallb cleancc curs = true -> forall its coff soff, items_wf coff soff its ->
  forall x, List.In x (secs_of curs its) -> List.In (country x) (codes_of its).
Proof.
  intros Hc. induction its as [|it r IH]; intros coff soff H x Hx; [destruct Hx|].
  unfold secs_of in Hx. cbn [map List.concat] in Hx. apply in_app_or in Hx. unfold codes_of. cbn [map List.concat].
  apply in_or_app. destruct it as [n|p co so C]; cbn [items_wf] in H.
  - destruct H as [-> H]. destruct Hx as [Hx|Hx]; [left|right; eapply IH; eauto].
    cbn [it_secs it_codes] in *. destruct (Xof_ok soff curs Hc) as [_ HF].
    assert (Hin : List.In (country x) (map country (Xof soff curs))) by now apply in_map.
    rewrite (frame_country_list _ _ HF) in Hin. cbn in Hin. destruct Hin as [<-|[<-|[<-|[]]]]; now left.
  - destruct H as (-> & -> & HF & H). destruct Hx as [Hx|Hx]; [left|right; eapply IH; eauto].
    cbn [it_secs it_codes] in *. apply in_map_iff in Hx as (x0 & <- & Hx0). cbn [country emb0 emb_with].
    now apply (cf_sc _ _ HF).
Qed.

Lemma countries_codes : forall its coff soff, items_wf coff soff its ->
  forall y, List.In y (countries_of its) -> List.In (fst y) (codes_of its) /\ List.In (snd y) (curs_of its).
Proof.
  induction its as [|it r IH]; intros coff soff H y Hy; [destruct Hy|].
  unfold countries_of in Hy. cbn [map List.concat] in Hy. apply in_app_or in Hy. unfold codes_of, curs_of. cbn [map List.concat].
  destruct it as [n|p co so C]; cbn [items_wf] in H.
  - destruct H as [_ H]. destruct Hy as [Hy|Hy].
    + cbn [it_countries] in Hy. destruct Hy as [<-|[]]. split; [apply in_or_app; left|]; now left.
    + destruct (IH _ _ H y Hy) as [H1 H2]. split; [apply in_or_app; now right|now right].
  - destruct H as (_ & _ & HF & H). destruct Hy as [Hy|Hy].
    + cbn [it_countries it_codes it_cur] in *. apply in_map_iff in Hy as (c & <- & Hc0). cbn [fst snd].
      split; [apply in_or_app; left; now rewrite <- (cf_cc _ _ HF)|now left].
    + destruct (IH _ _ H y Hy) as [H1 H2]. split; [apply in_or_app; now right|now right].
Qed.

End Items.
