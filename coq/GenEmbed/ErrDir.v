(** Error direction of the embedding theorem: an economy whose pipeline fails alone (before the
    final "there are no equations" check) makes the joint model fail.  [core] is the stand-alone
    pipeline without that last check. *)
From Coq Require Import List String Ascii Bool ZArith Arith Lia.
From SFC.Base Require Import Res Str Sorting.
From SFC.Gen Require Import Fx Zone.
From SFC.GenMarket Require Import Market.
From SFC.GenTax Require Import Tax TaxProofs DividendProofs.
From SFC.GenMain2 Require Import Program Classes Main Ledger MainProofs Names Program2 Main2.
From SFC.GenEmbed Require Import EmbDefs JointDefs Laws Good ZoneEmb Block ClassEmb TokenMap PrefixLaws ConsEmb ConsRun ExtReg
  Items AssembleC AssembleK GenEmb FlowEmb Rounds AssembleM RowsDefs RowsEmb EvalOk Embed ErrK.
Import ListNotations.
Local Open Scope string_scope.

(* ------------------------------------------------------------------ *)
(** * The pipelines without traces and without the final emptiness check *)

Definition main_core (C : cstate) : result (zone * list (string * string)) :=
  do gf <- foldM (gen_step (mkI (c_classes C) (c_sup C))) (calls_i C) (mkG (zone0 C) (c_flows C)) ;;
  do Z1 <- foldM flow_step (g_flows gf) (g_zone gf) ;;
  do Zf <- foldM exo_step (c_exo C) Z1 ;;
  do ics <- ic_rows Zf (c_ic C) ;;
  Ok (Zf, ics).

Definition core (p : program) : result (zone * list (string * string)) := do C <- construct_all p ;; main_core C.

(** [build] is [core] followed by the check that there is at least one equation *)
Lemma build_core p :
  build p = match core p with
            | Ok (Zf, ics) => match zone_rows Zf, ics with
                              | [], [] => Err Warning_
                              | _, _ => Ok (mkFS Zf (zone_rows Zf) ics)
                              end
            | Err e => Err e
            end.
Proof.
  unfold build, build_run, core. destruct (construct_all p) as [C|e]; [|reflexivity]. cbn [bind].
  unfold main_run, main_core. fold (is_multi C). fold (zone0 C). fold (calls_i C).
  pose proof (run_trace_foldM (gen_step (mkI (c_classes C) (c_sup C))) (calls_i C) (mkG (zone0 C) (c_flows C))) as F1.
  destruct (run_trace (gen_step _) (calls_i C) _) as [[trg gfin]|e1]; cbn [rmap snd] in F1; rewrite <- F1; cbn [bind fst snd]; [|reflexivity].
  pose proof (run_trace_foldM flow_step (g_flows gfin) (g_zone gfin)) as F2.
  destruct (run_trace flow_step (g_flows gfin) (g_zone gfin)) as [[trf Z1]|e2]; cbn [rmap snd] in F2; rewrite <- F2; cbn [bind fst snd]; [|reflexivity].
  pose proof (run_trace_foldM exo_step (c_exo C) Z1) as F3.
  destruct (run_trace exo_step (c_exo C) Z1) as [[trx Zf]|e3]; cbn [rmap snd] in F3; rewrite <- F3; cbn [bind fst snd]; [|reflexivity].
  destruct (ic_rows Zf (c_ic C)) as [ics|e4]; cbn [bind]; [|reflexivity].
  destruct (zone_rows Zf); [destruct ics|]; reflexivity.
Qed.

Lemma core_err_build p e : core p = Err e -> build p = Err e.
Proof. intros H. now rewrite build_core, H. Qed.

Definition main_core2 (st : kstate) : result (zone * list (string * string)) :=
  let multi := Nat.ltb 1 (List.length (k_countries st)) in
  let Z0 := zone_order (map fst (k_countries st)) (map (set_fullcode multi) (k_secs st)) in
  let J := mkI2 (k_classes st) (k_sup st) (k_countries st) (k_ext st) in
  do gf <- foldM (gen_step2 J) (map (fun s => (sid s, class_of2 (k_classes st) (sid s))) Z0) (mkG2 Z0 (k_flows st) (k_ic st)) ;;
  do f <- foldM (flow_step2 J) (h_flows gf) (h_zone gf) ;;
  do x <- foldM exo_step (k_exo st) f ;;
  do ics <- ic_rows x (h_ic gf) ;;
  Ok (x, ics).

Lemma main_run2_core st e : main_core2 st = Err e -> main_run2 st = Err e.
Proof.
  unfold main_core2, main_run2. cbv zeta.
  set (J := mkI2 (k_classes st) (k_sup st) (k_countries st) (k_ext st)).
  set (Z0 := zone_order _ _). set (calls := map _ Z0).
  pose proof (run_trace_foldM (gen_step2 J) calls (mkG2 Z0 (k_flows st) (k_ic st))) as F1.
  destruct (run_trace (gen_step2 J) calls _) as [[trg gfin]|e1]; cbn [rmap snd] in F1; rewrite <- F1; cbn [bind fst snd]; [|intros H; now inversion H].
  pose proof (run_trace_foldM (flow_step2 J) (h_flows gfin) (h_zone gfin)) as F2.
  destruct (run_trace (flow_step2 J) (h_flows gfin) (h_zone gfin)) as [[trf Z1]|e2]; cbn [rmap snd] in F2; rewrite <- F2; cbn [bind fst snd]; [|intros H; now inversion H].
  pose proof (run_trace_foldM exo_step (k_exo st) Z1) as F3.
  destruct (run_trace exo_step (k_exo st) Z1) as [[trx Zf]|e3]; cbn [rmap snd] in F3; rewrite <- F3; cbn [bind fst snd]; [|intros H; now inversion H].
  destruct (ic_rows Zf (h_ic gfin)) as [ics|e4]; cbn [bind]; [discriminate|intros H; now inversion H].
Qed.

Lemma all_or_fail {A B} (f : A -> result B) (l : list A) :
  (forall a, List.In a l -> exists b, f a = Ok b) \/ (exists a e, List.In a l /\ f a = Err e).
Proof.
  induction l as [|a r IH]; [left; intros a []|]. destruct (f a) as [b|e] eqn:Ea.
  - destruct IH as [IH|(x & e & Hx & He)]; [left|right; exists x, e; split; [now right|exact He]].
    intros x [<-|Hx]; [now exists b|now apply IH].
  - right. exists a, e. split; [now left|exact Ea].
Qed.

(* ------------------------------------------------------------------ *)
(** * Model.main() of the joint model when some economy fails *)

Section FinalErr.
Variables (g : bool) (its : list item) (Kf : kstate).
Let curs := curs_of its.
Let J := mkI2 (k_classes Kf) (k_sup Kf) (k_countries Kf) (k_ext Kf).

Hypothesis HD : kdesc g its Kf.
Hypothesis Hwf : items_wf 0 0 its.
Hypothesis Hcs : forallb cleancc curs = true.
Hypothesis Hndc : NoDup (codes_of its).
Hypothesis Hndu : NoDup curs.
Hypothesis Hoks : forall i, List.In i its -> item_ok g i.
Hypothesis Hext1 : AssembleC.n_ext its <= 1.
Hypothesis Hrun : forall p co so C, List.In (IComp p co so C) its -> comp_run_ok g p C.
Hypothesis Hg : g = Nat.ltb 1 (tot_nc its).
Hypothesis Hcons : forall p co so C, List.In (IComp p co so C) its -> construct_all p = Ok C.
Hypothesis Hflows : k_flows Kf = (List.concat (map (it_batch2 g flow shift_flow fb1) its) ++ List.concat (map (it_batch2 g flow shift_flow fb2) its))%list.
Hypothesis Hexo : k_exo Kf = (List.concat (map (it_batch2 g _ shift_exo xb1) its) ++ List.concat (map (it_batch2 g _ shift_exo xb2) its))%list.
Hypothesis Hic : k_ic Kf = (List.concat (map (it_ic2 g ib1) its) ++ List.concat (map (it_ic2 g ib2) its))%list.

Local Lemma JC : j_countries J = countries_of its. Proof. exact (kd_countries _ _ _ HD). Qed.
Local Lemma JCl : j_classes J = classes_of its. Proof. exact (kd_classes _ _ _ HD). Qed.
Local Lemma JE : j_ext J = ext_of its. Proof. exact (kd_ext _ _ _ HD). Qed.
Local Lemma JS : forall p co so C, List.In (IComp p co so C) its -> forall m, m < nsectors p ->
  sup_of (m + so) (j_sup J) = shift_supinfo (iM g p so) (sup_of m (c_sup C)).
Proof. exact (kd_sup _ _ _ HD). Qed.

(** the lists of an economy's state, by part of the program *)
Lemma lists_static p co so C : List.In (IComp p co so C) its ->
  c_flows C = (fb1 (IComp p co so C) ++ fb2 (IComp p co so C))%list /\
  c_exo C = (xb1 (IComp p co so C) ++ xb2 (IComp p co so C))%list /\
  c_ic C = (ib1 (IComp p co so C) ++ ib2 (IComp p co so C))%list.
Proof.
  intros Hin. pose proof (Hcons p co so C Hin) as HC.
  destruct (construct_split p C HC) as (CD & HCD & HO).
  destruct (logs_static _ _ _ HCD) as (D1 & D2 & D3). destruct (logs_static _ _ _ HO) as (O1 & O2 & O3).
  cbn [c_init c_flows c_exo c_ic app] in D1, D2, D3. rewrite D1 in O1. rewrite D2 in O2. rewrite D3 in O3.
  cbn [fb1 fb2 xb1 xb2 ib1 ib2]. now repeat split.
Qed.

(** blocks: every item with its current stand-alone zone *)
Definition bl (z : item -> zone) : list (item * zone) := map (fun it => (it, z it)) its.
Definition lz {X} (step1 : zone -> X -> result zone) (batch : item -> list X) (z : item -> zone) (it : item) : zone :=
  loc_zone X step1 batch (it, z it).

Lemma bl_fst z : map fst (bl z) = its.
Proof. unfold bl. rewrite map_map. cbn. apply map_id. Qed.
Lemma bl_step {X} (step1 : zone -> X -> result zone) batch z :
  map (fun x => (fst x, loc_zone X step1 batch x)) (bl z) = bl (lz step1 batch z).
Proof. unfold bl. rewrite map_map. reflexivity. Qed.
Lemma bl_in z it Z : List.In (it, Z) (bl z) -> List.In it its /\ Z = z it.
Proof. unfold bl. intros H. apply in_map_iff in H as (i & E & Hi). inversion E. subst. now split. Qed.
Lemma bl_concat {A} (f : item -> list A) z : List.concat (map (fun x => f (fst x)) (bl z)) = List.concat (map f its).
Proof. unfold bl. now rewrite map_map. Qed.

(** one round: it fails, or it succeeds and every economy's batch succeeded *)
Lemma round_case X (step2 step1 : zone -> X -> result zone) (shiftX : emap -> (nat -> bool) -> X -> X) (okX : nat -> X -> Prop)
  (batch : item -> list X)
  (Hblock : forall (M : emap) (mcode : string -> Prop) (G : sector -> Prop), emap_ok M mcode G ->
     forall ns cur ism pre post xs Zi, bframe M G ns J cur pre post Zi -> ism_ok ism Zi -> (forall x, List.In x xs -> okX ns x) ->
     foldM step2 (map (shiftX M ism) xs) (pre ++ map (emb_with (e_FC M) M) Zi ++ post)%list
     = rmap (fun B => (pre ++ map (emb_with (e_FC M) M) B ++ post)%list) (foldM step1 xs Zi))
  (Hframe : forall xs Z Z', foldM step1 xs Z = Ok Z' -> frames Z Z') z :
  Forall (blk_ok g curs) (bl z) ->
  (forall p co so C, List.In (IComp p co so C) its -> forall x, List.In x (batch (IComp p co so C)) -> okX (nsectors p) x) ->
  (exists e', foldM step2 (List.concat (map (it_batch2 g X shiftX batch) its)) (jzone g (bl z)) = Err e') \/
  (foldM step2 (List.concat (map (it_batch2 g X shiftX batch) its)) (jzone g (bl z)) = Ok (jzone g (bl (lz step1 batch z))) /\
   Forall (blk_ok g curs) (bl (lz step1 batch z)) /\
   forall p co so C, List.In (IComp p co so C) its ->
     foldM step1 (batch (IComp p co so C)) (z (IComp p co so C)) = Ok (lz step1 batch z (IComp p co so C))).
Proof.
  intros Hblk Hrefs.
  destruct (all_or_fail (fun it => match it with IComp _ _ _ _ => foldM step1 (batch it) (z it) | IExt _ => Ok [] end) its) as [Hall|(it & e & Hit & He)].
  - right.
    destruct (round_items g its J Hwf Hcs Hndc Hndu Hoks Hext1 JC JCl JE JS Hrun X step2 step1 shiftX okX batch Hblock Hframe (bl z) [] (bl_fst z) Hblk) as [R B].
    { intros p co so C Z Hin. destruct (bl_in _ _ _ Hin) as [Hit ->]. split; [now apply Hrefs|]. exact (Hall _ Hit). }
    cbn [app] in R, B. unfold jzone at 1 3 in R. cbn [map List.concat app] in R.
    rewrite bl_concat, bl_step in R. rewrite bl_step in B. split; [exact R|]. split; [exact B|].
    intros p co so C Hit. destruct (Hall _ Hit) as (Z' & EZ'). rewrite EZ'. unfold lz, loc_zone. cbn [fst snd]. now rewrite EZ'.
  - left. destruct it as [n|p co so C]; [discriminate|].
    destruct (round_items_err g its J Hwf Hcs Hndc Hndu Hoks Hext1 JC JCl JE JS Hrun X step2 step1 shiftX okX batch Hblock Hframe (bl z) [] (bl_fst z) Hblk) as (e' & He').
    { intros q co' so' C' Z Hin. destruct (bl_in _ _ _ Hin) as [Hq _]. now apply Hrefs. }
    { exists p, co, so, C, (z (IComp p co so C)), e. split; [|exact He]. unfold bl. apply in_map_iff. now exists (IComp p co so C). }
    cbn [app] in He'. unfold jzone at 1 in He'. cbn [map List.concat app] in He'. rewrite bl_concat in He'. now exists e'.
Qed.

Lemma ic_case (icb : item -> list (nat * string * string)) z :
  Forall (blk_ok g curs) (bl z) ->
  (forall p co so C, List.In (IComp p co so C) its -> forall x, List.In x (icb (IComp p co so C)) -> fst (fst x) < nsectors p) ->
  (exists e', ic_rows (jzone g (bl z)) (List.concat (map (it_ic2 g icb) its)) = Err e') \/
  (ic_rows (jzone g (bl z)) (List.concat (map (it_ic2 g icb) its)) = Ok (List.concat (map (it_icrows g icb) (bl z))) /\
   forall p co so C, List.In (IComp p co so C) its -> exists rows, ic_rows (z (IComp p co so C)) (icb (IComp p co so C)) = Ok rows).
Proof.
  intros Hblk Hrefs.
  destruct (all_or_fail (fun it => match it with IComp _ _ _ _ => ic_rows (z it) (icb it) | IExt _ => Ok [] end) its) as [Hall|(it & e & Hit & He)].
  - right. pose proof (ic_round g its J Hwf Hcs Hndc Hndu Hoks Hext1 JC JE Hrun icb (bl z) [] (bl_fst z) Hblk) as I1.
    cbn [app] in I1. rewrite bl_concat in I1. split; [|intros p co so C Hit; exact (Hall _ Hit)].
    apply I1. intros p co so C Z Hin. destruct (bl_in _ _ _ Hin) as [Hit ->]. split; [now apply Hrefs|exact (Hall _ Hit)].
  - left. destruct it as [n|p co so C]; [discriminate|].
    destruct (ic_round_err g its J Hwf Hcs Hndc Hndu Hoks Hext1 JC JCl JE JS Hrun icb (bl z) [] (bl_fst z) Hblk) as (e' & He').
    { intros q co' so' C' Z Hin. destruct (bl_in _ _ _ Hin) as [Hq _]. now apply Hrefs. }
    { exists p, co, so, C, (z (IComp p co so C)), e. split; [|exact He]. unfold bl. apply in_map_iff. now exists (IComp p co so C). }
    cbn [app] in He'. rewrite bl_concat in He'. now exists e'.
Qed.

Definition zg (it : item) : zone := gen_zone g its it.

Lemma gen_case fl ic :
  (exists e', foldM (gen_step2 J) (List.concat (map (it_calls g) its)) (mkG2 (jzone g (bl0 g its)) fl ic) = Err e') \/
  (foldM (gen_step2 J) (List.concat (map (it_calls g) its)) (mkG2 (jzone g (bl0 g its)) fl ic)
   = Ok (mkG2 (jzone g (bl zg)) (fl ++ List.concat (map (it_genflows g) its))%list ic) /\
   Forall (blk_ok g curs) (bl zg) /\
   forall p co so C, List.In (IComp p co so C) its -> exists gf, gen_of g its (IComp p co so C) = Ok gf /\ zg (IComp p co so C) = g_zone gf).
Proof.
  assert (Hfst0 : map fst (bl0 g its) = its) by (unfold bl0; rewrite map_map; cbn; apply map_id).
  assert (Hinit : forall x, List.In x (bl0 g its) -> snd x = it_zone0 g (curs_of its) (fst x)).
  { intros x Hx. apply in_map_iff in Hx as (it & <- & _). reflexivity. }
  assert (Ecalls : List.concat (map (fun x : item * zone => it_calls g (fst x)) (bl0 g its)) = List.concat (map (it_calls g) its)).
  { unfold bl0. now rewrite map_map. }
  assert (Egfl : List.concat (map (fun x : item * zone => it_genflows g (fst x)) (bl0 g its)) = List.concat (map (it_genflows g) its)).
  { unfold bl0. now rewrite map_map. }
  destruct (all_or_fail (gen_of g its) its) as [Hall|(it & e & Hit & He)].
  - right.
    pose proof (gen_items g its J Hwf Hcs Hndc Hndu Hoks Hext1 JC JCl JE JS Hrun (bl0 g its) [] fl ic) as HG.
    cbn [app] in HG. unfold jzone at 1 3 in HG. cbn [map List.concat app] in HG.
    specialize (HG Hfst0 (bl0_ok g its) Hinit).
    rewrite Ecalls, Egfl in HG. rewrite HG.
    2:{ intros x Hx. apply in_map_iff in Hx as (it & <- & Hit). now apply Hall. }
    split; [|split].
    + f_equal. f_equal. unfold bl0, bl, zg. now rewrite map_map.
    + unfold bl, zg. apply (gen_blocks_ok g its its Hall).
    + intros p co so C Hit. destruct (Hall _ Hit) as (gf & Egf). exists gf. split; [exact Egf|]. unfold zg, gen_zone. now rewrite Egf.
  - left.
    destruct (gen_items_err g its J Hwf Hcs Hndc Hndu Hoks Hext1 JC JCl JE JS Hrun (bl0 g its) [] fl ic Hfst0 (bl0_ok g its) Hinit) as (e' & He').
    { exists (it, it_zone0 g (curs_of its) it), e. split; [|exact He]. unfold bl0. apply in_map_iff. now exists it. }
    cbn [app] in He'. unfold jzone at 1 in He'. cbn [map List.concat app] in He'. rewrite Ecalls in He'. now exists e'.
Qed.

Notation z1 := (lz flow_step fb1 zg).
Notation z2 := (lz flow_step fb2 z1).
Notation z3 := (lz flow_step fb3 z2).
Notation z4 := (lz exo_step xb1 z3).
Notation z5 := (lz exo_step xb2 z4).

Theorem final_run_err :
  (exists p co so C e, List.In (IComp p co so C) its /\ main_core C = Err e) ->
  exists e', main_run2 Kf = Err e'.
Proof.
  intros Hfail.
  assert (Hcore : exists e', main_core2 Kf = Err e'); [|destruct Hcore as (e' & He'); exists e'; now apply main_run2_core].
  unfold main_core2.
  assert (Hmulti : Nat.ltb 1 (List.length (k_countries Kf)) = g).
  { rewrite (kd_countries _ _ _ HD), (countries_length its 0 0 Hwf). now rewrite Hg. }
  rewrite Hmulti. change (mkI2 (k_classes Kf) (k_sup Kf) (k_countries Kf) (k_ext Kf)) with J.
  rewrite (kd_countries _ _ _ HD), (kd_secs _ _ _ HD).
  rewrite (Z0_items g its Hwf Hcs Hndc Hoks).
  assert (Ecalls : map (fun s => (sid s, class_of2 (k_classes Kf) (sid s))) (jzone g (bl0 g its)) = List.concat (map (it_calls g) its)).
  { pose proof (calls_items g its J Hwf Hcs Hoks Hext1 JCl) as H0. change (j_classes J) with (k_classes Kf) in H0.
    rewrite H0. unfold bl0. now rewrite map_map. }
  rewrite Ecalls.
  (* references, by round *)
  assert (Rf1 : forall p co so C, List.In (IComp p co so C) its -> forall x, List.In x (fb1 (IComp p co so C)) -> flow_refs_ok (nsectors p) x).
  { intros p co so C Hit x Hx. destruct (lists_static p co so C Hit) as (EF & _). apply (ro_flows _ _ _ (Hrun p co so C Hit)).
    apply in_or_app. left. rewrite EF. apply in_or_app. now left. }
  assert (Rf2 : forall p co so C, List.In (IComp p co so C) its -> forall x, List.In x (fb2 (IComp p co so C)) -> flow_refs_ok (nsectors p) x).
  { intros p co so C Hit x Hx. destruct (lists_static p co so C Hit) as (EF & _). apply (ro_flows _ _ _ (Hrun p co so C Hit)).
    apply in_or_app. left. rewrite EF. apply in_or_app. now right. }
  assert (Rf3 : forall p co so C, List.In (IComp p co so C) its -> forall x, List.In x (fb3 (IComp p co so C)) -> flow_refs_ok (nsectors p) x).
  { intros p co so C Hit x Hx. apply (ro_flows _ _ _ (Hrun p co so C Hit)). apply in_or_app. now right. }
  assert (Rx1 : forall p co so C, List.In (IComp p co so C) its -> forall x, List.In x (xb1 (IComp p co so C)) ->
            (fun n (y : nat * string * string) => fst (fst y) < n /\ exo_ok (snd y) = true) (nsectors p) x).
  { intros p co so C Hit x Hx. destruct (lists_static p co so C Hit) as (_ & EX & _). apply (ro_exo _ _ _ (Hrun p co so C Hit)).
    rewrite EX. apply in_or_app. now left. }
  assert (Rx2 : forall p co so C, List.In (IComp p co so C) its -> forall x, List.In x (xb2 (IComp p co so C)) ->
            (fun n (y : nat * string * string) => fst (fst y) < n /\ exo_ok (snd y) = true) (nsectors p) x).
  { intros p co so C Hit x Hx. destruct (lists_static p co so C Hit) as (_ & EX & _). apply (ro_exo _ _ _ (Hrun p co so C Hit)).
    rewrite EX. apply in_or_app. now right. }
  assert (Ri1 : forall p co so C, List.In (IComp p co so C) its -> forall x, List.In x (ib1 (IComp p co so C)) -> fst (fst x) < nsectors p).
  { intros p co so C Hit x Hx. destruct (lists_static p co so C Hit) as (_ & _ & EI). apply (ro_ic _ _ _ (Hrun p co so C Hit)).
    rewrite EI. apply in_or_app. now left. }
  assert (Ri2 : forall p co so C, List.In (IComp p co so C) its -> forall x, List.In x (ib2 (IComp p co so C)) -> fst (fst x) < nsectors p).
  { intros p co so C Hit x Hx. destruct (lists_static p co so C Hit) as (_ & _ & EI). apply (ro_ic _ _ _ (Hrun p co so C Hit)).
    rewrite EI. apply in_or_app. now right. }
  (* _GenerateEquations *)
  destruct (gen_case (k_flows Kf) (k_ic Kf)) as [(e' & He)|(HG & B0 & S0)]; [rewrite He; cbn [bind]; now exists e'|].
  rewrite HG. cbn [bind h_flows h_zone h_ic].
  assert (Egf : List.concat (map (it_genflows g) its) = List.concat (map (it_batch2 g flow shift_flow fb3) its)).
  { f_equal. apply map_ext. intros [n|p co so C]; reflexivity. }
  rewrite Egf, Hflows, Hexo, Hic, !foldM_app.
  (* registered cash flows *)
  destruct (round_case flow (flow_step2 J) flow_step shift_flow flow_refs_ok fb1 (flow_block_adapt Kf) flow_frames zg B0 Rf1)
    as [(e' & He)|(R1 & B1 & S1)]; [rewrite He; cbn [bind]; now exists e'|].
  rewrite R1. cbn [bind].
  destruct (round_case flow (flow_step2 J) flow_step shift_flow flow_refs_ok fb2 (flow_block_adapt Kf) flow_frames z1 B1 Rf2)
    as [(e' & He)|(R2 & B2 & S2)]; [rewrite He; cbn [bind]; now exists e'|].
  rewrite R2. cbn [bind].
  destruct (round_case flow (flow_step2 J) flow_step shift_flow flow_refs_ok fb3 (flow_block_adapt Kf) flow_frames z2 B2 Rf3)
    as [(e' & He)|(R3 & B3 & S3)]; [rewrite He; cbn [bind]; now exists e'|].
  rewrite R3. cbn [bind]. rewrite foldM_app.
  (* exogenous declarations *)
  destruct (round_case _ exo_step exo_step shift_exo (fun n (y : nat * string * string) => fst (fst y) < n /\ exo_ok (snd y) = true) xb1
              (exo_block_adapt Kf) exo_frames z3 B3 Rx1) as [(e' & He)|(R4 & B4 & S4)]; [rewrite He; cbn [bind]; now exists e'|].
  rewrite R4. cbn [bind].
  destruct (round_case _ exo_step exo_step shift_exo (fun n (y : nat * string * string) => fst (fst y) < n /\ exo_ok (snd y) = true) xb2
              (exo_block_adapt Kf) exo_frames z4 B4 Rx2) as [(e' & He)|(R5 & B5 & S5)]; [rewrite He; cbn [bind]; now exists e'|].
  rewrite R5. cbn [bind]. rewrite ic_rows_app.
  (* initial conditions *)
  destruct (ic_case ib1 z5 B5 Ri1) as [(e' & He)|(I1 & T1)]; [rewrite He; cbn [bind]; now exists e'|].
  rewrite I1. cbn [bind].
  destruct (ic_case ib2 z5 B5 Ri2) as [(e' & He)|(I2 & T2)]; [rewrite He; cbn [bind]; now exists e'|].
  (* every phase of every economy succeeded: no economy fails *)
  exfalso. destruct Hfail as (p & co & so & C & e & Hit & He).
  destruct (S0 p co so C Hit) as (gf & Egf0 & Ezg). cbn [gen_of] in Egf0.
  destruct (lists_static p co so C Hit) as (EF & EX & EI).
  pose proof (S1 p co so C Hit) as F1. pose proof (S2 p co so C Hit) as F2. pose proof (S3 p co so C Hit) as F3.
  pose proof (S4 p co so C Hit) as X1. pose proof (S5 p co so C Hit) as X2.
  destruct (T1 p co so C Hit) as (r1 & Er1). destruct (T2 p co so C Hit) as (r2 & Er2).
  unfold main_core in He. rewrite Egf0 in He. cbn [bind] in He.
  rewrite (gen_flows_all _ _ _ _ Egf0) in He. cbn [g_flows] in He. rewrite EF in He.
  change (flat_map gen_flows (calls_i C)) with (fb3 (IComp p co so C)) in He.
  rewrite !foldM_app in He. rewrite <- Ezg in He. rewrite F1 in He. cbn [bind] in He. rewrite F2 in He. cbn [bind] in He.
  rewrite F3 in He. cbn [bind] in He. rewrite EX, foldM_app, X1 in He. cbn [bind] in He. rewrite X2 in He. cbn [bind] in He.
  rewrite EI, ic_rows_app, Er1 in He. cbn [bind] in He. rewrite Er2 in He. discriminate.
Qed.

End FinalErr.
