(** Construction of the joint model, all slots: the declarations of every slot, then the trailing
    operations of every economy. *)
From Coq Require Import List String Ascii Bool ZArith Arith Lia.
From SFC.Base Require Import Res Str Sorting.
From SFC.Gen Require Import Fx Zone.
From SFC.GenMarket Require Import Market.
From SFC.GenTax Require Import Tax TaxProofs DividendProofs.
From SFC.GenMain2 Require Import Program Classes Main Ledger MainProofs Program2 Main2.
From SFC.GenEmbed Require Import EmbDefs JointDefs Laws Good ZoneEmb Block ClassEmb TokenMap PrefixLaws ConsEmb ConsRun ExtReg Items AssembleC.
Import ListNotations.
Local Open Scope string_scope.

Definition sl_codes (sl : list (option program)) : list string :=
  List.concat (map (fun o => match o with Some p => country_codes p | None => ["EXT"] end) sl).
Definition sl_curs (sl : list (option program)) : list string :=
  map (fun o => match o with Some p => first_code p | None => "NUMERAIRE" end) sl.
Fixpoint sl_comps (sl : list (option program)) : list program :=
  match sl with [] => [] | Some p :: r => p :: sl_comps r | None :: r => sl_comps r end.
Fixpoint n_none (sl : list (option program)) : nat :=
  match sl with [] => 0 | None :: r => S (n_none r) | _ :: r => n_none r end.

(** the items of a slot list, given the state of each economy *)
Fixpoint d_items (coff soff : nat) (sl : list (option program)) (Cs : list cstate) : list item :=
  match sl, Cs with
  | None :: r, _ => IExt soff :: d_items (S coff) (3 + soff) r Cs
  | Some p :: r, C :: Cr => IComp p coff soff C :: d_items (ncountries p + coff) (nsectors p + soff) r Cr
  | _, _ => []
  end.

Section K.
Variable g : bool.
Notation iM := (iM g).

(** what a round of the joint program appends to the model's lists *)
Fixpoint r_flows (part : program -> program) (soff : nat) (sl : list (option program)) : list flow :=
  match sl with
  | [] => []
  | None :: r => r_flows part (3 + soff) r
  | Some p :: r => (map (shift_flow (iM p soff) (sec_is_market p)) (flat_map step_flows (part p)) ++ r_flows part (nsectors p + soff) r)%list
  end.
Fixpoint r_exo (part : program -> program) (soff : nat) (sl : list (option program)) : list (nat * string * string) :=
  match sl with
  | [] => []
  | None :: r => r_exo part (3 + soff) r
  | Some p :: r => (map (shift_exo (iM p soff) (sec_is_market p)) (flat_map step_exo (part p)) ++ r_exo part (nsectors p + soff) r)%list
  end.
Fixpoint r_ic (part : program -> program) (soff : nat) (sl : list (option program)) : list (nat * string * string) :=
  match sl with
  | [] => []
  | None :: r => r_ic part (3 + soff) r
  | Some p :: r => (map (shift_ic (iM p soff) (sec_is_market p)) (flat_map step_ic (part p)) ++ r_ic part (nsectors p + soff) r)%list
  end.

Lemma codes_d_items : forall sl Cs coff soff, List.length Cs = List.length (sl_comps sl) ->
  codes_of (d_items coff soff sl Cs) = sl_codes sl /\ curs_of (d_items coff soff sl Cs) = sl_curs sl /\
  AssembleC.n_ext (d_items coff soff sl Cs) = n_none sl.
Proof.
  induction sl as [|[p|] r IH]; intros Cs coff soff HL; [now destruct Cs| |].
  - destruct Cs as [|C Cr]; [discriminate|]. cbn [d_items sl_comps List.length] in *.
    destruct (IH Cr (ncountries p + coff) (nsectors p + soff)) as (H1 & H2 & H3); [lia|].
    unfold codes_of, sl_codes, curs_of, sl_curs in *. cbn [map List.concat it_codes it_cur AssembleC.n_ext n_none]. now rewrite H1, H2, H3.
  - cbn [d_items sl_comps] in *. destruct (IH Cs (S coff) (3 + soff) HL) as (H1 & H2 & H3).
    unfold codes_of, sl_codes, curs_of, sl_curs in *. cbn [map List.concat it_codes it_cur AssembleC.n_ext n_none]. now rewrite H1, H2, H3.
Qed.

Lemma NoDup_app_inv {A} (a b : list A) : NoDup (a ++ b) -> NoDup a /\ NoDup b /\ forall x, List.In x a -> ~ List.In x b.
Proof.
  induction a as [|x r IH]; intros H; [repeat split; [constructor|exact H|intros x []]|].
  cbn in H. inversion H as [|y l Hx Hr]. subst. destruct (IH Hr) as (H1 & H2 & H3). repeat split.
  - constructor; [|exact H1]. intros Hin. apply Hx. apply in_or_app. now left.
  - exact H2.
  - intros y [->|Hy]; [intros Hb; apply Hx; apply in_or_app; now right|now apply H3].
Qed.

(* ------------------------------------------------------------------ *)
(** * Declarations of all slots *)

Theorem phaseD_list : forall todo Ctodo its K,
  kdesc g its K -> items_wf 0 0 its -> AssembleC.n_ext its + n_none todo <= 1 ->
  forallb cleancc (curs_of its ++ sl_curs todo) = true ->
  NoDup (codes_of its ++ sl_codes todo) -> NoDup (curs_of its ++ sl_curs todo) ->
  forallb comp_static (sl_comps todo) = true ->
  (forall p co so C, List.In (IComp p co so C) its -> 1 <= ncountries p) ->
  Forall2 (fun p C => construct_all (decl_part p) = Ok C) (sl_comps todo) Ctodo ->
  exists K', foldM run_step2 (decls_from g (tot_nc its) (tot_ns its) todo) K = Ok K' /\
             kdesc g (its ++ d_items (tot_nc its) (tot_ns its) todo Ctodo) K' /\
             items_wf 0 0 (its ++ d_items (tot_nc its) (tot_ns its) todo Ctodo) /\
             k_flows K' = (k_flows K ++ r_flows decl_part (tot_ns its) todo)%list /\
             k_exo K' = (k_exo K ++ r_exo decl_part (tot_ns its) todo)%list /\
             k_ic K' = (k_ic K ++ r_ic decl_part (tot_ns its) todo)%list.
Proof.
  induction todo as [|[p|] r IH]; intros Ctodo its K HD Hwf Hne Hcs Hnd1 Hnd2 Hst Hnc HF.
  - cbn. exists K. rewrite !app_nil_r. split; [reflexivity|]. split; [exact HD|]. split; [exact Hwf|]. now repeat split.
  - cbn [sl_comps] in HF, Hst. inversion HF as [|p0 CD l Cr HCD HF']. subst.
    cbn [forallb] in Hst. apply andb_true_iff in Hst as [Hst1 Hst2].
    cbn [sl_curs sl_codes map List.concat n_none] in *.
    rewrite forallb_app in Hcs. apply andb_true_iff in Hcs as [Hcs1 Hcs2]. cbn [forallb] in Hcs2. apply andb_true_iff in Hcs2 as [Hcs2 Hcs3].
    destruct (NoDup_app_inv _ _ Hnd1) as (_ & _ & Hd1). destruct (NoDup_app_inv _ _ Hnd2) as (_ & _ & Hd2).
    assert (Hdj : disjoint_codes p its []).
    { intros c Hc Hin. rewrite app_nil_r in Hin. apply (Hd1 c Hin). apply in_or_app. now left. }
    assert (Hfr : ~ List.In (first_code p) (curs_of its)) by (intros Hin; apply (Hd2 _ Hin); now left).
    pose proof (phaseD_comp g its K p HD Hwf ltac:(lia) Hcs1 Hst1 Hdj Hfr) as HS. rewrite HCD in HS.
    destruct HS as (K1 & R1 & HD1 & HCF & L1 & L2 & L3).
    set (its1 := (its ++ [IComp p (tot_nc its) (tot_ns its) CD])%list) in *.
    assert (Hwf1 : items_wf 0 0 its1).
    { apply items_wf_app. split; [exact Hwf|]. rewrite !Nat.add_0_r. cbn. tauto. }
    assert (En : tot_nc its1 = ncountries p + tot_nc its) by (unfold its1; rewrite tot_nc_app; unfold tot_nc at 2; cbn; lia).
    assert (Es : tot_ns its1 = nsectors p + tot_ns its) by (unfold its1; rewrite tot_ns_app; unfold tot_ns at 2; cbn; lia).
    assert (Ecu : curs_of its1 = (curs_of its ++ [first_code p])%list) by (unfold its1; now rewrite curs_of_app).
    assert (Eco : codes_of its1 = (codes_of its ++ country_codes p)%list).
    { unfold its1. rewrite codes_of_app. unfold codes_of at 2. cbn. now rewrite app_nil_r. }
    specialize (IH Cr its1 K1 HD1 Hwf1).
    assert (Hn1 : AssembleC.n_ext its1 + n_none r <= 1) by (unfold its1; rewrite n_ext_app; cbn; lia).
    specialize (IH Hn1). rewrite Ecu, Eco, <- !app_assoc in IH. cbn [app] in IH.
    assert (Hcs' : forallb cleancc (curs_of its ++ first_code p :: sl_curs r) = true).
    { rewrite forallb_app. cbn [forallb]. rewrite Hcs1, Hcs2. exact Hcs3. }
    specialize (IH Hcs' Hnd1 Hnd2).
    assert (Hnc' : forall q co so C, List.In (IComp q co so C) its1 -> 1 <= ncountries q).
    { intros q co so C Hin. unfold its1 in Hin. apply in_app_or in Hin as [Hin|[Hin|[]]]; [eapply Hnc; eauto|].
      inversion Hin. subst. now destruct (comp_static_inv q Hst1) as (_ & H & _). }
    specialize (IH Hst2 Hnc' HF').
    destruct IH as (K' & R' & HD' & Hwf' & G1 & G2 & G3).
    exists K'. cbn [decls_from d_items]. rewrite foldM_app. unfold tr_decls in R1. unfold tr_decls. rewrite R1. cbn [bind].
    rewrite En, Es in *. split; [exact R'|].
    unfold its1 in HD', Hwf'. rewrite <- app_assoc in HD', Hwf'. cbn [app] in HD', Hwf'.
    split; [exact HD'|]. split; [exact Hwf'|]. cbn [r_flows r_exo r_ic].
    split; [now rewrite G1, L1, <- app_assoc|]. split; [now rewrite G2, L2, <- app_assoc|]. now rewrite G3, L3, <- app_assoc.
  - cbn [sl_comps sl_curs sl_codes map List.concat n_none] in *.
    rewrite forallb_app in Hcs. apply andb_true_iff in Hcs as [Hcs1 Hcs2]. cbn [forallb] in Hcs2. apply andb_true_iff in Hcs2 as [_ Hcs3].
    assert (Hne0 : ext_of its = None) by (apply n_ext_none; lia).
    assert (Hnum : ~ List.In "NUMERAIRE" (curs_of its)).
    { apply NoDup_app_inv in Hnd2 as (_ & _ & Hd). intros Hin. apply (Hd _ Hin). now left. }
    assert (Hext : ~ List.In "EXT" (codes_of its)).
    { apply NoDup_app_inv in Hnd1 as (_ & _ & Hd). intros Hin. apply (Hd _ Hin). now left. }
    assert (Hnd' : NoDup (curs_of its ++ ["NUMERAIRE"])).
    { apply NoDup_app_inv in Hnd2 as (H1 & _ & _). clear -H1 Hnum. induction (curs_of its) as [|a l IH]; [constructor; [intros []|constructor]|].
      inversion H1. subst. cbn. constructor.
      - intros Hin. apply in_app_or in Hin as [Hin|[Hin|[]]]; [contradiction|]. apply Hnum. now left.
      - apply IH; [assumption|]. intros Hin. apply Hnum. now right. }
    destruct (phaseD_ext g its K HD Hwf Hne0 Hcs1 Hnd' Hext Hnc) as (K1 & R1 & HD1 & L1 & L2 & L3).
    set (its1 := (its ++ [IExt (tot_ns its)])%list) in *.
    assert (Hwf1 : items_wf 0 0 its1).
    { apply items_wf_app. split; [exact Hwf|]. rewrite !Nat.add_0_r. cbn. tauto. }
    assert (En : tot_nc its1 = S (tot_nc its)) by (unfold its1; rewrite tot_nc_app; unfold tot_nc at 2; cbn; lia).
    assert (Es : tot_ns its1 = 3 + tot_ns its) by (unfold its1; rewrite tot_ns_app; unfold tot_ns at 2; cbn; lia).
    assert (Ecu : curs_of its1 = (curs_of its ++ ["NUMERAIRE"])%list) by (unfold its1; now rewrite curs_of_app).
    assert (Eco : codes_of its1 = (codes_of its ++ ["EXT"])%list).
    { unfold its1. rewrite codes_of_app. unfold codes_of at 2. cbn. reflexivity. }
    specialize (IH Ctodo its1 K1 HD1 Hwf1).
    assert (Hn1 : AssembleC.n_ext its1 + n_none r <= 1) by (unfold its1; rewrite n_ext_app; cbn; lia).
    specialize (IH Hn1). rewrite Ecu, Eco, <- !app_assoc in IH. cbn [app] in IH.
    assert (Hcs' : forallb cleancc (curs_of its ++ "NUMERAIRE" :: sl_curs r) = true).
    { rewrite forallb_app. cbn [forallb]. rewrite Hcs1. exact Hcs3. }
    specialize (IH Hcs' Hnd1 Hnd2 Hst).
    assert (Hnc' : forall q co so C, List.In (IComp q co so C) its1 -> 1 <= ncountries q).
    { intros q co so C Hin. unfold its1 in Hin. apply in_app_or in Hin as [Hin|[Hin|[]]]; [eapply Hnc; eauto|discriminate]. }
    specialize (IH Hnc' HF).
    destruct IH as (K' & R' & HD' & Hwf' & G1 & G2 & G3).
    exists K'. cbn [decls_from d_items foldM]. rewrite R1. rewrite En, Es in *. split; [exact R'|].
    unfold its1 in HD', Hwf'. rewrite <- app_assoc in HD', Hwf'. cbn [app] in HD', Hwf'.
    split; [exact HD'|]. split; [exact Hwf'|]. cbn [r_flows r_exo r_ic].
    split; [now rewrite G1, L1|]. split; [now rewrite G2, L2|]. now rewrite G3, L3.
Qed.

(* ------------------------------------------------------------------ *)
(** * Trailing operations of all economies *)

Fixpoint ops_ok (ps : list program) (CDs Cs : list cstate) : Prop :=
  match ps, CDs, Cs with
  | [], [], [] => True
  | p :: r, CD :: a, C :: b => foldM run_step (ops_part p) CD = Ok C /\ ops_ok r a b
  | _, _, _ => False
  end.

Lemma NoDup_mid {A} (a p b : list A) : NoDup (a ++ p ++ b) -> forall c, List.In c p -> ~ List.In c (a ++ b).
Proof.
  intros H c Hc Hin. apply NoDup_app_inv in H as (_ & H2 & H3). apply NoDup_app_inv in H2 as (_ & _ & H4).
  apply in_app_or in Hin as [Hin|Hin]; [apply (H3 c Hin); apply in_or_app; now left|now apply (H4 c Hc)].
Qed.

Theorem phaseO_list : forall todo CDs Cs ia K,
  let its := (ia ++ d_items (tot_nc ia) (tot_ns ia) todo CDs)%list in
  kdesc g its K -> items_wf 0 0 its -> forallb cleancc (curs_of its) = true -> NoDup (curs_of its) -> NoDup (codes_of its) ->
  forallb comp_static (sl_comps todo) = true -> ops_ok (sl_comps todo) CDs Cs ->
  exists K', foldM run_step2 (ops_from g (tot_nc ia) (tot_ns ia) todo) K = Ok K' /\
             kdesc g (ia ++ d_items (tot_nc ia) (tot_ns ia) todo Cs) K' /\
             items_wf 0 0 (ia ++ d_items (tot_nc ia) (tot_ns ia) todo Cs) /\
             k_flows K' = (k_flows K ++ r_flows ops_part (tot_ns ia) todo)%list /\
             k_exo K' = (k_exo K ++ r_exo ops_part (tot_ns ia) todo)%list /\
             k_ic K' = (k_ic K ++ r_ic ops_part (tot_ns ia) todo)%list.
Proof.
  induction todo as [|[p|] r IH]; intros CDs Cs ia K its HD Hwf Hcs Hnd Hndc Hst Hops.
  - cbn [sl_comps ops_ok] in Hops. destruct CDs; [|destruct Hops]. destruct Cs; [|destruct Hops].
    unfold its in *. cbn [d_items ops_from foldM r_flows r_exo r_ic] in *. exists K. rewrite !app_nil_r in *.
    split; [reflexivity|]. split; [exact HD|]. split; [exact Hwf|]. now repeat split.
  - cbn [sl_comps ops_ok] in Hops, Hst. destruct CDs as [|CD CDr]; [destruct Hops|]. destruct Cs as [|C Cr]; [destruct Hops|].
    destruct Hops as [HC Hops]. cbn [forallb] in Hst. apply andb_true_iff in Hst as [Hst1 Hst2].
    unfold its in *. cbn [d_items] in *.
    set (ib := d_items (ncountries p + tot_nc ia) (nsectors p + tot_ns ia) r CDr) in *.
    assert (Hdj : disjoint_codes p ia ib).
    { rewrite codes_of_app in Hndc. unfold codes_of at 2 in Hndc. cbn [map List.concat it_codes] in Hndc. fold (codes_of ib) in Hndc.
      intros c Hc. now apply (NoDup_mid _ _ _ Hndc). }
    pose proof (phaseO_comp g ia ib p (tot_nc ia) (tot_ns ia) CD K HD Hwf Hcs Hnd Hst1 Hdj) as HS. rewrite HC in HS.
    destruct HS as (K1 & R1 & HD1 & HCF & L1 & L2 & L3).
    set (ia1 := (ia ++ [IComp p (tot_nc ia) (tot_ns ia) C])%list).
    assert (En : tot_nc ia1 = ncountries p + tot_nc ia) by (unfold ia1; rewrite tot_nc_app; unfold tot_nc at 2; cbn; lia).
    assert (Es : tot_ns ia1 = nsectors p + tot_ns ia) by (unfold ia1; rewrite tot_ns_app; unfold tot_ns at 2; cbn; lia).
    assert (Eits : forall X, (ia ++ IComp p (tot_nc ia) (tot_ns ia) C :: X)%list = (ia1 ++ X)%list) by (intros X; unfold ia1; now rewrite <- app_assoc).
    assert (Hwf1 : items_wf 0 0 (ia ++ IComp p (tot_nc ia) (tot_ns ia) C :: ib)).
    { destruct (items_wf_mid _ _ _ Hwf) as (W1 & W2 & W3). apply items_wf_app. split; [exact W1|]. rewrite !Nat.add_0_r.
      cbn [items_wf] in W2 |- *. destruct W2 as (E1 & E2 & _ & _). split; [exact E1|]. split; [exact E2|]. split; [exact HCF|exact W3]. }
    assert (Ecu : curs_of (ia ++ IComp p (tot_nc ia) (tot_ns ia) C :: ib) = curs_of (ia ++ IComp p (tot_nc ia) (tot_ns ia) CD :: ib)).
    { now rewrite !curs_of_app. }
    assert (Eco : codes_of (ia ++ IComp p (tot_nc ia) (tot_ns ia) C :: ib) = codes_of (ia ++ IComp p (tot_nc ia) (tot_ns ia) CD :: ib)).
    { now rewrite !codes_of_app. }
    specialize (IH CDr Cr ia1 K1). rewrite En, Es in IH. fold ib in IH. rewrite <- Eits in IH.
    rewrite Ecu, Eco in IH. specialize (IH HD1 Hwf1 Hcs Hnd Hndc Hst2 Hops).
    destruct IH as (K' & R' & HD' & Hwf' & G1 & G2 & G3).
    exists K'. cbn [ops_from d_items]. rewrite foldM_app. unfold tr_ops in R1 |- *. rewrite R1. cbn [bind].
    split; [exact R'|]. rewrite <- Eits in HD', Hwf'. split; [exact HD'|]. split; [exact Hwf'|]. cbn [r_flows r_exo r_ic].
    split; [now rewrite G1, L1, <- app_assoc|]. split; [now rewrite G2, L2, <- app_assoc|]. now rewrite G3, L3, <- app_assoc.
  - cbn [sl_comps] in Hops, Hst. unfold its in *. cbn [d_items] in *.
    set (ia1 := (ia ++ [IExt (tot_ns ia)])%list).
    assert (En : tot_nc ia1 = S (tot_nc ia)) by (unfold ia1; rewrite tot_nc_app; unfold tot_nc at 2; cbn; lia).
    assert (Es : tot_ns ia1 = 3 + tot_ns ia) by (unfold ia1; rewrite tot_ns_app; unfold tot_ns at 2; cbn; lia).
    assert (Eits : forall X, (ia ++ IExt (tot_ns ia) :: X)%list = (ia1 ++ X)%list) by (intros X; unfold ia1; now rewrite <- app_assoc).
    specialize (IH CDs Cs ia1 K). rewrite En, Es in IH. rewrite <- Eits in IH.
    specialize (IH HD Hwf Hcs Hnd Hndc Hst Hops).
    destruct IH as (K' & R' & HD' & Hwf' & G1 & G2 & G3).
    exists K'. cbn [ops_from d_items r_flows r_exo r_ic]. rewrite <- Eits in HD', Hwf'.
    split; [exact R'|]. split; [exact HD'|]. split; [exact Hwf'|]. split; [exact G1|]. split; [exact G2|exact G3].
Qed.

End K.
