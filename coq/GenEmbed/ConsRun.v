(** Construction phase: a whole list of steps of an economy's program, executed inside the joint
    model, against the stand-alone run (induction over the steps with ConsEmb's one-step lemmas). *)
From Coq Require Import List String Ascii Bool ZArith Arith Lia.
From SFC.Base Require Import Res Str Sorting.
From SFC.Gen Require Import Fx Zone.
From SFC.GenMarket Require Import Market.
From SFC.GenTax Require Import Tax TaxProofs DividendProofs.
From SFC.GenMain2 Require Import Program Classes Main Ledger MainProofs Program2 Main2.
From SFC.GenEmbed Require Import EmbDefs JointDefs Laws Good ZoneEmb Block ClassEmb ConsEmb.
Import ListNotations.
Local Open Scope string_scope.

Definition has_country (l : list string) : bool := match l with [] => false | _ => true end.

Lemma has_country_app a b : has_country (a ++ b)%list = has_country a || has_country b.
Proof. destruct a; reflexivity. Qed.

Lemma run_step_statics C ci c k C1 : run_step C (StSector ci c k) = Ok C1 ->
  c_countries C1 = c_countries C /\ List.length (c_secs C1) = List.length (c_secs C) + 1.
Proof.
  cbn [run_step]. destruct (nth_error (c_countries C) ci); [|discriminate].
  destruct (existsb _ (c_secs C)); [discriminate|].
  destruct (resolve_markets (c_secs C) (market_refs k)); [|discriminate]. cbn [bind].
  destruct (construct _ _ _ _ _); [|discriminate]. intros H. inversion H. cbn. now rewrite app_length.
Qed.

Section Run.
Variables (M : emap) (mcode : string -> Prop) (G : sector -> Prop).
Hypothesis Hok : emap_ok M mcode G.
Variable p : program.
Variable coff : nat.
Hypothesis Hmcode : forall c, List.In c (market_codes p) -> mcode c.

Notation cur := (first_code p).
Notation off := (e_off M).
Notation ns := (nsectors p).
Notation ism := (sec_is_market p).
Notation kblock := (kblock M p coff cur).
Notation cwf := (cwf p).
Notation klogs := (klogs M p).

Variables (preK : list (string * string)) (preC : list cls2).

Definition decl_free (postK : list (string * string)) (postS : list sector) (postC : list cls2) (todo : program) : Prop :=
  forallb is_op todo = true \/ (postK = [] /\ postS = [] /\ postC = []).

Lemma decl_free_tail postK postS postC x r : decl_free postK postS postC (x :: r) -> decl_free postK postS postC r.
Proof. intros [H|H]; [left|now right]. cbn in H. now apply andb_true_iff in H. Qed.

Theorem tr_run postK postS postC rest : forall todo done K C preS,
  p = (done ++ todo ++ rest)%list ->
  forallb (step_okb ns) todo = true ->
  kblock K C preK postK preS postS preC postC -> cwf C ->
  List.length (c_secs C) = List.length (sector_decls done) -> c_countries C = country_codes done ->
  decl_free postK postS postC todo ->
  (has_country (country_codes done) = true -> has_country (country_codes todo) = true -> k_default K = cur) ->
  ~ List.In cur (map snd preK) ->
  (has_country (country_codes todo) = true -> forall e, k_ext K = Some e -> e_xr e < off /\ e_fx e < off) ->
  (has_country (country_codes done) = false -> forall e, k_ext K = Some e -> is_ok (register_currency e cur preS) = true) ->
  match foldM run_step todo C with
  | Ok C' =>
      exists K' preS',
        foldM run_step2 (tr_steps M coff ism (has_country (country_codes done)) todo) K = Ok K' /\
        kblock K' C' preK postK preS' postS preC postC /\ cwf C' /\
        k_flows K' = (k_flows K ++ map (shift_flow M ism) (flat_map step_flows todo))%list /\
        k_exo K' = (k_exo K ++ map (shift_exo M ism) (flat_map step_exo todo))%list /\
        k_ic K' = (k_ic K ++ map (shift_ic M ism) (flat_map step_ic todo))%list /\
        k_ext K' = k_ext K /\
        (forall k, k < off \/ off + ns <= k -> sup_of k (k_sup K') = sup_of k (k_sup K)) /\
        k_default K' = (if has_country (country_codes todo) then cur else k_default K) /\
        Forall2 frame preS preS' /\
        preS' = (if has_country (country_codes done) then preS
                 else if has_country (country_codes todo) then match k_ext K with Some e => regS e cur preS | None => preS end
                 else preS)
  | Err e => foldM run_step2 (tr_steps M coff ism (has_country (country_codes done)) todo) K = Err e
  end.
Proof.
  induction todo as [|x r IH]; intros done K C preS Hp Hsteps HK HC Hlen Hcc Hdf Hdef Hfresh Hext Hreg.
  - cbn. exists K, preS. split; [reflexivity|]. split; [exact HK|]. split; [exact HC|].
    split; [now rewrite app_nil_r|]. split; [now rewrite app_nil_r|]. split; [now rewrite app_nil_r|].
    split; [reflexivity|]. split; [reflexivity|]. split; [reflexivity|]. split; [apply Forall2_refl_frame|].
    cbn. now destruct (has_country (country_codes done)).
  - cbn [forallb] in Hsteps. apply andb_true_iff in Hsteps as [Hx Hr].
    assert (Hp' : p = ((done ++ [x]) ++ r ++ rest)%list) by (rewrite <- app_assoc; exact Hp).
    destruct x as [c|ci c k|o]; cbn [tr_steps foldM flat_map step_flows step_exo step_ic country_codes].
    + (* country *)
      assert (Hpost : postK = [] /\ postS = [] /\ postC = []) by (destruct Hdf as [H|H]; [discriminate|exact H]).
      destruct Hpost as (Hp1 & Hp2 & Hp3). subst postK postS postC.
      assert (Hin : List.In c (country_codes p)).
      { rewrite Hp, country_codes_app. apply in_or_app. right. now left. }
      pose proof (country_sim M p coff cur K C preK preS preC HK HC c (has_country (country_codes done)) Hin) as HS.
      rewrite Hcc in HS. specialize (HS eq_refl).
      assert (H1 : country_codes done = [] -> c = cur /\ ~ List.In cur (map snd preK)).
      { intros E0. split; [|exact Hfresh]. unfold first_code. rewrite Hp, country_codes_app, E0. reflexivity. }
      assert (H2 : country_codes done <> [] -> k_default K = cur).
      { intros Hne. apply Hdef; [destruct (country_codes done); [contradiction|reflexivity]|reflexivity]. }
      assert (H4 : forall e, k_ext K = Some e -> country_codes done = [] -> is_ok (register_currency e cur preS) = true).
      { intros e He E0. apply Hreg; [now rewrite E0|exact He]. }
      specialize (HS H1 H2 (Hext eq_refl) H4).
      destruct (run_step C (StCountry c)) as [C1|e] eqn:E1; [|now rewrite HS].
      destruct HS as (K1 & preS1 & R1 & HK1 & HC1 & (L1 & L2 & L3 & L4 & L5) & D1 & F1 & O1). rewrite R1.
      assert (Hcc1 : c_countries C1 = country_codes (done ++ [StCountry c])%list).
      { cbn [run_step] in E1. destruct (mem c (c_countries C)); [discriminate|]. inversion E1. cbn. now rewrite Hcc, country_codes_app. }
      assert (Hlen1 : List.length (c_secs C1) = List.length (sector_decls (done ++ [StCountry c])%list)).
      { cbn [run_step] in E1. destruct (mem c (c_countries C)); [discriminate|]. inversion E1. cbn. now rewrite Hlen, sector_decls_app, app_nil_r. }
      assert (Hhc : has_country (country_codes (done ++ [StCountry c])%list) = true).
      { rewrite country_codes_app, has_country_app. cbn. now rewrite orb_true_r. }
      specialize (IH (done ++ [StCountry c])%list K1 C1 preS1 Hp' Hr HK1 HC1 Hlen1 Hcc1 (decl_free_tail _ _ _ _ _ Hdf)).
      rewrite Hhc in IH. specialize (IH (fun _ _ => D1) Hfresh).
      assert (Hext1 : has_country (country_codes r) = true -> forall e, k_ext K1 = Some e -> e_xr e < off /\ e_fx e < off)
        by (intros _ e He; apply (Hext eq_refl); now rewrite <- L4).
      specialize (IH Hext1 (fun H => ltac:(discriminate))).
      destruct (foldM run_step r C1) as [C'|e]; [|exact IH].
      destruct IH as (K' & preS' & R' & HK' & HC' & G1 & G2 & G3 & G4 & GS & G5 & G6 & G7).
      exists K', preS'. split; [exact R'|]. split; [exact HK'|]. split; [exact HC'|].
      cbn [step_flows step_exo step_ic] in *. rewrite app_nil_r in L1, L2, L3.
      split; [now rewrite G1, L1|]. split; [now rewrite G2, L2|]. split; [now rewrite G3, L3|].
      split; [now rewrite G4|]. split; [intros k0 Hk0; now rewrite GS, L5|]. split.
      { cbn [has_country]. rewrite G5. destruct (has_country (country_codes r)); [reflexivity|exact D1]. }
      split; [eapply Forall2_trans_frame; eauto|].
      rewrite G7, O1. cbn [has_country].
      destruct (country_codes done); cbn [has_country]; [reflexivity|now destruct (k_ext K)].
    + (* sector *)
      assert (Hpost : postK = [] /\ postS = [] /\ postC = []) by (destruct Hdf as [H|H]; [discriminate|exact H]).
      destruct Hpost as (Hp1 & Hp2 & Hp3). subst postK postS postC.
      assert (Hdecl : nth_error (sector_decls p) (List.length (c_secs C)) = Some (ci, c, k)).
      { rewrite Hp, sector_decls_app, Hlen. cbn [sector_decls].
        rewrite <- (Nat.add_0_r (List.length (sector_decls done))), nth_error_app_l. reflexivity. }
      pose proof (sector_sim M mcode G Hok p coff cur Hmcode K C preK preS preC HK HC ci c k Hx Hdecl) as HS.
      destruct (run_step C (StSector ci c k)) as [C1|e] eqn:E1; [|now rewrite HS].
      destruct HS as (K1 & R1 & HK1 & HC1 & (L1 & L2 & L3 & L4 & L5) & D1). rewrite R1.
      assert (Hcc1 : c_countries C1 = country_codes (done ++ [StSector ci c k])%list).
      { pose proof (run_step_statics C ci c k C1 E1) as [Q1 Q2]. now rewrite Q1, Hcc, country_codes_app, app_nil_r. }
      assert (Hlen1 : List.length (c_secs C1) = List.length (sector_decls (done ++ [StSector ci c k])%list)).
      { pose proof (run_step_statics C ci c k C1 E1) as [Q1 Q2]. rewrite Q2, sector_decls_app, !app_length. cbn. now rewrite Hlen. }
      assert (Hhc : has_country (country_codes (done ++ [StSector ci c k])%list) = has_country (country_codes done)).
      { now rewrite country_codes_app, app_nil_r. }
      specialize (IH (done ++ [StSector ci c k])%list K1 C1 preS Hp' Hr HK1 HC1 Hlen1 Hcc1 (decl_free_tail _ _ _ _ _ Hdf)).
      rewrite Hhc in IH.
      assert (Hdef1 : has_country (country_codes done) = true -> has_country (country_codes r) = true -> k_default K1 = cur)
        by (intros H H'; rewrite D1; now apply Hdef).
      assert (Hext1 : has_country (country_codes r) = true -> forall e, k_ext K1 = Some e -> e_xr e < off /\ e_fx e < off)
        by (intros H' e He; apply (Hext H'); now rewrite <- L4).
      assert (Hreg1 : has_country (country_codes done) = false -> forall e, k_ext K1 = Some e -> is_ok (register_currency e cur preS) = true).
      { intros H e He. apply Hreg; [exact H|now rewrite <- L4]. }
      specialize (IH Hdef1 Hfresh Hext1 Hreg1).
      destruct (foldM run_step r C1) as [C'|e]; [|exact IH].
      destruct IH as (K' & preS' & R' & HK' & HC' & G1 & G2 & G3 & G4 & GS & G5 & G6 & G7).
      exists K', preS'. split; [exact R'|]. split; [exact HK'|]. split; [exact HC'|].
      cbn [step_flows step_exo step_ic] in *. rewrite app_nil_r in L1, L2, L3.
      split; [now rewrite G1, L1|]. split; [now rewrite G2, L2|]. split; [now rewrite G3, L3|].
      split; [now rewrite G4|]. split; [intros k0 Hk0; now rewrite GS, L5|]. split; [now rewrite G5, D1|]. split; [exact G6|].
      rewrite G7, L4. reflexivity.
    + (* operation *)
      pose proof (op_sim M mcode G Hok p coff cur K C preK postK preS postS preC postC HK HC o Hx) as HS.
      cbn [run_step].
      destruct (run_op C o) as [C1|e] eqn:E1; [|cbn [run_step2]; now rewrite HS].
      destruct HS as (K1 & R1 & HK1 & HC1 & (L1 & L2 & L3 & L4 & L5) & D1). cbn [run_step2]. rewrite R1.
      pose proof (run_step_logs C (StOp o) C1 E1) as (Q1 & Q2 & Q3).
      assert (Hfr : Forall2 frame (c_secs C) (c_secs C1) /\ c_countries C1 = c_countries C).
      { clear -E1. destruct o; cbn [run_op] in E1.
        - destruct (on_sector _ _ _) eqn:Eo; [|discriminate]. inversion E1. cbn. split; [|reflexivity].
          eapply on_sector_frame; [exact Eo|]. intros x x' Hx. eapply addv_frame'; exact Hx.
        - destruct (find_sec _ _); [|discriminate]. inversion E1. cbn. split; [apply Forall2_refl_frame|reflexivity].
        - destruct (find_sec src _); [|discriminate]. destruct (find_sec tgt _); [|discriminate]. inversion E1. cbn. split; [apply Forall2_refl_frame|reflexivity].
        - destruct (find_sec market _); [|discriminate]. destruct (find_sec supplier _); [|discriminate].
          destruct (has_add_supplier _); [|discriminate]. destruct (sup_of _ _). inversion E1. cbn. split; [apply Forall2_refl_frame|reflexivity].
        - destruct (on_sector _ _ _) eqn:Eo; [|discriminate]. inversion E1. cbn. split; [|reflexivity].
          eapply on_sector_frame; [exact Eo|]. intros x x' Hx. apply asset_weighting_lstep in Hx. exact (ls_frame _ _ _ Hx).
        - destruct (find_sec _ _); [|discriminate]. inversion E1. cbn. split; [apply Forall2_refl_frame|reflexivity].
        - destruct (find_sec cb _); [|discriminate]. destruct (find_sec tre _); [|discriminate]. inversion E1. cbn. split; [apply Forall2_refl_frame|reflexivity]. }
      destruct Hfr as [Hfr Hcs].
      assert (Hcc1 : c_countries C1 = country_codes (done ++ [StOp o])%list) by (now rewrite Hcs, Hcc, country_codes_app, app_nil_r).
      assert (Hlen1 : List.length (c_secs C1) = List.length (sector_decls (done ++ [StOp o])%list)).
      { rewrite sector_decls_app, app_nil_r, <- Hlen. now apply Forall2_length_frame. }
      assert (Hhc : has_country (country_codes (done ++ [StOp o])%list) = has_country (country_codes done)).
      { now rewrite country_codes_app, app_nil_r. }
      specialize (IH (done ++ [StOp o])%list K1 C1 preS Hp' Hr HK1 HC1 Hlen1 Hcc1 (decl_free_tail _ _ _ _ _ Hdf)).
      rewrite Hhc in IH.
      assert (Hdef1 : has_country (country_codes done) = true -> has_country (country_codes r) = true -> k_default K1 = cur)
        by (intros H H'; rewrite D1; now apply Hdef).
      assert (Hext1 : has_country (country_codes r) = true -> forall e, k_ext K1 = Some e -> e_xr e < off /\ e_fx e < off)
        by (intros H' e He; apply (Hext H'); now rewrite <- L4).
      assert (Hreg1 : has_country (country_codes done) = false -> forall e, k_ext K1 = Some e -> is_ok (register_currency e cur preS) = true).
      { intros H e He. apply Hreg; [exact H|now rewrite <- L4]. }
      specialize (IH Hdef1 Hfresh Hext1 Hreg1).
      destruct (foldM run_step r C1) as [C'|e]; [|exact IH].
      destruct IH as (K' & preS' & R' & HK' & HC' & G1 & G2 & G3 & G4 & GS & G5 & G6 & G7).
      exists K', preS'. split; [exact R'|]. split; [exact HK'|]. split; [exact HC'|].
      split; [now rewrite G1, L1, map_app, app_assoc|]. split; [now rewrite G2, L2, map_app, app_assoc|].
      split; [now rewrite G3, L3, map_app, app_assoc|].
      split; [now rewrite G4|]. split; [intros k0 Hk0; now rewrite GS, L5|]. split; [now rewrite G5, D1|]. split; [exact G6|].
      rewrite G7, L4. reflexivity.
Qed.

End Run.
