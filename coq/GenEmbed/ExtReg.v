(** ExternalSector.RegisterCurrency inside the joint construction state: it acts on the
    ExternalSector's own three sectors only and always succeeds for clean currency codes. *)
From Coq Require Import List String Ascii Bool ZArith Arith Lia.
From SFC.Base Require Import Res Str Sorting.
From SFC.Gen Require Import Fx Zone.
From SFC.GenMarket Require Import Market.
From SFC.GenTax Require Import Tax TaxProofs DividendProofs.
From SFC.GenAsset Require Import Weighting.
From SFC.GenMain2 Require Import Program Classes Main Ledger MainProofs Program2 Main2.
From SFC.GenEmbed Require Import EmbDefs JointDefs Laws Good ZoneEmb Block ClassEmb TokenMap PrefixLaws ConsEmb.
Import ListNotations.
Local Open Scope string_scope.

Definition xids (n : nat) : ext_ids := mkExt n (S n) (S (S n)).

(** the ExternalSector's block: three sectors with creation indices n, n+1, n+2 *)
Definition xblock (n : nat) (X : list sector) : Prop := map sid X = [n; S n; S (S n)].

Lemma xblock_frame n X X' : xblock n X -> Forall2 frame X X' -> xblock n X'.
Proof.
  unfold xblock. intros H HF. rewrite <- H. clear H.
  induction HF as [|a b l l' Hab _ IH]; [reflexivity|]. cbn. rewrite IH. f_equal. now apply frame_sid.
Qed.

Lemma xblock_ext_secs n : xblock n (ext_secs n).
Proof. reflexivity. Qed.

Lemma reg_mid e c A X B :
  (forall x, List.In x A -> sid x <> e_xr e /\ sid x <> e_fx e) ->
  (forall x, List.In x B -> sid x <> e_xr e /\ sid x <> e_fx e) ->
  register_currency e c (A ++ X ++ B)%list = rmap (fun X' => (A ++ X' ++ B)%list) (register_currency e c X).
Proof.
  intros HA HB.
  assert (Hon : forall i f S, (i = e_xr e \/ i = e_fx e) ->
            on_sector i f (A ++ S ++ B)%list = rmap (fun S' => (A ++ S' ++ B)%list) (on_sector i f S)).
  { intros i f S Hi. unfold on_sector.
    assert (HAi : forall x, List.In x A -> sid x <> i) by (intros x Hx; destruct (HA x Hx); destruct Hi; congruence).
    assert (HBi : forall x, List.In x B -> sid x <> i) by (intros x Hx; destruct (HB x Hx); destruct Hi; congruence).
    rewrite find_sec_frame by assumption. destruct (find_sec i S); [|reflexivity].
    now apply Block.upd_frame. }
  unfold register_currency. rewrite Hon by now left.
  destruct (on_sector (e_xr e) _ X) as [S1|]; cbn [rmap bind]; [|reflexivity].
  rewrite Hon by now right. reflexivity.
Qed.

Lemma no_dd_lit_cur lit c : no_us c = true -> has_substring "__" lit = false ->
  (forall r, head_us r = false -> has_substring "__" (lit ++ r) = false) ->
  has_substring "__" (lit ++ c) = false.
Proof.
  intros Hc _ H. apply H. destruct c as [|a c]; [reflexivity|]. cbn [no_us] in Hc. apply andb_true_iff in Hc as [Ha _].
  cbn [head_us]. unfold is_underscore. now apply negb_true_iff in Ha.
Qed.

Lemma hs_lit_tail lit : forall r, has_substring "__" (lit ++ "_") = false -> head_us r = false ->
  has_substring "__" r = false -> has_substring "__" (lit ++ "_" ++ r) = false.
Proof.
  induction lit as [|a l IH]; intros r H1 H2 H3.
  - cbn [append]. rewrite hs_dd_cons. cbn. rewrite H2, H3. reflexivity.
  - cbn [append] in *. rewrite hs_dd_cons in *. apply orb_false_iff in H1 as [H1a H1b].
    apply orb_false_iff. split.
    + destruct (is_underscore a); [|reflexivity]. cbn [andb] in *. destruct l as [|b l']; cbn [append head_us] in *; exact H1a.
    + now apply IH.
Qed.

Lemma cc_names c : cleancc c = true ->
  has_substring "__" c = false /\ has_substring "__" ("NET_" ++ c) = false /\
  has_substring "__" ("F_" ++ c) = false /\ has_substring "__" ("LAG_F_" ++ c) = false.
Proof.
  intros H. destruct (cleancc_spec c H) as (H1 & _ & _ & H4 & _).
  pose proof (all_alnum_no_us c H1) as Hn. pose proof (no_us_no_dd c Hn) as Hd.
  split; [exact Hd|].
  split; [apply (hs_lit_tail "NET" c); [reflexivity|exact H4|exact Hd]|].
  split; [apply (hs_lit_tail "F" c); [reflexivity|exact H4|exact Hd]|].
  apply (hs_lit_tail "LAG_F" c); [reflexivity|exact H4|exact Hd].
Qed.

Lemma find_sec_sids i X : List.In i (map sid X) -> exists s, find_sec i X = Some s.
Proof.
  unfold find_sec. induction X as [|x r IH]; intros H; [destruct H|]. cbn [find].
  destruct (Nat.eqb_spec (sid x) i) as [E|Hn]; [now exists x|]. apply IH. destruct H as [H|H]; [contradiction|exact H].
Qed.

Lemma upd_total i f X : (forall s, exists s', f s = Ok s') -> forall s0, find_sec i X = Some s0 -> exists X', upd i f X = Ok X'.
Proof.
  intros Hf. unfold find_sec. induction X as [|x r IH]; intros s0 H; [discriminate|]. cbn [find upd] in *.
  destruct (Nat.eqb (sid x) i).
  - destruct (Hf x) as (x' & E). rewrite E. now eexists.
  - destruct (IH s0 H) as (r' & E). rewrite E. now eexists.
Qed.

Lemma on_sector_total i f X : (forall s, exists s', f s = Ok s') -> List.In i (map sid X) -> exists X', on_sector i f X = Ok X'.
Proof.
  intros Hf Hi. destruct (find_sec_sids i X Hi) as (s0 & E). unfold on_sector. rewrite E. eapply upd_total; eauto.
Qed.

(** registration on the block succeeds *)
Lemma reg_block_ok n c X : xblock n X -> cleancc c = true ->
  exists X', register_currency (xids n) c X = Ok X' /\ Forall2 frame X X'.
Proof.
  intros HX Hc. destruct (cc_names c Hc) as (N0 & N1 & N2 & N3).
  assert (H1 : exists X1, on_sector n (fun s => addv s c "1.0") X = Ok X1).
  { apply on_sector_total; [|rewrite HX; now left]. intros s. unfold addv. rewrite N0. now eexists. }
  destruct H1 as (X1 & E1).
  assert (F1 : Forall2 frame X X1).
  { eapply on_sector_frame; [exact E1|]. intros s s' H. eapply addv_frame'; exact H. }
  assert (H2 : exists X2, on_sector (S n) (fun s => addvs s [("NET_" ++ c, ""); ("F_" ++ c, "LAG_F_" ++ c ++ " + NET_" ++ c);
                                                          ("LAG_F_" ++ c, "F_" ++ c ++ "(k-1)")]) X1 = Ok X2).
  { apply on_sector_total; [|rewrite (xblock_frame _ _ _ HX F1); right; now left].
    intros s. cbn [addvs]. unfold addv. rewrite N1, N2, N3. cbn [bind]. now eexists. }
  destruct H2 as (X2 & E2).
  assert (E : register_currency (xids n) c X = Ok X2).
  { unfold register_currency, xids. cbn [e_xr e_fx]. rewrite E1. cbn [bind]. exact E2. }
  exists X2. split; [exact E|]. eapply register_currency_frame; exact E.
Qed.

Fixpoint register_all_app e a b S {struct a} :
  register_all e (a ++ b)%list S = bind (register_all e a S) (register_all e b).
Proof.
  destruct a as [|c r]; [reflexivity|]. cbn [app register_all].
  destruct (register_currency e c S) as [S1|]; cbn [bind]; [apply register_all_app|reflexivity].
Qed.

Lemma reg_all_ok n : forall cs X, xblock n X -> forallb cleancc cs = true ->
  exists X', register_all (xids n) cs X = Ok X' /\ Forall2 frame X X'.
Proof.
  induction cs as [|c r IH]; intros X HX Hc.
  - exists X. split; [reflexivity|apply Forall2_refl_frame].
  - cbn [forallb] in Hc. apply andb_true_iff in Hc as [Hc1 Hc2].
    destruct (reg_block_ok n c X HX Hc1) as (X1 & E1 & F1). cbn [register_all]. rewrite E1. cbn [bind].
    destruct (IH X1 (xblock_frame _ _ _ HX F1) Hc2) as (X2 & E2 & F2). exists X2. split; [exact E2|].
    eapply Forall2_trans_frame; eauto.
Qed.

(** the block after the currencies [cs] have registered (total version) *)
Definition Xof (n : nat) (cs : list string) : list sector :=
  match register_all (xids n) cs (ext_secs n) with Ok X => X | Err _ => ext_secs n end.

Lemma Xof_ok n cs : forallb cleancc cs = true ->
  register_all (xids n) cs (ext_secs n) = Ok (Xof n cs) /\ Forall2 frame (ext_secs n) (Xof n cs).
Proof.
  intros Hc. destruct (reg_all_ok n cs (ext_secs n) (xblock_ext_secs n) Hc) as (X & E & F).
  unfold Xof. rewrite E. now split.
Qed.

Lemma Xof_snoc n cs c : forallb cleancc cs = true -> cleancc c = true ->
  register_currency (xids n) c (Xof n cs) = Ok (Xof n (cs ++ [c])).
Proof.
  intros Hcs Hc. destruct (Xof_ok n cs Hcs) as [E1 F1].
  assert (Hcs' : forallb cleancc (cs ++ [c]) = true) by (rewrite forallb_app; cbn; now rewrite Hcs, Hc).
  destruct (Xof_ok n (cs ++ [c]) Hcs') as [E2 _].
  rewrite register_all_app, E1 in E2. cbn [bind register_all] in E2.
  destruct (register_currency (xids n) c (Xof n cs)) as [X'|]; cbn [bind] in E2; [|discriminate]. exact E2.
Qed.

Lemma Xof_xblock n cs : forallb cleancc cs = true -> xblock n (Xof n cs).
Proof. intros H. destruct (Xof_ok n cs H) as [_ F]. eapply xblock_frame; [apply xblock_ext_secs|exact F]. Qed.
