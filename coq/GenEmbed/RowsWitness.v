(** The side condition [text_ok] of RowsEmb.v holds on the final states of ordinary models, and
    none of its parts can be dropped: concrete sectors (satisfying [good_p]) on which the rows of
    the embedded sector are NOT the embedded rows when one part fails. *)
From Coq Require Import List String Ascii Bool ZArith Arith.
From SFC.Base Require Import Res Str Sorting.
From SFC.Gen Require Import Fx Zone.
From SFC.GenAsset Require Import Weighting.
From SFC.GenMain2 Require Import Program Classes Main Witness.
From SFC.GenEmbed Require Import EmbDefs JointDefs Laws Good TokenMap PrefixLaws RowsDefs RowsEmb.
Import ListNotations.
Local Open Scope string_scope.

Definition zone_of (p : program) : zone := match build p with Ok E => fs_zone E | Err _ => [] end.

(** the user texts with the blanks removed (what the harness generates) *)
Definition sq_uop (o : uop) : uop :=
  match o with
  | OAddVariable s n t => OAddVariable s n (squeeze t)
  | OSetExogenous s n spec => OSetExogenous s n (squeeze spec)
  | OAddSupplier m s t => OAddSupplier m s (option_map squeeze t)
  | OAssetWeighting s ws res => OAssetWeighting s (map (fun cw => (fst cw, squeeze (snd cw))) ws) res
  | o => o
  end.
Definition sq_step (x : step) : step := match x with StOp o => StOp (sq_uop o) | x => x end.

Definition hyps_ok (p : program) : bool :=
  let mkc := fun X => mem X (market_codes p) in
  negb (Nat.eqb (List.length (zone_of p)) 0) &&
  forallb (fun s => good_p "CA" mkc s && text_ok s) (zone_of p).

Example text_ok_SIM : hyps_ok p_SIM = true /\ hyps_ok (map sq_step p_SIM) = true.
Proof. split; vm_compute; reflexivity. Qed.

Example text_ok_PC : hyps_ok p_PC = true /\ hyps_ok (map sq_step p_PC) = true.
Proof. split; vm_compute; reflexivity. Qed.

Example text_ok_REG : forallb text_ok (zone_of p_REG) = true /\ List.length (zone_of p_REG) = 12.
Proof. split; vm_compute; reflexivity. Qed.

(** the theorem on a sector of model PC: the household sector (its rows mention DEP__r, GOOD__SUP_HH ...) *)
Example rows_PC_HH : forall s, nth_error (zone_of p_PC) 2 = Some s ->
  code s = "HH" /\
  sector_rows (emb (pmap "CA" (fun X => mem X (market_codes p_PC)) 7) s) =
  sort_rows (map (emb_row (pmap "CA" (fun X => mem X (market_codes p_PC)) 7) (is_market s)) (sector_rows s)).
Proof.
  intros s Hs. split; [vm_compute in Hs; injection Hs as <-; reflexivity|].
  apply sector_rows_pmap; [reflexivity|now apply mkc_ok_mem| |]; vm_compute in Hs; injection Hs as <-; vm_compute; reflexivity.
Qed.

(* ------------------------------------------------------------------ *)
(** * Every part of [text_ok] is needed *)

Definition mk1 : string -> bool := fun X => mem X ["GOOD"].
Definition sec1 (cc c : string) (m : bool) (vs : list (string * eqn)) : sector := mkSector 3 c cc c false false m [] vs.
Definition concl (cc : string) (s : sector) : Prop :=
  sector_rows (emb (pmap cc mk1 7) s) = sort_rows (map (emb_row (pmap cc mk1 7) (is_market s)) (sector_rows s)).

(** (F) a factor that is not an identifier: Term.__str__ writes "2__x", the tokenizer reads a NUMBER
    and the token map copies it, but the factor itself is a full name for the embedding *)
Example text_ok_needs_factor :
  let s := sec1 "CA" "HH" false [("x", mkEqn "" [(1%Z, ["2__x"])])] in
  cleancc "CA" = true /\ good_p "CA" mk1 s = true /\ text_ok s = false /\ ~ concl "CA" s.
Proof. repeat split; try reflexivity. unfold concl. vm_compute. intros H. discriminate H. Qed.

(** (K) a local name that looks like a full name: qualified by the lookup before, prefixed after *)
Example text_ok_needs_keys :
  let s := sec1 "CA" "HH" false [("a__b", mkEqn "a__b+1" [])] in
  good_p "CA" mk1 s = true /\ text_ok s = false /\ ~ concl "CA" s.
Proof. repeat split; try reflexivity. unfold concl. vm_compute. intros H. discriminate H. Qed.

(** (E) the word EXOGENOUS glued to a market's supply name: removing the word uncovers SUP_HH *)
Example text_ok_needs_exo :
  let s := sec1 "CA" "GOOD" true [("DEM_GOOD", mkEqn "EXOGENOUSSUP_HH" [])] in
  good_p "CA" mk1 s = true /\ text_ok s = false /\ ~ concl "CA" s.
Proof. repeat split; try reflexivity. unfold concl. vm_compute. intros H. discriminate H. Qed.

(** (E) a country code containing the word: every prefixed name makes its row exogenous *)
Example text_ok_needs_cc :
  let s := sec1 "XEXOGENOUS" "HH" false [("x", mkEqn "HH__y" [])] in
  cleancc "XEXOGENOUS" = true /\ good_p "XEXOGENOUS" mk1 s = true /\ text_ok s = false /\ ~ concl "XEXOGENOUS" s.
Proof. repeat split; try reflexivity. unfold concl. vm_compute. intros H. discriminate H. Qed.

(** what [text_ok] does NOT ask: blanks in the texts, NUMBER tokens with letters ("1.y__z", "3e5"),
    lag patterns in any of the accepted spellings *)
Example text_ok_liberal :
  let s := sec1 "CA" "GOOD" true
    [("x", mkEqn "1.y__z + .5a__b + 3e5 + 2.HH__x+x.y  (t-1)" [(2%Z, ["a"; "b__c"]); ((-1)%Z, ["SUP_HH"]); (0%Z, ["??"]); (3%Z, [])]);
     ("SUP_HH", mkEqn "EXOGENOUSabc+SUP_HH" []);
     ("y", mkEqn "SUP_HH (k -1 ) + y(k-1)" [])] in
  good_p "CA" mk1 s = true /\ text_ok s = true /\ concl "CA" s.
Proof.
  split; [reflexivity|]. split; [reflexivity|]. unfold concl. apply sector_rows_pmap; try reflexivity.
  change mk1 with (fun X => mem X ["GOOD"]). now apply mkc_ok_mem.
Qed.
