(** Boolean / diagnostic terms evaluated by the generated cases of harness/gen_embed.py. *)
From Coq Require Import List String Ascii Bool ZArith Arith.
From SFC.Base Require Import Res Str Sorting.
From SFC.Gen Require Import Fx Zone.
From SFC.GenMain2 Require Import Program Classes Main MainProofs Program2 Main2 CaseDefs CaseDefs2.
From SFC.GenEmbed Require Import EmbDefs JointDefs Joint Laws Good ConsEmb Items AssembleC AssembleK GenEmb AssembleM RowsDefs EvalOk ErrDir.
Import ListNotations.
Local Open Scope string_scope.

(** which part of [embed_ok] fails: 0 = holds; 1 no economy; 2 static naming conditions of a component; 3 country codes
    not pairwise different (or EXT used); 4 currencies not pairwise different; 5 NUMERAIRE used as a country code;
    10 + k: an evaluated condition of some component fails (k = 1 zone description, 2 calls (market suppliers / texts),
    3 supplier references, 4 flow references, 5 exogenous specifications, 6 initial-condition references, 7 row texts, 8 lag source on a market names a bare supply variable) *)
Definition comp_eval_why (g : bool) (p : program) : nat :=
  match construct_all p with
  | Err _ => 0
  | Ok C =>
      let ns := nsectors p in
      let I := mkI (c_classes C) (c_sup C) in
      if negb (forallb (cGb g p) (zone0 C)) then 1
      else if negb (calls_okb ns I (calls_i C) (mkG (zone0 C) (c_flows C))) then 2
      else if negb (forallb (fun i => forallb (fun j => Nat.ltb j ns) (sup_refs (sup_of i (c_sup C)))) (seq 0 ns)) then 3
      else if negb (forallb (flow_refs_okb ns) (c_flows C ++ flat_map gen_flows (calls_i C))) then 4
      else if negb (forallb (fun x => Nat.ltb (fst (fst x)) ns && exo_ok (snd x)) (c_exo C)) then 5
      else if negb (forallb (fun x => Nat.ltb (fst (fst x)) ns) (c_ic C)) then 6
      else match build p with
           | Ok E => if gains_prefix g p
                     then (if negb (forallb text_ok (fs_zone E)) then 7
                           else if forallb (lag_secb (first_code p) (fun X => mem X (market_codes p))) (fs_zone E) then 0 else 8)
                     else 0
           | Err _ => 0
           end
  end.

Definition embed_ok_why (ps : list program) (ext : option nat) : nat :=
  let sl := slots ps ext in
  let g := joint_multi ps ext in
  match ps with [] => 1 | _ =>
  if negb (forallb comp_static ps) then 2
  else if negb (nodupb (sl_codes sl)) then 3
  else if negb (nodupb (sl_curs sl)) then 4
  else if mem "NUMERAIRE" (sl_codes sl) then 5
  else match filter (fun k => negb (Nat.eqb k 0)) (map (comp_eval_why g) ps) with
       | k :: _ => 10 + k
       | [] => 0
       end
  end.

(** the theorem's conclusion evaluated: whenever [embed_ok] holds and every component builds, the joint model's
    output is the expected system (must be true by [main2_embedding]; evaluated as a cross-check of the definitions) *)
Definition embed_thm_case (ps : list program) (ext : option nat) : bool :=
  if embed_ok ps ext then embed_case ps ext else true.

(** the error direction ([ErrTop.main2_embedding_err]), evaluated as a cross-check of the definitions:
    0 = the pipeline [core] of every economy succeeds (nothing to check); 1 = some [core] fails and the joint build fails too;
    2 = some [core] fails, [embed_ok] holds and the joint build succeeds (would contradict the theorem);
    3 = some [core] fails, [embed_ok] does not hold, the joint build succeeds (outside the theorem) *)
Definition embed_err_why (ps : list program) (ext : option nat) : nat :=
  if forallb (fun p => is_ok (core p)) ps then 0
  else if negb (is_ok (build2 (joint ps ext))) then 1
  else if embed_ok ps ext then 2 else 3.
