(** utils.replace_token_from_lookup (Main.qscan) commutes with a token map [tmap f]: mapping the
    identifiers of a text and then qualifying its NAME tokens with a lookup is the same as qualifying
    first and mapping the result, provided the two lookups correspond on identifiers.

    No condition on the text: blanks are dropped / inserted at the same places on both sides, a NAME
    token is exactly one identifier run, a NUMBER token ("1.5e3", "2.x__y") is copied by the scanner
    and its identifier runs are mapped one by one by [tmap] on both sides.

    The tokenizer [lx] and the proof structure are adapted from GenRename/QScan.v (which treats the
    piecewise renamings [R f]; GenRename is not a dependency of this family). *)
From Coq Require Import List String Ascii Bool ZArith Arith Lia.
From SFC.Base Require Import Res Str.
From SFC.GenMain2 Require Import Main.
From SFC.GenEmbed Require Import EmbDefs Laws TokenMap.
Import ListNotations.
Local Open Scope string_scope.

(* ------------------------------------------------------------------ *)
(** * The tokens of a text (copied from GenRename/QScan.v) *)

Inductive tk := N (a : string) | M (a : string) | C (c : ascii).
Inductive kd := K0 | KN | KM.

Definition flush2 (k : kd) (a : string) : list tk :=
  match k with K0 => [] | KN => [N a] | KM => [M a] end.

Definition next_dig (s : string) : bool := match s with String d _ => is_digit d | EmptyString => false end.

Fixpoint lx (k : kd) (a : string) (s : string) : list tk :=
  match s with
  | EmptyString => flush2 k a
  | String c r =>
      let fresh :=
        if is_alpha c then lx KN (String c "") r
        else if is_digit c then lx KM (String c "") r
        else if Ascii.eqb c "."%char && next_dig r then lx KM (String c "") r
        else if Ascii.eqb c " "%char then lx K0 "" r
        else C c :: lx K0 "" r in
      match k with
      | K0 => fresh
      | KN => if is_id_char c then lx KN (snoc a c) r else (flush2 k a ++ fresh)%list
      | KM => if is_id_char c || Ascii.eqb c "."%char then lx KM (snoc a c) r else (flush2 k a ++ fresh)%list
      end
  end.

Definition st_of (k : kd) (a : string) : tok :=
  match k with K0 => TNone | KN => TName a | KM => TNum a end.

Definition emit1 (lk : string -> option string) (t : tk) : string :=
  match t with
  | N a => (match lk a with Some x => x | None => a end) ++ " "
  | M a => a ++ " "
  | C c => String c ""
  end.

Fixpoint emitq (lk : string -> option string) (l : list tk) : string :=
  match l with [] => "" | t :: r => emit1 lk t ++ emitq lk r end.

Lemma emitq_app lk a b : emitq lk (a ++ b)%list = emitq lk a ++ emitq lk b.
Proof. induction a as [|t a IH]; simpl; [reflexivity|]. now rewrite IH, append_assoc. Qed.

Lemma flush_emit lk k a : flush lk (st_of k a) = emitq lk (flush2 k a).
Proof. destruct k; simpl; try reflexivity; now rewrite append_nil_r. Qed.

Lemma qscan_lx lk s : forall k a, qscan lk (st_of k a) s = emitq lk (lx k a s).
Proof.
  induction s as [|c s IH]; intros k a.
  - apply flush_emit.
  - assert (HF : (if is_alpha c then qscan lk (TName (String c "")) s
                  else if is_digit c then qscan lk (TNum (String c "")) s
                  else if Ascii.eqb c "."%char && match s with String d _ => is_digit d | EmptyString => false end
                       then qscan lk (TNum (String c "")) s
                  else if Ascii.eqb c " "%char then qscan lk TNone s
                  else String c (qscan lk TNone s)) =
                 emitq lk (if is_alpha c then lx KN (String c "") s
                           else if is_digit c then lx KM (String c "") s
                           else if Ascii.eqb c "."%char && next_dig s then lx KM (String c "") s
                           else if Ascii.eqb c " "%char then lx K0 "" s
                           else C c :: lx K0 "" s)).
    { destruct (is_alpha c); [apply (IH KN)|]. destruct (is_digit c); [apply (IH KM)|].
      change (match s with String d _ => is_digit d | EmptyString => false end) with (next_dig s).
      destruct (Ascii.eqb c "."%char && next_dig s); [apply (IH KM)|].
      destruct (Ascii.eqb c " "%char); [apply (IH K0 "")|]. simpl. f_equal. apply (IH K0 ""). }
    destruct k; cbn [qscan lx st_of].
    + exact HF.
    + destruct (is_id_char c); [apply (IH KN)|]. rewrite emitq_app, <- (flush_emit lk KN a). cbn [st_of]. now rewrite HF.
    + destruct (is_id_char c || Ascii.eqb c "."%char); [apply (IH KM)|].
      rewrite emitq_app, <- (flush_emit lk KM a). cbn [st_of]. now rewrite HF.
Qed.

(* ------------------------------------------------------------------ *)
(** * One step of the scanner *)

(** what the scanner does with a character that is not a letter, digit or '_' *)
Definition sepstep (k : kd) (a : string) (c : ascii) (d : bool) (cont : kd -> string -> list tk) : list tk :=
  if Ascii.eqb c "."%char then
    match k with
    | KM => cont KM (snoc a c)
    | _ => (flush2 k a ++ (if d then cont KM "." else C c :: cont K0 ""))%list
    end
  else (flush2 k a ++ (if Ascii.eqb c " "%char then cont K0 "" else C c :: cont K0 ""))%list.

Lemma id_char_split c : is_id_char c = false -> is_alpha c = false /\ is_digit c = false.
Proof. unfold is_id_char. intros H. now apply orb_false_iff in H. Qed.

Lemma lx_sep k a c s : is_id_char c = false ->
  lx k a (String c s) = sepstep k a c (next_dig s) (fun k2 a2 => lx k2 a2 s).
Proof.
  intros Hc. destruct (id_char_split c Hc) as [HA HD]. cbn [lx]. rewrite Hc, HA, HD. cbn [orb].
  unfold sepstep. destruct (Ascii.eqb_spec c "."%char) as [->|Hp].
  - cbn [andb]. destruct k; cbn [flush2 app]; destruct (next_dig s); reflexivity.
  - cbn [andb]. destruct k; reflexivity.
Qed.

Lemma lx_id k a c s : is_id_char c = true ->
  lx k a (String c s) = match k with
                        | K0 => if is_alpha c then lx KN (String c "") s else lx KM (String c "") s
                        | _ => lx k (snoc a c) s
                        end.
Proof.
  intros Hc. cbn [lx]. rewrite Hc. cbn [orb]. destruct k; try reflexivity.
  unfold is_id_char in Hc. destruct (is_alpha c); [reflexivity|]. simpl in Hc. now rewrite Hc.
Qed.

(** feeding a whole identifier run *)
Lemma lx_feed x : all_id x = true -> forall k a rest, k <> K0 -> lx k a (x ++ rest) = lx k (a ++ x) rest.
Proof.
  induction x as [|c x IH]; intros Hx k a rest Hk; simpl in Hx.
  - now rewrite append_nil_r.
  - apply andb_true_iff in Hx as [Hc Hx]. change (String c x ++ rest) with (String c (x ++ rest)).
    rewrite lx_id by exact Hc. destruct k; [congruence| |]; rewrite IH by (try exact Hx; discriminate);
      unfold snoc; rewrite append_assoc; reflexivity.
Qed.

Lemma lx_feed0 x a rest : all_id x = true -> x <> "" ->
  lx K0 a (x ++ rest) = if head_alpha x then lx KN x rest else lx KM x rest.
Proof.
  destruct x as [|c x]; [congruence|]. cbn [all_id head_alpha append]. intros Hx _. apply andb_true_iff in Hx as [Hc Hx].
  rewrite lx_id by exact Hc.
  destruct (is_alpha c); now rewrite lx_feed by (try exact Hx; discriminate).
Qed.

(* ------------------------------------------------------------------ *)
(** * Tokens of a mapped text *)

Definition ident (x : string) : Prop := all_id x = true /\ head_alpha x = true.

Section Commute.
Variable f : string -> string.
Hypothesis Hid : forall x, all_id x = true -> head_alpha x = true -> all_id (f x) = true.
Hypothesis Hhd : forall x, all_id x = true -> head_alpha x = true -> head_alpha (f x) = true.

Notation T := (tmap f).

Definition ttk (t : tk) : tk := match t with N a => N (f a) | M a => M (T a) | C c => C c end.

Lemma head_alpha_ne x : head_alpha x = true -> x <> "".
Proof. destruct x; [discriminate|discriminate]. Qed.

Lemma emit_id x : all_id x = true -> all_id (emit f x) = true.
Proof. apply emit_all_id. exact Hid. Qed.

Lemma emit_hd x : all_id x = true -> head_alpha (emit f x) = head_alpha x.
Proof.
  intros Hx. destruct (head_alpha x) eqn:E.
  - rewrite emit_alpha by exact E. now apply Hhd.
  - now rewrite emit_num by exact E.
Qed.

Lemma emit_ne x : all_id x = true -> x <> "" -> emit f x <> "".
Proof.
  intros Hx Hn. destruct (head_alpha x) eqn:E.
  - apply head_alpha_ne. now rewrite emit_hd.
  - now rewrite emit_num by exact E.
Qed.

(** the first character of a mapped text is of the same class *)
Lemma next_dig_tmap s : next_dig (T s) = next_dig s.
Proof.
  destruct (id_split s) as (a & r & -> & Ha & Hr). rewrite (tmap_split f a r Ha Hr).
  destruct a as [|c a].
  - cbn [emit append]. destruct r as [|d r]; reflexivity.
  - assert (Hn : String c a <> "") by discriminate.
    pose proof (emit_hd _ Ha) as H1. pose proof (emit_ne _ Ha Hn) as H2. pose proof (emit_id _ Ha) as H3.
    destruct (emit f (String c a)) as [|d y] eqn:Ee; [congruence|].
    cbn [append next_dig]. cbn [head_alpha] in H1. cbn [all_id] in H3, Ha.
    apply andb_true_iff in H3 as [H3 _]. apply andb_true_iff in Ha as [Ha _].
    unfold is_id_char in H3, Ha. destruct (is_alpha c) eqn:Ec.
    + rewrite H1 in H3. clear H3.
      assert (D : forall z, is_alpha z = true -> is_digit z = false).
      { intros z. unfold is_alpha, is_digit. intros H. destruct (Nat.leb 48 (nat_of_ascii z)) eqn:E1; [|reflexivity].
        destruct (Nat.leb (nat_of_ascii z) 57) eqn:E2; [|reflexivity]. exfalso.
        apply Nat.leb_le in E1, E2.
        apply orb_true_iff in H as [H|H]; [apply orb_true_iff in H as [H|H]; apply andb_true_iff in H as [Ha1 Ha2]; apply Nat.leb_le in Ha1, Ha2; lia|].
        apply Nat.eqb_eq in H. lia. }
      now rewrite (D d H1), (D c Ec).
    + rewrite H1 in H3. simpl in H3, Ha. now rewrite H3, Ha.
Qed.

Lemma tmap_snoc_sep a c : is_id_char c = false -> T (a ++ String c "") = T a ++ String c "".
Proof. intros Hc. now rewrite (tmap_sep f a c "" Hc). Qed.

(** state of the scanner on the mapped text: the pending run [acc] has not been written yet *)
Definition k_of (k : kd) (a0 : string) : kd := match a0 with EmptyString => K0 | _ => k end.

Definition st_inv (k : kd) (a0 acc : string) : Prop :=
  all_id acc = true /\
  match k with
  | K0 => a0 = "" /\ acc = ""
  | KN => a0 = "" /\ head_alpha acc = true
  | KM => (a0 = "" /\ acc <> "" /\ head_alpha acc = false) \/ (exists a1, a0 = a1 ++ ".")
  end.

Lemma tmap_state k a0 acc : st_inv k a0 acc -> T (a0 ++ acc) = T a0 ++ emit f acc.
Proof.
  intros (Ha & Hk).
  assert (E0 : T ("" ++ acc) = T "" ++ emit f acc) by (cbn [append]; now rewrite tmap_run).
  destruct k.
  - destruct Hk as [-> _]. exact E0.
  - destruct Hk as [-> _]. exact E0.
  - destruct Hk as [[-> _]|(a1 & ->)]; [exact E0|].
    rewrite append_assoc. cbn [append]. rewrite !(tmap_sep f a1 "."%char) by reflexivity.
    rewrite (tmap_run f acc Ha). change (T "") with "". rewrite append_assoc. reflexivity.
Qed.

(** after the pending run has been written out *)
Lemma feed_state k a0 acc rest : st_inv k a0 acc ->
  lx (k_of k a0) (T a0) (emit f acc ++ rest) = lx k (T (a0 ++ acc)) rest.
Proof.
  intros Hinv. rewrite (tmap_state k a0 acc Hinv). destruct Hinv as (Ha & Hk).
  assert (He : all_id (emit f acc) = true) by now apply emit_id.
  destruct a0 as [|c0 a0].
  - cbn [k_of]. change (T "") with "". cbn [append]. destruct k.
    + destruct Hk as [_ ->]. reflexivity.
    + destruct Hk as [_ Hh]. rewrite lx_feed0; [|exact He|apply emit_ne; [exact Ha|now apply head_alpha_ne]].
      now rewrite emit_hd, Hh.
    + destruct Hk as [(_ & Hn & Hh)|(a1 & E)]; [|destruct a1; discriminate].
      rewrite lx_feed0; [|exact He|now apply emit_ne]. now rewrite emit_hd, Hh.
  - cbn [k_of]. destruct k.
    + destruct Hk as [Hk _]. discriminate.
    + destruct Hk as [Hk _]. discriminate.
    + now rewrite lx_feed by (try exact He; discriminate).
Qed.

Theorem lx_tmap s : forall k a0 acc, st_inv k a0 acc ->
  lx (k_of k a0) (T a0) (tmap_go f acc s) = map ttk (lx k (a0 ++ acc) s).
Proof.
  induction s as [|c s IH]; intros k a0 acc Hinv.
  - cbn [tmap_go]. rewrite <- (append_nil_r (emit f acc)). rewrite feed_state by exact Hinv.
    cbn [lx]. destruct Hinv as (Ha & Hk). destruct k; cbn [flush2 map ttk]; [reflexivity| |reflexivity].
    destruct Hk as [-> Hh]. cbn [append]. now rewrite tmap_token.
  - cbn [tmap_go]. destruct (is_id_char c) eqn:Hc.
    + (* the run goes on *)
      destruct Hinv as (Ha & Hk). rewrite lx_id by exact Hc.
      assert (Ha' : all_id (snoc acc c) = true) by now apply all_id_snoc.
      destruct k.
      * destruct Hk as [-> ->]. cbn [append]. destruct (is_alpha c) eqn:HL.
        -- apply (IH KN "" (snoc "" c)). split; [exact Ha'|]. split; [reflexivity|exact HL].
        -- apply (IH KM "" (snoc "" c)). split; [exact Ha'|]. left. split; [reflexivity|]. split; [discriminate|exact HL].
      * unfold snoc at 2. rewrite append_assoc. apply (IH KN a0 (snoc acc c)). split; [exact Ha'|].
        destruct Hk as [-> Hh]. split; [reflexivity|]. unfold snoc. now apply head_alpha_app.
      * unfold snoc at 2. rewrite append_assoc. apply (IH KM a0 (snoc acc c)). split; [exact Ha'|].
        destruct Hk as [(-> & Hn & Hh)|Hk]; [left|now right].
        split; [reflexivity|]. split; [destruct acc; discriminate|]. destruct acc; [congruence|exact Hh].
    + (* a separator: the pending run is written out, then the character is handled *)
      rewrite feed_state by exact Hinv. change (tmap_go f "" s) with (T s).
      rewrite !lx_sep by exact Hc. rewrite next_dig_tmap. unfold sepstep.
      set (a := a0 ++ acc).
      assert (IH0 : lx K0 "" (T s) = map ttk (lx K0 "" s)).
      { apply (IH K0 "" ""). split; [reflexivity|]. split; reflexivity. }
      assert (IHs : forall b, c = "."%char -> lx KM (T (b ++ String c "")) (T s) = map ttk (lx KM (b ++ String c "") s)).
      { intros b ->. rewrite <- (append_nil_r (b ++ ".")) at 2.
        assert (E : k_of KM (b ++ ".") = KM) by (destruct b; reflexivity).
        rewrite <- E at 1. apply (IH KM (b ++ ".") ""). split; [reflexivity|]. right. now exists b. }
      assert (HFl : flush2 k (T a) = map ttk (flush2 k a)).
      { destruct Hinv as (Ha & Hk). destruct k; cbn [flush2 map ttk]; [reflexivity| |reflexivity].
        destruct Hk as [E0 Hh]. unfold a. rewrite E0. cbn [append]. now rewrite tmap_token. }
      destruct (Ascii.eqb_spec c "."%char) as [Ec|Hp].
      * assert (IHd : lx KM "." (T s) = map ttk (lx KM "." s)).
        { assert (H := IHs "" Ec). rewrite Ec in H. cbn [append] in H. exact H. }
        destruct k.
        -- cbn [flush2 app]. destruct (next_dig s); [exact IHd|]. cbn [map ttk]. now rewrite IH0.
        -- rewrite map_app, HFl. destruct (next_dig s); [now rewrite IHd|]. cbn [map ttk]. now rewrite IH0.
        -- unfold snoc. rewrite <- tmap_snoc_sep by exact Hc. now apply IHs.
      * rewrite map_app, HFl. destruct (Ascii.eqb c " "%char); [now rewrite IH0|]. cbn [map ttk]. now rewrite IH0.
Qed.

Corollary lx_T s : lx K0 "" (T s) = map ttk (lx K0 "" s).
Proof. apply (lx_tmap s K0 "" ""). split; [reflexivity|]. split; reflexivity. Qed.

(* ------------------------------------------------------------------ *)
(** * The tokens the scanner produces *)

Definition tk_ok (t : tk) : Prop :=
  match t with N a => ident a | M _ => True | C c => is_id_char c = false end.

Lemma lx_ok s : forall k a, (k = KN -> ident a) -> Forall tk_ok (lx k a s).
Proof.
  induction s as [|c s IH]; intros k a Hk.
  - destruct k; cbn [lx flush2]; [constructor|constructor; [now apply Hk|constructor]|constructor; [exact I|constructor]].
  - assert (HFl : Forall tk_ok (flush2 k a)).
    { destruct k; cbn [flush2]; [constructor|constructor; [now apply Hk|constructor]|constructor; [exact I|constructor]]. }
    destruct (is_id_char c) eqn:Hc.
    + rewrite lx_id by exact Hc. destruct k.
      * destruct (is_alpha c) eqn:HL; apply IH; [|discriminate]. intros _. split; simpl; [now rewrite Hc|exact HL].
      * apply IH. intros _. destruct (Hk eq_refl) as [H1 H2]. split; [now apply all_id_snoc|]. unfold snoc. now apply head_alpha_app.
      * apply IH. discriminate.
    + rewrite lx_sep by exact Hc. unfold sepstep.
      assert (I0 : Forall tk_ok (lx K0 "" s)) by (apply IH; discriminate).
      assert (IC : Forall tk_ok (C c :: lx K0 "" s)) by (constructor; [exact Hc|exact I0]).
      destruct (Ascii.eqb c "."%char).
      * destruct k; try (apply IH; discriminate); apply Forall_app; (split; [exact HFl|]);
          (destruct (next_dig s); [apply IH; discriminate|exact IC]).
      * apply Forall_app. split; [exact HFl|]. destruct (Ascii.eqb c " "%char); [exact I0|exact IC].
Qed.

(* ------------------------------------------------------------------ *)
(** * Mapping the output of the scanner *)

Variables lk lk' : string -> option string.
Hypothesis Hlk : forall a, ident a -> lk' (f a) = option_map T (lk a).

Lemma tmap_space a rest : T (a ++ String " "%char rest) = T a ++ String " "%char (T rest).
Proof. now apply tmap_sep. Qed.

Lemma emit_tmap l : Forall tk_ok l -> emitq lk' (map ttk l) = T (emitq lk l).
Proof.
  induction 1 as [|t l Ht Hl IH]; [reflexivity|].
  cbn [map emitq]. rewrite IH.
  destruct t as [a|a|c]; cbn [ttk emit1].
  - cbn [tk_ok] in Ht. rewrite (Hlk a Ht). rewrite !append_assoc. cbn [append]. rewrite tmap_space.
    destruct (lk a); cbn [option_map]; [reflexivity|]. destruct Ht as [H1 H2]. now rewrite (tmap_token f a H1 H2).
  - rewrite !append_assoc. cbn [append]. now rewrite tmap_space.
  - cbn [append]. cbn [tk_ok] in Ht. now rewrite (tmap_cons f c _ Ht).
Qed.

Theorem qualify_tmap u : qualify_text lk' (T u) = T (qualify_text lk u).
Proof.
  unfold qualify_text. change TNone with (st_of K0 ""). rewrite !qscan_lx. rewrite lx_T.
  apply emit_tmap. apply lx_ok. discriminate.
Qed.

End Commute.
